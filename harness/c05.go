package main

// C05 — encrypted filespace: round-trip, secrecy, integrity, no crash on bad data.
// Runs the real EncryptFS over memfs and diskfs with both ciphers; emits Coq cases for Corr/C05.v
// (the oracle table of every case holds only (keymat, nonce, plaintext, sealed) tuples that were
// re-computed here with crypto/aes + cipher.NewGCM under SHA3-256(keymat)) and evaluates the
// property-level oracles on what the implementation returned.

import (
	"bytes"
	"crypto/aes"
	"crypto/cipher"
	"encoding/binary"
	"encoding/json"
	"errors"
	"fmt"
	"io"
	"os"
	"path/filepath"
	"sort"
	"strings"
	"time"

	"github.com/goatcms/goatcore/filesystem"
	"github.com/goatcms/goatcore/filesystem/filespace/diskfs"
	"github.com/goatcms/goatcore/filesystem/filespace/encryptfs"
	"github.com/goatcms/goatcore/filesystem/filespace/encryptfs/cipherfs"
	"github.com/goatcms/goatcore/filesystem/filespace/encryptfs/cipherfs/aesgcm256cfs"
	"github.com/goatcms/goatcore/filesystem/filespace/encryptfs/cipherfs/extcfs"
	"github.com/goatcms/goatcore/filesystem/filespace/memfs"
	"github.com/goatcms/goatcore/varutil/idutil"
	"golang.org/x/crypto/sha3"
)

func init() { runners["C05"] = runC05 }

const c05Timeout = 3 * time.Second

type c05Cipher struct {
	Name string
	Coq  string
	Hdr  int
	C    cipherfs.Cipher
}

type c05Settings struct {
	Secret, Salt []byte
	HostOnly     bool
}

func (s c05Settings) keymat() []byte {
	var km []byte
	km = append(km, s.Secret...)
	if s.HostOnly {
		km = append(km, idutil.HostID()...)
	}
	km = append(km, s.Salt...)
	return km
}
func (s c05Settings) coq() string {
	return fmt.Sprintf("{| secret := %s; salt := %s; hostonly := %s |}", coqBytes(s.Secret), coqBytes(s.Salt), coqBool(s.HostOnly))
}
func (s c05Settings) desc() map[string]interface{} {
	return map[string]interface{}{"secret": byteList(s.Secret), "salt": byteList(s.Salt), "hostonly": s.HostOnly}
}

type c05Entry struct{ km, nonce, pt, ct []byte }

func c05Table(t []c05Entry) string {
	items := make([]string, len(t))
	for i, e := range t {
		items[i] = fmt.Sprintf("{| e_km := %s; e_nonce := %s; e_pt := %s; e_ct := %s |}", coqBytes(e.km), coqBytes(e.nonce), coqBytes(e.pt), coqBytes(e.ct))
	}
	return coqList(items)
}

// observation of a read
type c05Obs struct {
	Kind string // ok | err | panic | hang
	Data []byte
}

func (o c05Obs) coq() string {
	switch o.Kind {
	case "ok":
		return "(OOk " + coqBytes(o.Data) + ")"
	case "err":
		return "OErr"
	case "panic":
		return "OPanic"
	}
	return "OHang"
}

// guarded runs f in its own goroutine; a panic is "panic", no answer within the timeout is "hang".
func c05Guard(f func()) string {
	done := make(chan string, 1)
	go func() {
		defer func() {
			if r := recover(); r != nil {
				done <- "panic"
			}
		}()
		f()
		done <- "done"
	}()
	select {
	case k := <-done:
		return k
	case <-time.After(c05Timeout):
		return "hang"
	}
}

func c05ReadFile(fs filesystem.Filespace, path string) c05Obs {
	var data []byte
	var err error
	switch c05Guard(func() { data, err = fs.ReadFile(path) }) {
	case "panic":
		return c05Obs{Kind: "panic"}
	case "hang":
		return c05Obs{Kind: "hang"}
	}
	if err != nil {
		return c05Obs{Kind: "err"}
	}
	return c05Obs{Kind: "ok", Data: data}
}

func c05ReadStream(fs filesystem.Filespace, path string) c05Obs {
	var data []byte
	var err error
	switch c05Guard(func() {
		var r filesystem.Reader
		if r, err = fs.Reader(path); err != nil {
			return
		}
		data, err = io.ReadAll(r)
		if e := r.Close(); err == nil {
			err = e
		}
	}) {
	case "panic":
		return c05Obs{Kind: "panic"}
	case "hang":
		return c05Obs{Kind: "hang"}
	}
	if err != nil {
		return c05Obs{Kind: "err"}
	}
	return c05Obs{Kind: "ok", Data: data}
}

func c05Read(fs filesystem.Filespace, path, rp string) c05Obs {
	if rp == "RFile" {
		return c05ReadFile(fs, path)
	}
	return c05ReadStream(fs, path)
}

// write through the encrypted filespace; chunks == nil means WriteFile(data).
// The caller behaves like io.Copy: every chunk is handed over in ONE reused buffer with spare
// capacity that is overwritten as soon as Write returns (io.Writer: "must not retain p"), and the
// slice given to WriteFile is scribbled over once WriteFile has returned. data/chunks themselves are
// never touched, so they stay the reference for the oracles.
func c05Write(fs filesystem.Filespace, path string, data []byte, chunks [][]byte, stream bool) string {
	var err error
	k := c05Guard(func() {
		if !stream {
			own := append(make([]byte, 0, len(data)+64), data...)
			err = fs.WriteFile(path, own, 0o644)
			c05Scribble(own[:cap(own)])
			return
		}
		var w filesystem.Writer
		if w, err = fs.Writer(path); err != nil {
			return
		}
		max := 0
		for _, c := range chunks {
			if len(c) > max {
				max = len(c)
			}
		}
		buf := make([]byte, max+64)
		for _, c := range chunks {
			n := copy(buf, c)
			_, err = w.Write(buf[:n])
			c05Scribble(buf)
			if err != nil {
				return
			}
		}
		err = w.Close()
	})
	if k != "done" {
		return k
	}
	if err != nil {
		return "err"
	}
	return "ok"
}

func c05Scribble(b []byte) {
	for i := range b {
		b[i] = 0xA5 ^ byte(i)
	}
}

// independent AES-256-GCM under SHA3-256(km)
func c05GCM(km []byte) cipher.AEAD {
	key := sha3.Sum256(km)
	block, err := aes.NewCipher(key[:])
	must(err)
	gcm, err := cipher.NewGCM(block)
	must(err)
	return gcm
}

type cntReader struct {
	data     []byte
	pos      int
	fail     bool
	closeErr bool
	dribble  bool // deliver one byte per Read call
	closes   int
}

func (r *cntReader) Read(p []byte) (int, error) {
	if r.pos >= len(r.data) {
		if r.fail {
			return 0, errors.New("injected read fault")
		}
		return 0, io.EOF
	}
	if r.dribble && len(p) > 1 {
		p = p[:1]
	}
	n := copy(p, r.data[r.pos:])
	r.pos += n
	return n, nil
}
func (r *cntReader) Close() error {
	r.closes++
	if r.closeErr {
		return errors.New("injected close fault")
	}
	return nil
}

type c05Base struct {
	Name string
	FS   filesystem.Filespace
	dir  string
}

func c05NewBase(kind string) *c05Base {
	if kind == "memfs" {
		fs, err := memfs.NewFilespace()
		must(err)
		return &c05Base{Name: kind, FS: fs}
	}
	dir, err := os.MkdirTemp("", "verif-c05-")
	must(err)
	fs, err := diskfs.NewFilespace(dir)
	must(err)
	return &c05Base{Name: kind, FS: fs, dir: dir}
}
func (b *c05Base) Close() {
	if b.dir != "" {
		os.RemoveAll(b.dir)
	}
}

func c05Rand(rng *RNG, n int) []byte {
	b := make([]byte, n)
	for i := 0; i+8 <= n; i += 8 {
		v := rng.Next()
		for j := 0; j < 8; j++ {
			b[i+j] = byte(v >> (8 * j))
		}
	}
	for i := n - n%8; i < n; i++ {
		b[i] = byte(rng.Next())
	}
	return b
}

// leak8: some 8-byte window of the plaintext occurs in the stored bytes
func c05Leaks(pt, stored []byte) bool {
	if len(pt) < 8 {
		return false
	}
	if bytes.Contains(stored, pt) {
		return true
	}
	seen := make(map[uint64]struct{}, len(stored))
	for i := 0; i+8 <= len(stored); i++ {
		seen[binary.LittleEndian.Uint64(stored[i:])] = struct{}{}
	}
	for i := 0; i+8 <= len(pt); i++ {
		if _, ok := seen[binary.LittleEndian.Uint64(pt[i:])]; ok {
			return true
		}
	}
	return false
}

type c05Run struct {
	o       *Out
	rng     *RNG
	tier    string
	hostid  []byte
	ciphers []c05Cipher
	nonces  map[string]string // every nonce of a genuine stored value seen in this run -> where
}

func (r *c05Run) encfs(base filesystem.Filespace, s c05Settings, c c05Cipher) filesystem.Filespace {
	fs, err := encryptfs.NewEncryptFS(base, encryptfs.Settings{Salt: s.Salt, Secret: s.Secret, HostOnly: s.HostOnly, Cipher: c.C})
	must(err)
	return fs
}

// parse a stored value and verify it against the independent primitive; returns the table entry.
func (r *c05Run) parse(c c05Cipher, s c05Settings, pt, stored []byte, desc map[string]interface{}) (c05Entry, bool) {
	km := s.keymat()
	full := c.Hdr + 12 + len(pt) + 16
	if len(stored) != full {
		r.o.Fail("structure", fmt.Sprintf("stored length %d, expected header %d + nonce 12 + data %d + tag 16", len(stored), c.Hdr, len(pt)), "structure-length", desc)
		return c05Entry{}, false
	}
	if c.Hdr == 4 && !bytes.Equal(stored[:4], []byte{0, 0, 0, 0}) {
		r.o.Fail("structure", fmt.Sprintf("cipher tag is %v, expected 0 0 0 0", stored[:4]), "structure-tag", desc)
		return c05Entry{}, false
	}
	nonce := stored[c.Hdr : c.Hdr+12]
	ct := stored[c.Hdr+12:]
	gcm := c05GCM(km)
	want := gcm.Seal(nil, nonce, pt, nil)
	if !bytes.Equal(want, ct) {
		r.o.Fail("structure", "stored bytes are not tag || nonce || AES-256-GCM-Seal(SHA3-256(secret||host||salt), nonce, data)", "structure-seal", desc)
		return c05Entry{}, false
	}
	// H1 / H4 on the real primitive
	back, err := gcm.Open(nil, nonce, ct, nil)
	if err != nil || !bytes.Equal(back, pt) || len(ct) != len(pt)+16 {
		r.o.Fail("primitive", "crypto/cipher GCM does not satisfy open(seal(p)) = p / len = len p + 16", "primitive", desc)
		return c05Entry{}, false
	}
	r.noteNonce(nonce, fmt.Sprintf("%s write of %d bytes (%v)", c.Name, len(pt), desc["op"]), desc)
	return c05Entry{km: km, nonce: append([]byte{}, nonce...), pt: append([]byte{}, pt...), ct: append([]byte{}, ct...)}, true
}

func (r *c05Run) addRead(c c05Cipher, s c05Settings, tbl []c05Entry, stored []byte, rp string, ob c05Obs, what string, emit bool) map[string]interface{} {
	desc := map[string]interface{}{"op": "read", "what": what, "cipher": c.Name, "settings": s.desc(), "rp": rp, "obs": ob.Kind}
	if len(stored) > 256 {
		desc["stored"] = fmt.Sprintf("(%d bytes, regenerate with the seed)", len(stored))
	} else {
		desc["stored"] = byteList(stored)
	}
	key := fmt.Sprintf("r:%s:%s:%x:%x:%s", c.Name, rp, s.keymat(), sha3.Sum256(stored), what)
	nontrivial := len(stored) >= c.Hdr+28 || ob.Kind != "err"
	if emit {
		r.o.AddCase(fmt.Sprintf("CRead %s %s %s %s %s %s %s", c.Coq, coqBytes(r.hostid), s.coq(), c05Table(tbl), coqBytes(stored), rp, ob.coq()), desc, key, nontrivial)
	} else {
		r.o.CountEval(key, nontrivial)
	}
	r.o.Stat("read_" + ob.Kind)
	r.o.Stat("read_via_" + rp)
	if ob.Kind == "panic" {
		r.o.Fail("no_panic", "read of stored bytes panicked ("+what+")", "panic", desc)
	}
	if ob.Kind == "hang" {
		r.o.Fail("no_hang", "read of stored bytes did not return ("+what+")", "hang", desc)
	}
	return desc
}

// after a read (failed or not) the base file must be writable again: a leaked reader handle keeps
// the memfs file lock and shows up as a hang here.
func (r *c05Run) checkNoLeak(base *c05Base, path string, restore []byte, desc map[string]interface{}) bool {
	var err error
	k := c05Guard(func() { err = base.FS.WriteFile(path, restore, 0o644) })
	r.o.Stat("followup_write_" + k)
	if k != "done" || err != nil {
		r.o.Fail("no_leak", fmt.Sprintf("after the read a WriteFile on the same base file: %s %v (reader handle leaked?)", k, err), "leak", desc)
		return false
	}
	return true
}

func runC05(o *Out, rng *RNG, tier string, replay string) {
	o.Imports = "From GC Require Import Common.Base Model.Enc Corr.C05."
	o.CaseType = "case"
	o.CheckFn = "check"
	o.ShardSize = 120
	o.Rule = "real EncryptFS over memfs and diskfs, ciphers aesgcm256cfs.NewCipher() and extcfs.NewDefaultCipher(): (1) plaintexts of length 0,1,15,16,17,4096 " +
		"(+1 MiB thorough) x 6 settings x 2 ciphers x 2 bases x {WriteFile, Writer with random chunking} x {ReadFile, Reader}; (2) every truncation length 0..len, " +
		"a bit flip at every byte position (all 8 bits in thorough), extensions, splices and random garbage of a 40-byte-plaintext stored value, both ciphers, both read paths, both bases; " +
		"(3) DecryptReader on a counting reader with injected read/close faults; (4) all ordered pairs of settings (wrong key) and of 8 groups of look-alike settings; " +
		"(5) random name-space histories on twin bases + every operation x every argument once on a fixed tree; (6) sequences: overlapping stream sessions, overwrites, odd read buffers, child views, refused paths; " +
		"(7) no nonce twice in the run nor across two child processes; no stored value twice in two child processes whose ambient state is pinned (math/rand not auto-seeded, " +
		"the runtime's fake clock, pid 1 of an own pid namespace) nor after rand.Seed(k) puts the process-wide generator back; callers reuse every buffer they pass in. " +
		"Non-trivial: the read answered with data, or the stored bytes are at least header+28 bytes long; distinct by (cipher, read path, key material, stored bytes)."
	r := &c05Run{o: o, rng: rng, tier: tier, hostid: []byte(idutil.HostID())}
	r.ciphers = []c05Cipher{
		{Name: "aesgcm256cfs", Coq: "Raw", Hdr: 0, C: aesgcm256cfs.NewCipher()},
		{Name: "extcfs", Coq: "Tagged", Hdr: 4, C: extcfs.NewDefaultCipher()},
	}
	o.Extra["hostid_len"] = len(r.hostid)
	if os.Getenv("C05_CHILD") == "1" { // see crossProcessFresh
		lines := r.childWrites()
		if f := os.Getenv("C05_CHILD_OUT"); f != "" { // the fake-clock runtime frames what goes to stdout
			must(os.WriteFile(f, []byte(strings.Join(lines, "\n")+"\n"), 0o644))
			os.Exit(0)
		}
		for _, ln := range lines {
			fmt.Println(ln)
		}
		os.Exit(0)
	}
	if replay != "" {
		if r.replay(replay) {
			return
		}
	}
	settings := []c05Settings{
		{Secret: []byte("s3cret-pass"), Salt: []byte("NaCl"), HostOnly: false},
		{Secret: []byte("s3cret-pass"), Salt: []byte("NaCl"), HostOnly: true},
		{Secret: []byte("ab"), Salt: []byte("c"), HostOnly: false},
		{Secret: []byte("a"), Salt: []byte("bc"), HostOnly: false},
		{Secret: nil, Salt: nil, HostOnly: false},
		{Secret: c05Rand(rng, 32), Salt: c05Rand(rng, 16), HostOnly: true},
	}
	r.roundtrips(settings)
	r.tamper(settings[0], 40, true)
	r.tamper(settings[5], 0, false)
	r.tamper(settings[2], 1, false)
	r.wrongKey(settings, func(i, j int) bool { return true })
	for _, group := range r.lookalikeSettings() {
		// every member against every other one; only the pairs with the group's first member go through Coq
		r.wrongKey(group, func(i, j int) bool { return (i == 0 || j == 0) && len(group[i].keymat())+len(group[j].keymat()) < 200 })
		r.o.Stat("lookalike_groups")
	}
	r.namespace(settings[5])
	r.nsSweep(settings[0])
	r.sequences(settings[5], settings[0])
	r.crossProcessFresh()
	r.ambientTwins()
	r.reseedFresh()
	r.settingsIsolationProbe()
	c05MultiCipherProbe(o, rng.Fork())
}

// ---------------------------------------------------------------- (1) round trips

func (r *c05Run) roundtrips(settings []c05Settings) {
	// "including empty and large": 70 000 (> 64 KiB, > io.Copy's 32 KiB buffer) and 1 MiB in every
	// tier (first settings only in quick), 100 000 in thorough
	lengths := []int{0, 1, 15, 16, 17, 4096, 70000, 1 << 20}
	if r.tier == "thorough" {
		lengths = append(lengths, 100000)
	}
	bigInCoq := 0
	for _, kind := range []string{"memfs", "diskfs"} {
		base := c05NewBase(kind)
		must(base.FS.MkdirAll("d", 0o755))
		fileNo := 0
		var written [][]byte
		for ci, c := range r.ciphers {
			for si, s := range settings {
				efs := r.encfs(base.FS, s, c)
				for _, n := range lengths {
					if n > 4096 && (si > 1 || (si == 1 && r.tier != "thorough")) {
						continue
					}
					for _, stream := range []bool{false, true} {
						fileNo++
						path := fmt.Sprintf("f%d.bin", fileNo)
						if fileNo%3 == 0 {
							path = "d/" + path
						}
						pt := c05Rand(r.rng, n)
						var chunks [][]byte
						wp := "WriteFile"
						wcoq := ""
						if n <= 4096 {
							wcoq = "WriteFile " + coqBytes(pt)
						}
						if stream {
							wp = "Writer"
							rest := pt
							for len(rest) > 0 {
								k := 1 + r.rng.Intn(len(rest))
								if r.rng.Chance(30) {
									k = 1 + r.rng.Intn(1+len(rest)/8)
								}
								chunks = append(chunks, rest[:k])
								rest = rest[k:]
								if r.rng.Chance(15) {
									chunks = append(chunks, []byte{})
								}
							}
							if n <= 4096 {
								items := make([]string, len(chunks))
								for i, ch := range chunks {
									items[i] = coqBytes(ch)
								}
								wcoq = "WriteStream " + coqList(items)
							}
						}
						desc := map[string]interface{}{"op": "roundtrip", "base": kind, "cipher": c.Name, "settings": s.desc(), "len": n, "write": wp, "nchunks": len(chunks)}
						if n <= 64 {
							desc["plaintext"] = byteList(pt)
						}
						r.o.Stat("write_" + wp)
						r.o.Stat(fmt.Sprintf("len_%d", n))
						if k := c05Write(efs, path, pt, chunks, stream); k != "ok" {
							r.o.Fail("roundtrip", "write through the encrypted filespace: "+k, "write-"+k, desc)
							continue
						}
						stored, err := base.FS.ReadFile(path)
						must(err)
						ent, ok := r.parse(c, s, pt, stored, desc)
						if !ok {
							continue
						}
						if n <= 4096 {
							written = append(written, pt)
						}
						tbl := []c05Entry{ent}
						// only a few of the big ones go through Coq
						emit := n <= 64 || (n == 4096 && si == 0 && bigInCoq < 8)
						if n == 4096 && emit {
							bigInCoq++
						}
						key := fmt.Sprintf("w:%s:%s:%d:%d:%v:%x", kind, c.Name, si, n, stream, ent.nonce)
						if emit {
							r.o.AddCase(fmt.Sprintf("CWrite %s %s %s (%s) %s %s %s", c.Coq, coqBytes(r.hostid), s.coq(), wcoq, coqBytes(ent.nonce), c05Table(tbl), coqBytes(stored)), desc, key, true)
						} else {
							r.o.CountEval(key, true)
						}
						// secrecy (tested, not proved): no 8-byte window of the data in the base
						if c05Leaks(pt, stored) {
							r.o.Fail("secrecy", "the stored bytes contain (part of) the plaintext", "plaintext-in-base", desc)
						}
						// both read paths
						for _, rp := range []string{"RFile", "RStream"} {
							ob := c05Read(efs, path, rp)
							d2 := r.addRead(c, s, tbl, stored, rp, ob, "roundtrip "+wp, emit)
							r.o.Stat("combo_" + wp + "_" + rp)
							if ob.Kind != "ok" || !bytes.Equal(ob.Data, pt) {
								d2["plaintext_len"] = n
								r.o.Fail("roundtrip", fmt.Sprintf("written %d bytes by %s, %s answered %s with %d bytes", n, wp, rp, ob.Kind, len(ob.Data)), "roundtrip", d2)
							}
						}
						// freshness (tested): the same data again gives other stored bytes
						if n <= 4096 && (ci+si+fileNo)%2 == 0 {
							path2 := path + ".again"
							if k := c05Write(efs, path2, pt, chunks, stream); k == "ok" {
								stored2, err := base.FS.ReadFile(path2)
								must(err)
								r.o.CountEval("fresh:"+key, true)
								r.o.Stat("fresh_checked")
								if bytes.Equal(stored, stored2) {
									r.o.Fail("fresh", "two writes of the same data stored the same bytes", "not-fresh", desc)
								} else if len(stored2) >= c.Hdr+12 && bytes.Equal(stored[c.Hdr:c.Hdr+12], stored2[c.Hdr:c.Hdr+12]) {
									r.o.Fail("fresh", "two writes used the same nonce", "nonce-reuse", desc)
								}
							}
						}
					}
				}
				// Filespace(sub) is re-wrapped with the same key
				if sub, err := efs.Filespace("d"); err == nil {
					pt := c05Rand(r.rng, 33)
					name := fmt.Sprintf("sub%d", fileNo)
					okw := c05Write(sub, name, pt, nil, false)
					ob := c05ReadFile(efs, "d/"+name)
					r.o.CountEval(fmt.Sprintf("sub:%s:%s:%d", kind, c.Name, si), true)
					if okw != "ok" || ob.Kind != "ok" || !bytes.Equal(ob.Data, pt) {
						r.o.Fail("roundtrip", "data written through Filespace(\"d\") is not read back through the parent at d/...", "subspace",
							map[string]interface{}{"op": "subspace", "base": kind, "cipher": c.Name, "settings": s.desc()})
					}
				} else {
					r.o.Fail("namespace", "Filespace(\"d\") failed on an existing directory", "subspace", map[string]interface{}{"op": "subspace", "base": kind})
				}
			}
		}
		r.baseScan(base, written, map[string]interface{}{"op": "base-scan", "base": kind, "cipher": "both"})
		base.Close()
	}
}

// ---------------------------------------------------------------- (2)+(3) tampering

type c05Variant struct {
	what   string
	data   []byte
	ok     bool // expected to be answered with the original data
	l2only bool // judged by the oracles only (not sent through Coq): keeps the quick tier cheap
}

// tamper: every truncation length and EVERY single-bit flip, the complement and the zeroing of every
// byte of a genuine stored value of a ptLen-byte plaintext. full: plus extensions, splices, garbage,
// and the variants go through Coq (in the quick tier one randomly chosen bit per byte does; the other
// seven are decided by the oracles alone). The sweeps for the empty and the 1-byte plaintext
// (full = false) are oracle-only.
func (r *c05Run) tamper(s c05Settings, ptLen int, full bool) {
	for _, c := range r.ciphers {
		pt := c05Rand(r.rng, ptLen)
		pt2 := c05Rand(r.rng, ptLen)
		cut := 7
		if cut > ptLen {
			cut = ptLen
		}
		km := s.keymat()
		// two genuine stored values under the same key
		mem := c05NewBase("memfs")
		efs := r.encfs(mem.FS, s, c)
		var stored, storedB []byte
		var tbl []c05Entry
		for i, p := range [][]byte{pt, pt2} {
			name := fmt.Sprintf("orig%d", i)
			if k := c05Write(efs, name, p, [][]byte{p[:cut], p[cut:]}, i == 1); k != "ok" {
				r.o.Fail("roundtrip", "write: "+k, "write-"+k, map[string]interface{}{"op": "tamper-setup", "cipher": c.Name})
				return
			}
			st, err := mem.FS.ReadFile(name)
			must(err)
			ent, ok := r.parse(c, s, p, st, map[string]interface{}{"op": "tamper-setup", "cipher": c.Name})
			if !ok {
				return
			}
			tbl = append(tbl, ent)
			if i == 0 {
				stored = st
			} else {
				storedB = st
			}
		}
		mem.Close()
		var vs []c05Variant
		for m := 0; m <= len(stored); m++ {
			vs = append(vs, c05Variant{what: fmt.Sprintf("truncate to %d of %d", m, len(stored)), data: append([]byte{}, stored[:m]...), ok: m == len(stored), l2only: !full})
		}
		for i := 0; i < len(stored); i++ {
			chosen := r.rng.Intn(8)
			for b := 0; b < 8; b++ {
				d := append([]byte{}, stored...)
				d[i] ^= 1 << uint(b)
				vs = append(vs, c05Variant{what: fmt.Sprintf("flip bit %d of byte %d", b, i), data: d, l2only: !full || (r.tier != "thorough" && b != chosen)})
			}
			d := append([]byte{}, stored...)
			d[i] ^= 0xff
			vs = append(vs, c05Variant{what: fmt.Sprintf("complement byte %d", i), data: d, l2only: true})
			if stored[i] != 0 {
				d = append([]byte{}, stored...)
				d[i] = 0
				vs = append(vs, c05Variant{what: fmt.Sprintf("zero byte %d", i), data: d, l2only: true})
			}
		}
		// the same value stored through the stream path (same format): spot truncations of it too
		for m := 0; m < len(storedB); m += 5 {
			vs = append(vs, c05Variant{what: fmt.Sprintf("stream-written value truncated to %d of %d", m, len(storedB)), data: append([]byte{}, storedB[:m]...), l2only: true})
		}
		for k := 1; k <= 3 && full; k++ {
			vs = append(vs, c05Variant{what: fmt.Sprintf("extend by %d bytes", k), data: append(append([]byte{}, stored...), c05Rand(r.rng, k)...)})
		}
		h := c.Hdr
		splice := func(what string, parts ...[]byte) {
			if full {
				vs = append(vs, c05Variant{what: what, data: bytes.Join(parts, nil)})
			}
		}
		splice("nonce of another message", stored[:h], storedB[h:h+12], stored[h+12:])
		splice("sealed part of another message", stored[:h+12], storedB[h+12:])
		splice("GCM tag of another message", stored[:len(stored)-16], storedB[len(storedB)-16:])
		splice("stored value twice", stored, stored)
		splice("plaintext in place of the ciphertext", stored[:h+12], pt, stored[len(stored)-16:])
		splice("all zero, same length", make([]byte, len(stored)))
		if h == 4 {
			splice("tag 1 (unknown cipher)", []byte{1, 0, 0, 0}, stored[4:])
			splice("tag big-endian 0x00000100", []byte{0, 0, 1, 0}, stored[4:])
			splice("tag 0x80000000", []byte{0, 0, 0, 0x80}, stored[4:])
			splice("tag 0x01000000", []byte{0, 0, 0, 1}, stored[4:])
			splice("tag 0x00000100", []byte{0, 1, 0, 0}, stored[4:])
			splice("tag 0xffffffff", []byte{0xff, 0xff, 0xff, 0xff}, stored[4:])
			splice("tag only", []byte{0, 0, 0, 0})
			splice("tag + 11 bytes", []byte{0, 0, 0, 0}, stored[4:15])
			splice("raw-cipher value without tag", stored[4:])
		} else {
			splice("tagged value fed to the raw cipher", []byte{0, 0, 0, 0}, stored)
		}
		nGarbage := 60
		if r.tier == "thorough" {
			nGarbage = 1500
		}
		if !full {
			nGarbage = 0
		}
		for i := 0; i < nGarbage; i++ {
			n := r.rng.Intn(90)
			d := c05Rand(r.rng, n)
			if h == 4 && n >= 4 && r.rng.Chance(70) {
				copy(d, []byte{0, 0, 0, 0})
			}
			vs = append(vs, c05Variant{what: fmt.Sprintf("random %d bytes", n), data: d})
		}
		r.o.Extra[fmt.Sprintf("tamper_variants_%s_len%d", c.Name, ptLen)] = len(vs)

		for _, kind := range []string{"memfs", "diskfs"} {
			base := c05NewBase(kind)
			efs := r.encfs(base.FS, s, c)
			dead := false
			for vi, v := range vs {
				if dead {
					break
				}
				if kind == "diskfs" && v.l2only && vi%4 != 0 {
					continue // the oracle-only variants: all of them on memfs, every fourth on disk
				}
				path := "t.bin"
				must(base.FS.WriteFile(path, v.data, 0o644))
				for _, rp := range []string{"RFile", "RStream"} {
					ob := c05Read(efs, path, rp)
					desc := r.addRead(c, s, tbl, v.data, rp, ob, v.what, !v.l2only && (kind == "memfs" || vi%4 == 0))
					desc["base"] = kind
					r.o.Stat("tamper_reads")
					if v.ok {
						if ob.Kind != "ok" || !bytes.Equal(ob.Data, pt) {
							r.o.Fail("roundtrip", "the untouched stored value is not read back", "roundtrip", desc)
						}
					} else if ob.Kind == "ok" {
						r.o.Fail("tamper", fmt.Sprintf("%s: answered with %d bytes of data instead of an error", v.what, len(ob.Data)), "tamper-accepted", desc)
					}
					if ob.Kind == "hang" || !r.checkNoLeak(base, path, v.data, desc) {
						dead = true // the base is blocked; stop using it
						break
					}
				}
			}
			base.Close()
		}

		// cipher level: DecryptReader on a counting reader, with and without injected faults
		for vi, v := range vs {
			combos := [][3]bool{{false, false, false}}
			if (vi%5 == 0 && !v.l2only) || v.ok {
				combos = [][3]bool{{false, false, false}, {true, false, false}, {false, true, false}, {true, true, false}, {false, false, true}, {true, false, true}}
			}
			for _, fc := range combos {
				cr := &cntReader{data: v.data, fail: fc[0], closeErr: fc[1], dribble: fc[2]}
				var ob c05Obs
				var rd filesystem.Reader
				var err error
				var data []byte
				k := c05Guard(func() {
					if rd, err = c.C.DecryptReader(km, cr); err != nil {
						return
					}
					data, err = io.ReadAll(rd)
					if e := rd.Close(); err == nil {
						err = e
					}
				})
				switch {
				case k == "panic" || k == "hang":
					ob = c05Obs{Kind: k}
				case err != nil:
					ob = c05Obs{Kind: "err"}
				default:
					ob = c05Obs{Kind: "ok", Data: data}
				}
				desc := map[string]interface{}{"op": "stream", "what": v.what, "cipher": c.Name, "settings": s.desc(), "stored": byteList(v.data),
					"read_fault": fc[0], "close_fault": fc[1], "one_byte_reads": fc[2], "obs": ob.Kind, "closes": cr.closes}
				key := fmt.Sprintf("s:%s:%x:%v:%v:%v", c.Name, sha3.Sum256(v.data), fc[0], fc[1], fc[2])
				if v.l2only {
					r.o.CountEval(key, len(v.data) >= c.Hdr+28 || ob.Kind != "err")
				} else {
					r.o.AddCase(fmt.Sprintf("CStream %s %s %s %s %s %s %s %s", c.Coq, coqBytes(km), c05Table(tbl), coqBytes(v.data), coqBool(fc[0]), coqBool(fc[1]), ob.coq(), coqNat(cr.closes)),
						desc, key, len(v.data) >= c.Hdr+28 || ob.Kind != "err")
				}
				r.o.Stat("stream_" + ob.Kind)
				if fc[0] || fc[1] {
					r.o.Stat("stream_faulted")
				}
				if fc[2] {
					r.o.Stat("stream_one_byte_reads")
				}
				if cr.closes != 1 {
					r.o.Fail("no_leak", fmt.Sprintf("%s: DecryptReader closed the base reader %d times (must be exactly once)", v.what, cr.closes), "leak", desc)
				}
				if ob.Kind == "panic" || ob.Kind == "hang" {
					r.o.Fail("no_panic", v.what+": DecryptReader "+ob.Kind, ob.Kind, desc)
				}
				expectOk := v.ok && !fc[0] && !fc[1]
				if expectOk && (ob.Kind != "ok" || !bytes.Equal(ob.Data, pt)) {
					r.o.Fail("roundtrip", "DecryptReader on the untouched stored value", "roundtrip", desc)
				}
				if !expectOk && ob.Kind == "ok" {
					r.o.Fail("tamper", v.what+": DecryptReader answered with data", "tamper-accepted", desc)
				}
			}
		}
	}
}

// ---------------------------------------------------------------- (4) wrong key

// wrongKey: all ordered pairs of the given settings. emit(i, j) says whether the pair also goes
// through Coq (the oracles judge every pair).
func (r *c05Run) wrongKey(settings []c05Settings, emit func(i, j int) bool) {
	for _, c := range r.ciphers {
		for i, s1 := range settings {
			base := c05NewBase("memfs")
			e1 := r.encfs(base.FS, s1, c)
			pt := c05Rand(r.rng, 24)
			stream := i%2 == 1
			if k := c05Write(e1, "k.bin", pt, [][]byte{pt}, stream); k != "ok" {
				r.o.Fail("roundtrip", "write: "+k, "write-"+k, map[string]interface{}{"op": "wrongkey-setup"})
				continue
			}
			stored, err := base.FS.ReadFile("k.bin")
			must(err)
			ent, ok := r.parse(c, s1, pt, stored, map[string]interface{}{"op": "wrongkey-setup", "cipher": c.Name, "settings": s1.desc()})
			if !ok {
				continue
			}
			for j, s2 := range settings {
				if i == j {
					// a second filespace built from the same settings reads it
					for _, rp := range []string{"RFile", "RStream"} {
						ob := c05Read(r.encfs(base.FS, c05Settings{Secret: append([]byte{}, s1.Secret...), Salt: append([]byte{}, s1.Salt...), HostOnly: s1.HostOnly}, c), "k.bin", rp)
						r.o.CountEval(fmt.Sprintf("own:%s:%x:%s", c.Name, s1.keymat(), rp), true)
						if ob.Kind != "ok" || !bytes.Equal(ob.Data, pt) {
							r.o.Fail("roundtrip", fmt.Sprintf("a second filespace with the same secret, salt and host binding answered %s (%d bytes) through %s", ob.Kind, len(ob.Data), rp), "roundtrip",
								map[string]interface{}{"op": "second-instance", "cipher": c.Name, "settings": s1.desc()})
						}
					}
					continue
				}
				e2 := r.encfs(base.FS, s2, c)
				for _, rp := range []string{"RFile", "RStream"} {
					ob := c05Read(e2, "k.bin", rp)
					desc := r.addRead(c, s2, []c05Entry{ent}, stored, rp, ob, fmt.Sprintf("written under settings %d, read under settings %d", i, j), emit(i, j))
					desc["written_under"] = s1.desc()
					r.o.Stat("wrongkey_reads")
					sameKM := bytes.Equal(s1.keymat(), s2.keymat())
					otherSecretOrSalt := !bytes.Equal(s1.Secret, s2.Secret) || !bytes.Equal(s1.Salt, s2.Salt)
					if sameKM {
						r.o.Stat("wrongkey_same_keymat")
					}
					switch {
					case ob.Kind == "ok" && otherSecretOrSalt && sameKM:
						// the full-strength statement fails: Coq theorem C05_F30_refuted
						r.o.Fail("wrong_key", fmt.Sprintf("secret/salt (%q,%q) reads data written under (%q,%q): equal concatenation", s2.Secret, s2.Salt, s1.Secret, s1.Salt), "F30-keymat-concat", desc)
					case ob.Kind == "ok" && otherSecretOrSalt:
						r.o.Fail("wrong_key", "data written under another secret/salt (different key material) was answered with data", "wrong-key-accepted", desc)
					case ob.Kind == "ok" && !bytes.Equal(ob.Data, pt):
						r.o.Fail("roundtrip", "same key material, other data", "roundtrip", desc)
					case ob.Kind != "ok" && sameKM && !otherSecretOrSalt && len(r.hostid) == 0:
						r.o.Fail("roundtrip", "same secret and salt, empty host id: read failed", "roundtrip", desc)
					}
					if !r.checkNoLeak(base, "k.bin", stored, desc) {
						break
					}
				}
			}
			base.Close()
		}
	}
}

// ---------------------------------------------------------------- (5) name space

type c05Node struct {
	Path  string
	IsDir bool
	Data  string
}

func c05Tree(fs filesystem.Filespace, dir string, out *[]c05Node, depth int) {
	if depth > 8 {
		return
	}
	infos, err := fs.ReadDir(dir)
	if err != nil {
		return
	}
	for _, in := range infos {
		p := in.Name()
		if dir != "" {
			p = dir + "/" + in.Name()
		}
		if in.IsDir() {
			*out = append(*out, c05Node{Path: p, IsDir: true})
			c05Tree(fs, p, out, depth+1)
		} else {
			d, _ := fs.ReadFile(p)
			*out = append(*out, c05Node{Path: p, Data: string(d)})
		}
	}
}

func c05TreeString(fs filesystem.Filespace) string {
	var nodes []c05Node
	k := c05Guard(func() { c05Tree(fs, "", &nodes, 0) })
	if k != "done" {
		return "tree:" + k
	}
	sort.Slice(nodes, func(i, j int) bool { return nodes[i].Path < nodes[j].Path })
	var sb strings.Builder
	for _, n := range nodes {
		fmt.Fprintf(&sb, "%s|%v|%x\n", n.Path, n.IsDir, n.Data)
	}
	return sb.String()
}

func c05Infos(infos []os.FileInfo, err error) string {
	if err != nil {
		return "err"
	}
	items := make([]string, len(infos))
	for i, in := range infos {
		items[i] = fmt.Sprintf("%s:%v:%d", in.Name(), in.IsDir(), c05Size(in))
	}
	sort.Strings(items)
	return "ok[" + strings.Join(items, ",") + "]"
}
func c05Size(in os.FileInfo) int64 {
	if in.IsDir() {
		return 0
	}
	return in.Size()
}
func c05Err(err error) string {
	if err != nil {
		return "err"
	}
	return "ok"
}

// one name-space operation on a filespace, projected to a string
func c05NsOp(fs filesystem.Filespace, op int, a, b string) string {
	var res string
	k := c05Guard(func() {
		switch op {
		case 0:
			res = fmt.Sprint(fs.IsExist(a))
		case 1:
			res = fmt.Sprint(fs.IsFile(a))
		case 2:
			res = fmt.Sprint(fs.IsDir(a))
		case 3:
			res = c05Infos(fs.ReadDir(a))
		case 4:
			in, err := fs.Lstat(a)
			if err != nil {
				res = "err"
			} else {
				name := in.Name()
				if strings.HasPrefix(name, "verif-c05-") { // the root of a diskfs base: its temp dir name
					name = "<root>"
				}
				res = fmt.Sprintf("ok %s:%v:%d", name, in.IsDir(), c05Size(in))
			}
		case 5:
			res = c05Err(fs.MkdirAll(a, 0o755))
		case 6:
			res = c05Err(fs.Copy(a, b))
		case 7:
			res = c05Err(fs.CopyFile(a, b))
		case 8:
			res = c05Err(fs.CopyDirectory(a, b))
		case 9:
			res = c05Err(fs.Remove(a))
		case 10:
			res = c05Err(fs.RemoveAll(a))
		case 11:
			sub, err := fs.Filespace(a)
			res = c05Err(err)
			if err == nil { // the child view shows what the twin's child view shows
				res += " " + c05Infos(sub.ReadDir("")) + " " + fmt.Sprint(sub.IsFile("a"), sub.IsDir("e"))
			}
		}
	})
	if k != "done" {
		return k
	}
	return res
}

var c05NsPool = []string{"a", "b", "d", "d/a", "d/e", "d/e/b", "x", "x/y", "nope", "d/", "./a", "", "../z"}

var c05NsNames = []string{"IsExist", "IsFile", "IsDir", "ReadDir", "Lstat", "MkdirAll", "Copy", "CopyFile", "CopyDirectory", "Remove", "RemoveAll", "Filespace"}

func (r *c05Run) namespace(s c05Settings) {
	nHist := 30
	if r.tier == "thorough" {
		nHist = 600
	}
	pool := c05NsPool
	for hi := 0; hi < nHist; hi++ {
		kind := []string{"memfs", "diskfs"}[hi%2]
		c := r.ciphers[(hi/2)%2]
		A, B := c05NewBase(kind), c05NewBase(kind)
		enc := r.encfs(A.FS, s, c)
		// same raw content on both sides: written encrypted on A, copied raw to B
		for _, p := range []string{"a", "d/a", "d/e/b"} {
			if r.rng.Chance(80) {
				must(enc.WriteFile(p, c05Rand(r.rng, r.rng.Intn(50)), 0o644))
				raw, err := A.FS.ReadFile(p)
				must(err)
				must(B.FS.WriteFile(p, raw, 0o644))
			}
		}
		var hist []map[string]interface{}
		n := 4 + r.rng.Intn(10)
		for step := 0; step < n; step++ {
			op := r.rng.Intn(len(c05NsNames))
			a, b := pool[r.rng.Intn(len(pool))], pool[r.rng.Intn(len(pool))]
			hist = append(hist, map[string]interface{}{"op": c05NsNames[op], "a": a, "b": b})
			ra := c05NsOp(enc, op, a, b)
			rb := c05NsOp(B.FS, op, a, b)
			r.o.Stat("ns_" + c05NsNames[op])
			if strings.HasPrefix(ra, "err") {
				r.o.Stat("ns_result_err")
			} else {
				r.o.Stat("ns_result_ok")
			}
			desc := map[string]interface{}{"op": "namespace", "base": kind, "cipher": c.Name, "history": hist}
			r.o.CountEval(fmt.Sprintf("ns:%d:%d", hi, step), true)
			if ra != rb {
				r.o.Fail("namespace", fmt.Sprintf("%s(%q,%q): encrypted filespace answered %s, the base alone %s", c05NsNames[op], a, b, ra, rb), "namespace", desc)
				break
			}
			if rb == "hang" || rb == "panic" {
				r.o.Stat("ns_base_" + rb)
				break
			}
			if op >= 5 {
				if ta, tb := c05TreeString(A.FS), c05TreeString(B.FS); ta != tb {
					r.o.Fail("namespace", fmt.Sprintf("after %s(%q,%q) the base under the encrypted filespace differs from the base operated directly", c05NsNames[op], a, b), "namespace", desc)
					break
				}
			}
		}
		A.Close()
		B.Close()
	}
}

// ---------------------------------------------------------------- replay

// replay re-runs one recorded read/stream case; returns false when the file holds another kind of
// case (then the whole generation is re-run: it is deterministic in the seed).
func (r *c05Run) replay(file string) bool {
	raw, err := os.ReadFile(filepath.Clean(file))
	if err != nil {
		return false
	}
	var rep struct {
		Case map[string]interface{} `json:"case"`
	}
	if json.Unmarshal(raw, &rep) != nil || rep.Case == nil {
		return false
	}
	op, _ := rep.Case["op"].(string)
	storedI, isList := rep.Case["stored"].([]interface{})
	what, _ := rep.Case["what"].(string)
	_, cross := rep.Case["written_under"]
	if (op != "read" && op != "stream") || !isList || cross || strings.HasPrefix(what, "roundtrip") || strings.HasPrefix(what, "truncate to") && strings.HasSuffix(what, fmt.Sprintf("%d of %d", len(storedI), len(storedI))) {
		return false
	}
	toBytes := func(v interface{}) []byte {
		l, _ := v.([]interface{})
		b := make([]byte, len(l))
		for i, x := range l {
			f, _ := x.(float64)
			b[i] = byte(f)
		}
		return b
	}
	stored := toBytes(storedI)
	sm, _ := rep.Case["settings"].(map[string]interface{})
	s := c05Settings{Secret: toBytes(sm["secret"]), Salt: toBytes(sm["salt"])}
	s.HostOnly, _ = sm["hostonly"].(bool)
	cname, _ := rep.Case["cipher"].(string)
	for _, c := range r.ciphers {
		if c.Name != cname {
			continue
		}
		base := c05NewBase("memfs")
		must(base.FS.WriteFile("t.bin", stored, 0o644))
		efs := r.encfs(base.FS, s, c)
		for _, rp := range []string{"RFile", "RStream"} {
			ob := c05Read(efs, "t.bin", rp)
			desc := r.addRead(c, s, nil, stored, rp, ob, "replay", false)
			fmt.Printf("replay: %s %s -> %s (%d bytes)\n", c.Name, rp, ob.Kind, len(ob.Data))
			if ob.Kind == "ok" {
				r.o.Fail("tamper", "replayed stored bytes are answered with data (no genuine value is known to the replay)", "tamper-accepted", desc)
			}
			if ob.Kind == "hang" || !r.checkNoLeak(base, "t.bin", stored, desc) {
				break
			}
		}
		cr := &cntReader{data: stored}
		k := c05Guard(func() { c.C.DecryptReader(s.keymat(), cr) })
		fmt.Printf("replay: DecryptReader %s, base reader closed %d times\n", k, cr.closes)
		if cr.closes != 1 || k != "done" {
			r.o.Fail("no_leak", fmt.Sprintf("DecryptReader %s, closed the base reader %d times", k, cr.closes), "leak", rep.Case)
		}
		base.Close()
	}
	return true
}
