package main

// C15, coverage audit additions (DESIGN.md §11, "Coverage audit of C15").
//
// (ii-b) bystander probe: "holders of disjoint or read-only-overlapping maps are not serialised
//        against each other by the lock" must also hold while SOMEBODY ELSE is waiting.  An
//        outside holder keeps x, a holder A whose map names x is parked inside Lock, and holders
//        whose maps are compatible with both (a name outside A's map; read access to names A
//        only reads) must get in AND out while A is still parked.
// (ii-c) families of 40..100 pairwise compatible holders (private write names, one shared read
//        name, empty maps) must all be inside at once: "for all numbers of holders".
// (ii-d) name pools with the critical shapes for the ORDER of acquisition: look-alike spellings
//        of one name, names with a long common prefix (what pip:run builds from a lock
//        namespace), maps of 9..40 names.  Used by the order probe and by hot stress rounds.
// (ii-e) first use of a name: many holders ask for a name nobody has used yet at the same moment
//        (SharedMutex.get creates the mutex on demand); exactly one writer may be inside.

import (
	"fmt"
	"sort"
	"strings"
	"sync"
	"sync/atomic"
	"time"

	"github.com/goatcms/goatcore/app/modules/commonm/commservices"
	"github.com/goatcms/goatcore/app/modules/commonm/commservices/mutex"
)

func c15SortedKeys(m commservices.LockMap) []string {
	ks := make([]string, 0, len(m))
	for k := range m {
		ks = append(ks, k)
	}
	sort.Strings(ks)
	return ks
}

func c15MapsDesc(maps []commservices.LockMap) []interface{} {
	out := make([]interface{}, len(maps))
	for i := range maps {
		rows := c15Rows(maps[i])
		sort.Slice(rows, func(a, b int) bool { return rows[a].Name < rows[b].Name })
		out[i] = descRows(rows)
	}
	return out
}

// c15PrefixNames: names that agree on their first n bytes (n = 9, 15, 33, seldom 300).
func c15PrefixNames(rng *RNG) []string {
	k := []int{3, 5, 11}[rng.Intn(3)]
	if rng.Chance(4) {
		k = 100
	}
	p := strings.Repeat("ns:", k)
	return []string{p, p + "a", p + "ab", p + "b", p + "a:b", p + "B", p + "db", p + "cache"}
}

// c15ShapePool returns a pool of resource names of one critical shape.
//
//	kind 0: a name and spellings a careless normalisation folds onto it
//	kind 1: names with a long common prefix
//	kind 2: a large pool (short names, look-alikes and long-prefix names mixed)
func c15ShapePool(rng *RNG, kind, size int) []string {
	set := map[string]bool{}
	var src []string
	switch kind {
	case 0:
		x := []string{"a", "res", "db", "B"}[rng.Intn(4)]
		src = append([]string{x, strings.ToLower(x), x + x}, c15Aliases(x)...)
	case 1:
		src = c15PrefixNames(rng)
	default:
		src = append(src, c15NamePool...)
		src = append(src, c15PrefixNames(rng)...)
		src = append(src, c15Aliases("res")...)
		for i := 0; i < 24; i++ {
			src = append(src, fmt.Sprintf("r%02d", i))
		}
	}
	for _, s := range src {
		set[s] = true
	}
	all := make([]string, 0, len(set))
	for s := range set {
		all = append(all, s)
	}
	sort.Strings(all)
	// deterministic shuffle, then the first `size`
	for i := len(all) - 1; i > 0; i-- {
		j := rng.Intn(i + 1)
		all[i], all[j] = all[j], all[i]
	}
	if size < len(all) {
		all = all[:size]
	}
	sort.Strings(all)
	return all
}

// c15LockUnlockWithin: Lock(m) and Unlock() complete within d.
func c15LockUnlockWithin(sm commservices.SharedMutex, m commservices.LockMap, d time.Duration, wg *sync.WaitGroup) bool {
	done := make(chan struct{})
	wg.Add(1)
	go func() {
		defer wg.Done()
		h := sm.Lock(m)
		h.Unlock()
		close(done)
	}()
	select {
	case <-done:
		return true
	case <-time.After(d):
		return false
	}
}

// c15Bystander: see (ii-b).  Returns true when something never finished.
func c15Bystander(o *Out, rng *RNG, n int) (hung bool) {
	fails := 0
	for b := 0; b < n && fails < 2; b++ {
		var pool []string
		if b%3 == 2 {
			pool = c15ShapePool(rng, rng.Intn(2), 6)
		} else {
			set := map[string]bool{}
			for len(set) < 6 {
				set[c15NamePool[rng.Intn(len(c15NamePool))]] = true
			}
			for k := range set {
				pool = append(pool, k)
			}
			sort.Strings(pool)
		}
		if len(pool) < 6 {
			continue
		}
		// the two names that the parked holder does not use
		for i := 0; i < 2; i++ {
			j := i + rng.Intn(len(pool)-i)
			pool[i], pool[j] = pool[j], pool[i]
		}
		free, used := pool[:2], pool[2:]
		m := c15RandMap(rng, used, 4, 50)
		if len(m) == 0 {
			m[used[0]] = rng.Bool()
		}
		keys := c15SortedKeys(m)
		x := keys[rng.Intn(len(keys))]
		outsideMode := commservices.LockRW
		if m[x] == commservices.LockRW && rng.Bool() {
			outsideMode = commservices.LockR // A is then a pending writer on x
		}
		// bystanders: compatible with the outside holder ({x}) and with A (m)
		bys := []commservices.LockMap{{free[0]: commservices.LockRW}}
		second := commservices.LockMap{free[1]: rng.Bool()}
		for _, y := range keys {
			if y != x && m[y] == commservices.LockR && rng.Chance(70) {
				second[y] = commservices.LockR
			}
		}
		bys = append(bys, second, commservices.LockMap{})
		all := append([]commservices.LockMap{{x: outsideMode}, m}, bys...)
		desc := map[string]interface{}{"op": "bystander", "outside": descRows([]c15Row{{x, outsideMode}}),
			"parked": c15MapsDesc([]commservices.LockMap{m})[0], "bystanders": c15MapsDesc(bys)}
		for i := 2; i < len(all); i++ {
			if !c15Compatible(all[i], all[0]) || !c15Compatible(all[i], all[1]) {
				panic("c15: bystander generator produced an incompatible map")
			}
		}
		sm := mutex.NewSharedMutex()
		var wg sync.WaitGroup
		hx := sm.Lock(all[0])
		var returned int32
		wg.Add(1)
		go func() {
			defer wg.Done()
			h := sm.Lock(m)
			atomic.StoreInt32(&returned, 1)
			h.Unlock()
		}()
		time.Sleep(time.Duration(500+rng.Intn(1500)) * time.Microsecond)
		for i, bm := range bys {
			if !c15LockUnlockWithin(sm, bm, 3*time.Second, &wg) {
				fails++
				o.Stat("bystander_blocked")
				o.Fail("no_serialisation", fmt.Sprintf("a holder of %v (bystander %d) did not get its turn within 3 s although its map is compatible with every other holder: "+
					"it was made to wait for a holder that is itself waiting for %q", descRows(c15Rows(bm)), i, x), "bystander-serialised", desc)
				break
			}
		}
		if atomic.LoadInt32(&returned) == 1 {
			o.Fail("exclusion", "Lock(map) returned while another holder had a conflicting lock on one of its names", "excl-bystander", desc)
		}
		hx.Unlock()
		fin := make(chan struct{})
		go func() { wg.Wait(); close(fin) }()
		select {
		case <-fin:
			o.Stat("bystander_rounds")
		case <-time.After(10 * time.Second):
			o.Fail("no_deadlock", "the parked holder and the bystanders did not all finish within 10 s after the outside holder let go", "bystander-hang", desc)
			o.CountEval(fmt.Sprintf("by:%d", b), true)
			return true
		}
		o.CountEval("by:"+fmt.Sprint(desc["outside"], desc["parked"], desc["bystanders"]), true)
	}
	return false
}

// c15AllInside starts one holder per map; all must be inside their critical sections at the
// same time within d.  Returns how many got in, whether all did, and whether everybody finished.
func c15AllInside(sm commservices.SharedMutex, maps []commservices.LockMap, d time.Duration) (inside int, ok bool, finished bool) {
	k := len(maps)
	var in int32
	all := make(chan struct{})
	giveup := make(chan struct{})
	var wg sync.WaitGroup
	for i := range maps {
		wg.Add(1)
		go func(i int) {
			defer wg.Done()
			h := sm.Lock(maps[i])
			if int(atomic.AddInt32(&in, 1)) == k {
				close(all)
			}
			select {
			case <-all:
			case <-giveup:
			}
			h.Unlock()
		}(i)
	}
	select {
	case <-all:
		ok = true
		inside = k
	case <-time.After(d):
		inside = int(atomic.LoadInt32(&in))
		close(giveup)
	}
	done := make(chan struct{})
	go func() { wg.Wait(); close(done) }()
	select {
	case <-done:
		finished = true
	case <-time.After(8 * time.Second):
	}
	return inside, ok, finished
}

// c15Crowd: see (ii-c).
func c15Crowd(o *Out, rng *RNG, rounds int) (hung bool) {
	for r := 0; r < rounds; r++ {
		k := 40 + rng.Intn(61)
		maps := make([]commservices.LockMap, k)
		for i := range maps {
			maps[i] = commservices.LockMap{}
			if i%7 == 3 {
				continue // a holder with nothing to lock
			}
			maps[i][fmt.Sprintf("own%03d", i)] = rng.Chance(70)
			if rng.Chance(60) {
				maps[i]["shared"] = commservices.LockR
			}
			if rng.Chance(30) {
				maps[i]["shared2"] = commservices.LockR
			}
		}
		desc := map[string]interface{}{"op": "all-inside-crowd", "holders": k,
			"maps": "holder i: own<i> (R or W), 60%: shared R, 30%: shared2 R; every 7th holder: empty map"}
		in, ok, fin := c15AllInside(mutex.NewSharedMutex(), maps, 5*time.Second)
		if !ok {
			o.Stat("crowd_timeout")
			o.Fail("no_serialisation", fmt.Sprintf("%d pairwise compatible holders were not all inside their critical sections within 5 s (only %d got in)", k, in), "serialised-crowd", desc)
		} else {
			o.Stat("crowd_ok")
		}
		o.CountEval(fmt.Sprintf("crowd:%d:%d", r, k), true)
		if !fin {
			o.Fail("no_deadlock", "compatible holders did not finish", "deadlock", desc)
			return true
		}
	}
	return false
}

// c15FirstUse: see (ii-e).  One SharedMutex, `names` fresh names, g holders per name released
// together; writers count themselves in and out.
func c15FirstUse(o *Out, rng *RNG, names, g int) (hung bool) {
	sm := mutex.NewSharedMutex()
	var wg sync.WaitGroup
	var overlaps, panics int32
	first := ""
	var firstMu sync.Mutex
	done := make(chan struct{})
	go func() {
		defer close(done)
		for n := 0; n < names; n++ {
			name := fmt.Sprintf("fresh:%d", n)
			other := fmt.Sprintf("fresh-r:%d", n)
			var inside int32
			start := make(chan struct{})
			for j := 0; j < g; j++ {
				wg.Add(1)
				go func(j int) {
					defer wg.Done()
					defer func() {
						if r := recover(); r != nil {
							atomic.AddInt32(&panics, 1)
						}
					}()
					m := commservices.LockMap{name: commservices.LockRW}
					if j%2 == 1 {
						m[other] = commservices.LockR
					}
					<-start
					h := sm.Lock(m)
					if atomic.AddInt32(&inside, 1) != 1 {
						atomic.AddInt32(&overlaps, 1)
						firstMu.Lock()
						if first == "" {
							first = name
						}
						firstMu.Unlock()
					}
					if j%3 == 0 {
						time.Sleep(0)
					}
					atomic.AddInt32(&inside, -1)
					h.Unlock()
				}(j)
			}
			close(start)
			if n%8 == 7 {
				wg.Wait()
			}
		}
		wg.Wait()
	}()
	desc := map[string]interface{}{"op": "first-use", "names": names, "holders_per_name": g,
		"note": "every name is new to the SharedMutex when its holders (all writers of it) are released together"}
	select {
	case <-done:
	case <-time.After(20 * time.Second):
		o.Fail("no_deadlock", "writers of names that had never been used before did not all finish within 20 s", "first-use-hang", desc)
		o.CountEval("fu", true)
		return true
	}
	if atomic.LoadInt32(&panics) > 0 {
		o.Fail("no_panic", "Lock/Unlock panicked on the first use of a name", "panic", desc)
	}
	if n := atomic.LoadInt32(&overlaps); n > 0 {
		desc["first_name"] = first
		o.Fail("exclusion", fmt.Sprintf("two writers of one resource name were inside at the same time (%d times; first on %q): the first requests for a new name got different mutexes", n, first), "first-use-exclusion", desc)
	}
	o.Stats["first_use_names"] += names
	o.CountEval(fmt.Sprintf("fu:%d:%d", names, g), true)
	return false
}
