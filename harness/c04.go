package main

// C04 — streams and cross-filespace copies are byte-exact and replace old content.
//
// (a) stream cases: Writer sessions (contents x chunkings x previous destination state) and Reader
//     sessions (random buffer sizes incl. 0 and 1) on memfs, diskfs, encryptfs over both, and the
//     cache over memfs; L1 against Model/Fs.v mem_step + Model/Stream.v; L2 byte-exactness.
// (b) copy helpers fshelper.StreamCopy, Copier.Do (file and directory), fshelper.Copy over all
//     ordered backend pairs of {mem, disk, enc(mem), cache(mem)}; generated source trees and
//     destination pre-states; L2: Ok => the destination contains the source byte-for-byte.
// (c) fault enumeration: source and destination wrapped in a counting, fault-injecting Filespace
//     (handles wrapped too); every call position of Reader/Writer/Read/Write/Close/MkdirAll/ReadDir
//     is failed once; every run must return an error or leave a complete copy; no panic, no hang.
//     Small cases are emitted for the fault-plan model of Model/Copy.v.
// (d) after the coverage audit: every copy also runs on the filespaces as they are (real handles:
//     io.Copy's ReaderFrom / WriterTo paths); one instance as source and destination; path ARGUMENTS
//     of the Copier in several spellings, the roots included; odd entry names (look-alikes, dots,
//     blanks, non-UTF-8, long) in trees and Writer paths; further Reader / Writer sessions on the
//     same file (given up half way, past the end, ResetPointer, Writer over a Writer's file);
//     failing Read / Write calls with a partial effect; hand-built cases (c04Fixed): a file of
//     several io.Copy buffers with every fault position, all odd names, a directory wider than the
//     walk's queues; the destination may hold nothing that is neither old nor in the source.

import (
	"encoding/json"
	"errors"
	"fmt"
	"io"
	"os"
	"path"
	"sort"
	"strings"
	"sync"
	"sync/atomic"
	"time"

	"github.com/goatcms/goatcore/filesystem"
	"github.com/goatcms/goatcore/filesystem/filespace/diskfs"
	"github.com/goatcms/goatcore/filesystem/filespace/encryptfs"
	"github.com/goatcms/goatcore/filesystem/filespace/encryptfs/cipherfs/aesgcm256cfs"
	"github.com/goatcms/goatcore/filesystem/filespace/encryptfs/cipherfs/extcfs"
	"github.com/goatcms/goatcore/filesystem/filespace/memfs"
	"github.com/goatcms/goatcore/filesystem/fscache"
	"github.com/goatcms/goatcore/filesystem/fshelper"
	"github.com/goatcms/goatcore/varutil/verifhook"
)

func init() { runners["C04"] = runC04 }

const c04Watchdog = 20 * time.Second

// more than the granularity of the modification times of any backend (the host file system stamps
// with a clock of a few milliseconds; memfs with time.Now())
const c04Gap = 6

// every position of a fault kind is tried when the fault-free run made at most this many calls of
// the kind (more: first two, middle, last two)
const c04EnumAll = 9

// hangs observed so far (a hang costs a watchdog period): after a few of them the fault
// enumeration stops, the failures already recorded are the verdict
var c04Hangs int
var o04Malformed int

// ---------------------------------------------------------------- backends

type c04Inst struct {
	Kind    string
	Lazy    bool // readers report EOF on the call after the last bytes (os.File)
	MkPar   bool // Writer creates missing parent directories
	fs      filesystem.Filespace
	remote  filesystem.Filespace // cache only
	cache   *fscache.Cache
	cleanup func()
}

var c04AllBackends = []string{"mem", "disk", "encmem", "encdisk", "cache"}
var c04CopyBackends = []string{"mem", "disk", "encmem", "cache"}

func c04New(kind string, variant int) *c04Inst {
	in := &c04Inst{Kind: kind, cleanup: func() {}}
	newDisk := func() filesystem.Filespace {
		dir, err := os.MkdirTemp("", "c04-")
		must(err)
		fs, err := diskfs.NewFilespace(dir)
		must(err)
		in.cleanup = func() { os.RemoveAll(dir) }
		return fs
	}
	enc := func(base filesystem.Filespace) filesystem.Filespace {
		st := encryptfs.Settings{Salt: []byte("NaCl"), Secret: []byte("c04-secret"), Cipher: extcfs.NewDefaultCipher()}
		if variant%2 == 1 {
			st.Cipher = aesgcm256cfs.NewCipher()
		}
		fs, err := encryptfs.NewEncryptFS(base, st)
		must(err)
		return fs
	}
	switch kind {
	case "mem":
		in.fs, _ = memfs.NewFilespace()
		in.MkPar = true
	case "disk":
		in.fs = newDisk()
		in.Lazy = true
	case "encmem":
		m, _ := memfs.NewFilespace()
		in.fs = enc(m)
		in.MkPar = true
	case "encdisk":
		in.fs = enc(newDisk())
	case "cache":
		in.remote, _ = memfs.NewFilespace()
		c, err := fscache.NewMemCache(in.remote)
		must(err)
		in.cache, in.fs = c, c
		in.MkPar = true
	default:
		panic("backend " + kind)
	}
	return in
}

func (in *c04Inst) coqEof() string {
	if in.Lazy {
		return "EofLazy"
	}
	return "EofEager"
}

// ---------------------------------------------------------------- trees

type c04Node struct {
	Path string `json:"path"`
	Dir  bool   `json:"dir,omitempty"`
	Data []byte `json:"-"`
	Len  int    `json:"len"`
	Tag  byte   `json:"tag"`           // content = c04Content(Len, Tag)
	Old  string `json:"old,omitempty"` // an older destination file: how it relates to the source file at the same path
}

func c04Content(n int, tag byte) []byte {
	b := make([]byte, n)
	x := uint32(tag)*2654435761 + 12345
	for i := range b {
		x = x*1664525 + 1013904223
		b[i] = byte(x >> 24)
	}
	return b
}

func c04File(p string, n int, tag byte) c04Node {
	return c04Node{Path: p, Data: c04Content(n, tag), Len: n, Tag: tag}
}

// populate writes the nodes (parents first). For a cache, viaRemote puts them into the remote
// before the cache sees them; otherwise they are written through the filespace itself.
func (in *c04Inst) populate(nodes []c04Node, viaRemote bool) {
	target := in.fs
	if in.cache != nil && viaRemote {
		target = in.remote
	}
	// a backend that refuses one of these plain writes is a finding about the backend, not a reason to stop
	soft := func(what string, p string, err error) bool {
		if err == nil {
			return true
		}
		if c04Out != nil {
			c04Out.Fail("setup", fmt.Sprintf("building a tree in a %s filespace: %s(%q) failed: %v", in.Kind, what, p, err), "setup:"+in.Kind,
				map[string]interface{}{"op": "populate", "backend": in.Kind, "path": p})
			return false
		}
		must(err)
		return false
	}
	for _, n := range nodes {
		if n.Dir {
			soft("MkdirAll", n.Path, target.MkdirAll(n.Path, 0o777))
		} else {
			if d := path.Dir(n.Path); d != "." {
				if !soft("MkdirAll", d, target.MkdirAll(d, 0o777)) {
					continue
				}
			}
			soft("WriteFile", n.Path, target.WriteFile(n.Path, append([]byte{}, n.Data...), 0o644))
		}
	}
}

var c04Out *Out

var c04Sizes = []int{0, 0, 1, 1, 15, 15, 15, 300}

// names a careless normalisation / filter would fold onto another name, drop or refuse: look-alikes
// of the plain pool (prefix, case, blank, trailing dot), dots in every position, shell-ish marks,
// non-UTF-8 bytes, a long name. All are legal entry names in the four backends.
var c04OddNames = []string{"ab", "a.b", "A", "a ", " a", "a.", "d.", "..a", "a..b", "...", "a~", "~", "#a", "-", "a%2Fb",
	"a\\b", "a:b", "*", "\xff\xfe", "\xc3\xa9", strings.Repeat("n", 180), ".a.", "a.part", "a.tmp", "b.bak"}

func c04GenTree(rng *RNG, maxNodes int, allowBig bool) []c04Node {
	n := rng.Intn(maxNodes + 1)
	names := []string{"a", "b", "c", "d", "e.txt", "f", "g.bin", ".a", ".d"}
	if rng.Chance(45) { // this tree mixes the odd names in
		for i := 0; i < 6; i++ {
			names = append(names, c04OddNames[rng.Intn(len(c04OddNames))])
		}
	}
	type dirEnt struct {
		p     string
		depth int
	}
	dirs := []dirEnt{{"", 0}}
	used := map[string]bool{}
	var out []c04Node
	bigUsed := false
	for i := 0; i < n; i++ {
		par := dirs[rng.Intn(len(dirs))]
		nm := names[rng.Intn(len(names))]
		p := nm
		if par.p != "" {
			p = par.p + "/" + nm
		}
		if used[p] {
			continue
		}
		used[p] = true
		if rng.Chance(38) && par.depth < 3 {
			out = append(out, c04Node{Path: p, Dir: true})
			dirs = append(dirs, dirEnt{p, par.depth + 1})
		} else {
			sz := c04Sizes[rng.Intn(len(c04Sizes))]
			if rng.Chance(4) {
				sz = 4096
			}
			if allowBig && !bigUsed && rng.Chance(6) {
				sz, bigUsed = 70000, true
			}
			out = append(out, c04File(p, sz, byte(rng.Intn(250))))
		}
	}
	return out
}

// c04OldKinds: what a destination may hold where the copy is going to write a file, relative to the
// source file: shorter, longer, and the states of EXACTLY the source's length - all bytes different,
// one byte different (first / middle / last: the rest, the head and the size all agree), identical.
var c04OldKinds = []string{"shorter", "longer", "samelen", "samelen-first", "samelen-mid", "samelen-last", "identical", "shorter", "longer", "samelen", "samelen-last"}

// c04Old builds the older destination file of the given kind for the source file f at path p.
func c04Old(f c04Node, p string, kind string, rng *RNG, tag byte) c04Node {
	n := len(f.Data)
	flip := func(k int) c04Node {
		if n == 0 {
			return c04Node{Path: p, Data: []byte{}, Old: "identical"}
		}
		d := append([]byte{}, f.Data...)
		d[k] ^= 0x5a
		return c04Node{Path: p, Data: d, Len: n, Tag: f.Tag, Old: fmt.Sprintf("%s@%d", kind, k)}
	}
	var o c04Node
	switch kind {
	case "shorter":
		o = c04File(p, n/2, tag)
	case "longer":
		o = c04File(p, n+1+rng.Intn(30), tag)
	case "samelen":
		o = c04File(p, n, tag)
		if n > 0 && string(o.Data) == string(f.Data) {
			o = c04File(p, n, tag+1)
		}
	case "samelen-first":
		return flip(0)
	case "samelen-mid":
		return flip(n / 2)
	case "samelen-last":
		return flip(n - 1)
	default:
		o = c04Node{Path: p, Data: append([]byte{}, f.Data...), Len: n, Tag: f.Tag}
	}
	o.Old = kind
	return o
}

func c04TotalBytes(nodes []c04Node) int {
	t := 0
	for _, n := range nodes {
		t += len(n.Data)
	}
	return t
}

func c04Prefix(pre string, nodes []c04Node) []c04Node {
	if pre == "" {
		return nodes
	}
	out := []c04Node{{Path: pre, Dir: true}}
	for _, n := range nodes {
		m := n
		m.Path = pre + "/" + n.Path
		out = append(out, m)
	}
	return out
}

// ---------------------------------------------------------------- fault-injecting filespace

var errC04Injected = errors.New("injected I/O failure")

type c04Log struct {
	Side string // src | dst
	Kind string
	Path string
}

type c04FState struct {
	mu      sync.Mutex
	counts  map[string]int
	armKind string
	armK    int
	fired   bool
	log     []c04Log
	leaked  []io.Closer
}

func (st *c04FState) hit(kind, side, p string) bool {
	st.mu.Lock()
	defer st.mu.Unlock()
	k := st.counts[kind]
	st.counts[kind] = k + 1
	if kind == "mkdir" || kind == "reader" {
		st.log = append(st.log, c04Log{side, kind, p})
	}
	if st.armKind == kind && st.armK == k {
		st.fired = true
		return true
	}
	return false
}

func (st *c04FState) leak(c io.Closer) {
	st.mu.Lock()
	st.leaked = append(st.leaked, c)
	st.mu.Unlock()
}

func (st *c04FState) closeLeaked() {
	st.mu.Lock()
	l := st.leaked
	st.leaked = nil
	st.mu.Unlock()
	for _, c := range l {
		func() {
			defer func() { recover() }()
			c.Close()
		}()
	}
}

type c04FS struct {
	inner filesystem.Filespace
	st    *c04FState
	side  string
}

func (f c04FS) Copy(s, d string) error          { return f.inner.Copy(s, d) }
func (f c04FS) CopyDirectory(s, d string) error { return f.inner.CopyDirectory(s, d) }
func (f c04FS) CopyFile(s, d string) error      { return f.inner.CopyFile(s, d) }
func (f c04FS) ReadDir(p string) ([]os.FileInfo, error) {
	if f.st.hit("readdir", f.side, p) {
		return nil, errC04Injected
	}
	return f.inner.ReadDir(p)
}
func (f c04FS) IsExist(p string) bool { return f.inner.IsExist(p) }
func (f c04FS) IsFile(p string) bool  { return f.inner.IsFile(p) }
func (f c04FS) IsDir(p string) bool   { return f.inner.IsDir(p) }
func (f c04FS) MkdirAll(p string, m os.FileMode) error {
	if f.st.hit("mkdir", f.side, p) {
		return errC04Injected
	}
	return f.inner.MkdirAll(p, m)
}
func (f c04FS) ReadFile(p string) ([]byte, error) { return f.inner.ReadFile(p) }
func (f c04FS) WriteFile(p string, d []byte, m os.FileMode) error {
	return f.inner.WriteFile(p, d, m)
}
func (f c04FS) Filespace(p string) (filesystem.Filespace, error) {
	c, err := f.inner.Filespace(p)
	if err != nil {
		return nil, err
	}
	return c04FS{inner: c, st: f.st, side: f.side}, nil
}
func (f c04FS) Reader(p string) (filesystem.Reader, error) {
	if f.st.hit("reader", f.side, p) {
		return nil, errC04Injected
	}
	r, err := f.inner.Reader(p)
	if err != nil {
		return nil, err
	}
	return &c04Reader{inner: r, st: f.st}, nil
}
func (f c04FS) Writer(p string) (filesystem.Writer, error) {
	if f.st.hit("writer", f.side, p) {
		return nil, errC04Injected
	}
	w, err := f.inner.Writer(p)
	if err != nil {
		return nil, err
	}
	return &c04Writer{inner: w, st: f.st}, nil
}
func (f c04FS) Remove(p string) error               { return f.inner.Remove(p) }
func (f c04FS) RemoveAll(p string) error            { return f.inner.RemoveAll(p) }
func (f c04FS) Lstat(p string) (os.FileInfo, error) { return f.inner.Lstat(p) }

// handles expose Read/Write/Close only, so io.Copy runs its generic 32 KiB loop
type c04Reader struct {
	inner filesystem.Reader
	st    *c04FState
}

func (r *c04Reader) Read(p []byte) (int, error) {
	if r.st.hit("read", "src", "") {
		return 0, errC04Injected
	}
	if r.st.hit("readp", "src", "") { // a Read that fails after it delivered some bytes
		n, _ := r.inner.Read(p[:(len(p)+1)/2])
		return n, errC04Injected
	}
	return r.inner.Read(p)
}
func (r *c04Reader) Close() error {
	if r.st.hit("closer", "src", "") {
		r.st.leak(r.inner)
		return errC04Injected
	}
	return r.inner.Close()
}

type c04Writer struct {
	inner filesystem.Writer
	st    *c04FState
}

func (w *c04Writer) Write(p []byte) (int, error) {
	if w.st.hit("write", "dst", "") {
		return 0, errC04Injected
	}
	if w.st.hit("writep", "dst", "") { // a Write that fails after it accepted the first half
		n, _ := w.inner.Write(p[:len(p)/2])
		return n, errC04Injected
	}
	return w.inner.Write(p)
}

// A failing Close means the data did not reach the file: the inner handle is NOT closed (an
// encrypting writer never seals, a memfs handle keeps its lock) and a disk file is truncated.
func (w *c04Writer) Close() error {
	if w.st.hit("closew", "dst", "") {
		if t, ok := w.inner.(interface{ Truncate(int64) error }); ok {
			t.Truncate(0)
		}
		w.st.leak(w.inner)
		return errC04Injected
	}
	return w.inner.Close()
}

// readp / writep: the failing call had a partial effect (not in the model's fault plans: L2 only)
var c04FaultKinds = []string{"reader", "writer", "read", "write", "closew", "closer", "mkdir", "readdir", "readp", "writep"}

func c04CoqFault(kind string, k int) string {
	name := map[string]string{"reader": "FReader", "writer": "FWriter", "read": "FRead", "write": "FWrite",
		"closew": "FCloseW", "closer": "FCloseR", "mkdir": "FMkdir", "readdir": "FReadDir"}[kind]
	if name == "" {
		return "None"
	}
	return fmt.Sprintf("(Some (%s %s))", name, coqNat(k))
}

// ---------------------------------------------------------------- helpers

func c04Watch(d time.Duration, f func() error) (class string, msg string) {
	type res struct {
		c, m string
	}
	ch := make(chan res, 1)
	go func() {
		defer func() {
			if r := recover(); r != nil {
				ch <- res{"panic", fmt.Sprint(r)}
			}
		}()
		if err := f(); err != nil {
			ch <- res{"err", err.Error()}
		} else {
			ch <- res{"ok", ""}
		}
	}()
	select {
	case r := <-ch:
		return r.c, r.m
	case <-time.After(d):
		return "hang", ""
	}
}

func c04WalkMap(w []WalkEnt) map[string]WalkEnt {
	m := map[string]WalkEnt{}
	for _, e := range w {
		m[key(e.Path)] = e
	}
	return m
}

func c04CoqPath(p string) string {
	c, _ := refNorm(p)
	return coqStrList(c)
}

// ---------------------------------------------------------------- (a) stream cases

type c04Stream struct {
	Seed    uint64 `json:"case_seed"`
	Section string `json:"section"`
	Backend string `json:"backend"`
	Path    string `json:"path"`
	Pre     string `json:"pre"` // absent | shorter | longer | equal | isdir | parentmissing
	Size    int    `json:"size"`
	OldSize int    `json:"old_size"`
	Chunks  []int  `json:"chunk_sizes"`
	Bufs    []int  `json:"bufs"`
	Spell   string `json:"spelled_path"`
	Result  string `json:"result,omitempty"`
}

func c04RunStream(o *Out, seed uint64, tier string, idx int) {
	rng := NewRNG(seed)
	c := c04Stream{Seed: seed, Section: "stream"}
	c.Backend = c04AllBackends[idx%len(c04AllBackends)]
	sizes := []int{0, 1, 15, 15, 300, 4096}
	c.Size = sizes[rng.Intn(len(sizes))]
	if rng.Chance(5) || (tier == "thorough" && rng.Chance(10)) {
		c.Size = 70000
	}
	data := c04Content(c.Size, byte(rng.Intn(250)))
	// chunking: random cut points, empty chunks included
	var chunks [][]byte
	rest := data
	nch := rng.Intn(6)
	for i := 0; i < nch && len(rest) > 0; i++ {
		if rng.Chance(20) {
			chunks = append(chunks, []byte{})
			continue
		}
		k := rng.Intn(len(rest) + 1)
		chunks = append(chunks, rest[:k])
		rest = rest[k:]
	}
	if len(rest) > 0 || rng.Chance(30) {
		chunks = append(chunks, rest)
	}
	if rng.Chance(15) {
		chunks = append(chunks, []byte{})
	}
	for _, ch := range chunks {
		c.Chunks = append(c.Chunks, len(ch))
	}
	c.Pre = []string{"absent", "shorter", "longer", "equal", "isdir", "parentmissing", "absent", "longer"}[rng.Intn(8)]
	c.Path = []string{"f.bin", "d/f.bin", "d/e/f.bin"}[rng.Intn(3)]
	if rng.Chance(30) { // odd leaf / directory names (look-alikes of keep.txt / sib.txt included)
		leaf := append([]string{"keep.txt.", "keep.tx", "sib.txt ", ".f.bin", "f.bin."}, c04OddNames...)
		c.Path = path.Dir(c.Path) + "/" + leaf[rng.Intn(len(leaf))]
		if strings.HasPrefix(c.Path, "./") {
			c.Path = c.Path[2:]
		}
		if rng.Chance(40) && strings.HasPrefix(c.Path, "d/") {
			c.Path = []string{".d", "d.", "d ", "..d", "D"}[rng.Intn(5)] + c.Path[1:]
		}
	}
	in := c04New(c.Backend, idx)
	defer in.cleanup()
	viaRemote := rng.Bool()
	// fixture: a sibling that must survive, the parent directory (unless parentmissing)
	fixture := []c04Node{c04File("keep.txt", 7, 3)}
	if dir := path.Dir(c.Path); dir != "." && c.Pre != "parentmissing" {
		fixture = append(fixture, c04Node{Path: dir, Dir: true}, c04File(dir+"/sib.txt", 5, 9))
	}
	var old []byte
	hasOld := false
	switch c.Pre {
	case "shorter":
		c.OldSize = c.Size / 2
		if c.Size == 0 {
			c.OldSize = 0
		}
		old, hasOld = c04Content(c.OldSize, 77), true
	case "longer":
		c.OldSize = c.Size + 1 + rng.Intn(40)
		old, hasOld = c04Content(c.OldSize, 78), true
	case "equal":
		c.OldSize = c.Size
		old, hasOld = c04Content(c.OldSize, 79), true
	case "isdir":
		fixture = append(fixture, c04Node{Path: c.Path, Dir: true}, c04File(c.Path+"/inner.txt", 3, 1))
	}
	if hasOld {
		fixture = append(fixture, c04Node{Path: c.Path, Data: old, Len: len(old)})
	}
	in.populate(fixture, viaRemote)
	c.Spell = c.Path
	if c.Backend == "mem" && rng.Chance(35) {
		c.Spell = []string{"./" + c.Path, "/" + c.Path, "x/../" + c.Path, strings.Replace(c.Path, "/", "//", 1), c.Path + "/."}[rng.Intn(5)]
	}
	small := c.Size <= 300 && c.OldSize <= 400
	preWalk, okPre, _ := walkFs(in.fs)
	op := FsOp{Kind: "Writer", P: c.Spell, Chunks: chunks}
	out := withTimeout(c04Watchdog, func() FsOut { return execOn(in.fs, op) })
	c.Result = out.Kind
	o.Stat("stream_backend_" + c.Backend)
	o.Stat("stream_pre_" + c.Pre)
	o.Stat("stream_result_" + out.Kind)
	keyS := fmt.Sprintf("stream/%s/%s/%d/%v", c.Backend, c.Pre, c.Size, c.Chunks)
	fail := func(oracle, what string) { o.Fail(oracle, what, "C04-"+oracle, c) }
	if out.Kind == "panic" || out.Kind == "hang" {
		fail("no-panic-no-hang", "Writer session "+out.Kind+": "+out.Msg)
		o.CountEval(keyS, true)
		return
	}
	postWalk, okPost, why := walkFs(in.fs)
	if !okPre || !okPost {
		fail("walk", "walk of the filespace failed: "+why)
		o.CountEval(keyS, true)
		return
	}
	pre, post := c04WalkMap(preWalk), c04WalkMap(postWalk)
	// L2
	switch {
	case c.Pre == "isdir":
		if out.Kind != "err" {
			fail("writer_dir_err", "Writer on a directory did not fail")
		}
		if ok, d := walkEqual(preWalk, postWalk); !ok {
			fail("writer_dir_err", "failed Writer changed the tree: "+d)
		}
	case out.Kind == "err":
		if !(c.Pre == "parentmissing" && !in.MkPar) {
			fail("writer_ok", "Writer session failed although nothing is in the way: "+out.Msg)
		}
	default:
		e, ok := post[c.Path]
		if !ok || e.IsDir || string(e.Data) != string(data) {
			got := -1
			if ok {
				got = len(e.Data)
			}
			fail("writer_exact", fmt.Sprintf("after open+%d writes+close the file holds %d bytes, expected exactly the %d bytes written (previous content: %s, %d bytes)", len(chunks), got, len(data), c.Pre, c.OldSize))
		}
		for k, v := range pre {
			if k == c.Path {
				continue
			}
			w, ok := post[k]
			if !ok || w.IsDir != v.IsDir || string(w.Data) != string(v.Data) {
				fail("writer_frame", "another node changed: "+k)
			}
		}
		for k, v := range post {
			if _, was := pre[k]; !was && k != c.Path && !(v.IsDir && strings.HasPrefix(c.Path, k+"/")) {
				fail("writer_frame", "unexpected new node: "+k)
			}
		}
		if in.cache != nil {
			if cl, _ := c04Watch(c04Watchdog, in.cache.Commit); cl != "ok" {
				fail("cache_commit", "Commit after a Writer session: "+cl)
			} else if d, err := in.remote.ReadFile(c.Path); err != nil || string(d) != string(data) {
				fail("cache_commit_exact", "after Commit the remote file differs from the bytes written")
			}
		}
	}
	// L1
	if small && (in.MkPar || c.Pre != "parentmissing") {
		o.AddCase(fmt.Sprintf("CWriter %s %s %s %s %s", coqWalk(preWalk), coqStr(c.Spell), func() string {
			items := make([]string, len(chunks))
			for i, ch := range chunks {
				items[i] = coqBytes(ch)
			}
			return coqList(items)
		}(), "("+out.coq()+")", coqWalk(postWalk)), c, keyS, true)
	} else {
		o.CountEval(keyS, true)
	}
	if out.Kind == "unit" && c.Size <= 4096 && c.OldSize <= 4200 {
		if e, ok := post[c.Path]; ok && !e.IsDir {
			oldS := "None"
			if hasOld {
				oldS = "(Some " + coqBytes(old) + ")"
			}
			items := make([]string, len(chunks))
			for i, ch := range chunks {
				items[i] = coqBytes(ch)
			}
			o.AddCase(fmt.Sprintf("CWriterPol %s %s %s", oldS, coqList(items), coqBytes(e.Data)), c, keyS+"/pol", true)
		}
	}
	// Reader session on the file just written (or on the old one)
	cur, ok := post[c.Path]
	if !ok || cur.IsDir {
		return
	}
	var bufs []int
	nb := rng.Intn(7)
	for i := 0; i < nb; i++ {
		bufs = append(bufs, []int{0, 0, 1, 1, 2, 3, 7, 16, 100, 1000}[rng.Intn(10)])
	}
	tail := 1 + rng.Intn(1500)
	for n := 0; n <= len(cur.Data)/tail+1; n++ {
		bufs = append(bufs, tail)
	}
	c.Bufs = bufs
	if len(bufs) > 400 {
		c.Bufs = bufs[:400]
	}
	rop := FsOp{Kind: "Reader", P: c.Path, Bufs: bufs}
	rout := withTimeout(c04Watchdog, func() FsOut { return execOn(in.fs, rop) })
	o.Stat("reader_result_" + rout.Kind)
	keyR := fmt.Sprintf("reader/%s/%d/%v", c.Backend, len(cur.Data), c.Bufs)
	if rout.Kind != "chunks" {
		fail("reader_ok", "Reader session on an existing file: "+rout.Kind+" "+rout.Msg)
		o.CountEval(keyR, true)
		return
	}
	var all []byte
	eofAt := -1
	for i, ch := range rout.Chunks {
		if len(ch.Data) > bufs[i] {
			fail("reader_chunk_fits", fmt.Sprintf("Read #%d returned %d bytes into a %d-byte buffer", i, len(ch.Data), bufs[i]))
		}
		if bufs[i] == 0 && ch.EOF && len(all) != len(cur.Data) {
			fail("reader_zero_buffer", "a zero-size Read signalled EOF before the end")
		}
		all = append(all, ch.Data...)
		if ch.EOF && eofAt < 0 {
			eofAt = i
		}
	}
	if !strings.HasPrefix(string(cur.Data), string(all)) {
		fail("reader_exact", "bytes delivered by the reader are not a prefix of the stored content")
	}
	if eofAt >= 0 && len(all) != len(cur.Data) {
		fail("reader_early_eof", fmt.Sprintf("EOF after %d of %d bytes", len(all), len(cur.Data)))
	}
	if eofAt < 0 {
		fail("reader_eof", fmt.Sprintf("no EOF after %d calls (last ones with %d-byte buffers) on %d bytes", len(bufs), tail, len(cur.Data)))
	}
	if len(cur.Data) <= 300 && len(bufs) <= 40 {
		bi := make([]string, len(bufs))
		for i, b := range bufs {
			bi[i] = coqNat(b)
		}
		ci := make([]string, len(rout.Chunks))
		for i, ch := range rout.Chunks {
			ci[i] = fmt.Sprintf("(%s, %s)", coqBytes(ch.Data), coqBool(ch.EOF))
		}
		o.AddCase(fmt.Sprintf("CReader %s %s %s %s", in.coqEof(), coqBytes(cur.Data), coqList(bi), coqList(ci)), c, keyR, true)
	} else {
		o.CountEval(keyR, true)
	}
	c04Sessions(o, rng, in, &c, cur.Data)
}

// further sessions on the SAME file of the SAME filespace instance: the stored bytes do not depend
// on how many sessions there were before, on a session that was given up half way, or on whether the
// previous content came from WriteFile or from a Writer session.
func c04Sessions(o *Out, rng *RNG, in *c04Inst, c *c04Stream, data []byte) {
	fail := func(oracle, what string) { o.Fail(oracle, what, "C04-"+oracle, *c) }
	readAll := func(size, buf, extra int, reset bool) (got []byte, afterEOF int, again []byte, hasReset bool, err error) {
		r, err := in.fs.Reader(c.Path)
		if err != nil {
			return nil, 0, nil, false, err
		}
		b := make([]byte, buf)
		for i := 0; i < size/buf+3; i++ {
			n, rerr := r.Read(b)
			got = append(got, b[:n]...)
			if rerr == io.EOF {
				break
			}
			if rerr != nil {
				r.Close()
				return got, 0, nil, false, rerr
			}
		}
		for i := 0; i < extra; i++ { // at the end: nothing more may be delivered
			n, _ := r.Read(b)
			afterEOF += n
		}
		if rp, ok := r.(interface{ ResetPointer() }); ok && reset {
			hasReset = true
			rp.ResetPointer()
			again, _ = io.ReadAll(r)
		}
		return got, afterEOF, again, hasReset, r.Close()
	}
	// (1) a session given up after the first bytes
	cl, msg := c04Watch(c04Watchdog, func() error {
		r, err := in.fs.Reader(c.Path)
		if err != nil {
			return err
		}
		b := make([]byte, 1+rng.Intn(7))
		n, _ := r.Read(b)
		if !strings.HasPrefix(string(data), string(b[:n])) {
			fail("reader_exact", "second Reader session: the first bytes are not a prefix of the stored content")
		}
		return r.Close()
	})
	if cl != "ok" {
		fail("reader_ok", "Reader session given up after the first Read: "+cl+" "+msg)
		return
	}
	// (2) a complete session after it, reads past the end, rewind
	buf := []int{1, 3, 16, 1000, 40000}[rng.Intn(5)]
	if len(data) > 5000 && buf < 16 {
		buf = 4096
	}
	cl, msg = c04Watch(c04Watchdog, func() error {
		got, after, again, hasReset, err := readAll(len(data), buf, 3, true)
		if err != nil {
			return err
		}
		if string(got) != string(data) {
			fail("reader_again", fmt.Sprintf("a later Reader session (after a complete one and one given up after a few bytes) delivered %d bytes, the file holds %d bytes", len(got), len(data)))
		}
		if after != 0 {
			fail("reader_past_end", fmt.Sprintf("%d more bytes delivered by Read calls after the end of the %d-byte file was signalled", after, len(data)))
		}
		if hasReset && string(again) != string(data) {
			fail("reader_reset", fmt.Sprintf("after ResetPointer the handler delivered %d bytes, the file holds %d bytes", len(again), len(data)))
		}
		return nil
	})
	if cl != "ok" {
		fail("reader_ok", "later Reader session: "+cl+" "+msg)
		return
	}
	o.Stat("sessions_reader_again")
	// (3) a second Writer session on the file the first one wrote
	var next []byte
	switch rng.Intn(3) {
	case 0: // no Write call at all
	case 1:
		next = c04Content(len(data)/2, 91)
	case 2:
		next = c04Content(len(data)+9, 92)
	}
	var chunks [][]byte
	if len(next) > 0 {
		k := rng.Intn(len(next) + 1)
		chunks = [][]byte{next[:k], next[k:]}
	}
	out := withTimeout(c04Watchdog, func() FsOut { return execOn(in.fs, FsOp{Kind: "Writer", P: c.Path, Chunks: chunks}) })
	if out.Kind != "unit" {
		fail("writer_ok", "second Writer session on the same file: "+out.Kind+" "+out.Msg)
		return
	}
	cl, msg = c04Watch(c04Watchdog, func() error {
		d, err := in.fs.ReadFile(c.Path)
		if err != nil {
			return err
		}
		if string(d) != string(next) {
			fail("writer_again", fmt.Sprintf("after a second Writer session (%d bytes in %d chunks over the %d bytes of the first one) the file holds %d bytes", len(next), len(chunks), len(data), len(d)))
		}
		got, _, _, _, err := readAll(len(next), buf, 0, false)
		if err != nil {
			return err
		}
		if string(got) != string(next) {
			fail("reader_again", fmt.Sprintf("Reader after the second Writer session delivered %d bytes, expected %d", len(got), len(next)))
		}
		return nil
	})
	if cl != "ok" {
		fail("reader_ok", "reading back the second Writer session: "+cl+" "+msg)
		return
	}
	o.Stat("sessions_writer_again")
	o.CountEval(fmt.Sprintf("sessions/%s/%d/%d/%d", c.Backend, len(data), len(next), buf), true)
}

// ---------------------------------------------------------------- (b)+(c) copy cases

type c04Copy struct {
	Seed      uint64    `json:"case_seed"`
	Section   string    `json:"section"`
	SrcBE     string    `json:"src_backend"`
	DstBE     string    `json:"dst_backend"`
	Kind      string    `json:"kind"` // stream | copierfile | copierdir | copy
	Src       []c04Node `json:"src"`
	Dst       []c04Node `json:"dst_before"`
	DstState  string    `json:"dst_state"`
	P         string    `json:"path,omitempty"`
	S         string    `json:"src_path,omitempty"`
	D         string    `json:"dst_path,omitempty"`
	SrcRemote bool      `json:"src_via_remote"`
	DstRemote bool      `json:"dst_via_remote"`
	DstFirst  bool      `json:"dst_written_first,omitempty"` // the destination's old content is older than the source (else younger)
	GapMs     int       `json:"gap_ms,omitempty"`            // pause between the two (fault-free runs only): the modification times differ on every backend
	Variant   int       `json:"variant"`
	Same      bool      `json:"same_instance,omitempty"` // source and destination are ONE filespace instance
	Fixed     string    `json:"fixed,omitempty"`         // hand-built case (c04Fixed), not from the generator
	NoFaults  bool      `json:"no_faults,omitempty"`
	Handles   string    `json:"handles,omitempty"` // "real": the filespaces' own handles (no counting wrapper)
	Fault     string    `json:"fault,omitempty"`
	FaultK    int       `json:"fault_k,omitempty"`
	Result    string    `json:"result,omitempty"`
}

type c04RunRes struct {
	class   string
	msg     string
	counts  map[string]int
	log     []c04Log
	fired   bool
	srcWalk []WalkEnt
	preWalk []WalkEnt
	post    []WalkEnt
	postOK  bool
	postWhy string
	srcLazy bool
	dstMk   bool
	commit  string
}

// normalised (component) form of a path argument; "" is the root
func c04Norm(p string) (string, bool) {
	c, climbs := refNorm(p)
	return key(c), climbs
}

// destination nodes before the copy (with one instance for both sides: the source nodes too)
func (c *c04Copy) dstBefore() []c04Node {
	if !c.Same {
		return c.Dst
	}
	return append(append([]c04Node{}, c.Src...), c.Dst...)
}

// relative source entries (what must appear below D) and the expectation
func (c *c04Copy) srcRel() map[string]c04Node {
	m := map[string]c04Node{}
	switch c.Kind {
	case "copy":
		for _, n := range c.Src {
			m[n.Path] = n
		}
	case "copierdir":
		sn, _ := c04Norm(c.S)
		for _, n := range c.Src {
			if sn == "" {
				m[n.Path] = n
			} else if strings.HasPrefix(n.Path, sn+"/") {
				m[n.Path[len(sn)+1:]] = n
			}
		}
	}
	return m
}

func (c *c04Copy) dstPath(rel string) string {
	if c.Kind == "copierdir" {
		if dn, _ := c04Norm(c.D); dn != "" {
			return dn + "/" + rel
		}
	}
	return rel
}

// expectOK: the reference's prediction for a fault-free run (no file/directory conflict, the
// source exists with the right kind, parents creatable / present).
func (c *c04Copy) expectOK(dstMk bool) bool {
	dst := map[string]c04Node{}
	for _, n := range c.dstBefore() {
		dst[n.Path] = n
	}
	chainFree := func(p string, upto int) bool { // proper prefixes of p are absent or directories
		comps := strings.Split(p, "/")
		for i := 1; i < len(comps)-upto; i++ {
			if e, ok := dst[strings.Join(comps[:i], "/")]; ok && !e.Dir {
				return false
			}
		}
		return true
	}
	src := map[string]c04Node{}
	for _, n := range c.Src {
		src[n.Path] = n
	}
	switch c.Kind {
	case "stream", "copierfile":
		sp, dp := c.P, c.P
		if c.Kind == "copierfile" {
			sp, dp = c.S, c.D
		}
		sp, sclimbs := c04Norm(sp)
		dp, dclimbs := c04Norm(dp)
		if sclimbs || dclimbs || dp == "" {
			return false
		}
		if e, ok := src[sp]; !ok || e.Dir {
			return false
		}
		if e, ok := dst[dp]; ok && e.Dir {
			return false
		}
		if !chainFree(dp, 0) {
			return false
		}
		if !dstMk {
			if par := path.Dir(dp); par != "." {
				if e, ok := dst[par]; !ok || !e.Dir {
					return false
				}
			}
		}
		return true
	}
	if c.Kind == "copierdir" {
		sn, sclimbs := c04Norm(c.S)
		dn, dclimbs := c04Norm(c.D)
		if sclimbs || dclimbs {
			return false
		}
		if e, ok := src[sn]; sn != "" && (!ok || !e.Dir) {
			return false
		}
		if e, ok := dst[dn]; ok && !e.Dir {
			return false
		}
		if dn != "" && !chainFree(dn+"/x", 0) {
			return false
		}
	}
	for rel, n := range c.srcRel() {
		p := c.dstPath(rel)
		if !chainFree(p, 0) {
			return false
		}
		if e, ok := dst[p]; ok && e.Dir != n.Dir {
			return false
		}
	}
	return true
}

func (c *c04Copy) run(armKind string, armK int) (r c04RunRes) {
	src := c04New(c.SrcBE, c.Variant)
	dst := src
	if !c.Same {
		dst = c04New(c.DstBE, c.Variant+1+(c.Variant/16)%2) // two encrypted ends: every other time the same cipher
		defer dst.cleanup()
	}
	defer src.cleanup()
	gap := func() {
		if c.GapMs > 0 && armKind == "" {
			time.Sleep(time.Duration(c.GapMs) * time.Millisecond)
		}
	}
	if c.DstFirst {
		dst.populate(c.Dst, c.DstRemote)
		gap()
		src.populate(c.Src, c.SrcRemote)
	} else {
		src.populate(c.Src, c.SrcRemote)
		gap()
		dst.populate(c.Dst, c.DstRemote)
	}
	r.srcLazy, r.dstMk = src.Lazy, dst.MkPar
	var ok bool
	if armKind == "" {
		r.srcWalk, ok, _ = walkFs(src.fs)
		if !ok {
			r.class, r.msg = "harness", "source walk failed"
			return
		}
		r.preWalk, _, _ = walkFs(dst.fs)
	}
	st := &c04FState{counts: map[string]int{}, armKind: armKind, armK: armK}
	var fsrc, fdst filesystem.Filespace = c04FS{inner: src.fs, st: st, side: "src"}, c04FS{inner: dst.fs, st: st, side: "dst"}
	if c.Handles == "real" { // the filespaces as they are: io.Copy sees the real handle types (ReaderFrom / WriterTo)
		fsrc, fdst = src.fs, dst.fs
	}
	r.class, r.msg = c04Watch(c04Watchdog, func() error {
		switch c.Kind {
		case "stream":
			return fshelper.StreamCopy(fsrc, fdst, c.P)
		case "copierfile", "copierdir":
			return fshelper.Copier{SrcFS: fsrc, SrcPath: c.S, DestFS: fdst, DestPath: c.D}.Do()
		default:
			return fshelper.Copy(fsrc, fdst, nil)
		}
	})
	st.mu.Lock()
	r.counts = map[string]int{}
	for k, v := range st.counts {
		r.counts[k] = v
	}
	r.log = append([]c04Log{}, st.log...)
	r.fired = st.fired
	st.mu.Unlock()
	if r.class == "ok" {
		r.post, r.postOK, r.postWhy = walkFs(dst.fs)
		if r.postOK && dst.cache != nil {
			cl, _ := c04Watch(c04Watchdog, dst.cache.Commit)
			r.commit = cl
			if cl == "ok" {
				rw, ok2, why := walkFs(dst.remote)
				if !ok2 {
					r.commit = "remote walk failed: " + why
				} else if same, d := walkEqual(rw, r.post); !same {
					r.commit = "remote differs from the cache view after Commit: " + d
				}
			}
		}
	}
	st.closeLeaked()
	return
}

// complete: the destination walk contains the source byte-for-byte; other destination nodes kept.
func (c *c04Copy) complete(post []WalkEnt) string {
	pm := c04WalkMap(post)
	want := map[string]c04Node{}
	switch c.Kind {
	case "stream":
		pn, _ := c04Norm(c.P)
		for _, n := range c.Src {
			if n.Path == pn && !n.Dir {
				want[pn] = n
			}
		}
	case "copierfile":
		sn, _ := c04Norm(c.S)
		dn, _ := c04Norm(c.D)
		for _, n := range c.Src {
			if n.Path == sn && !n.Dir {
				want[dn] = n
			}
		}
	default:
		for rel, n := range c.srcRel() {
			want[c.dstPath(rel)] = n
		}
		if dn, _ := c04Norm(c.D); c.Kind == "copierdir" && dn != "" {
			want[dn] = c04Node{Path: dn, Dir: true}
		}
	}
	if len(want) == 0 && (c.Kind == "stream" || c.Kind == "copierfile") {
		return "helper returned nil although the source file does not exist"
	}
	keys := make([]string, 0, len(want))
	for k := range want {
		keys = append(keys, k)
	}
	sort.Strings(keys)
	for _, k := range keys {
		n := want[k]
		e, ok := pm[k]
		if !ok {
			return fmt.Sprintf("missing in the destination: %q", k)
		}
		if e.IsDir != n.Dir {
			return fmt.Sprintf("kind differs at %q", k)
		}
		if !n.Dir && string(e.Data) != string(n.Data) {
			return fmt.Sprintf("content differs at %q: destination holds %d bytes, source %d bytes", k, len(e.Data), len(n.Data))
		}
	}
	before := map[string]bool{}
	for _, n := range c.dstBefore() {
		before[n.Path] = true
		if _, over := want[n.Path]; over {
			continue
		}
		e, ok := pm[n.Path]
		if !ok || e.IsDir != n.Dir || (!n.Dir && string(e.Data) != string(n.Data)) {
			return fmt.Sprintf("a destination node that is not part of the copy changed: %q", n.Path)
		}
	}
	// nothing else appears: a reproduction of the source adds the source's entries (and the
	// directories leading to them), not entries under other names
	var extra []string
	for k, e := range pm {
		if _, w := want[k]; w || before[k] {
			continue
		}
		lead := false
		if e.IsDir {
			for w := range want {
				if strings.HasPrefix(w, k+"/") {
					lead = true
					break
				}
			}
		}
		if !lead {
			extra = append(extra, k)
		}
	}
	if len(extra) > 0 {
		sort.Strings(extra)
		return fmt.Sprintf("the destination has an entry that neither was there before nor is in the source: %q", extra[0])
	}
	return ""
}

// callback list from the log of the fault-free run
func (c *c04Copy) cbs(log []c04Log) string {
	var items []string
	skipFirstMkdir := c.Kind == "copierdir"
	// OnDir passes the walk's "./x" to MkdirAll; OnFile passes path.Dir(subPath), which is cleaned (never
	// begins with "./"), and then opens the source. A file callback whose MkdirAll failed (a file in the
	// way) never reaches the Reader call: it is handed to the model as a file callback in that
	// directory (the model's MkdirAll fails likewise, whatever the file is called).
	pending, havePending := "", false
	for _, l := range log {
		switch {
		case l.Side == "dst" && l.Kind == "mkdir":
			if skipFirstMkdir {
				skipFirstMkdir = false
				continue
			}
			if strings.HasPrefix(l.Path, "./") {
				items = append(items, "CbDir "+c04CoqPath(l.Path))
			} else {
				pending, havePending = l.Path, true
			}
		case l.Side == "src" && l.Kind == "reader":
			items = append(items, "CbFile "+c04CoqPath(l.Path))
			havePending = false
		}
	}
	if havePending {
		items = append(items, "CbFile "+c04CoqPath(pending+"/file-whose-mkdirall-failed"))
	}
	return coqList(items)
}

func (c *c04Copy) coqKind(log []c04Log) string {
	switch c.Kind {
	case "stream":
		return fmt.Sprintf("(KStreamCopy %s)", coqStr(c.P))
	case "copierfile":
		return fmt.Sprintf("(KCopierFile %s %s)", coqStr(c.S), coqStr(c.D))
	case "copierdir":
		return fmt.Sprintf("(KCopierDir %s %s %s)", c04CoqPath(c.S), c04CoqPath(c.D), c.cbs(log))
	}
	return fmt.Sprintf("(KCopy %s)", c.cbs(log))
}

func c04GenCopy(seed uint64, tier string, idx int) *c04Copy {
	rng := NewRNG(seed)
	c := &c04Copy{Seed: seed, Section: "copy", Variant: idx}
	pair := idx % (len(c04CopyBackends) * len(c04CopyBackends))
	c.SrcBE = c04CopyBackends[pair/len(c04CopyBackends)]
	c.DstBE = c04CopyBackends[pair%len(c04CopyBackends)]
	c.Kind = []string{"copy", "copy", "copierdir", "copierdir", "stream", "copierfile"}[rng.Intn(6)]
	c.SrcRemote, c.DstRemote = rng.Bool(), rng.Bool()
	c.DstFirst = rng.Bool()
	c.GapMs = []int{0, 0, c04Gap}[rng.Intn(3)]
	tree := c04GenTree(rng, 15, true)
	c.DstState = []string{"empty", "other", "overlap", "overlap", "other", "conflict", "empty"}[rng.Intn(7)]
	// one instance as source AND destination (what fscache.Copy does with a Copier): the diagonal pairs
	same := c.SrcBE == c.DstBE && (c.Kind == "copierdir" || c.Kind == "copierfile") && rng.Chance(60)
	var files, dirs []c04Node
	for _, n := range tree {
		if n.Dir {
			dirs = append(dirs, n)
		} else {
			files = append(files, n)
		}
	}
	// destination pre-state, relative to the destination root of the copy
	var rel []c04Node
	used := map[string]bool{}
	add := func(n c04Node) {
		if !used[n.Path] {
			used[n.Path] = true
			rel = append(rel, n)
		}
	}
	addParents := func(p string) bool { // false when a file is in the way
		comps := strings.Split(p, "/")
		for i := 1; i < len(comps); i++ {
			q := strings.Join(comps[:i], "/")
			for _, n := range rel {
				if n.Path == q && !n.Dir {
					return false
				}
			}
			add(c04Node{Path: q, Dir: true})
		}
		return true
	}
	if c.DstState != "empty" {
		for i := 0; i < 1+rng.Intn(3); i++ {
			p := []string{"o1.txt", "zz/o2.txt", "a/o3.txt", "a/b/o4.txt", "o5"}[rng.Intn(5)]
			if addParents(p) {
				add(c04File(p, []int{0, 5, 40}[rng.Intn(3)], byte(100+i)))
			}
		}
	}
	if c.DstState == "overlap" || c.DstState == "conflict" {
		for _, f := range files {
			if rng.Chance(60) && addParents(f.Path) {
				kind := c04OldKinds[rng.Intn(len(c04OldKinds))]
				add(c04Old(f, f.Path, kind, rng, 200))
			}
		}
		for _, d := range dirs {
			if rng.Chance(40) && addParents(d.Path) {
				add(c04Node{Path: d.Path, Dir: true})
			}
		}
	}
	if c.DstState == "conflict" {
		if len(dirs) > 0 && rng.Bool() {
			d := dirs[rng.Intn(len(dirs))]
			if !used[d.Path] && addParents(d.Path) {
				add(c04File(d.Path, 3, 201)) // a file where the source has a directory
			}
		} else if len(files) > 0 {
			f := files[rng.Intn(len(files))]
			if !used[f.Path] && addParents(f.Path) {
				add(c04Node{Path: f.Path, Dir: true}) // a directory where the source has a file
			}
		}
	}
	switch c.Kind {
	case "copy":
		c.Src, c.Dst = tree, rel
	case "copierdir":
		c.S = []string{"srcroot", "deep/srcroot"}[rng.Intn(2)]
		c.D = []string{"out", "out/sub", "srcroot", "out", ""}[rng.Intn(5)]
		if same && (c.D == "srcroot" || c.D == "") {
			c.D = "out"
		}
		c.Same = same
		if same {
			c.DstRemote = c.SrcRemote
		}
		c.Src = c04Prefix(c.S, tree)
		if strings.Contains(c.S, "/") {
			c.Src = append([]c04Node{{Path: "deep", Dir: true}}, c.Src...)
		}
		c.Src = append(c.Src, c04File("junk.txt", 9, 55)) // outside the source root: must not be copied
		if c.DstState == "empty" && rng.Bool() {
			c.Dst = nil
		} else {
			c.Dst = c04Prefix(c.D, rel)
			if strings.Contains(c.D, "/") {
				c.Dst = append([]c04Node{{Path: "out", Dir: true}}, c.Dst...)
			}
		}
		if c.D != "" {
			c.Dst = append(c.Dst, c04File("keep.txt", 6, 56)) // outside the destination root: must be kept
		}
		if rng.Chance(4) {
			c.S = "nosuchdir"
		} else if !same && rng.Chance(6) {
			c.S = "" // the whole source filespace (junk.txt included)
		}
		c.S, c.D = c04Spell(rng, c.S, true), c04Spell(rng, c.D, true)
	case "stream", "copierfile":
		if len(files) == 0 {
			f := c04File("only.bin", c04Sizes[rng.Intn(len(c04Sizes))], 7)
			tree = append(tree, f)
			files = append(files, f)
		}
		f := files[rng.Intn(len(files))]
		c.Src = tree
		if same {
			c.Same, rel, c.DstRemote = true, nil, c.SrcRemote // the source tree is the destination's previous state
		}
		if c.Kind == "stream" {
			c.P = f.Path
			c.Dst = rel
		} else {
			c.S = f.Path
			c.D = []string{"target.bin", "t/target.bin", "t/u/target.bin"}[rng.Intn(3)]
			c.Dst = rel
			switch rng.Intn(4) {
			case 0:
				if par := path.Dir(c.D); par != "." {
					if strings.Contains(par, "/") {
						c.Dst = append(c.Dst, c04Node{Path: path.Dir(par), Dir: true})
					}
					c.Dst = append(c.Dst, c04Node{Path: par, Dir: true})
				}
			case 1:
				if par := path.Dir(c.D); par != "." {
					if strings.Contains(par, "/") {
						c.Dst = append(c.Dst, c04Node{Path: path.Dir(par), Dir: true})
					}
					c.Dst = append(c.Dst, c04Node{Path: par, Dir: true})
				}
				c.Dst = append(c.Dst, c04Old(f, c.D, c04OldKinds[rng.Intn(len(c04OldKinds))], rng, 202))
			}
		}
		if rng.Chance(4) {
			if c.Kind == "stream" {
				c.P = "missing.bin"
			} else {
				c.S = "missing.bin"
			}
		} else if rng.Chance(4) { // malformed: root-addressing or climbing path
			bad := []string{"", ".", "../x", "a/../..", "/"}[rng.Intn(5)]
			if c.Kind == "stream" {
				c.P = bad
			} else {
				c.D = bad
			}
			o04Malformed++
		} else if c.Kind == "copierfile" {
			c.S, c.D = c04Spell(rng, c.S, false), c04Spell(rng, c.D, false)
		}
	}
	return c
}

// c04Spell: another spelling of the same path (the helpers take path ARGUMENTS, not components)
func c04Spell(rng *RNG, p string, dir bool) string {
	if !rng.Chance(35) {
		return p
	}
	if p == "" {
		return []string{"", ".", "./", "/"}[rng.Intn(4)]
	}
	return []string{"./" + p, p + "/", "/" + p, "x/../" + p, strings.Replace(p, "/", "//", 1), p + "/.", "./" + p + "/"}[rng.Intn(7)]
}

func c04RunCopy(o *Out, c *c04Copy, tier string, budget *int) {
	base := c.run("", 0)
	*budget--
	c.Result = base.class
	o.Stat("copy_kind_" + c.Kind)
	o.Stat("copy_pair_" + c.SrcBE + ">" + c.DstBE)
	o.Stat("copy_dst_" + c.DstState)
	o.Stat("copy_result_" + base.class)
	for _, n := range c.Dst {
		if n.Old != "" {
			o.Stat("copy_old_" + strings.SplitN(n.Old, "@", 2)[0])
		}
	}
	if len(c.Dst) > 0 && len(c.Src) > 0 {
		o.Stat(fmt.Sprintf("copy_dst_written_first_%v_gap_%d", c.DstFirst, c.GapMs))
	}
	keyC := fmt.Sprintf("copy/%s/%s>%s/%d", c.Kind, c.SrcBE, c.DstBE, c.Seed)
	fail := func(oracle, what string, cc c04Copy) { o.Fail(oracle, what, "C04-"+oracle, cc) }
	if base.class == "harness" {
		fail("walk", base.msg, *c)
		return
	}
	expect := c.expectOK(base.dstMk)
	nontrivial := len(c.Src) > 0
	if base.class == "panic" || base.class == "hang" {
		fail("no-panic-no-hang", "copy helper "+base.class+": "+base.msg, *c)
	}
	if expect && base.class == "err" {
		fail("nofault_ok", "fault-free copy without file/directory conflict returned an error: "+base.msg, *c)
	}
	if base.class == "ok" {
		if !base.postOK {
			fail("ok_implies_complete", "helper returned nil but the destination cannot be read back: "+base.postWhy, *c)
		} else if d := c.complete(base.post); d != "" {
			fail("ok_implies_complete", "helper returned nil but "+d, *c)
		}
		if base.commit != "" && base.commit != "ok" {
			fail("cache_commit_exact", "cache destination: "+base.commit, *c)
		}
	}
	// the same copy on the filespaces as they are (no counting wrapper): io.Copy meets the real handle
	// types and takes their ReaderFrom / WriterTo paths where they have them
	{
		rc := *c
		rc.Handles = "real"
		raw := rc.run("", 0)
		*budget--
		rc.Result = raw.class
		o.Stat("copy_real_handles_" + raw.class)
		switch raw.class {
		case "panic", "hang":
			fail("no-panic-no-hang", "copy helper on the plain filespaces "+raw.class+": "+raw.msg, rc)
		case "err":
			if expect {
				fail("nofault_ok", "copy on the plain filespaces (no wrapper), no file/directory conflict, returned an error: "+raw.msg, rc)
			}
		case "ok":
			if !raw.postOK {
				fail("ok_implies_complete", "plain filespaces: helper returned nil but the destination cannot be read back: "+raw.postWhy, rc)
			} else if d := rc.complete(raw.post); d != "" {
				fail("ok_implies_complete", "plain filespaces (the handles' own io.Copy paths): helper returned nil but "+d, rc)
			}
			if raw.commit != "" && raw.commit != "ok" {
				fail("cache_commit_exact", "plain filespaces, cache destination: "+raw.commit, rc)
			}
		}
		o.CountEval(keyC+"/real", nontrivial)
	}
	if c.Same {
		o.Stat("copy_same_instance")
	}
	small := c04TotalBytes(c.Src)+c04TotalBytes(c.Dst) <= 1500
	emit := func(r c04RunRes, kind string, k int, cc c04Copy, keyx string) {
		if !small || (r.class != "ok" && r.class != "err") || kind == "readp" || kind == "writep" {
			o.CountEval(keyx, nontrivial)
			return
		}
		post := "None"
		if r.class == "ok" && r.postOK && kind == "" {
			post = "(Some " + coqWalk(r.post) + ")"
		}
		flt := "None"
		if kind != "" {
			flt = c04CoqFault(kind, k)
		}
		o.AddCase(fmt.Sprintf("CCopy %s %s 32768 %s %s %s %s %s %s", map[bool]string{true: "EofLazy", false: "EofEager"}[base.srcLazy],
			coqBool(base.dstMk), coqWalk(base.srcWalk), coqWalk(base.preWalk), c.coqKind(base.log), flt, coqBool(r.class == "ok"), post), cc, keyx, nontrivial)
	}
	emit(base, "", 0, *c, keyC)
	if base.class != "ok" || c.NoFaults {
		return
	}
	// (c) every fault position
	for _, kind := range c04FaultKinds {
		n := base.counts[kind]
		var ks []int
		if n <= c04EnumAll || tier == "thorough" && n <= 16 {
			for k := 0; k < n; k++ {
				ks = append(ks, k)
			}
		} else {
			ks = []int{0, 1, n / 2, n - 2, n - 1}
		}
		if (kind == "readp" || kind == "writep") && n > 3 {
			ks = []int{0, n / 2, n - 1}
		}
		for _, k := range ks {
			if *budget <= 0 {
				o.Stat("fault_budget_exhausted")
				return
			}
			if c04Hangs >= 3 {
				o.Stat("fault_enumeration_stopped_after_hangs")
				return
			}
			*budget--
			fc := *c
			fc.Fault, fc.FaultK = kind, k
			r := fc.run(kind, k)
			fc.Result = r.class
			o.Stat("fault_kind_" + kind)
			o.Stat("fault_result_" + r.class)
			if !r.fired {
				o.Stat("fault_not_reached")
			}
			keyF := fmt.Sprintf("%s/fault/%s/%d", keyC, kind, k)
			if r.class == "hang" || (r.class == "ok" && !r.postOK && strings.Contains(r.postWhy, "hang")) || strings.Contains(r.commit, "hang") {
				c04Hangs++
			}
			switch r.class {
			case "panic", "hang":
				fail("no-panic-no-hang", fmt.Sprintf("with the %s call #%d failing the copy helper ended in %s %s", kind, k, r.class, r.msg), fc)
			case "ok":
				if !r.postOK {
					fail("ok_implies_complete", fmt.Sprintf("%s call #%d failed, the helper returned nil, and the destination cannot be read back: %s", kind, k, r.postWhy), fc)
				} else if d := fc.complete(r.post); d != "" {
					fail("ok_implies_complete", fmt.Sprintf("%s call #%d failed, the helper returned nil, but %s", kind, k, d), fc)
				}
			}
			if r.fired {
				emit(r, kind, k, fc, keyF)
			} else {
				o.CountEval(keyF, nontrivial)
			}
		}
	}
}

// forced F16 schedule through fshelper.Copy (hooks of C08): the only file must not be lost
func c04Forced(o *Out, reps int) {
	for i := 0; i < reps; i++ {
		src, _ := memfs.NewFilespace()
		dst, _ := memfs.NewFilespace()
		must(src.WriteFile("only.txt", []byte("payload"), 0o644))
		must(dst.WriteFile("only.txt", []byte("a longer previous content"), 0o644))
		gate, ok := c08ForceF16()
		cl, msg := c04Watch(30*time.Second, func() error { return fshelper.Copy(&c08Gated{c08Inner: src, gate: gate}, dst, nil) })
		verifhook.SetCallback(nil)
		d := map[string]interface{}{"section": "forced", "op": "forced F16 schedule through fshelper.Copy", "schedule_forced": atomic.LoadInt32(ok) == 1, "result": cl, "msg": msg}
		o.Stat("forced_copy_" + cl)
		if atomic.LoadInt32(ok) != 1 {
			o.Stat("forced_schedule_not_reached")
		}
		if cl == "hang" || cl == "panic" {
			o.Fail("no-panic-no-hang", "forced schedule: Copy "+cl, "C04-no-panic-no-hang", d)
		} else if cl == "ok" {
			if data, err := dst.ReadFile("only.txt"); err != nil || string(data) != "payload" {
				o.Fail("ok_implies_complete", fmt.Sprintf("forced F16 schedule: fshelper.Copy returned nil but the destination only.txt holds %q (read error: %v) instead of the 7-byte source content", data, err), "C04-ok_implies_complete", d)
			}
		}
		o.CountEval(fmt.Sprintf("forced/%d", i), true)
	}
}

// hand-built copy cases that the random generator reaches too rarely:
//
//	big-*   one file larger than io.Copy's buffer (2-4 Read/Write calls per file), over an older longer
//	        file, every kind of helper, EVERY fault position: a failure in the middle of a stream;
//	names-* every odd name once as a file and once as a directory, at the top level and below, next to
//	        the plain names they look like;
//	same-*  one instance as source and destination, every backend, Copier on a file and on a directory;
//	wide    more entries in one directory than the walk's queues hold (fsloop.ChanSize = 1000).
func c04Fixed(o *Out, seed uint64, tier string, budget *int) {
	rot := int(seed % 16)
	nb := len(c04CopyBackends)
	pairOf := func(i int) (string, string) {
		p := (rot + i*5) % (nb * nb)
		return c04CopyBackends[p/nb], c04CopyBackends[p%nb]
	}
	sizes := []int{70000, 65536, 32769, 98304, 70000, 65537}
	kinds := []string{"stream", "copierfile", "copy", "copierdir", "copy", "stream"}
	for i := range sizes {
		c := &c04Copy{Seed: seed, Section: "fixed", Fixed: fmt.Sprintf("big-%d", i), Variant: i, Kind: kinds[i], DstState: "overlap"}
		c.SrcBE, c.DstBE = pairOf(i)
		big := c04File("big.bin", sizes[i], byte(10+i))
		c.Src = []c04Node{big, c04File("small.txt", 15, 3)}
		old := c04File("big.bin", sizes[i]+11, byte(60+i))
		switch c.Kind {
		case "stream":
			c.P = "big.bin"
			c.Dst = []c04Node{c04File("other.txt", 5, 4)}
			if i%2 == 1 {
				c.Dst = append(c.Dst, old)
			}
		case "copierfile":
			c.S, c.D = "big.bin", "t/copy.bin"
			c.Dst = []c04Node{{Path: "t", Dir: true}, c04File("t/copy.bin", sizes[i]+11, 61)}
		case "copierdir":
			c.S, c.D = "srcroot", "out"
			c.Src = append(c04Prefix("srcroot", c.Src), c04File("junk.txt", 9, 55))
			c.Dst = append(c04Prefix("out", []c04Node{old}), c04File("keep.txt", 6, 56))
		default:
			c.Dst = []c04Node{c04File("other.txt", 5, 4)}
			if i%2 == 0 {
				c.Dst = append(c.Dst, old)
			}
		}
		c04RunCopy(o, c, tier, budget)
	}
	plain := []string{"a", "b", "d", "keep.txt"}
	for i := 0; i < nb; i++ {
		c := &c04Copy{Seed: seed, Section: "fixed", Fixed: fmt.Sprintf("names-%d", i), Variant: 20 + i, DstState: "other", NoFaults: true}
		c.DstBE, c.SrcBE = c04CopyBackends[i], c04CopyBackends[(i+rot)%nb]
		var tree []c04Node
		tree = append(tree, c04Node{Path: "sub", Dir: true})
		for j, nm := range plain {
			tree = append(tree, c04File(nm, 4+j, byte(120+j)), c04File("sub/"+nm, 2+j, byte(130+j)))
		}
		for j, nm := range c04OddNames {
			tag := byte(140 + j)
			if (j+i)%2 == 0 {
				tree = append(tree, c04File(nm, 6+j%5, tag), c04Node{Path: "sub/" + nm, Dir: true}, c04File("sub/"+nm+"/"+nm, 3, tag+1))
			} else {
				tree = append(tree, c04Node{Path: nm, Dir: true}, c04File(nm+"/"+nm, 3, tag+1), c04File("sub/"+nm, 6+j%5, tag))
			}
		}
		rel := []c04Node{c04File("b", 40, 7), c04File("zz.txt", 3, 8)} // an older, longer b; a bystander
		if i%2 == 0 {
			c.Kind, c.Src, c.Dst = "copy", tree, rel
		} else {
			c.Kind, c.S, c.D = "copierdir", "srcroot", "out"
			c.Src = append(c04Prefix("srcroot", tree), c04File("junk.txt", 9, 55))
			c.Dst = append(c04Prefix("out", rel), c04File("keep.txt", 6, 56))
		}
		c04RunCopy(o, c, tier, budget)
	}
	// one instance as source and destination, every backend, both Copier modes, the destination
	// holding older (longer / shorter) content
	for i := 0; i < 2*nb; i++ {
		be := c04CopyBackends[i/2]
		c := &c04Copy{Seed: seed, Section: "fixed", Fixed: fmt.Sprintf("same-%d", i), Variant: 40 + i, DstState: "overlap", NoFaults: true,
			Same: true, SrcBE: be, DstBE: be, SrcRemote: (rot+i)%2 == 0}
		c.DstRemote = c.SrcRemote
		c.Src = append(c04Prefix("srcroot", []c04Node{c04File("a", 15, 21), {Path: "d", Dir: true}, c04File("d/b", 300, 22), {Path: "e", Dir: true}, c04File(".a", 1, 23)}), c04File("junk.txt", 9, 55))
		c.Dst = append(c04Prefix("out", []c04Node{c04File("a", 40, 24), {Path: "d", Dir: true}, c04File("d/b", 7, 25), c04File("zz", 3, 26)}), c04File("keep.txt", 6, 56))
		if i%2 == 0 {
			c.Kind, c.S, c.D = "copierdir", "srcroot", "out"
		} else {
			c.Kind, c.S, c.D = "copierfile", "srcroot/d/b", []string{"out/a", "out/d/b", "out/new.bin"}[(rot+i/2)%3]
		}
		c04RunCopy(o, c, tier, budget)
	}
	{
		c := &c04Copy{Seed: seed, Section: "fixed", Fixed: "wide", Variant: 30, Kind: "copy", DstState: "empty", NoFaults: true, SrcBE: "mem", DstBE: "mem"}
		if rot%2 == 1 {
			c.DstBE = "disk"
		}
		c.Src = []c04Node{{Path: "w", Dir: true}, {Path: "w2", Dir: true}}
		for j := 0; j < 1100; j++ {
			c.Src = append(c.Src, c04File(fmt.Sprintf("w/f%04d", j), 3, byte(j)), c04Node{Path: fmt.Sprintf("w2/d%04d", j), Dir: true})
		}
		c.Src = append(c.Src, c04File("w2/d0500/last.txt", 15, 1))
		c04RunCopy(o, c, tier, budget)
	}
}

func runC04(o *Out, rng *RNG, tier string, replay string) {
	c04Out = o
	o.Imports = "From GC Require Import Common.Base Model.Paths Model.Fs Model.Stream Model.Copy Corr.C04."
	o.CaseType = "case"
	o.CheckFn = "check"
	o.ShardSize = 150
	o.Rule = "(a) Writer/Reader sessions: contents {0,1,15,300,4096,70000 bytes} x random chunkings (empty chunks included) x previous state {absent, shorter, longer, equal, directory, parent missing} " +
		"x {memfs, diskfs, encryptfs/memfs, encryptfs/diskfs, cache/memfs (+Commit)}; readers with random buffer sizes incl. 0 and 1. " +
		"(b) fshelper.StreamCopy, Copier.Do (file, directory), fshelper.Copy over all 16 ordered pairs of {mem, disk, enc(mem), cache(mem)}, generated trees (0-15 nodes, depth<=4, empty dirs/files, a 70 KB file), " +
		"destination states {empty, other files, files at the same paths that are shorter / longer / of exactly the source's length (all bytes, or one byte at the start, middle or end, different) / identical, written before or after the source with or without a pause, file/directory conflicts}; " +
		"every copy entry point (fshelper.Copy, Copier directory / file, StreamCopy, the filespaces' own Copy / CopyDirectory / CopyFile, cache Commit) over such destinations in the scenarios old-first, old-later, restore (copy, damage the destination in place, copy again), update (copy, change the source in place, copy again). (c) every call position of Reader/Writer/Read/Write/Close/MkdirAll/ReadDir failed once through a counting Filespace wrapper. " +
		"Non-trivial: every stream case; copy cases with a non-empty source. Distinct by (section, backend(s), parameters, fault position)."
	if replay != "" {
		if c04Replay(o, replay, tier) {
			return
		}
	}
	nStream, nCopy, budget := 300, 100, 5000
	if tier == "thorough" {
		nStream, nCopy, budget = 4500, 1500, 90000
	}
	c04Forced(o, 3)
	c04Fixed(o, rng.Next(), tier, &budget)
	c04MixedWriters(o, rng.Fork())
	for i := 0; i < nStream; i++ {
		c04RunStream(o, rng.Next(), tier, i)
	}
	for i := 0; i < nCopy; i++ {
		c := c04GenCopy(rng.Next(), tier, i)
		c04RunCopy(o, c, tier, &budget)
	}
	c04Overwrite(o, rng.Next(), tier)
	o.Extra["runs_left_in_budget"] = budget
	o.Stats["copy_malformed_path"] = o04Malformed
}

// replay: re-run the case named by the replay file (by its case seed) with every fault position
func c04Replay(o *Out, file string, tier string) bool {
	b, err := os.ReadFile(file)
	if err != nil {
		return false
	}
	var rp struct {
		Case map[string]interface{} `json:"case"`
	}
	if json.Unmarshal(b, &rp) != nil || rp.Case == nil {
		return false
	}
	seedF, ok := rp.Case["case_seed"].(float64)
	if !ok {
		if rp.Case["section"] == "forced" {
			c04Forced(o, 5)
			return true
		}
		return false
	}
	var raw struct {
		Case struct {
			Seed    uint64 `json:"case_seed"`
			Variant int    `json:"variant"`
		} `json:"case"`
	}
	json.Unmarshal(b, &raw)
	_ = seedF
	switch rp.Case["section"] {
	case "stream":
		for idx := 0; idx < len(c04AllBackends); idx++ {
			if c04AllBackends[idx] == rp.Case["backend"] {
				c04RunStream(o, raw.Case.Seed, tier, idx)
			}
		}
		return true
	case "copy":
		budget := 100000
		c04RunCopy(o, c04GenCopy(raw.Case.Seed, tier, raw.Case.Variant), tier, &budget)
		return true
	case "fixed":
		budget := 100000
		c04Fixed(o, raw.Case.Seed, tier, &budget)
		return true
	case "overwrite":
		c04Overwrite(o, raw.Case.Seed, tier)
		return true
	}
	return false
}
