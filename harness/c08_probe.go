package main

import (
	"errors"
	"fmt"
	"os"
	"runtime"
	"strings"
	"time"

	"github.com/goatcms/goatcore/filesystem"
	"github.com/goatcms/goatcore/filesystem/filespace/memfs"
	"github.com/goatcms/goatcore/filesystem/fsloop"
)

// failingListFS fails ReadDir of one directory.
type failingListFS struct {
	faultFS // forwards all 16 methods to .inner
	failAt  string
}

func (f failingListFS) ReadDir(p string) ([]os.FileInfo, error) {
	if strings.Trim(p, "./") == f.failAt {
		return nil, errors.New("injected listing error (storm)")
	}
	return f.inner.ReadDir(p)
}

// c08ErrorStorm: many tiny walks in which the listing of a sub-directory (or a callback) fails;
// the error itself must be in Errors() the moment Wait() returns. The window between "the loop is
// killed" and "the error is recorded" is only a few instructions wide, hence the volume.
func c08ErrorStorm(o *Out, rng *RNG, tier string) {
	n := 4000
	if tier == "thorough" {
		n = 60000
	}
	base, _ := memfs.NewFilespace()
	base.WriteFile("a/x", []byte("1"), 0o644)
	base.WriteFile("bad/y", []byte("2"), 0o644)
	base.WriteFile("c/d/z", []byte("3"), 0o644)
	old := runtime.GOMAXPROCS(0)
	defer runtime.GOMAXPROCS(old)
	lost := 0
	for i := 0; i < n && lost < 3; i++ {
		if i%500 == 0 {
			runtime.GOMAXPROCS([]int{1, 2, 4, 16}[rng.Intn(4)])
		}
		cbFail := rng.Chance(30)
		ld := &fsloop.LoopData{
			Filespace:  failingListFS{faultFS: faultFS{inner: base, st: &faultState{}}, failAt: "bad"},
			Consumers:  1 + rng.Intn(3),
			Producents: 1 + rng.Intn(3),
			OnFile: func(fs filesystem.Filespace, p string) error {
				if cbFail && strings.HasSuffix(p, "z") {
					return errors.New("injected callback error (storm)")
				}
				return nil
			},
		}
		if cbFail {
			ld.Filespace = base
		}
		done := make(chan []error, 1)
		go func() {
			loop := fsloop.NewLoop(ld, nil)
			loop.Run("")
			loop.Wait()
			done <- loop.Errors()
		}()
		var errs []error
		select {
		case errs = <-done:
		case <-time.After(20 * time.Second):
			o.Fail("no-hang", "error storm: Wait() did not return", "C08-hang", map[string]interface{}{"probe": "error-storm", "i": i})
			return
		}
		seen := false
		for _, e := range errs {
			if e != nil && strings.Contains(e.Error(), "injected") {
				seen = true
			}
		}
		o.CountEval(fmt.Sprintf("storm|%v|%d", cbFail, i%7), true)
		if !seen {
			lost++
			o.Fail("error-reported", fmt.Sprintf("error storm run %d: the injected %s error is not in Errors() when Wait() returns: %v",
				i, map[bool]string{true: "callback", false: "listing"}[cbFail], errs), "C08-error-lost",
				map[string]interface{}{"probe": "error-storm", "callback_error": cbFail, "consumers": ld.Consumers, "producers": ld.Producents})
		}
	}
	o.Stat("error_storm_done")
}
