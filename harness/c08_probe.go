package main

import (
	"errors"
	"fmt"
	"os"
	"runtime"
	"strings"
	"time"

	"github.com/goatcms/goatcore/filesystem"
	"github.com/goatcms/goatcore/filesystem/filespace/memfs"
	"github.com/goatcms/goatcore/filesystem/fsloop"
)

// failingListFS fails ReadDir of one directory.
type failingListFS struct {
	faultFS // forwards all 16 methods to .inner
	failAt  string
}

func (f failingListFS) ReadDir(p string) ([]os.FileInfo, error) {
	if strings.Trim(p, "./") == f.failAt {
		return nil, errors.New("injected listing error (storm)")
	}
	return f.inner.ReadDir(p)
}

// c08ErrorStorm: many tiny walks in which the listing of a sub-directory (or a callback) fails;
// the error itself must be in Errors() the moment Wait() returns. The window between "the loop is
// killed" and "the error is recorded" is only a few instructions wide, hence the volume.
func c08ErrorStorm(o *Out, rng *RNG, tier string) {
	// n mixed walks, then n2 walks of the one shape in which the window is widest on the code as it
	// is: the listing fails in a PRODUCER (nobody waits for producers), few consumers, two
	// processors (measured on the change "Kill before the error is recorded": 0 of 4 000 walks at
	// GOMAXPROCS 1, 1-7 of 4 000 at GOMAXPROCS 2 with one or two consumers, 18 microseconds a walk;
	// 4 000 mixed walks alone missed that change in 3 of 6 checks)
	n, n2 := 4000, 40000
	if tier == "thorough" {
		n, n2 = 60000, 400000
	}
	base, _ := memfs.NewFilespace()
	base.WriteFile("a/x", []byte("1"), 0o644)
	base.WriteFile("bad/y", []byte("2"), 0o644)
	base.WriteFile("c/d/z", []byte("3"), 0o644)
	old := runtime.GOMAXPROCS(0)
	defer runtime.GOMAXPROCS(old)
	lost := 0
	watchdog := time.NewTimer(20 * time.Second)
	defer watchdog.Stop()
	for i := 0; i < n+n2 && lost < 3; i++ {
		if i%500 == 0 && i < n {
			runtime.GOMAXPROCS([]int{1, 2, 4, 16}[rng.Intn(4)])
		}
		if i == n {
			runtime.GOMAXPROCS(2)
		}
		if i >= n && i%10000 == 0 {
			runtime.GOMAXPROCS([]int{2, 2, 4, 16}[rng.Intn(4)])
		}
		cbFail := rng.Chance(30) && i < n
		cons := 1 + rng.Intn(3)
		if i >= n {
			cons = 1 + rng.Intn(2)
		}
		ld := &fsloop.LoopData{
			Filespace:  failingListFS{faultFS: faultFS{inner: base, st: &faultState{}}, failAt: "bad"},
			Consumers:  cons,
			Producents: 1 + rng.Intn(3),
			OnFile: func(fs filesystem.Filespace, p string) error {
				if cbFail && strings.HasSuffix(p, "z") {
					return errors.New("injected callback error (storm)")
				}
				return nil
			},
		}
		if cbFail {
			ld.Filespace = base
		}
		done := make(chan []error, 1)
		go func() {
			loop := fsloop.NewLoop(ld, nil)
			loop.Run("")
			loop.Wait()
			done <- loop.Errors()
		}()
		var errs []error
		if !watchdog.Stop() {
			select {
			case <-watchdog.C:
			default:
			}
		}
		watchdog.Reset(20 * time.Second)
		select {
		case errs = <-done:
		case <-watchdog.C:
			o.Fail("no-hang", "error storm: Wait() did not return", "C08-hang", map[string]interface{}{"probe": "error-storm", "i": i})
			return
		}
		seen := false
		for _, e := range errs {
			if e != nil && strings.Contains(e.Error(), "injected") {
				seen = true
			}
		}
		if i < n {
			o.CountEval(fmt.Sprintf("storm|%v|%d", cbFail, i%7), true)
		} else if i%20 == 0 {
			o.CountEval(fmt.Sprintf("storm2|%d|%d", ld.Consumers, ld.Producents), true)
		}
		if !seen {
			lost++
			o.Fail("error-reported", fmt.Sprintf("error storm run %d: the injected %s error is not in Errors() when Wait() returns: %v",
				i, map[bool]string{true: "callback", false: "listing"}[cbFail], errs), "C08-error-lost",
				map[string]interface{}{"probe": "error-storm", "callback_error": cbFail, "consumers": ld.Consumers, "producers": ld.Producents})
		}
	}
	o.Stat("error_storm_done")
}

// c08Sweep: the position of a failure is not sampled.  On one fixed tree (files and directories
// at four depths, a leading-dot name, an empty directory) the error is put on EVERY callback and
// on EVERY listing (the start directory included), for producer limits 1 / 2 / 16 (nested
// directories listed in line, by a spawned producer, or mixed) and consumer limits 1 / 3; then a
// scope Kill/Error event is raised from inside EVERY callback, which then fails itself; then the
// same positions (and every listing, consumer polls and gaps, right after Run, the announced close)
// with nothing failing inside the walk and the scope ended from another goroutine.
func c08Sweep(o *Out, rng *RNG) {
	tree := func() []*c08Node {
		return []*c08Node{
			{Name: "a"}, {Name: ".b"},
			{Name: "d1", Dir: true, Ch: []*c08Node{{Name: "x"},
				{Name: "d2", Dir: true, Ch: []*c08Node{{Name: "y"}, {Name: "d3", Dir: true, Ch: []*c08Node{{Name: "z"}}}}},
				{Name: "e", Dir: true}}},
			{Name: "f", Dir: true, Ch: []*c08Node{{Name: "g"}}},
			{Name: "h"},
		}
	}
	items := (&c08Run{Root: tree(), OnDir: true, OnFile: true}).expected()
	lists := []string{"."}
	for _, it := range items {
		if strings.HasPrefix(it, "D:") {
			lists = append(lists, c08Norm(it[2:]))
		}
	}
	k := 0
	run := func(p, c int, set func(r *c08Run)) {
		r := &c08Run{Root: tree(), Kind: "sweep", OnDir: true, OnFile: true, P: p, C: c, Seed: rng.Next(), Salt: 1,
			GMP: []int{1, 2, 4, 16}[k%4], DelayMode: k % 3, Index: -1}
		k++
		set(r)
		r.check(o, true)
	}
	for _, p := range []int{1, 2, 16} {
		for _, c := range []int{1, 3} {
			for _, it := range items {
				it := it
				run(p, c, func(r *c08Run) { r.CbErr = it })
			}
			for _, l := range lists {
				l := l
				run(p, c, func(r *c08Run) { r.RdErr = l })
			}
			if p == 2 {
				continue
			}
			for _, it := range items {
				it := it
				run(p, c, func(r *c08Run) { r.Scope, r.KillOn, r.KillEvt, r.CbErr = true, it, k%2, it })
			}
			// the same positions with NOTHING failing inside the walk: the scope is ended from outside (Kill /
			// an error of another component; through the harness scope, an application scope or a child of
			// it) when the n-th callback begins, when the n-th listing begins, at a consumer's n-th poll /
			// gap, right after Run() and when the close is announced; and once from inside every callback
			via := func(r *c08Run) { r.Scope, r.ExtEvt, r.ExtVia, r.ExtSync = true, k%2, (k/2)%3, k%5 != 0 }
			for n := range items {
				n := n
				run(p, c, func(r *c08Run) { via(r); r.ExtAt, r.ExtN = "callback", n+1 })
			}
			for n := range lists {
				n := n
				run(p, c, func(r *c08Run) { via(r); r.ExtAt, r.ExtN = "readdir", n+1 })
			}
			for _, n := range []int{1, 2, 4, 9} {
				n := n
				run(p, c, func(r *c08Run) { via(r); r.ExtAt, r.ExtN = "poll", n })
				run(p, c, func(r *c08Run) { via(r); r.ExtAt, r.ExtN = "gap", n })
			}
			run(p, c, func(r *c08Run) { via(r); r.ExtAt = "run" })
			run(p, c, func(r *c08Run) { via(r); r.ExtAt = "closed" })
			run(p, c, func(r *c08Run) { via(r); r.ExtAt, r.ExtSync = "prerun", true })
			for _, it := range items {
				it := it
				run(p, c, func(r *c08Run) { r.Scope, r.KillOn, r.KillEvt = true, it, k%2 })
			}
		}
	}
	o.Stat("sweep_done")
}
