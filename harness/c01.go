package main

import (
	"fmt"
	"os"
	"strings"
	"sync"
	"time"

	"github.com/goatcms/goatcore/filesystem"
	"github.com/goatcms/goatcore/filesystem/filespace/memfs"
)

func init() { runners["C01"] = runC01 }

var memPolicy = RefPolicy{RootCopySourceOK: true}

// viewBase: abstract base components of a view chain; ok=false when some element climbs.
func viewBase(chain []string) (base []string, ok bool) {
	for _, b := range chain {
		c, climbs := refNorm(b)
		if climbs {
			return nil, false
		}
		base = append(base, c...)
	}
	return base, true
}

type histResult struct {
	ops   []FsOp
	outs  []FsOut
	walks [][]WalkEnt // nil when not taken
	final []WalkEnt
	fail  string // first L2 contradiction
	sig   string
}

// ---------- the caller's side of the snapshot clause, and views that live as long as the history

// scribbleInfo is what the harness writes over every listing it was handed: if the implementation
// still looks at that slice, a node named like this shows up in its tree.
type scribbleInfo struct{}

func (scribbleInfo) Name() string       { return "scribbled-by-caller" }
func (scribbleInfo) Size() int64        { return 7 }
func (scribbleInfo) Mode() os.FileMode  { return 0 }
func (scribbleInfo) ModTime() time.Time { return time.Time{} }
func (scribbleInfo) IsDir() bool        { return false }
func (scribbleInfo) Sys() interface{}   { return nil }

type keptListing struct {
	where string
	infos []os.FileInfo // the very slice the implementation handed out
	snap  []Ent         // what it said when it was handed out
}

// c01Env is the caller of one history: it HOLDS the child views it created (a view is used again by
// later operations of the same history: the property speaks of operations "through a child view",
// not of views made afresh for every call), it keeps or overwrites every listing it is handed, and
// it checks the names of Lstat results.
type c01Env struct {
	mu    sync.Mutex // an operation or walk that timed out leaves its goroutine behind: it may still call in
	dead  bool       // set when the history is over (or was given up): late calls do nothing
	rng   *RNG
	root  filesystem.Filespace
	held  map[string]filesystem.Filespace // canonical chain -> view object created earlier in this history
	lists []keptListing
	fail  string
	sig   string
	stats map[string]int
}

func newC01Env(rng *RNG, root filesystem.Filespace) *c01Env {
	return &c01Env{rng: rng, root: root, held: map[string]filesystem.Filespace{}, stats: map[string]int{}}
}

// close ends the history: the counters go to the run's statistics, late callers find the env dead.
func (e *c01Env) close(stats map[string]int) {
	e.mu.Lock()
	defer e.mu.Unlock()
	e.dead = true
	for k, v := range e.stats {
		stats[k] += v
	}
}

func (e *c01Env) setFail(sig, msg string) { // callers hold e.mu
	if e.fail == "" {
		e.fail, e.sig = msg, sig
	}
}

func (e *c01Env) failure() (string, string) {
	e.mu.Lock()
	defer e.mu.Unlock()
	return e.fail, e.sig
}

// resolve follows the chain; a view object made earlier for the same (canonical) chain is used again
// in 3 of 4 cases, otherwise a new one is made - by Filespace(b) or by the exported constructor
// NewFilespaceWrapper around the parent view (a wrapper of a wrapper instead of a flattened one).
func (e *c01Env) resolve(chain []string) (fs filesystem.Filespace, ok bool) {
	e.mu.Lock()
	defer e.mu.Unlock()
	if e.dead {
		return nil, false
	}
	fs = e.root
	key := ""
	for _, b := range chain {
		c, climbs := refNorm(b)
		key += "\x00" + strings.Join(c, "/")
		if h, have := e.held[key]; have && !climbs && e.rng.Chance(75) {
			fs = h
			e.stats["held_view_reused"]++
			continue
		}
		var child filesystem.Filespace
		var err error
		if e.rng.Chance(20) {
			child, err = memfs.NewFilespaceWrapper(fs, b)
			e.stats["view_by_constructor"]++
		} else {
			child, err = fs.Filespace(b)
		}
		if err != nil || child == nil {
			return nil, false
		}
		if !climbs {
			e.held[key] = child
		}
		fs = child
	}
	return fs, true
}

func (e *c01Env) exec(op FsOp) FsOut {
	return withTimeout(10*time.Second, func() FsOut {
		fs, ok := e.resolve(op.View)
		if !ok {
			return FsOut{Kind: "err", Msg: "view creation failed"}
		}
		return execOn(c01FS{innerFS: fs, env: e, view: op.View}, op)
	})
}

// noteListing: the slice handed out by ReadDir now belongs to the caller. Half of them are
// overwritten at once (so a second caller that is handed the same storage sees it), the others are
// kept and must still say the same after every later operation; they are overwritten at the end.
func (e *c01Env) noteListing(where string, infos []os.FileInfo) {
	e.mu.Lock()
	defer e.mu.Unlock()
	if e.dead {
		return
	}
	snap := make([]Ent, len(infos))
	for i, in := range infos {
		if in == nil {
			e.setFail("alias:list", where+": the listing contains a nil entry")
			return
		}
		snap[i] = Ent{Name: in.Name(), IsDir: in.IsDir()}
	}
	e.stats["listings_handed_out"]++
	if len(infos) == 0 {
		return
	}
	if len(e.lists) < 48 && e.rng.Chance(50) {
		e.lists = append(e.lists, keptListing{where: where, infos: infos, snap: snap})
		return
	}
	scribbleListing(infos)
}

func scribbleListing(infos []os.FileInfo) {
	ext := infos[:cap(infos)] // the spare capacity was handed out with the slice (append by the caller)
	for i := range ext {
		ext[i] = scribbleInfo{}
	}
}

// checkKept: a listing handed out earlier still names the same entries.
func (e *c01Env) checkKept(after string) {
	e.mu.Lock()
	defer e.mu.Unlock()
	for _, k := range e.lists {
		for i, in := range k.infos {
			if in == nil || in.Name() != k.snap[i].Name || in.IsDir() != k.snap[i].IsDir {
				now := "nil"
				if in != nil {
					now = fmt.Sprintf("%q", in.Name())
				}
				e.setFail("alias:list", fmt.Sprintf("%s: entry %d of the listing handed out earlier was %q, after %s it is %s", k.where, i, k.snap[i].Name, after, now))
				return
			}
		}
	}
}

// c01FS stands between the executor / tree walker and memfs: same 16 operations, but listings go
// through noteListing (the walker works on a private copy) and Lstat results are asked for their name.
type innerFS = filesystem.Filespace

type c01FS struct {
	innerFS
	env  *c01Env
	view []string
}

func (f c01FS) ReadDir(p string) ([]os.FileInfo, error) {
	if strings.Count(p, "/") > 300 {
		// no history creates anything that deep: a directory that contains itself. Refusing here ends
		// the tree walk ("walk failed") before it eats the memory of the process.
		return nil, fmt.Errorf("the tree is more than 300 levels deep (a directory reachable from itself?)")
	}
	infos, err := f.innerFS.ReadDir(p)
	if err != nil {
		return infos, err
	}
	mine := make([]os.FileInfo, len(infos))
	copy(mine, infos)
	f.env.noteListing(fmt.Sprintf("ReadDir(%q) via view %q", p, f.view), infos)
	return mine, nil
}

func (f c01FS) Lstat(p string) (os.FileInfo, error) {
	info, err := f.innerFS.Lstat(p)
	if err == nil && info != nil {
		if c, climbs := refNorm(p); !climbs && len(c) > 0 && info.Name() != c[len(c)-1] {
			f.env.mu.Lock()
			defer f.env.mu.Unlock()
			f.env.setFail("contract:Lstat", fmt.Sprintf("Lstat(%q) via view %q describes a node named %q", p, f.view, info.Name()))
		}
	}
	return info, err
}

// runHistory executes ops on fs, checking every step against the plain tree (L2) with `pol`.
func runHistory(rng *RNG, root filesystem.Filespace, ref *RefFS, pol RefPolicy, ops []FsOp, walkEvery bool, stats map[string]int) histResult {
	hr := histResult{ops: ops}
	env := newC01Env(rng, root)
	defer env.close(stats)
	wroot := c01FS{innerFS: root, env: env}
	type kept struct {
		path string
		data []byte
		copy []byte
	}
	var keptReads []kept
	stopped := false
	for i, op := range ops {
		o := env.exec(op)
		returned := o.Data // the slice the implementation handed out (mutated at the end: snapshot clause)
		o.Data = append([]byte{}, o.Data...)
		hr.outs = append(hr.outs, o)
		if o.Kind == "hang" || o.Kind == "panic" {
			stopped = true
		}
		var w []WalkEnt
		if hr.fail == "" {
			base, vok := viewBase(op.View)
			if !vok {
				if o.Kind != "err" {
					hr.fail = fmt.Sprintf("step %d: operation through a view whose creation must fail returned %s", i, o.Kind)
					hr.sig = "view-climb"
				}
			} else if msg := ref.Apply(pol, base, op, o); msg != "" {
				hr.fail = fmt.Sprintf("step %d %s(%q,%q) via view %q: %s", i, op.Kind, op.P, op.Q, op.View, msg)
				hr.sig = "contract:" + op.Kind
			}
			if o.Kind == "data" { // snapshot clause: keep the returned slice and a private copy
				keptReads = append(keptReads, kept{path: op.P, data: returned, copy: o.Data})
			}
		}
		if stopped {
			break
		}
		if hr.fail == "" && (walkEvery || (isMutating(op.Kind) && o.Kind == "unit")) {
			var ok bool
			var why string
			w, ok, why = walkFs(wroot)
			if !ok {
				hr.fail = fmt.Sprintf("step %d: tree walk failed: %s", i, why)
				hr.sig = "walk"
				stopped = true // the tree cannot be observed any more (the walker may still be running)
			} else if ph := phantomNames(w); ph != "" {
				hr.fail = fmt.Sprintf("step %d: %s", i, ph)
				hr.sig = "phantom"
			} else if eq, why := walkEqual(w, ref.Walk()); !eq {
				hr.fail = fmt.Sprintf("step %d after %s(%q,%q) via %q → %s: tree differs from the plain tree model: %s", i, op.Kind, op.P, op.Q, op.View, o.Kind, why)
				hr.sig = "tree:" + op.Kind
			}
			hr.walks = append(hr.walks, w)
		} else {
			hr.walks = append(hr.walks, nil)
		}
		if stopped {
			break
		}
		// snapshot clause, implementation side: what was handed out earlier still says the same
		if hr.fail == "" {
			env.checkKept(fmt.Sprintf("step %d %s(%q,%q)", i, op.Kind, op.P, op.Q))
			hr.fail, hr.sig = env.failure()
			for _, k := range keptReads {
				if hr.fail == "" && string(k.data) != string(k.copy) {
					hr.fail = fmt.Sprintf("the bytes returned by ReadFile(%q) changed after step %d %s(%q,%q)", k.path, i, op.Kind, op.P, op.Q)
					hr.sig = "alias:read"
				}
			}
		}
	}
	if stopped {
		return hr // the executor's goroutine may still be running: nothing more is asked of this filespace
	}
	w, ok, why := walkFs(wroot)
	hr.final = w
	if hr.fail == "" {
		if !ok {
			hr.fail = "final tree walk failed: " + why
			hr.sig = "walk"
		} else if eq, why := walkEqual(w, ref.Walk()); !eq {
			hr.fail = "final tree differs from the plain tree model: " + why
			hr.sig = "tree:final"
		} else {
			hr.fail, hr.sig = env.failure()
		}
	}
	// snapshot clause, caller side: overwrite everything we were handed, then the tree must be unchanged
	if hr.fail == "" && ok {
		env.checkKept("the end of the history")
		for _, k := range keptReads {
			for i := range k.data {
				k.data[i] ^= 0xff
			}
		}
		env.mu.Lock()
		for _, k := range env.lists {
			scribbleListing(k.infos)
		}
		env.lists = nil
		env.mu.Unlock()
		w, ok, why := walkFs(wroot)
		if f, sg := env.failure(); f != "" {
			hr.fail, hr.sig = f, sg
		} else if !ok {
			hr.fail = "overwriting the slices and listings handed out earlier broke the tree walk: " + why
			hr.sig = "alias:out"
		} else if eq, why := walkEqual(w, ref.Walk()); !eq {
			hr.fail = "overwriting the slices and listings handed out earlier changed the stored tree: " + why
			hr.sig = "alias:out"
		}
	}
	return hr
}

func (hr histResult) desc() map[string]interface{} {
	return map[string]interface{}{"history": descOps(hr.ops, hr.outs)}
}

func (hr histResult) coqCase() string {
	steps := make([]string, 0, len(hr.outs))
	for i, o := range hr.outs {
		w := "None"
		if i < len(hr.walks) && hr.walks[i] != nil {
			w = "(Some " + coqWalk(hr.walks[i]) + ")"
		}
		steps = append(steps, fmt.Sprintf("mkStep %s (%s) (%s) %s", hr.ops[i].coqView(), hr.ops[i].coq(), o.coq(), w))
	}
	return fmt.Sprintf("CHist %s %s", coqList(steps), coqWalk(hr.final))
}

func histKey(ops []FsOp) string {
	var sb strings.Builder
	for _, op := range ops {
		fmt.Fprintf(&sb, "%s|%s|%s|%v|%d|%d;", op.Kind, op.P, op.Q, op.View, len(op.Data), len(op.Chunks))
	}
	return sb.String()
}

// ---------- C01's own additions to the shared operation generator

// oddNames: "a" and "b" together with names a careless normalisation would fold onto them (case,
// blanks, control characters, bytes that are not UTF-8, a backslash), names made of dots that are
// NOT "." or "..", the name the root directory has internally. Every one of them is an ordinary
// name of the tree model. One history in 15 also has a name longer than any host file system allows.
func oddNames() []string {
	return []string{"a", "b", "A", "a ", " a", "a\x01", "a\x7f", "\xffa", "\xfea", "a\xcc\x81", "a\\", "a\\b", "a:b",
		"...", "..a", "a..", "ROOT", "~", "*", "b ", "B"}
}

var c01ChunkSizes = []int{0, 1, 41, 63, 64, 65, 255, 256, 257, 511, 512, 513, 600, 1024, 1025, 1500, 2049}

func randBytes(r *RNG, n int) []byte {
	b := make([]byte, n)
	for i := range b {
		b[i] = byte(r.Next())
	}
	return b
}

// respell applies one more spelling feature to a raw path string (the model is fed the same string,
// so nothing has to be preserved): combinations of features and shapes spell() does not produce
// (two consecutive inner "..", a trailing "x/..", ".//", "//" at either end).
func respell(r *RNG, p string) string {
	switch r.Intn(9) {
	case 0:
		return "/" + p
	case 1:
		return "./" + p
	case 2:
		return ".//" + p
	case 3:
		return p + "//"
	case 4:
		return p + "/x/.."
	case 5:
		return p + "/x/y/../.."
	case 6:
		return p + "/./"
	case 7:
		if i := strings.Index(p, "/"); i >= 0 {
			return p[:i] + "/x/y/../../" + p[i+1:]
		}
		return "x/../" + p
	}
	return strings.Replace(p, "/", "/.//", 1)
}

// c01Tweak widens what the shared generator draws: contents nobody else wrote (so that a file that
// shows another file's bytes is seen), combined spellings, chains of up to 6 views and - in the
// histories of at most 8 operations (`big`: the content is written into the Coq case once per tree
// walk) - stream chunks around and above the sizes at which buffers grow and readers with big buffers.
func c01Tweak(r *RNG, g *FsGen, op *FsOp, big bool, files, dirs [][]string) {
	// queries and copy sources: half of them are aimed at a node of the right kind that exists NOW
	// (otherwise nine reads in ten fail and the snapshot clause is exercised on a few dozen slices only)
	aim := func(pool [][]string) {
		if len(pool) == 0 || !r.Chance(50) {
			return
		}
		c := pool[r.Intn(len(pool))]
		op.View = nil
		if len(c) > 1 && r.Chance(35) {
			i := 1 + r.Intn(len(c)-1)
			op.View = []string{g.spell(r, c[:i])}
			c = c[i:]
		}
		op.P = g.spell(r, c)
	}
	switch op.Kind {
	case "ReadFile", "Reader", "CopyFile", "IsFile", "Lstat":
		aim(files)
	case "ReadDir", "CopyDir", "IsDir":
		aim(dirs)
	}
	switch op.Kind {
	case "WriteFile":
		if r.Chance(30) {
			op.Data = randBytes(r, r.Intn(48))
		} else if big && r.Chance(5) {
			op.Data = randBytes(r, 600+r.Intn(1000))
		}
	case "Writer":
		if big && r.Chance(25) {
			op.Chunks = nil
			for n := 1 + r.Intn(3); n > 0; n-- {
				op.Chunks = append(op.Chunks, randBytes(r, c01ChunkSizes[r.Intn(len(c01ChunkSizes))]))
			}
		}
	case "Reader":
		if big && r.Chance(40) { // no nat literal above 5000 is written for Coq
			op.Bufs = []int{[]int{1, 7, 64, 512, 513, 2048}[r.Intn(6)], 4999, 4999}
		}
	}
	if r.Chance(12) {
		op.P = respell(r, op.P)
	}
	if op.Q != "" && r.Chance(12) {
		op.Q = respell(r, op.Q)
	}
	if len(op.View) > 0 && r.Chance(10) { // identity views in front of / inside the chain: same base, more depth
		id := []string{".", "", "/", "x/..", "./"}
		for n := 1 + r.Intn(3); n > 0; n-- {
			at := r.Intn(len(op.View) + 1)
			v := append([]string{}, op.View[:at]...)
			v = append(v, id[r.Intn(len(id))])
			op.View = append(v, op.View[at:]...)
		}
	}
	op.fillJSON()
}

func runC01(o *Out, rng *RNG, tier string, replay string) {
	o.Imports = "From GC Require Import Common.Base Model.Paths Model.Fs Corr.FsCorr Corr.C01."
	o.CaseType = "case"
	o.CheckFn = "check"
	o.ShardSize = 40
	o.Rule = "histories of 1-30 of the 16 Filespace operations on a fresh memfs (names a-d and prefix/dot look-alikes, every third history over a pool of odd names: case, blanks, control and non-UTF-8 bytes, backslash, dots; one history in 15 with a name of 260 bytes; depth<=3; 8 spellings per path incl. ./x, x/, /x, a//b, inner .., /./, trailing /., combined once more in 12%, plus a pool of root-addressing/climbing/odd paths; contents from a pool and random ones, in histories of at most 8 operations stream chunks of 0-2049 bytes and contents up to 1600 bytes), 30% of the operations through 1-6 nested child views that are HELD and used again by later operations of the same history (made by Filespace or by NewFilespaceWrapper); every listing handed out is kept (must not change) or overwritten at once; after every successful mutation and at the end the whole tree is walked (ReadDir+ReadFile). Plus 6 histories on one directory of 20-140 entries / one chain of 12-33 nested directories, 104 histories that write, read, copy and rewrite one file of 0 to 100 001 bytes (L2 only), and the small-scope sweep: every path of up to 4 (thorough: 5) segments over {a, b, ., .., empty} as the argument of every operation kind (copies: as source and as destination) in one history per path, directly and through a view. Each step is checked against the Go plain-tree reference (L2) and the whole history against the Coq model (L1; one sweep history in 6). Non-trivial: at least one successful mutation; distinct by the operation sequence."
	gen := defaultFsGen()
	oddGen := defaultFsGen()
	oddGen.Names = oddNames()
	longGen := defaultFsGen()
	longGen.Names = append(oddNames()[:6], strings.Repeat("n", 260))
	n := 900
	if tier == "thorough" {
		n = 6000
	}
	aliasList := 0
	hangs := 0
	only := replayIndex(replay)
	for i := 0; i < n; i++ {
		r := rng.Fork()
		if only >= 0 && i != only {
			continue
		}
		if hangs >= 3 {
			break // every further history would wait for the same time-out; the failures are reported
		}
		ln := 1 + r.Intn(30)
		if r.Chance(15) {
			ln = 1 + r.Intn(4)
		}
		g := gen
		if i%15 == 14 {
			g = longGen
			o.Stat("long_name_histories")
		} else if i%3 == 2 {
			g = oddGen
			o.Stat("odd_name_histories")
		}
		ops := make([]FsOp, ln)
		g.Reset()
		// a second instance is driven along while the history is drawn, only to know which files and
		// directories exist at each point (steering; the history is then run and judged on a fresh one)
		shadow, err := memfs.NewFilespace()
		must(err)
		shadowEnv := &c01Env{dead: true} // listings of the shadow are not probed; only the depth guard of c01FS is wanted
		for j := range ops {
			ops[j] = g.Op(r)
			var files, dirs [][]string
			if shadow != nil {
				w, ok, _ := walkFs(c01FS{innerFS: shadow, env: shadowEnv})
				if !ok {
					shadow = nil
				}
				for _, e := range w {
					if e.IsDir {
						dirs = append(dirs, e.Path)
					} else {
						files = append(files, e.Path)
					}
				}
			}
			c01Tweak(r, g, &ops[j], ln <= 8, files, dirs)
			if shadow != nil {
				if so := execFsOp(shadow, ops[j]); so.Kind == "hang" || so.Kind == "panic" {
					shadow = nil
				}
			}
		}
		root, err := memfs.NewFilespace()
		must(err)
		ref := NewRefFS()
		hr := runHistory(r, root, ref, memPolicy, ops, false, o.Stats)
		muts := 0
		for j, out := range hr.outs {
			o.Stat("op_" + ops[j].Kind)
			o.Stat("out_" + out.Kind)
			if len(ops[j].View) > 0 {
				o.Stat("via_view")
			}
			if isMutating(ops[j].Kind) && out.Kind == "unit" {
				muts++
			}
			if out.Kind == "hang" {
				hangs++
			}
		}
		desc := hr.desc()
		desc["index"] = i
		if hr.fail != "" {
			o.Fail("plain_tree", hr.fail, hr.sig, desc)
		}
		o.AddCase(hr.coqCase(), desc, histKey(ops), muts > 0)
		// snapshot clause, part 2 (listings): a listing taken earlier must not change when the directory is mutated
		if i%4 == 0 {
			if msg := listingSnapshotProbe(r); msg != "" {
				o.Fail("snapshot_listing", msg, "alias:list", map[string]interface{}{"probe": "listing snapshot"})
			}
			aliasList++
		}
	}
	o.Extra["listing_snapshot_probes"] = aliasList
	if hangs < 3 {
		next := c01Sweep(o, rng.Fork(), tier, only, n)
		next = c01WideDeep(o, rng.Fork(), tier, only, next)
		c01Sizes(o, rng.Fork(), only, next)
	}
}

// c01Sizes: "all byte contents" along the size axis, with the snapshot clause on every slice: for
// each size around the powers of two up to 100 001 bytes a file is written (WriteFile, or a stream
// in one / two chunks; on the root or through a held view), read back (ReadFile and Reader), copied,
// rewritten shorter through a stream, the copy rewritten longer - with ReadFile of both after every
// change. runHistory keeps every returned slice (must not change while the history goes on) and
// overwrites them all at the end (the tree must not change). L2 only: contents of this size are not
// written out for Coq.
func c01Sizes(o *Out, rng *RNG, only, base int) {
	sizes := []int{0, 1, 2, 63, 64, 65, 255, 256, 257, 511, 512, 513, 1023, 1024, 1025, 2047, 2048, 2049, 4095, 4096, 4097, 8193, 32768, 32769, 65537, 100001}
	idx := base
	for _, n := range sizes {
		for variant := 0; variant < 4; variant++ {
			idx++
			r := rng.Fork()
			if only >= 0 && idx != only {
				continue
			}
			var view []string
			p, q := "d/p", "e/q"
			if variant >= 2 {
				view, p, q = []string{"v"}, "p", "sub/q"
			}
			data := randBytes(r, n)
			var first FsOp
			switch {
			case variant%2 == 0:
				first = FsOp{Kind: "WriteFile", P: p, Data: data, View: view}
			case n%2 == 0:
				first = FsOp{Kind: "Writer", P: p, Chunks: [][]byte{data}, View: view}
			default:
				first = FsOp{Kind: "Writer", P: p, Chunks: [][]byte{data[:n/2], data[n/2:]}, View: view}
			}
			ops := []FsOp{
				first,
				{Kind: "ReadFile", P: p, View: view},
				{Kind: "Reader", P: p, Bufs: []int{n/3 + 1, 200000, 200000}, View: view},
				{Kind: "Lstat", P: p, View: view},
				{Kind: "CopyFile", P: p, Q: q, View: view},
				{Kind: "ReadFile", P: q, View: view},
				{Kind: "Writer", P: p, Chunks: [][]byte{randBytes(r, n/2)}, View: view},
				{Kind: "ReadFile", P: p, View: view},
				{Kind: "ReadFile", P: q, View: view},
				{Kind: "WriteFile", P: q, Data: randBytes(r, n+1), View: view},
				{Kind: "ReadFile", P: q, View: view},
				{Kind: "ReadFile", P: p, View: view},
				{Kind: "Copy", P: "", Q: "all", View: view},
				{Kind: "ReadFile", P: "all/" + q, View: view},
			}
			root, err := memfs.NewFilespace()
			must(err)
			hr := runHistory(r, root, NewRefFS(), memPolicy, ops, false, o.Stats)
			o.Stat("size_histories")
			if hr.fail != "" {
				for j := range ops { // the replay names the sizes, not the bytes
					ops[j].Data, ops[j].Chunks = nil, nil
				}
				o.Fail("plain_tree", fmt.Sprintf("content of %d bytes: %s", n, hr.fail), hr.sig,
					map[string]interface{}{"index": idx, "size": n, "variant": variant, "ops": descOps(ops, nil)})
			}
			o.CountEval(fmt.Sprintf("size|%d|%d", n, variant), true)
		}
	}
}

// c01WideDeep: the sizes the random histories never reach - one directory with 20-140 entries (files
// and directories; entries removed at the front, in the middle and at the end; listed, deep-copied,
// the copy changed, the original removed recursively) and one chain of 12-33 nested directories
// (addressed whole, through 2-6 held views that split it, copied, cut in the middle). L2 on every
// step; as a Coq case with one tree walk in 16 (a tree of 140 entries is written out per walk).
func c01WideDeep(o *Out, rng *RNG, tier string, only, base int) (last int) {
	rounds := 6
	if tier == "thorough" {
		rounds = 40
	}
	names := defaultFsGen().Names
	for k := 0; k < rounds; k++ {
		r := rng.Fork()
		idx := base + 1 + k
		if only >= 0 && idx != only {
			continue
		}
		var ops []FsOp
		var view []string
		if k%2 == 0 { // wide
			w := 20 + r.Intn(121)
			if k == 0 {
				w = 65
			}
			d := names[r.Intn(len(names))]
			if r.Bool() {
				view = []string{names[r.Intn(len(names))]}
			}
			ent := func(i int) string { return fmt.Sprintf("%s/e%d", d, i) }
			for i := 0; i < w; i++ {
				if i%3 == 2 {
					ops = append(ops, FsOp{Kind: "MkdirAll", P: ent(i), View: view})
				} else {
					ops = append(ops, FsOp{Kind: "WriteFile", P: ent(i), Data: []byte{byte(i), byte(i >> 8)}[:i%3+1], View: view})
				}
			}
			ops = append(ops, FsOp{Kind: "ReadDir", P: d, View: view})
			for _, i := range []int{0, w - 1, w / 2, 1, r.Intn(w), r.Intn(w), 32, 31, 33} {
				if i < w {
					ops = append(ops, FsOp{Kind: "Remove", P: ent(i), View: view}, FsOp{Kind: "IsExist", P: ent(i), View: view})
				}
			}
			ops = append(ops, FsOp{Kind: "ReadDir", P: d, View: view},
				FsOp{Kind: "WriteFile", P: ent(w), Data: []byte("late"), View: view},
				FsOp{Kind: "CopyDir", P: d, Q: "copy/of", View: view},
				FsOp{Kind: "ReadDir", P: "copy/of", View: view},
				FsOp{Kind: "WriteFile", P: "copy/of/e2/inside", Data: []byte("c"), View: view},
				FsOp{Kind: "Remove", P: "copy/of/" + fmt.Sprintf("e%d", w), View: view},
				FsOp{Kind: "ReadDir", P: d, View: view},
				FsOp{Kind: "Lstat", P: ent(w), View: view},
				FsOp{Kind: "RemoveAll", P: d, View: view},
				FsOp{Kind: "ReadDir", P: "copy/of", View: view},
				FsOp{Kind: "ReadDir", P: "", View: view})
			o.Stat("wide_histories")
		} else { // deep
			depth := []int{12, 20, 33}[r.Intn(3)]
			comps := make([]string, depth)
			for i := range comps {
				comps[i] = names[r.Intn(len(names))]
			}
			whole := strings.Join(comps, "/")
			cut := 1 + r.Intn(depth-2)
			var chain []string // the same chain, split into views
			at := 0
			for v := 2 + r.Intn(5); v > 0 && at < depth-1; v-- {
				n := 1 + r.Intn((depth-1-at+v-1)/v)
				chain = append(chain, strings.Join(comps[at:at+n], "/"))
				at += n
			}
			rest := strings.Join(comps[at:], "/")
			ops = []FsOp{
				{Kind: "MkdirAll", P: whole},
				{Kind: "WriteFile", P: whole + "/f", Data: []byte("deep")},
				{Kind: "ReadFile", P: "./" + strings.Join(comps, "//") + "/x/../f"},
				{Kind: "ReadFile", P: rest + "/f", View: chain},
				{Kind: "Writer", P: rest + "/g", Chunks: [][]byte{[]byte("st"), []byte("ream")}, View: chain},
				{Kind: "ReadDir", P: rest, View: chain},
				{Kind: "Lstat", P: whole + "/g"},
				{Kind: "CopyDir", P: comps[0], Q: "copy/" + comps[0]},
				{Kind: "ReadFile", P: "copy/" + whole + "/g"},
				{Kind: "Remove", P: strings.Join(comps[:cut], "/")},
				{Kind: "RemoveAll", P: strings.Join(comps[:cut+1], "/")},
				{Kind: "IsExist", P: whole},
				{Kind: "IsDir", P: strings.Join(comps[:cut], "/")},
				{Kind: "ReadFile", P: rest + "/f", View: chain},
				{Kind: "WriteFile", P: rest + "/f", Data: []byte("again"), View: chain},
				{Kind: "ReadFile", P: whole + "/f"},
				{Kind: "ReadFile", P: "copy/" + whole + "/f"},
				{Kind: "Copy", P: "copy", Q: whole + "/back"},
				{Kind: "RemoveAll", P: "copy"},
				{Kind: "ReadFile", P: whole + "/back/" + whole + "/f"},
			}
			o.Stat("deep_histories")
		}
		for j := range ops {
			ops[j].fillJSON()
		}
		root, err := memfs.NewFilespace()
		must(err)
		hr := runHistory(r, root, NewRefFS(), memPolicy, ops, false, o.Stats)
		desc := hr.desc()
		desc["index"] = idx
		if hr.fail != "" {
			o.Fail("plain_tree", "wide/deep history: "+hr.fail, hr.sig, desc)
		}
		for j := range hr.walks {
			if j%16 != 15 {
				hr.walks[j] = nil
			}
		}
		o.AddCase(hr.coqCase(), desc, histKey(ops), true)
	}
	return base + rounds
}

// c01Sweep: the quantifier "all relative path spellings" on a small scope, exhaustively: every path
// of up to maxSeg segments over {a, b, ., .., ""} is the argument of every operation kind (for the
// copies: once as source, once as destination), alternately on the root and through the view "a",
// starting from the tree {a/, a/b/, a/f, b (a FILE)}: one history per path, the kinds in an order
// that rotates with the path, IsDir(path) after each. All of them are judged by the plain-tree
// reference; one in 6 is also a Coq case.
func c01Sweep(o *Out, rng *RNG, tier string, only, base int) (last int) {
	maxSeg := 4
	if tier == "thorough" {
		maxSeg = 5
	}
	alphabet := []string{"a", "b", ".", "..", ""}
	var paths []string
	var rec func(prefix []string)
	rec = func(prefix []string) {
		if len(prefix) > 0 {
			paths = append(paths, strings.Join(prefix, "/"))
		}
		if len(prefix) == maxSeg {
			return
		}
		for _, s := range alphabet {
			rec(append(append([]string{}, prefix...), s))
		}
	}
	rec(nil)
	setup := []FsOp{
		{Kind: "MkdirAll", P: "a/b"},
		{Kind: "WriteFile", P: "a/f", Data: []byte("F")},
		{Kind: "WriteFile", P: "b", Data: []byte("B")},
	}
	kinds := append(append([]string{}, fsOpKinds...), "Copy>", "CopyDir>", "CopyFile>") // ">": the swept path is the destination
	type sweepJob struct {
		idx int
		ops []FsOp
		rng *RNG
		hr  histResult
	}
	var jobs []*sweepJob
	idx := base
	for pi, p := range paths {
		idx++
		r := rng.Fork() // before the replay filter: the same stream of choices with and without it
		if only >= 0 && idx != only {
			continue
		}
		ops := append([]FsOp{}, setup...)
		for kj := range kinds {
			ki := (kj + pi) % len(kinds) // another order of the kinds for every path: the tree they meet differs
			k := kinds[ki]
			op := FsOp{Kind: strings.TrimSuffix(k, ">"), P: p}
			switch op.Kind {
			case "Copy", "CopyDir":
				op.Q = fmt.Sprintf("n%d/m", kj)
				if strings.HasSuffix(k, ">") {
					op.P, op.Q = "a", p
				}
			case "CopyFile":
				op.Q = fmt.Sprintf("n%d/m", kj)
				if strings.HasSuffix(k, ">") {
					op.P, op.Q = "a/f", p
				}
			case "WriteFile":
				op.Data = []byte("w")
			case "Writer":
				op.Chunks = [][]byte{[]byte("w")}
			case "Reader":
				op.Bufs = []int{2, 1000}
			}
			if (pi+ki)%2 == 1 {
				op.View = []string{"a"}
				if op.Kind == "CopyFile" && strings.HasSuffix(k, ">") {
					op.P = "f"
				} else if strings.HasSuffix(k, ">") {
					op.P = "b"
				}
			}
			ops = append(ops, op, FsOp{Kind: "IsDir", P: p, View: op.View})
		}
		for j := range ops {
			ops[j].fillJSON()
		}
		jobs = append(jobs, &sweepJob{idx: idx, ops: ops, rng: r})
	}
	// the histories are independent of one another: run on 8 workers, reported in index order
	var wg sync.WaitGroup
	workerStats := make([]map[string]int, 8)
	for w := range workerStats {
		workerStats[w] = map[string]int{}
		wg.Add(1)
		go func(w int) {
			defer wg.Done()
			for j := w; j < len(jobs); j += len(workerStats) {
				root, err := memfs.NewFilespace()
				must(err)
				jobs[j].hr = runHistory(jobs[j].rng, root, NewRefFS(), memPolicy, jobs[j].ops, false, workerStats[w])
			}
		}(w)
	}
	wg.Wait()
	for _, st := range workerStats {
		for k, v := range st {
			o.Stats[k] += v
		}
	}
	for _, jb := range jobs {
		o.Stat("sweep_histories")
		desc := jb.hr.desc()
		desc["index"] = jb.idx
		if jb.hr.fail != "" {
			o.Fail("plain_tree", "spelling sweep: "+jb.hr.fail, jb.hr.sig, desc)
		}
		if jb.idx%6 == 0 || only >= 0 {
			o.AddCase(jb.hr.coqCase(), desc, histKey(jb.ops), true)
		} else {
			o.CountEval(histKey(jb.ops), true)
		}
	}
	return idx
}

// listingSnapshotProbe: create k files in a directory, take a listing, remove/add siblings, and
// check that the listing taken earlier still names the same entries.
func listingSnapshotProbe(rng *RNG) string {
	root, _ := memfs.NewFilespace()
	k := 2 + rng.Intn(5)
	for i := 0; i < k; i++ {
		root.WriteFile(fmt.Sprintf("d/f%d", i), []byte{byte(i)}, 0o644)
	}
	infos, err := root.ReadDir("d")
	if err != nil || len(infos) != k {
		return "listing probe: ReadDir failed"
	}
	names := make([]string, len(infos))
	for i, in := range infos {
		names[i] = in.Name()
	}
	root.Remove(fmt.Sprintf("d/f%d", rng.Intn(k)))
	root.WriteFile("d/new", []byte("x"), 0o644)
	root.Remove(fmt.Sprintf("d/f%d", rng.Intn(k)))
	for i, in := range infos {
		if in.Name() != names[i] {
			return fmt.Sprintf("a listing taken earlier changed after later removals: entry %d was %q, now %q", i, names[i], in.Name())
		}
	}
	// the caller may also scribble over the slice it was given
	for i := range infos {
		infos[i] = nil
	}
	again, err := root.ReadDir("d")
	if err != nil {
		return "listing probe: second ReadDir failed"
	}
	for _, in := range again {
		if in == nil {
			return "mutating a returned listing changed the directory's own list"
		}
	}
	return ""
}
