package main

import (
	"fmt"
	"strings"

	"github.com/goatcms/goatcore/filesystem"
	"github.com/goatcms/goatcore/filesystem/filespace/memfs"
)

func init() { runners["C01"] = runC01 }

var memPolicy = RefPolicy{RootCopySourceOK: true}

// viewBase: abstract base components of a view chain; ok=false when some element climbs.
func viewBase(chain []string) (base []string, ok bool) {
	for _, b := range chain {
		c, climbs := refNorm(b)
		if climbs {
			return nil, false
		}
		base = append(base, c...)
	}
	return base, true
}

type histResult struct {
	ops   []FsOp
	outs  []FsOut
	walks [][]WalkEnt // nil when not taken
	final []WalkEnt
	fail  string // first L2 contradiction
	sig   string
}

// runHistory executes ops on fs, checking every step against the plain tree (L2) with `pol`.
func runHistory(root filesystem.Filespace, ref *RefFS, pol RefPolicy, ops []FsOp, walkEvery bool) histResult {
	hr := histResult{ops: ops}
	type kept struct {
		path string
		data []byte
		copy []byte
	}
	var keptReads []kept
	type keptList struct {
		names []string
		infos []Ent
	}
	for i, op := range ops {
		o := execFsOp(root, op)
		returned := o.Data // the slice the implementation handed out (mutated at the end: snapshot clause)
		o.Data = append([]byte{}, o.Data...)
		hr.outs = append(hr.outs, o)
		var w []WalkEnt
		if hr.fail == "" {
			base, vok := viewBase(op.View)
			if !vok {
				if o.Kind != "err" {
					hr.fail = fmt.Sprintf("step %d: operation through a view whose creation must fail returned %s", i, o.Kind)
					hr.sig = "view-climb"
				}
			} else if msg := ref.Apply(pol, base, op, o); msg != "" {
				hr.fail = fmt.Sprintf("step %d %s(%q,%q) via view %q: %s", i, op.Kind, op.P, op.Q, op.View, msg)
				hr.sig = "contract:" + op.Kind
			}
			if o.Kind == "data" { // snapshot clause: keep the returned slice and a private copy
				keptReads = append(keptReads, kept{path: op.P, data: returned, copy: o.Data})
			}
		}
		if hr.fail == "" && (walkEvery || (isMutating(op.Kind) && o.Kind == "unit")) {
			var ok bool
			var why string
			w, ok, why = walkFs(root)
			if !ok {
				hr.fail = fmt.Sprintf("step %d: tree walk failed: %s", i, why)
				hr.sig = "walk"
			} else if ph := phantomNames(w); ph != "" {
				hr.fail = fmt.Sprintf("step %d: %s", i, ph)
				hr.sig = "phantom"
			} else if eq, why := walkEqual(w, ref.Walk()); !eq {
				hr.fail = fmt.Sprintf("step %d after %s(%q,%q) via %q → %s: tree differs from the plain tree model: %s", i, op.Kind, op.P, op.Q, op.View, o.Kind, why)
				hr.sig = "tree:" + op.Kind
			}
			hr.walks = append(hr.walks, w)
		} else {
			hr.walks = append(hr.walks, nil)
		}
		if o.Kind == "hang" || o.Kind == "panic" {
			break
		}
	}
	if len(hr.outs) == len(ops) {
		w, ok, why := walkFs(root)
		hr.final = w
		if hr.fail == "" {
			if !ok {
				hr.fail = "final tree walk failed: " + why
				hr.sig = "walk"
			} else if eq, why := walkEqual(w, ref.Walk()); !eq {
				hr.fail = "final tree differs from the plain tree model: " + why
				hr.sig = "tree:final"
			}
		}
	}
	// snapshot clause, part 1: mutate every slice we were handed, then the files must be unchanged
	if hr.fail == "" && len(keptReads) > 0 {
		for _, k := range keptReads {
			for i := range k.data {
				k.data[i] ^= 0xff
			}
		}
		w, ok, _ := walkFs(root)
		if ok {
			if eq, why := walkEqual(w, ref.Walk()); !eq {
				hr.fail = "mutating slices returned by ReadFile changed the stored tree: " + why
				hr.sig = "alias:read"
			}
		}
	}
	return hr
}

func (hr histResult) desc() map[string]interface{} {
	return map[string]interface{}{"history": descOps(hr.ops, hr.outs)}
}

func (hr histResult) coqCase() string {
	steps := make([]string, 0, len(hr.outs))
	for i, o := range hr.outs {
		w := "None"
		if i < len(hr.walks) && hr.walks[i] != nil {
			w = "(Some " + coqWalk(hr.walks[i]) + ")"
		}
		steps = append(steps, fmt.Sprintf("mkStep %s (%s) (%s) %s", hr.ops[i].coqView(), hr.ops[i].coq(), o.coq(), w))
	}
	return fmt.Sprintf("CHist %s %s", coqList(steps), coqWalk(hr.final))
}

func histKey(ops []FsOp) string {
	var sb strings.Builder
	for _, op := range ops {
		fmt.Fprintf(&sb, "%s|%s|%s|%v|%d|%d;", op.Kind, op.P, op.Q, op.View, len(op.Data), len(op.Chunks))
	}
	return sb.String()
}

func runC01(o *Out, rng *RNG, tier string, replay string) {
	o.Imports = "From GC Require Import Common.Base Model.Paths Model.Fs Corr.FsCorr Corr.C01."
	o.CaseType = "case"
	o.CheckFn = "check"
	o.ShardSize = 40
	o.Rule = "histories of 1-30 of the 16 Filespace operations on a fresh memfs (names a-d, depth<=3, 8 spellings per path incl. ./x, x/, /x, a//b, inner .., /./, trailing /., plus a pool of root-addressing/climbing/odd paths), 30% of the operations through 1-3 nested child views; after every successful mutation and at the end the whole tree is walked (ReadDir+ReadFile). Each step is checked against the Go plain-tree reference (L2) and the whole history against the Coq model (L1). Non-trivial: at least one successful mutation; distinct by the operation sequence."
	gen := defaultFsGen()
	n := 900
	if tier == "thorough" {
		n = 6000
	}
	aliasList := 0
	only := replayIndex(replay)
	for i := 0; i < n; i++ {
		r := rng.Fork()
		if only >= 0 && i != only {
			continue
		}
		ln := 1 + r.Intn(30)
		if r.Chance(15) {
			ln = 1 + r.Intn(4)
		}
		ops := make([]FsOp, ln)
		gen.Reset()
		for j := range ops {
			ops[j] = gen.Op(r)
		}
		root, err := memfs.NewFilespace()
		must(err)
		ref := NewRefFS()
		hr := runHistory(root, ref, memPolicy, ops, false)
		muts := 0
		for j, out := range hr.outs {
			o.Stat("op_" + ops[j].Kind)
			o.Stat("out_" + out.Kind)
			if len(ops[j].View) > 0 {
				o.Stat("via_view")
			}
			if isMutating(ops[j].Kind) && out.Kind == "unit" {
				muts++
			}
		}
		desc := hr.desc()
		desc["index"] = i
		if hr.fail != "" {
			o.Fail("plain_tree", hr.fail, hr.sig, desc)
		}
		o.AddCase(hr.coqCase(), desc, histKey(ops), muts > 0)
		// snapshot clause, part 2 (listings): a listing taken earlier must not change when the directory is mutated
		if i%4 == 0 {
			if msg := listingSnapshotProbe(r); msg != "" {
				o.Fail("snapshot_listing", msg, "alias:list", map[string]interface{}{"probe": "listing snapshot"})
			}
			aliasList++
		}
	}
	o.Extra["listing_snapshot_probes"] = aliasList
}

// listingSnapshotProbe: create k files in a directory, take a listing, remove/add siblings, and
// check that the listing taken earlier still names the same entries.
func listingSnapshotProbe(rng *RNG) string {
	root, _ := memfs.NewFilespace()
	k := 2 + rng.Intn(5)
	for i := 0; i < k; i++ {
		root.WriteFile(fmt.Sprintf("d/f%d", i), []byte{byte(i)}, 0o644)
	}
	infos, err := root.ReadDir("d")
	if err != nil || len(infos) != k {
		return "listing probe: ReadDir failed"
	}
	names := make([]string, len(infos))
	for i, in := range infos {
		names[i] = in.Name()
	}
	root.Remove(fmt.Sprintf("d/f%d", rng.Intn(k)))
	root.WriteFile("d/new", []byte("x"), 0o644)
	root.Remove(fmt.Sprintf("d/f%d", rng.Intn(k)))
	for i, in := range infos {
		if in.Name() != names[i] {
			return fmt.Sprintf("a listing taken earlier changed after later removals: entry %d was %q, now %q", i, names[i], in.Name())
		}
	}
	// the caller may also scribble over the slice it was given
	for i := range infos {
		infos[i] = nil
	}
	again, err := root.ReadDir("d")
	if err != nil {
		return "listing probe: second ReadDir failed"
	}
	for _, in := range again {
		if in == nil {
			return "mutating a returned listing changed the directory's own list"
		}
	}
	return ""
}
