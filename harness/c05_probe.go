package main

import (
	"bytes"
	"fmt"

	"github.com/goatcms/goatcore/filesystem"
	"github.com/goatcms/goatcore/filesystem/filespace/encryptfs"
	"github.com/goatcms/goatcore/filesystem/filespace/memfs"
)

// settingsIsolationProbe: several encrypted filespaces are created from settings whose Secret /
// Salt slices SHARE backing arrays with spare capacity (what a caller gets from append / slicing
// a config buffer) and whose slices are scribbled over after construction. Every filespace must
// keep reading its own data (round trip), and a filespace with another salt must be refused.
func (r *c05Run) settingsIsolationProbe() {
	for _, c := range r.ciphers {
		for round := 0; round < 6; round++ {
			backing := make([]byte, 0, 256)
			backing = append(backing, []byte(fmt.Sprintf("shared-secret-%d", round))...)
			secret := backing[:len(backing):cap(backing)] // spare capacity: append() writes in place
			salts := [][]byte{[]byte("salt-one"), []byte("salt-two"), []byte("salt-3")}
			base, _ := memfs.NewFilespace()
			enc := make([]filesystem.Filespace, len(salts))
			for i, salt := range salts {
				saltCopy := append(make([]byte, 0, 64), salt...)
				fs, err := encryptfs.NewEncryptFS(base, encryptfs.Settings{Secret: secret, Salt: saltCopy, HostOnly: round%2 == 1, Cipher: c.C})
				must(err)
				enc[i] = fs
				if round >= 3 {
					for j := range saltCopy { // the caller reuses its salt buffer
						saltCopy[j] ^= 0xff
					}
				}
			}
			pt := []byte(fmt.Sprintf("plaintext of round %d", round))
			desc := map[string]interface{}{"probe": "settings-isolation", "cipher": c.Name, "round": round}
			for i := range enc {
				p := fmt.Sprintf("f%d", i)
				var werr error
				if g := c05Guard(func() { werr = enc[i].WriteFile(p, pt, 0o644) }); g != "done" || werr != nil {
					r.o.Fail("no_panic", fmt.Sprintf("settings isolation probe: WriteFile %s err=%v", g, werr), "settings-isolation", desc)
				}
			}
			for i := range enc {
				p := fmt.Sprintf("f%d", i)
				var got []byte
				var err error
				if g := c05Guard(func() { got, err = enc[i].ReadFile(p) }); g != "done" {
					r.o.Fail("no_panic", "settings isolation probe: ReadFile "+g, "settings-isolation", desc)
					continue
				}
				if err != nil || !bytes.Equal(got, pt) {
					r.o.Fail("roundtrip", fmt.Sprintf("filespace #%d (own secret/salt) cannot read back its own file after sibling filespaces were created from the same Secret slice: err=%v", i, err), "settings-isolation", desc)
				}
				for j := range enc {
					if j == i {
						continue
					}
					var e2 error
					var g2 []byte
					c05Guard(func() { g2, e2 = enc[j].ReadFile(p) })
					if e2 == nil {
						r.o.Fail("wrong_key", fmt.Sprintf("filespace with another salt (#%d) read the file of #%d (%d bytes)", j, i, len(g2)), "settings-isolation", desc)
					}
				}
				r.o.CountEval(fmt.Sprintf("iso|%s|%d|%d", c.Name, round, i), true)
			}
			r.o.Stat("settings_isolation_rounds")
		}
	}
}
