package main

// C02 — Disk filespace obeys the same contract as the in-memory one.
// Three-way differential on histories: the same generated history runs on a fresh memfs and on a
// fresh diskfs rooted in a temp directory (both direct, or both behind a child view created once on
// an existing directory); after every step both outputs and both trees are recorded.
//   L1 (Coq, Corr/C02.v): memfs vs Model/Fs.v, diskfs vs Model/DiskFs.v, and the statement of
//       C02_equiv/C02_view on the implementations' own answers wherever pre holds.
//   L2 (here): backends_agree (where pre holds), no_panic, frame_mem/frame_disk (nothing outside
//       the addressed paths changes), host_untouched (directory above the root), plain_tree_mem /
//       plain_tree_disk (each backend against the Go plain-tree reference under its policy).

import (
	"fmt"
	"os"
	"path/filepath"
	"sort"
	"strings"
	"time"

	"github.com/goatcms/goatcore/filesystem"
	"github.com/goatcms/goatcore/filesystem/filespace/diskfs"
	"github.com/goatcms/goatcore/filesystem/filespace/memfs"
)

func init() { runners["C02"] = runC02 }

var diskPolicy = RefPolicy{RemoveAllMissingOK: true, CopyOverwriteFile: true, CopyMergeDir: true, WriterNeedsParent: true}

// ---------- a tree as a map (from a walk)

type c02Tree map[string]refEnt // key: components joined by "/"

func treeOf(w []WalkEnt) c02Tree {
	t := c02Tree{}
	for _, e := range w {
		t[key(e.Path)] = refEnt{dir: e.IsDir, data: e.Data}
	}
	return t
}

func (t c02Tree) get(c []string) (refEnt, bool) {
	if len(c) == 0 {
		return refEnt{dir: true}, true
	}
	e, ok := t[key(c)]
	return e, ok
}
func (t c02Tree) isDir(c []string) bool  { e, ok := t.get(c); return ok && e.dir }
func (t c02Tree) isFile(c []string) bool { e, ok := t.get(c); return ok && !e.dir }
func (t c02Tree) exists(c []string) bool { _, ok := t.get(c); return ok }

func cat(a, b []string) []string { return append(append([]string{}, a...), b...) }
func parentOf(c []string) []string {
	if len(c) == 0 {
		return nil
	}
	return c[:len(c)-1]
}

// c02Pre mirrors Model/DiskFs.v pre_at (the weakest preconditions under which the models agree).
func c02Pre(b []string, t c02Tree, op FsOp) bool {
	pc, pclimb := refNorm(op.P)
	p := cat(b, pc)
	copyFile := func(s, d []string, droot bool) bool {
		return t.isFile(s) && !droot && !t.exists(d) && t.isDir(parentOf(d))
	}
	copyDir := func(s, d []string, droot bool) bool {
		return t.isDir(s) && !droot && !t.exists(d) && !isPrefixComps(s, d)
	}
	switch op.Kind {
	case "Copy", "CopyDir", "CopyFile":
		qc, qclimb := refNorm(op.Q)
		if pclimb || qclimb {
			return true
		}
		q := cat(b, qc)
		switch op.Kind {
		case "Copy":
			return copyFile(p, q, len(qc) == 0) || copyDir(p, q, len(qc) == 0)
		case "CopyDir":
			return copyDir(p, q, len(qc) == 0)
		}
		return copyFile(p, q, len(qc) == 0)
	case "Reader":
		return pclimb || !t.isDir(p)
	case "Writer":
		return pclimb || len(pc) == 0 || t.isDir(parentOf(p))
	case "Remove":
		return pclimb || len(pc) > 0
	case "RemoveAll":
		return pclimb || (len(pc) > 0 && t.exists(p))
	case "Filespace":
		return pclimb || t.isDir(p)
	}
	return true
}

// c02PropPre mirrors prop_pre_at (the property's literal wording); only used for the statistics.
func c02PropPre(b []string, t c02Tree, op FsOp) bool {
	pc, pclimb := refNorm(op.P)
	if pclimb {
		return false
	}
	p := cat(b, pc)
	parentOK := func(r []string) bool { return len(r) > 0 && t.isDir(parentOf(cat(b, r))) }
	switch op.Kind {
	case "Copy", "CopyDir", "CopyFile":
		qc, qclimb := refNorm(op.Q)
		if qclimb {
			return false
		}
		q := cat(b, qc)
		src := t.exists(p)
		if op.Kind == "CopyDir" {
			src = t.isDir(p)
		} else if op.Kind == "CopyFile" {
			src = t.isFile(p)
		}
		return src && parentOK(qc) && !t.exists(q) && !isPrefixComps(p, q)
	case "ReadDir", "Filespace":
		return t.isDir(p)
	case "ReadFile", "Reader":
		return t.isFile(p)
	case "Lstat":
		return t.exists(p)
	case "MkdirAll", "WriteFile":
		return len(pc) > 0
	case "Writer":
		return parentOK(pc)
	case "Remove", "RemoveAll":
		return len(pc) > 0 && t.exists(p)
	}
	return true
}

// ---------- frame oracle: nothing outside the addressed paths changes

func c02Targets(b []string, op FsOp) (targets [][]string, climbs bool) {
	if !isMutating(op.Kind) {
		return nil, false
	}
	s := op.P
	if op.Kind == "Copy" || op.Kind == "CopyDir" || op.Kind == "CopyFile" {
		if _, c := refNorm(op.P); c {
			return nil, true
		}
		s = op.Q
	}
	c, cl := refNorm(s)
	if cl {
		return nil, true
	}
	return [][]string{cat(b, c)}, false
}

func entEq(a, b refEnt) bool { return a.dir == b.dir && (a.dir || string(a.data) == string(b.data)) }

func c02Frame(before, after c02Tree, b []string, op FsOp) string {
	targets, _ := c02Targets(b, op)
	keys := map[string]bool{}
	for k := range before {
		keys[k] = true
	}
	for k := range after {
		keys[k] = true
	}
	var ks []string
	for k := range keys {
		ks = append(ks, k)
	}
	sort.Strings(ks)
	for _, k := range ks {
		x, okx := before[k]
		y, oky := after[k]
		if okx && oky && entEq(x, y) {
			continue
		}
		path := strings.Split(k, "/")
		allowed := false
		for _, t := range targets {
			if isPrefixComps(t, path) { // the target itself or below it
				allowed = true
			}
			if !okx && oky && y.dir && isPrefixComps(path, t) { // a new directory on the way to the target
				allowed = true
			}
		}
		if !allowed {
			return fmt.Sprintf("node %q changed (before: present=%v, after: present=%v) although it is outside the addressed path(s) %q", k, okx, oky, targets)
		}
	}
	return ""
}

// ---------- host snapshot (everything in the scratch directory except the filespace root)

func hostSnapshot(dir string) string {
	var l []string
	filepath.Walk(dir, func(p string, i os.FileInfo, err error) error {
		rel, _ := filepath.Rel(dir, p)
		if err != nil {
			l = append(l, "ERR "+rel)
			return nil
		}
		if rel == "root" {
			return filepath.SkipDir
		}
		if i.IsDir() {
			l = append(l, rel+"/")
		} else {
			d, _ := os.ReadFile(p)
			l = append(l, rel+"="+string(d))
		}
		return nil
	})
	sort.Strings(l)
	return strings.Join(l, "|")
}

// ---------- disk corners: outcomes the plain-tree contract leaves open beyond RefPolicy; there
// only no_panic / frame / host oracles apply and the reference is re-synchronised from the walk.
func c02DiskCorner(b []string, t c02Tree, op FsOp) bool {
	if len(b) > 0 && !t.isDir(b) {
		return true // the child's own host directory is gone
	}
	pc, pclimb := refNorm(op.P)
	if pclimb {
		return false
	}
	p := cat(b, pc)
	switch op.Kind {
	case "Remove", "RemoveAll":
		return len(pc) == 0
	case "Copy", "CopyDir", "CopyFile":
		qc, qclimb := refNorm(op.Q)
		if qclimb {
			return false
		}
		q := cat(b, qc)
		if len(qc) == 0 || len(pc) == 0 || t.exists(q) {
			return true
		}
		if t.isDir(p) && op.Kind == "CopyFile" {
			return true // opens the directory, creates the destination, fails while copying
		}
		if t.isFile(p) && op.Kind != "CopyDir" && !t.isDir(parentOf(q)) {
			return true // file copies do not create the destination's parents
		}
	}
	return false
}

// ---------- generation

// smartOp builds an operation from the CURRENT tree so that the preconditions are usually met.
func c02SmartOp(rng *RNG, g *FsGen, b []string, t c02Tree) FsOp {
	var files, dirs [][]string
	dirs = append(dirs, []string{})
	var keys []string
	for k := range t {
		keys = append(keys, k)
	}
	sort.Strings(keys)
	for _, k := range keys {
		c := strings.Split(k, "/")
		if !isPrefixComps(b, c) || len(c) == len(b) {
			continue
		}
		rel := c[len(b):]
		if t[k].dir {
			dirs = append(dirs, rel)
		} else {
			files = append(files, rel)
		}
	}
	pick := func(l [][]string) []string { return l[rng.Intn(len(l))] }
	fresh := func() []string { // an existing directory (depth-limited) plus a name
		for i := 0; i < 8; i++ {
			d := pick(dirs)
			if len(d) <= g.MaxDepth {
				return cat(d, []string{g.Names[rng.Intn(len(g.Names))]})
			}
		}
		return []string{g.Names[rng.Intn(len(g.Names))]}
	}
	anyNode := func() []string {
		if len(files) > 0 && (len(dirs) == 1 || rng.Bool()) {
			return pick(files)
		}
		return pick(dirs)
	}
	kinds := append(append([]string{}, g.Kinds...), "Copy", "CopyDir", "CopyDir", "CopyDir", "CopyFile")
	op := FsOp{Kind: kinds[rng.Intn(len(kinds))]}
	switch op.Kind {
	case "Copy":
		op.P, op.Q = g.spell(rng, anyNode()), g.spell(rng, fresh())
	case "CopyDir":
		op.P, op.Q = g.spell(rng, pick(dirs)), g.spell(rng, fresh())
	case "CopyFile":
		if len(files) == 0 {
			op.Kind = "WriteFile"
			op.P = g.spell(rng, fresh())
			op.Data = g.Contents[rng.Intn(len(g.Contents))]
		} else {
			op.P, op.Q = g.spell(rng, pick(files)), g.spell(rng, fresh())
		}
	case "ReadDir", "Filespace", "IsDir":
		op.P = g.spell(rng, pick(dirs))
	case "ReadFile", "Reader", "IsFile":
		if len(files) == 0 {
			op.P = g.spell(rng, fresh())
		} else {
			op.P = g.spell(rng, pick(files))
		}
	case "IsExist", "Lstat", "Remove", "RemoveAll":
		op.P = g.spell(rng, anyNode())
	case "MkdirAll":
		op.P = g.spell(rng, cat(fresh(), g.comps(rng)[:1]))
	case "WriteFile":
		if len(files) > 0 && rng.Chance(35) {
			op.P = g.spell(rng, pick(files))
		} else {
			op.P = g.spell(rng, fresh())
		}
		op.Data = g.Contents[rng.Intn(len(g.Contents))]
	case "Writer":
		if len(files) > 0 && rng.Chance(50) {
			op.P = g.spell(rng, pick(files)) // truncation of an existing file
		} else {
			op.P = g.spell(rng, fresh())
		}
	}
	if op.Kind == "Writer" {
		n := rng.Intn(4)
		for i := 0; i < n; i++ {
			c := g.Contents[rng.Intn(len(g.Contents))]
			if len(c) > 40 {
				c = c[:40]
			}
			op.Chunks = append(op.Chunks, c)
		}
	}
	if op.Kind == "Reader" {
		n := 1 + rng.Intn(5)
		for i := 0; i < n; i++ {
			op.Bufs = append(op.Bufs, []int{0, 1, 2, 3, 5, 16, 64, 400}[rng.Intn(8)])
		}
		op.Bufs = append(op.Bufs, 1000)
	}
	op.fillJSON()
	return op
}

// cornerOp: copies between EXISTING nodes (merge into a directory / the root, overwrite a file,
// directory as CopyFile source, destination above the source) — outside the preconditions.
func c02CornerOp(rng *RNG, g *FsGen, b []string, t c02Tree) FsOp {
	var nodes [][]string
	nodes = append(nodes, []string{})
	var keys []string
	for k := range t {
		keys = append(keys, k)
	}
	sort.Strings(keys)
	for _, k := range keys {
		c := strings.Split(k, "/")
		if isPrefixComps(b, c) && len(c) > len(b) {
			nodes = append(nodes, c[len(b):])
		}
	}
	op := FsOp{Kind: []string{"Copy", "Copy", "CopyDir", "CopyFile"}[rng.Intn(4)]}
	op.P = g.spell(rng, nodes[rng.Intn(len(nodes))])
	op.Q = g.spell(rng, nodes[rng.Intn(len(nodes))])
	op.fillJSON()
	return op
}

// ---------- one history

type c02Step struct {
	op           FsOp
	mout, dout   FsOut
	mwalk, dwalk []WalkEnt // nil for non-mutating operations
	pre          bool
}

type c02Hist struct {
	steps          []c02Step
	mfinal, dfinal []WalkEnt
	view           []string
	idx            int
	shape, setup   string
}

func (h *c02Hist) desc() map[string]interface{} {
	l := make([]map[string]interface{}, len(h.steps))
	for i, s := range h.steps {
		mo, do := s.mout, s.dout
		mo.fillJSON()
		do.fillJSON()
		l[i] = map[string]interface{}{"op": s.op, "mem": mo, "disk": do, "pre": s.pre}
	}
	return map[string]interface{}{"index": h.idx, "view": h.view, "history": l, "shape": h.shape, "setup": h.setup}
}

func (h *c02Hist) coqCase() string {
	steps := make([]string, len(h.steps))
	for i, s := range h.steps {
		mw, dw := "None", "None"
		if s.mwalk != nil {
			mw = "(Some " + coqWalk(s.mwalk) + ")"
		}
		if s.dwalk != nil {
			dw = "(Some " + coqWalk(s.dwalk) + ")"
		}
		steps[i] = fmt.Sprintf("mkD %s (%s) (%s) %s (%s) %s", s.op.coqView(), s.op.coq(), s.mout.coq(), mw, s.dout.coq(), dw)
	}
	return fmt.Sprintf("CHist2 %s %s %s", coqList(steps), coqWalk(h.mfinal), coqWalk(h.dfinal))
}

func nonNilWalk(w []WalkEnt) []WalkEnt {
	if w == nil {
		return []WalkEnt{}
	}
	return w
}

func chunksData(o FsOut) string {
	var sb strings.Builder
	for _, c := range o.Chunks {
		sb.Write(c.Data)
	}
	return sb.String()
}

// outsAgree: the projected observables of the two backends are equivalent.
func outsAgree(a, b FsOut) string {
	if a.Kind != b.Kind {
		return fmt.Sprintf("result class %s (memory) vs %s (disk)", a.Kind, b.Kind)
	}
	switch a.Kind {
	case "bool":
		if a.B != b.B {
			return fmt.Sprintf("answer %v (memory) vs %v (disk)", a.B, b.B)
		}
	case "data":
		if string(a.Data) != string(b.Data) {
			return fmt.Sprintf("file bytes differ: %d bytes (memory) vs %d bytes (disk)", len(a.Data), len(b.Data))
		}
	case "list":
		x, y := append([]Ent{}, a.List...), append([]Ent{}, b.List...)
		sort.Slice(x, func(i, j int) bool { return x[i].Name < x[j].Name })
		sort.Slice(y, func(i, j int) bool { return y[i].Name < y[j].Name })
		if fmt.Sprint(x) != fmt.Sprint(y) {
			return fmt.Sprintf("listing sets differ: %v (memory) vs %v (disk)", x, y)
		}
	case "stat":
		if a.IsDir != b.IsDir || (!a.IsDir && a.Size != b.Size) {
			return fmt.Sprintf("Lstat differs: dir=%v size=%d (memory) vs dir=%v size=%d (disk)", a.IsDir, a.Size, b.IsDir, b.Size)
		}
	case "chunks":
		if chunksData(a) != chunksData(b) {
			return fmt.Sprintf("reader bytes differ: %d bytes (memory) vs %d bytes (disk)", len(chunksData(a)), len(chunksData(b)))
		}
	}
	return ""
}

func c02Exec(fs filesystem.Filespace, op FsOp) FsOut {
	o := withTimeout(20*time.Second, func() FsOut { return execOn(fs, op) })
	o.Data = append([]byte{}, o.Data...)
	return o
}

func runC02History(o *Out, r *RNG, gen *FsGen, scratch string, idx int, maxLen int, opts c02Opts) {
	dir := fmt.Sprintf("%s/h%d", scratch, idx)
	must(os.MkdirAll(dir+"/root", 0o755))
	must(os.MkdirAll(dir+"/keep", 0o755))
	must(os.WriteFile(dir+"/canary", []byte("host canary"), 0o644))
	must(os.WriteFile(dir+"/keep/x", []byte("x"), 0o644))
	defer os.RemoveAll(dir)
	host0 := hostSnapshot(dir)

	mroot, err := memfs.NewFilespace()
	must(err)
	droot, err := diskfs.NewFilespace(dir + "/root")
	must(err)
	var mfs, dfs filesystem.Filespace = mroot, droot
	mref, dref := NewRefFS(), NewRefFS()
	h := &c02Hist{idx: idx, shape: opts.tag, setup: opts.setupDesc}
	var base []string
	failed := false
	fail := func(oracle, what, sig string) {
		if !failed {
			o.Fail(oracle, what, sig, h.desc())
			failed = true
		}
	}
	ln := 1 + r.Intn(maxLen)
	if r.Chance(12) {
		ln = 1 + r.Intn(4)
	}
	viewMode := r.Chance(30)
	gen.Reset()
	if opts.namePool != nil {
		gen.Names = c02DrawNames(r, opts.namePool)
	}
	o.Stat("shape_" + opts.tag)
	var mcur, dcur c02Tree = c02Tree{}, c02Tree{}
	muts, preCount := 0, 0

	step := func(op FsOp, onRoot bool) bool {
		mtarget, dtarget := mfs, dfs
		b := base
		if onRoot {
			mtarget, dtarget, b = mroot, droot, nil
		}
		pre := c02Pre(b, dcur, op)
		if op.Kind == "Copy" || op.Kind == "CopyDir" {
			pc, c1 := refNorm(op.P)
			qc, c2 := refNorm(op.Q)
			if !c1 && !c2 && dcur.isDir(cat(b, pc)) && dcur.isDir(cat(b, qc)) && !isPrefixComps(cat(b, pc), cat(b, qc)) {
				o.Stat("disk_merge_copy")
				if isPrefixComps(cat(b, qc), cat(b, pc)) {
					o.Stat("disk_merge_into_ancestor")
				}
			}
		}
		treesEqual := func() bool { eq, _ := walkEqual(walkOfTree(mcur), walkOfTree(dcur)); return eq }
		comparable := pre && treesEqual() && dcur.isDir(b)
		mo := c02Exec(mtarget, op)
		do := c02Exec(dtarget, op)
		st := c02Step{op: op, mout: mo, dout: do, pre: comparable}
		h.steps = append(h.steps, st)
		cur := &h.steps[len(h.steps)-1]
		o.Stat("op_" + op.Kind)
		o.Stat("mem_out_" + mo.Kind)
		o.Stat("disk_out_" + do.Kind)
		if comparable {
			o.Stat("pre_holds")
			preCount++
			if c02PropPre(b, dcur, op) {
				o.Stat("prop_pre_holds")
			}
		} else {
			o.Stat("pre_fails_" + op.Kind)
		}
		for _, x := range []struct {
			n string
			o FsOut
		}{{"memory", mo}, {"disk", do}} {
			if x.o.Kind == "panic" || x.o.Kind == "hang" {
				fail("no_panic", fmt.Sprintf("step %d %s(%q,%q) on the %s backend: %s %s", len(h.steps)-1, op.Kind, op.P, op.Q, x.n, x.o.Kind, x.o.Msg), "panic:"+op.Kind)
				return false
			}
		}
		// the host directory of the ROOT filespace may have been removed by Remove("")/RemoveAll(""):
		// not representable in the tree model; re-created so the history can go on
		if _, err := os.Stat(dir + "/root"); err != nil {
			must(os.Mkdir(dir+"/root", 0o755))
			o.Stat("host_root_recreated")
		}
		mw, ok1, why1 := walkFs(mroot)
		dw, ok2, why2 := walkFs(droot)
		if !ok1 || !ok2 {
			fail("walk", fmt.Sprintf("step %d: tree walk failed: %s %s", len(h.steps)-1, why1, why2), "walk")
			return false
		}
		mw, dw = nonNilWalk(mw), nonNilWalk(dw)
		mnew, dnew := treeOf(mw), treeOf(dw)
		if isMutating(op.Kind) {
			cur.mwalk, cur.dwalk = mw, dw
		}
		where := fmt.Sprintf("step %d %s(%q,%q) view %q", len(h.steps)-1, op.Kind, op.P, op.Q, op.View)
		// (b) frame, both backends, every step
		if msg := c02Frame(mcur, mnew, b, op); msg != "" {
			fail("frame_mem", where+" → "+mo.Kind+": memory backend: "+msg, "frame-mem:"+op.Kind)
		}
		if msg := c02Frame(dcur, dnew, b, op); msg != "" {
			fail("frame_disk", where+" → "+do.Kind+": disk backend: "+msg, "frame-disk:"+op.Kind)
		}
		if hs := hostSnapshot(dir); hs != host0 {
			fail("host_untouched", where+": the host directory above the filespace root changed: "+hs, "host:"+op.Kind)
		}
		if ph := phantomNames(dw); ph != "" {
			fail("plain_tree_disk", where+": "+ph, "phantom-disk")
		}
		// (a) where the preconditions hold: same result, same tree
		if comparable {
			if msg := outsAgree(mo, do); msg != "" {
				fail("backends_agree", where+" (preconditions met): "+msg, "agree-out:"+op.Kind)
			} else if eq, why := walkEqual(mw, dw); !eq {
				fail("backends_agree", where+" (preconditions met) → "+mo.Kind+": trees differ (memory vs disk): "+why, "agree-tree:"+op.Kind)
			}
		}
		// (b) each backend against the plain tree under its policy
		if msg := mref.Apply(memPolicy, b, op, mo); msg != "" {
			fail("plain_tree_mem", where+": memory backend: "+msg, "contract-mem:"+op.Kind)
		} else if eq, why := walkEqual(mw, mref.Walk()); !eq {
			fail("plain_tree_mem", where+" → "+mo.Kind+": memory tree differs from the plain tree: "+why, "tree-mem:"+op.Kind)
		}
		dtry := dref.Clone()
		msg := ""
		if pc, climbs := refNorm(op.P); op.Kind == "Reader" && do.Kind == "chunks" && !climbs && dcur.isFile(cat(b, pc)) {
			// os.File reports io.EOF by the call AFTER the one that reached the end: only the bytes count
			if e, _ := dcur.get(cat(b, pc)); chunksData(do) != string(e.data) {
				msg = "Reader: bytes differ from the stored content"
			}
		} else {
			msg = dtry.Apply(diskPolicy, b, op, do)
		}
		eq, why := true, ""
		if msg == "" {
			eq, why = walkEqual(dw, dtry.Walk())
		}
		if msg != "" || !eq {
			if c02DiskCorner(b, dcur, op) {
				o.Stat("disk_corner_" + op.Kind)
				dtry = NewRefFS()
				for k, v := range dnew {
					dtry.m[k] = v
				}
			} else if msg != "" {
				fail("plain_tree_disk", where+": disk backend: "+msg, "contract-disk:"+op.Kind)
			} else {
				fail("plain_tree_disk", where+" → "+do.Kind+": disk tree differs from the plain tree: "+why, "tree-disk:"+op.Kind)
			}
		}
		dref = dtry
		if isMutating(op.Kind) && (mo.Kind == "unit" || do.Kind == "unit") {
			muts++
		}
		mcur, dcur = mnew, dnew
		return true
	}

	if viewMode {
		base = gen.comps(r)
		if len(base) > 2 {
			base = base[:2]
		}
		if r.Chance(8) {
			base = nil // a view of the root directory itself: Filespace("") / Filespace(".")
		}
		bs := gen.spell(r, base)
		mk := FsOp{Kind: "MkdirAll", P: bs}
		mk.fillJSON()
		if !step(mk, true) {
			goto done
		}
		var e1, e2 error
		if len(base) == 2 && r.Chance(40) {
			// the same view reached in two steps: Filespace(b0).Filespace(b1) (a child of a child)
			b0, b1 := gen.spell(r, base[:1]), gen.spell(r, base[1:])
			bs = b0 + "/" + b1
			var m1, d1 filesystem.Filespace
			if m1, e1 = mroot.Filespace(b0); e1 == nil && m1 != nil {
				mfs, e1 = m1.Filespace(b1)
			}
			if d1, e2 = droot.Filespace(b0); e2 == nil && d1 != nil {
				dfs, e2 = d1.Filespace(b1)
			}
			o.Stat("history_view_two_steps")
		} else {
			mfs, e1 = mroot.Filespace(bs)
			dfs, e2 = droot.Filespace(bs)
		}
		if e1 != nil || e2 != nil || mfs == nil || dfs == nil {
			fail("backends_agree", fmt.Sprintf("Filespace(%q) on a directory created just before failed: memory %v, disk %v", bs, e1, e2), "view-create")
			goto done
		}
		h.view = []string{bs}
		o.Stat("history_view")
	} else {
		o.Stat("history_root")
	}
	if len(opts.setup) > 0 {
		// bulk preparation (wide directories): applied to both backends without the per-step walks
		for i, op := range opts.setup {
			mo, do := c02Exec(mfs, op), c02Exec(dfs, op)
			if mo.Kind != "unit" || do.Kind != "unit" {
				fail("setup", fmt.Sprintf("preparation step %d %s(%q): memory %s %s, disk %s %s", i, op.Kind, op.P, mo.Kind, mo.Msg, do.Kind, do.Msg), "setup:"+op.Kind)
				goto done
			}
		}
		mw, ok1, why1 := walkFs(mroot)
		dw, ok2, why2 := walkFs(droot)
		if !ok1 || !ok2 {
			fail("walk", "after the preparation: tree walk failed: "+why1+" "+why2, "walk")
			goto done
		}
		if eq, why := walkEqual(mw, dw); !eq {
			fail("backends_agree", "after the preparation (MkdirAll/WriteFile only): trees differ (memory vs disk): "+why, "agree-tree:setup")
			goto done
		}
		mcur, dcur = treeOf(mw), treeOf(dw)
		mref, dref = NewRefFS(), NewRefFS()
		for k, v := range mcur {
			mref.m[k] = v
		}
		for k, v := range dcur {
			dref.m[k] = v
		}
		if want := opts.setupWant; want != nil {
			if eq, why := walkEqual(dw, want(base)); !eq {
				fail("plain_tree_disk", "after the preparation: the tree is not what was written: "+why, "tree-disk:setup")
				goto done
			}
		}
	}
	if opts.script != nil {
		for _, op := range opts.script {
			op.View = h.view
			op.fillJSON()
			if !step(op, false) {
				break
			}
		}
		goto done
	}
	for i := 0; i < ln; i++ {
		var op FsOp
		wantPre := r.Chance(80)
		for try := 0; ; try++ {
			if opts.opGen != nil {
				op = opts.opGen(r, gen, base, dcur)
			} else if wantPre && r.Chance(70) {
				op = c02SmartOp(r, gen, base, dcur)
			} else if !wantPre && r.Chance(20) {
				op = c02CornerOp(r, gen, base, dcur)
			} else {
				op = gen.Op(r)
			}
			if !wantPre || try >= 6 || (c02Pre(base, dcur, op) && dcur.isDir(base)) {
				break
			}
		}
		if wantPre {
			o.Stat("mode_pre")
		} else {
			o.Stat("mode_free")
		}
		if r.Chance(opts.decorate) {
			// two spelling features at once: the generator's spelling wrapped once more
			op.P = c02Decorate(r, gen, op.P)
			if op.Q != "" || op.Kind == "Copy" || op.Kind == "CopyDir" || op.Kind == "CopyFile" {
				op.Q = c02Decorate(r, gen, op.Q)
			}
			o.Stat("decorated")
		}
		op.View = h.view
		if !step(op, false) {
			break
		}
	}
done:
	{
		mw, _, _ := walkFs(mroot)
		dw, _, _ := walkFs(droot)
		h.mfinal, h.dfinal = nonNilWalk(mw), nonNilWalk(dw)
	}
	panicked := false
	for _, s := range h.steps {
		if s.mout.Kind == "panic" || s.mout.Kind == "hang" || s.dout.Kind == "panic" || s.dout.Kind == "hang" {
			panicked = true
		}
	}
	ops := make([]FsOp, len(h.steps))
	for i, s := range h.steps {
		ops[i] = s.op
	}
	if !panicked && !failed {
		if msg := c02InfoProbe(mroot, h.mfinal, "memory"); msg != "" {
			fail("info_agree", msg, "info-mem")
		} else if msg := c02InfoProbe(droot, h.dfinal, "disk"); msg != "" {
			fail("info_agree", msg, "info-disk")
		}
	}
	if opts.noL1 {
		o.CountEval(opts.tag+":"+histKey(ops), muts > 0 && preCount > 0)
	} else if !panicked {
		o.AddCase(h.coqCase(), h.desc(), histKey(ops), muts > 0 && preCount > 0)
	} else {
		o.CountEval(histKey(ops), false)
	}
}

func walkOfTree(t c02Tree) []WalkEnt {
	var w []WalkEnt
	for k, v := range t {
		w = append(w, WalkEnt{Path: strings.Split(k, "/"), IsDir: v.dir, Data: v.data})
	}
	return w
}

func runC02(o *Out, rng *RNG, tier string, replay string) {
	o.Imports = "From GC Require Import Common.Base Model.Paths Model.Fs Model.DiskFs Corr.FsCorr Corr.C02."
	o.CaseType = "case"
	o.CheckFn = "check"
	o.ShardSize = 32
	o.Rule = "600 histories of 1-25 of the 16 Filespace operations run on a fresh memfs AND a fresh diskfs (temp directory), 30% of the histories with both backends behind a child view created on an existing directory; ~80% of the operations are drawn until the preconditions (Go mirror of pre_at, evaluated on the disk tree) hold — mostly built from the current tree — and ~20% freely (8 spellings per path, climbing/root-addressing pool). After every step: both outputs, both trees (walk through the parent filespace), the host directory above the disk root. L2: backends_agree where the preconditions hold; no_panic, frame_mem/frame_disk, host_untouched, plain_tree_mem/plain_tree_disk on every step. L1: memfs vs Model/Fs.v, diskfs vs Model/DiskFs.v and the C02_equiv/C02_view statement on the implementations' answers, evaluated in Coq. Further shapes through the same runner and oracles: a fifth of the operations with a second spelling wrapped around the first (/./a//b/x//..); 100 histories whose names are half odd (..a, a.., ..., blanks, backslash, upper case, non-UTF-8, glob/percent characters) and 6 with names of 128-255 bytes; a name sweep (one scripted history per odd/long/ordinary name: all 16 operations on the name at the first and the last position of a path, queries on what trimming, case folding, UTF-8 repair, unescaping or separator translation would make of it, a look-alike sibling, copies of and into the directories holding it); 80 histories with contents of 4 KiB-256 KiB around the buffer sizes (Writer sessions mixing small and large chunks, Reader sessions over the whole file; L2 only); a directory of 1100 files and 41 directories listed, copied and removed (L2 only); chains of 40-60 directories (L2 only). 8% of the views are views of the root directory, 40% of the two-level views are made by Filespace(b0).Filespace(b1). At the end of every history info_agree: Lstat and the ReadDir entries of every node carry its name, kind and size on both backends. Non-trivial: at least one successful mutation and one step with the preconditions met; distinct by operation sequence."
	gen := defaultFsGen()
	gen.ViewPct = 0
	gen.Contents = [][]byte{{}, []byte("a"), []byte("hello"), {0, 255, 195, 169, 10, 47, 46, 46, 92, 34, 1, 2, 3, 4, 5, 6, 7}, []byte("0123456789abcdefghijklmnopqrstuvwxyz0123456789ABCDEFGHIJKLMNOPQRSTUVWXYZ"), []byte("0123456789")}
	n, nOdd, nLong, nBig, nWide, nDeep := 600, 100, 6, 80, 1, 3
	if tier == "thorough" {
		n, nOdd, nLong, nBig, nWide, nDeep = 15000, 4000, 100, 1500, 6, 60
	}
	scratch, err := os.MkdirTemp("", "verif-c02-")
	must(err)
	defer os.RemoveAll(scratch)
	only := replayIndex(replay)
	idx := 0
	shapeMs := map[string]float64{}
	o.Extra["shape_ms"] = shapeMs
	run := func(g *FsGen, maxLen int, opts func(r *RNG) c02Opts) {
		r := rng.Fork()
		if only < 0 || idx == only {
			op, t0 := opts(r), time.Now()
			runC02History(o, r, g, scratch, idx, maxLen, op)
			shapeMs[op.tag] += float64(time.Since(t0).Microseconds()) / 1000
		}
		idx++
	}
	wideGen := defaultFsGen() // for the scripted histories: only the view base is drawn from it
	wideGen.ViewPct = 0
	// names at the host's length limit (first: their Coq literals are long, the shard starts early)
	oddGen := defaultFsGen()
	oddGen.ViewPct = 0
	oddGen.Contents = gen.Contents
	for i := 0; i < nLong; i++ {
		run(oddGen, 10, func(*RNG) c02Opts { return c02Opts{tag: "long_names", decorate: 20, namePool: c02LongNames} })
	}
	// name sweep: every operation on every odd name (first and last position of a path) and on its
	// look-alikes; the ordinary names too (their look-alikes are the upper-case ones)
	for _, nm := range append(append(append([]string{}, c02OddNames...), c02LongNames...), c02PlainNames...) {
		nm := nm
		run(wideGen, 1, func(*RNG) c02Opts { return c02Opts{tag: "name_sweep", noL1: len(nm) > 100, script: c02NameScript(nm)} })
	}
	// the random histories; a fifth of the operations carries a second spelling around the first
	for i := 0; i < n; i++ {
		run(gen, 25, func(*RNG) c02Opts { return c02Opts{tag: "plain", decorate: 20} })
	}
	// the same with node names a careless mapping onto the host would fold, trim or take for a climb
	for i := 0; i < nOdd; i++ {
		run(oddGen, 25, func(*RNG) c02Opts { return c02Opts{tag: "odd_names", decorate: 20, namePool: c02OddNames} })
	}
	// contents around the buffer sizes of the host interface (L2 only)
	bigGen := c02BigGen()
	for i := 0; i < nBig; i++ {
		run(bigGen, 14, func(*RNG) c02Opts { return c02Opts{tag: "big_contents", noL1: true, opGen: c02BigOp} })
	}
	// a directory with more entries than a listing batch, chains of 40-60 directories (both L2 only:
	// the per-step tree walks of such trees are too long for Coq literals)
	for i := 0; i < nWide; i++ {
		run(wideGen, 1, func(*RNG) c02Opts {
			setup, want := c02WideSetup()
			return c02Opts{tag: "wide_directory", noL1: true, setup: setup, setupWant: want, script: c02WideScript(),
				setupDesc: fmt.Sprintf("MkdirAll(w/sub); WriteFile(w/f0000 … w/f%04d, \"content of entry <i>\"); MkdirAll(w/d00 … w/d39)", c02WideN-1)}
		})
	}
	for i := 0; i < nDeep; i++ {
		run(wideGen, 1, func(r *RNG) c02Opts { return c02Opts{tag: "deep_chain", noL1: true, script: c02DeepScript(r)} })
	}
}
