package main

// C06 (write-back cache: nothing before Commit, everything after, faults during Commit) and
// C07 (read-your-writes through the cache). Both run the same kind of history; they differ in
// the operation mix and in which oracle failures they report.

import (
	"errors"
	"fmt"
	"io"
	"os"
	"path"
	"strings"

	"github.com/goatcms/goatcore/filesystem"
	"github.com/goatcms/goatcore/filesystem/filespace/memfs"
	"github.com/goatcms/goatcore/filesystem/fscache"
)

func init() {
	runners["C06"] = func(o *Out, rng *RNG, tier, replay string) { runCache(o, rng, tier, "C06", replay) }
	runners["C07"] = func(o *Out, rng *RNG, tier, replay string) { runCache(o, rng, tier, "C07", replay) }
}

// faultFS wraps a filespace and makes the k-th MUTATING call fail without effect (k counted from 1
// after Arm); k = 0: never. Child filespaces share the counter.
type faultState struct {
	countdown int
	fired     bool
	calls     int
}

type faultFS struct {
	inner filesystem.Filespace
	st    *faultState
}

var errInjected = errors.New("injected remote failure")

func (f faultFS) hit() bool {
	f.st.calls++
	if f.st.countdown > 0 {
		f.st.countdown--
		if f.st.countdown == 0 {
			f.st.fired = true
			return true
		}
	}
	return false
}

func (f faultFS) Copy(s, d string) error {
	if f.hit() {
		return errInjected
	}
	return f.inner.Copy(s, d)
}
func (f faultFS) CopyDirectory(s, d string) error {
	if f.hit() {
		return errInjected
	}
	return f.inner.CopyDirectory(s, d)
}
func (f faultFS) CopyFile(s, d string) error {
	if f.hit() {
		return errInjected
	}
	return f.inner.CopyFile(s, d)
}
func (f faultFS) MkdirAll(p string, m os.FileMode) error {
	if f.hit() {
		return errInjected
	}
	return f.inner.MkdirAll(p, m)
}
func (f faultFS) WriteFile(p string, d []byte, m os.FileMode) error {
	if f.hit() {
		return errInjected
	}
	return f.inner.WriteFile(p, d, m)
}
func (f faultFS) Remove(p string) error {
	if f.hit() {
		return errInjected
	}
	return f.inner.Remove(p)
}
func (f faultFS) RemoveAll(p string) error {
	if f.hit() {
		return errInjected
	}
	return f.inner.RemoveAll(p)
}
func (f faultFS) Writer(p string) (filesystem.Writer, error) {
	if f.hit() {
		return nil, errInjected
	}
	w, err := f.inner.Writer(p)
	if err != nil {
		return nil, err
	}
	return &faultWriter{w: w, f: f}, nil
}

// faultWriter: Write and Close of a remote writer are fault positions too (a remote that fails
// while flushing). A failing Close still releases the underlying handle.
type faultWriter struct {
	w filesystem.Writer
	f faultFS
}

func (fw *faultWriter) Write(b []byte) (int, error) {
	if fw.f.hit() {
		return 0, errInjected
	}
	return fw.w.Write(b)
}

func (fw *faultWriter) Close() error {
	if fw.f.hit() {
		fw.w.Close()
		return errInjected
	}
	return fw.w.Close()
}
func (f faultFS) ReadDir(p string) ([]os.FileInfo, error)    { return f.inner.ReadDir(p) }
func (f faultFS) IsExist(p string) bool                      { return f.inner.IsExist(p) }
func (f faultFS) IsFile(p string) bool                       { return f.inner.IsFile(p) }
func (f faultFS) IsDir(p string) bool                        { return f.inner.IsDir(p) }
func (f faultFS) ReadFile(p string) ([]byte, error)          { return f.inner.ReadFile(p) }
func (f faultFS) Reader(p string) (filesystem.Reader, error) { return f.inner.Reader(p) }
func (f faultFS) Lstat(p string) (os.FileInfo, error)        { return f.inner.Lstat(p) }
func (f faultFS) Filespace(p string) (filesystem.Filespace, error) {
	c, err := f.inner.Filespace(p)
	if err != nil {
		return nil, err
	}
	return faultFS{inner: c, st: f.st}, nil
}

var cachePolicy = RefPolicy{RemoveAllMissingOK: true, CopyOverwriteFile: true, CopyMergeDir: true,
	Norm: func(s string) ([]string, bool) { return refNorm(path.Clean(s)) }}

type cacheStep struct {
	Kind   string `json:"kind"` // op | commit | commitfault
	Op     *FsOp  `json:"op,omitempty"`
	Out    FsOut  `json:"out"`
	Fault  int    `json:"fault,omitempty"`
	remote []WalkEnt
	view   []WalkEnt
	hasR   bool
	hasV   bool
	lobs   []listObs // C07: listings taken in the state after this step, with what their entries say (c07_listing.go)
}

func (s cacheStep) coq() string {
	opTerm := "CCommit"
	switch s.Kind {
	case "op":
		opTerm = "(COp (" + s.Op.coq() + "))"
	case "commitfault":
		opTerm = "CCommitFault"
	}
	r, v := "None", "None"
	if s.hasR {
		r = "(Some " + coqWalk(s.remote) + ")"
	}
	if s.hasV {
		v = "(Some " + coqWalk(s.view) + ")"
	}
	return fmt.Sprintf("mkCStep %s (%s) %s %s", opTerm, s.Out.coq(), r, v)
}

// genRemote: initial remote tree (0-8 nodes) over the name pool; returns the populated memfs and the reference tree.
func genRemote(rng *RNG, gen *FsGen) (filesystem.Filespace, *RefFS) {
	fs, _ := memfs.NewFilespace()
	ref := NewRefFS()
	n := rng.Intn(9)
	for i := 0; i < n; i++ {
		c := gen.comps(rng)
		p := strings.Join(c, "/")
		if rng.Chance(35) {
			if fs.MkdirAll(p, 0o777) == nil {
				ref.mkParents(append(append([]string{}, c...), "x"))
			}
		} else {
			d := gen.Contents[rng.Intn(len(gen.Contents))]
			if len(d) > 40 {
				d = d[:40]
			}
			if fs.WriteFile(p, d, 0o644) == nil {
				ref.mkParents(c)
				ref.m[key(c)] = refEnt{data: append([]byte{}, d...)}
			}
		}
		if len(gen.known) < 40 {
			gen.known = append(gen.known, c)
		}
	}
	return fs, ref
}

func runCache(o *Out, rng *RNG, tier string, prop string, replay string) {
	o.Imports = "From GC Require Import Common.Base Model.Paths Model.Fs Model.Cache Corr.FsCorr Corr.C06."
	o.CaseType = "case"
	o.CheckFn = "check"
	o.ShardSize = 25
	gen := defaultFsGen()
	gen.ViewPct = 0
	gen.ClimbPct = 8
	if prop == "C07" {
		o.Imports = "From GC Require Import Common.Base Model.Paths Model.Fs Model.Cache Model.CacheList Corr.FsCorr Corr.C06 Corr.C07."
		o.CaseType = "GC.Corr.C07.case"
		o.CheckFn = "GC.Corr.C07.check"
	}
	if prop == "C06" {
		o.Rule = "initial remote trees of 0-8 nodes x histories of 1-25 cache operations (write, writer, mkdir, remove, recursive remove, file/dir copy, some reads) on overlapping paths with 1-3 Commits, a third of the Commits with an injected failure of the k-th mutating remote call (every k over the run). Oracles: remote unchanged before Commit; after a successful Commit remote == plain tree obtained by applying the successful operations directly; failure reported and a later Commit converges. Non-trivial: at least one successful mutation and one Commit; distinct by op sequence."
		gen.Kinds = []string{"Copy", "CopyDir", "CopyFile", "MkdirAll", "MkdirAll", "WriteFile", "WriteFile", "WriteFile", "Writer", "Writer", "Remove", "Remove", "RemoveAll", "RemoveAll", "ReadDir", "IsExist", "ReadFile"}
	} else {
		o.Rule = "initial remote trees of 0-8 nodes x histories interleaving mutating cache operations with all read-type operations (exists/is-file/is-dir/read/reader/list/stat, copy sources) on the touched path, its parent and siblings, before any Commit and after; a third of the reads go through child views (Filespace) of the cache. Oracle: every answer equals the plain tree with the pending operations applied on top of the remote; listings name each entry once. After every successful mutation and Commit every visible directory is listed on the cache and through child views (one per top-level directory, a nested one per second-level directory) and every ENTRY is judged: kind, and for a file Size() = length of the pending content (what Lstat and a read answer) - also for every ReadDir of the history; the same listings are compared with the model's described listing in Coq. Non-trivial: a read after at least one successful mutation; distinct by op sequence."
		gen.Kinds = []string{"Copy", "CopyFile", "MkdirAll", "WriteFile", "WriteFile", "Writer", "Remove", "RemoveAll", "RemoveAll",
			"ReadDir", "ReadDir", "IsExist", "IsExist", "IsFile", "IsDir", "ReadFile", "ReadFile", "Reader", "Lstat", "Lstat"}
	}
	n := 900
	if tier == "thorough" {
		n = 20000
	}
	only := replayIndex(replay)
	// runCase: one history. plan == nil: random Commits and faults as drawn from r. plan != nil (fault
	// sweep): a removal of a remote path followed by writes below it and elsewhere, random operations,
	// then ONE Commit with the remote failing at its plan.faultAt-th mutating call and a retry; the
	// caller repeats the same history (same seed) for every fault position. Returns whether the fault fired.
	runCase := func(i int, r *RNG, plan *cachePlan) (fired bool) {
		gen.Reset()
		remoteMem, ref := genRemote(r, gen)
		initWalk, _, _ := walkFs(remoteMem)
		fst := &faultState{}
		remote := faultFS{inner: remoteMem, st: fst}
		cache, err := fscache.NewMemCache(remote)
		must(err)
		ln := 1 + r.Intn(25)
		var scripted []FsOp
		if plan != nil {
			ln = 4 + r.Intn(8)
			scripted = sweepScript(r, gen)
		}
		var steps []cacheStep
		var obs0 []listObs       // C07: listings taken before the first recorded step
		c07vs := newC07Views()   // C07: child views kept across the operations of this history
		committed := ref.Clone() // what the remote must look like (last successful Commit)
		remoteDirty := false     // a faulty Commit left the remote in an intermediate state
		fail, sig := "", ""
		muts, commits := 0, 0
		setFail := func(f, s string) {
			if fail == "" {
				fail, sig = f, s
			}
		}
		checkRemote := func(st *cacheStep, when string) {
			w, ok, why := walkFs(remoteMem)
			if !ok {
				setFail("remote walk failed "+when+": "+why, "walk")
				return
			}
			st.remote, st.hasR = w, true
			if remoteDirty {
				return
			}
			if eq, why := walkEqual(w, committed.Walk()); !eq {
				if when == "before-commit" {
					setFail("the remote changed although no Commit happened: "+why, "remote-touched")
				} else {
					setFail("after a successful Commit the remote differs from the operations applied directly: "+why, "commit-result")
				}
			}
		}
		checkView := func(st *cacheStep) {
			w, ok, why := walkFs(cache)
			if !ok {
				setFail("walk through the cache failed: "+why, "view-walk")
				return
			}
			st.view, st.hasV = w, true
			if eq, why := walkEqual(w, ref.Walk()); !eq {
				setFail("the tree seen through the cache differs from remote+pending operations: "+why, "view")
			}
			if prop == "C07" && fail == "" {
				obs, msg := c07DescribedWalks(o, c07vs, cache, ref, committed)
				st.lobs = append(st.lobs, obs...)
				if msg != "" {
					setFail("a listing entry does not describe the node as pending: "+msg, "read:ReadDir-entry")
				}
			}
		}
		doCommit := func(faultAt int) {
			st := cacheStep{Kind: "commit"}
			fst.countdown, fst.fired = faultAt, false
			res := withTimeout(10*1e9, func() FsOut { return errOut(cache.Commit()) })
			fst.countdown = 0
			st.Out = res
			if faultAt > 0 && fst.fired {
				st.Kind, st.Fault = "commitfault", faultAt
				if res.Kind != "err" {
					setFail(fmt.Sprintf("the remote failed on its mutating call #%d during Commit but Commit returned %s", faultAt, res.Kind), "fault-unreported")
				}
				remoteDirty = true
				w, _, _ := walkFs(remoteMem)
				st.remote, st.hasR = w, true
				o.Stat("commit_fault")
			} else {
				if res.Kind != "unit" {
					setFail("Commit failed although the remote did not: "+res.Msg, "commit-failed")
				} else {
					committed = ref.Clone()
					remoteDirty = false
					commits++
				}
				checkRemote(&st, "after-commit")
				o.Stat("commit_ok")
			}
			checkView(&st)
			steps = append(steps, st)
		}
		nextCommit := 3 + r.Intn(12)
		if plan != nil {
			nextCommit = -1
		}
		for j := 0; j < ln && fail == ""; j++ {
			if j == nextCommit {
				fa := 0
				if r.Chance(35) {
					fa = 1 + r.Intn(12)
				}
				doCommit(fa)
				if fa > 0 && r.Chance(70) {
					doCommit(0) // retry
				}
				nextCommit = j + 2 + r.Intn(10)
				continue
			}
			op := gen.Op(r)
			if j < len(scripted) {
				op = scripted[j]
			}
			var target filesystem.Filespace = cache
			viewBaseComps := []string{}
			if prop == "C07" && r.Chance(30) && !isMutating(op.Kind) {
				// read through a child view of the cache
				b := gen.comps(r)[:1]
				v, err := cache.Filespace(b[0])
				if hv := c07vs.heldTop(b[0]); hv != nil && err == nil && j%2 == 1 {
					v = hv // a view of that directory created at an earlier step and kept since
					o.Stat("read_through_view_held_since_earlier_step")
				}
				if err == nil {
					target = v
					viewBaseComps = b
					op.View = []string{b[0]}
				}
			}
			st := cacheStep{Kind: "op", Op: &op}
			out := withTimeout(10*1e9, func() FsOut { return execOn(target, op) })
			out.Data = append([]byte{}, out.Data...)
			st.Out = out
			o.Stat("op_" + op.Kind)
			o.Stat("out_" + out.Kind)
			pol := cachePolicy
			if len(op.View) > 0 {
				pol.Norm = nil // a child view (SubFS) reduces its argument: climbing paths are refused
			}
			if msg := ref.Apply(pol, viewBaseComps, op, out); msg != "" {
				which := "contract"
				if !isMutating(op.Kind) {
					which = "read"
				}
				setFail(fmt.Sprintf("step %d %s(%q,%q) view=%v: %s", j, op.Kind, op.P, op.Q, op.View, msg), which+":"+op.Kind)
			}
			if out.Kind == "hang" || out.Kind == "panic" {
				steps = append(steps, st)
				break
			}
			if prop == "C07" && op.Kind == "ReadDir" && out.Kind == "list" && fail == "" {
				ob, ok, msg := c07ListingOfOp(target, ref, viewBaseComps, op)
				if msg != "" {
					setFail(fmt.Sprintf("step %d: a listing entry does not describe the node as pending: %s", j, msg), "read:ReadDir-entry")
				}
				if ok && len(op.View) == 0 {
					st.lobs = append(st.lobs, ob)
				} else if ok && len(steps) > 0 { // a read through a child view is no step of the model: the state is the one after the last step
					steps[len(steps)-1].lobs = append(steps[len(steps)-1].lobs, ob)
				} else if ok {
					obs0 = append(obs0, ob)
				}
				o.Stat("listing_of_history_judged")
			}
			dirCopyErr := (op.Kind == "Copy" || op.Kind == "CopyDir") && out.Kind == "err"
			if isMutating(op.Kind) && out.Kind == "unit" {
				muts++
				checkRemote(&st, "before-commit")
				checkView(&st)
			}
			if len(op.View) > 0 {
				// operations through a child view are checked by the Go oracle only (the Coq cache model has no view layer)
				continue
			}
			steps = append(steps, st)
			if dirCopyErr {
				break // a failed directory copy leaves a schedule-dependent partial copy in the buffer
			}
		}
		if fail == "" && (len(steps) == 0 || steps[len(steps)-1].Kind == "op") {
			if len(steps) > 0 && steps[len(steps)-1].Out.Kind == "err" && (steps[len(steps)-1].Op.Kind == "Copy" || steps[len(steps)-1].Op.Kind == "CopyDir") {
				// partial directory copy: no final commit comparison
			} else if plan != nil {
				doCommit(plan.faultAt)
				fired = len(steps) > 0 && steps[len(steps)-1].Kind == "commitfault"
				if fired {
					doCommit(0) // the retry must converge
				}
			} else {
				doCommit(0)
				if r.Chance(30) {
					doCommit(0) // a second Commit changes nothing
				}
			}
		}
		descSteps := make([]map[string]interface{}, len(steps))
		for k, s := range steps {
			m := map[string]interface{}{"kind": s.Kind, "out": s.Out.Kind}
			if s.Op != nil {
				m["op"] = *s.Op
			}
			if s.Fault > 0 {
				m["fault_at_remote_call"] = s.Fault
			}
			descSteps[k] = m
		}
		desc := map[string]interface{}{"index": i, "remote": walkDesc(initWalk), "steps": descSteps}
		if fail != "" {
			relevant := true
			if prop == "C07" && (strings.HasPrefix(sig, "commit") || sig == "remote-touched" || sig == "fault-unreported") {
				relevant = false
			}
			if prop == "C06" && strings.HasPrefix(sig, "read:") {
				relevant = false
			}
			if relevant {
				o.Fail(prop+"_oracle", fail, sig, desc)
			} else {
				o.Stat("failure_of_sibling_property")
			}
		}
		items := make([]string, len(steps))
		var keyb strings.Builder
		for k, s := range steps {
			items[k] = s.coq()
			if s.Op != nil {
				fmt.Fprintf(&keyb, "%s|%s|%s;", s.Op.Kind, s.Op.P, s.Op.Q)
			} else {
				keyb.WriteString(s.Kind + ";")
			}
		}
		if plan != nil {
			fmt.Fprintf(&keyb, "fault@%d", plan.faultAt)
			o.Stat("sweep_cases")
		}
		if prop == "C07" {
			for k, s := range steps {
				items[k] = fmt.Sprintf("mkLStep (%s) %s", items[k], coqListObs(s.lobs))
			}
			o.AddCase(fmt.Sprintf("CList %s %s %s", coqWalk(initWalk), coqListObs(obs0), coqList(items)), desc, keyb.String(), muts > 0 && commits > 0)
			return fired
		}
		o.AddCase(fmt.Sprintf("CCache %s %s", coqWalk(initWalk), coqList(items)), desc, keyb.String(), muts > 0 && commits > 0)
		return fired
	}
	for i := 0; i < n; i++ {
		r := rng.Fork()
		if only >= 0 && i != only {
			continue
		}
		runCase(i, r, nil)
	}
	// a FAILED directory copy keeps what it copied (known finding K-C06, reproduced on every run)
	if prop == "C06" && only < 0 {
		c06FailedDirCopyProbe(o)
	}
	// fault sweep (C06: "every position of an injected remote failure during Commit")
	if prop == "C06" {
		nSweep := 30
		if tier == "thorough" {
			nSweep = 600
		}
		for si := 0; si < nSweep; si++ {
			seed := rng.Next()
			if only >= 0 { // replay of one sweep case: index = n + si*100 + k
				if only >= n && (only-n)/100 == si {
					runCase(only, &RNG{s: seed}, &cachePlan{faultAt: (only - n) % 100})
				}
				continue
			}
			for k := 1; k <= 60; k++ {
				if !runCase(n+si*100+k, &RNG{s: seed}, &cachePlan{faultAt: k}) {
					break
				}
			}
		}
	}
	_ = io.EOF
}

type cachePlan struct{ faultAt int }

// sweepScript: remove a path that exists on the remote, then write below it and elsewhere - the shape in
// which a Commit has both removals and sends to do, so that every fault position separates them differently.
func sweepScript(r *RNG, gen *FsGen) []FsOp {
	if len(gen.known) == 0 {
		return nil
	}
	victim := gen.known[r.Intn(len(gen.known))]
	if len(victim) > 1 && r.Chance(60) {
		victim = victim[:1+r.Intn(len(victim)-1)]
	}
	vp := strings.Join(victim, "/")
	mk := func(kind, p string, data []byte) FsOp {
		op := FsOp{Kind: kind, P: p, Data: data}
		op.fillJSON()
		return op
	}
	names := gen.Names
	below := vp + "/" + names[r.Intn(len(names))]
	if r.Chance(40) {
		below += "/" + names[r.Intn(len(names))]
	}
	other := names[r.Intn(len(names))]
	if r.Chance(50) {
		other += "/" + names[r.Intn(len(names))]
	}
	ops := []FsOp{mk("RemoveAll", vp, nil), mk("WriteFile", below, []byte("below-removed")), mk("WriteFile", other, []byte("elsewhere"))}
	if r.Chance(50) {
		ops = append(ops, mk("MkdirAll", vp+"/"+names[r.Intn(len(names))]+"/"+names[r.Intn(len(names))], nil))
	}
	if r.Chance(30) {
		ops[0], ops[2] = ops[2], ops[0] // the unrelated write first
	}
	return ops
}

func walkDesc(w []WalkEnt) []map[string]interface{} {
	l := make([]map[string]interface{}, len(w))
	for i, e := range w {
		l[i] = map[string]interface{}{"path": strings.Join(e.Path, "/"), "dir": e.IsDir, "data": byteList(e.Data)}
	}
	return l
}

// c06FailedDirCopyProbe: remote {d/a, d/b/, e/b (a FILE)}; Copy(d, e) through the cache must fail (e/b
// is in the way of d/b) - and an operation that failed must not reach the remote at the next Commit.
func c06FailedDirCopyProbe(o *Out) {
	remote, _ := memfs.NewFilespace()
	must(remote.WriteFile("d/a", []byte("1"), 0o644))
	must(remote.MkdirAll("d/b", 0o777))
	must(remote.WriteFile("e/b", []byte("2"), 0o644))
	before, _, _ := walkFs(remote)
	cache, err := fscache.NewMemCache(remote)
	must(err)
	desc := map[string]interface{}{"op": "failed-directory-copy", "remote": walkDesc(before), "copy": []string{"d", "e"}}
	res := withTimeout(10*1e9, func() FsOut { return errOut(cache.Copy("d", "e")) })
	if res.Kind != "err" {
		o.Stat("failed_dircopy_probe_not_failing")
		return // the copy succeeded (merge semantics changed): nothing to say here, the histories judge it
	}
	if res2 := withTimeout(10*1e9, func() FsOut { return errOut(cache.Commit()) }); res2.Kind != "unit" {
		o.Fail("C06_oracle", "Commit after a failed directory copy failed: "+res2.Msg, "commit-failed", desc)
		return
	}
	after, ok, why := walkFs(remote)
	if !ok {
		o.Fail("C06_oracle", "remote walk failed: "+why, "walk", desc)
		return
	}
	if eq, diff := walkEqual(after, before); !eq {
		o.Fail("C06_oracle", "Copy(d, e) through the cache returned an error, yet after the next Commit the remote differs from the initial tree (no successful operation was applied): "+diff,
			"K-C06-failed-dircopy-partial", desc)
	}
	o.Stat("failed_dircopy_probe")
	o.CountEval("faileddircopy", true)
}
