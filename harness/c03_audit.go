package main

// C03 coverage audit: what the sweep of c03.go did not reach.
//
//   - twin trees: for ANY view root (not only a/b) a second backend that agrees with the first
//     one exactly at and below the root and in which every node outside the root has another name
//     and other content; an answer that differs between the two was computed from something outside
//     the root (the READ half of the property: read, list). Used for memfs-rooted stacks and for
//     the disk filespace (where no Coq case stands behind the answers).
//   - look-alike names: siblings of the view roots whose names extend the root's name ("a" / "ab",
//     "a/b" / "a/b2", host "root" / "root2") and climbing arguments that name them.
//   - the view handed out by a successful Filespace(p) is USED (written through, removed through,
//     listed): whatever it does has to stay under the root of the view that handed it out.
//   - histories: a view that lives across operations of its parent (copies across the boundary of
//     the view in both directions, removal and re-creation of the view's root), every operation of
//     the view judged by the confinement oracle.

import (
	"fmt"
	"os"
	"path/filepath"
	"sort"
	"strings"
	"time"

	"github.com/goatcms/goatcore/filesystem"
	"github.com/goatcms/goatcore/filesystem/fscache"
)

type seedEnt struct {
	p    string
	data string
	dir  bool
}

// look-alikes of the view roots used by the stacks ("a", "a/b") and an empty directory outside
var c03Look = []seedEnt{
	{"ab", "", true}, {"ab/s", "sibling-of-a", false}, {"a/b2", "", true}, {"a/b2/t", "sibling-of-b", false},
	{"a/bb", "file-sibling-of-b", false}, {"c/m", "", true},
}

func c03SeedEnts(look bool) []seedEnt {
	var l []seedEnt
	for _, s := range c03Seed {
		l = append(l, seedEnt{s.p, s.data, s.dir})
	}
	if look {
		l = append(l, c03Look...)
	}
	return l
}

// twinEnt: the entry as it appears in the twin tree for the view root vroot. Nodes at or below the
// root and the directories leading to it are kept; everything else moves to another name (the first
// component that leaves the chain of the root's ancestors gets a '~') and files get other content.
func twinEnt(e seedEnt, vroot []string, hasRoot bool) seedEnt {
	c := strings.Split(e.p, "/")
	if hasRoot && (isPrefixComps(vroot, c) || isPrefixComps(c, vroot)) {
		return e
	}
	i := 0
	if hasRoot {
		for i < len(c) && i < len(vroot) && c[i] == vroot[i] {
			i++
		}
	}
	t := append([]string{}, c...)
	t[i] += "~"
	d := e.data
	if !e.dir {
		d += "-twin-content"
	}
	return seedEnt{strings.Join(t, "/"), d, e.dir}
}

func twinEnts(ents []seedEnt, vroot []string, hasRoot bool) []seedEnt {
	l := make([]seedEnt, len(ents))
	for i, e := range ents {
		l[i] = twinEnt(e, vroot, hasRoot)
	}
	return l
}

// populateEnts writes the entries; the number of entries the backend refused
func populateEnts(fs filesystem.Filespace, ents []seedEnt) (refused int) {
	for _, s := range ents {
		var err error
		if s.dir {
			err = fs.MkdirAll(s.p, 0o777)
		} else {
			err = fs.WriteFile(s.p, []byte(s.data), 0o644)
		}
		if err != nil {
			refused++
		}
	}
	return
}

// existingIn: a file and a directory that exist directly in the view root (relative names), so
// that a copy whose OTHER argument is under test gets past the test of its source
func existingIn(ents []seedEnt, vroot []string, hasRoot bool) (file, dir string) {
	file, dir = "g", "e"
	if !hasRoot {
		return
	}
	gotF, gotD := false, false
	for _, e := range ents {
		c := strings.Split(e.p, "/")
		if len(c) != len(vroot)+1 || !isPrefixComps(vroot, c) {
			continue
		}
		if e.dir && !gotD {
			dir, gotD = c[len(c)-1], true
		}
		if !e.dir && !gotF {
			file, gotF = c[len(c)-1], true
		}
	}
	return
}

func commitAll(caches []*fscache.Cache) {
	for i := len(caches) - 1; i >= 0; i-- {
		caches[i].Commit()
	}
}

// ---------- use of a view handed out by Filespace(p)

var probeNames = []string{"s", "t", "r", "secret", "canary", "f", "g", "h", "top", "bb", "b2/t", "ab/s"}

// childReadSig: what the child shows (its listing and a fixed set of names)
func childReadSig(child filesystem.Filespace) string {
	o := withTimeout(20*time.Second, func() FsOut {
		var sb strings.Builder
		if infos, err := child.ReadDir(""); err != nil {
			sb.WriteString("ls:err;")
		} else {
			var l []string
			for _, i := range infos {
				l = append(l, fmt.Sprintf("%s:%v", i.Name(), i.IsDir()))
			}
			sort.Strings(l)
			sb.WriteString("ls:" + strings.Join(l, ",") + ";")
		}
		for _, n := range probeNames {
			d, err := child.ReadFile(n)
			fmt.Fprintf(&sb, "%s=%v/%v/%v/%q;", n, child.IsExist(n), child.IsDir(n), err == nil, d)
		}
		return FsOut{Kind: "data", Data: []byte(sb.String())}
	})
	if o.Kind != "data" {
		return "child reads: " + o.Kind + " " + o.Msg
	}
	return string(o.Data)
}

// childWrites: create, change and delete through the child
func childWrites(child filesystem.Filespace) FsOut {
	return withTimeout(20*time.Second, func() FsOut {
		child.WriteFile("c03probe", []byte("probe"), 0o644)
		child.WriteFile("s", []byte("changed-through-child"), 0o644)
		child.MkdirAll("c03dir/sub", 0o777)
		if w, err := child.Writer("c03w"); err == nil && w != nil {
			w.Write([]byte("w"))
			w.Close()
		}
		child.CopyFile("c03probe", "c03copy")
		child.Remove("t")
		child.RemoveAll("secret")
		child.RemoveAll("r")
		return FsOut{Kind: "unit"}
	})
}

func getChild(view filesystem.Filespace, p string) (child filesystem.Filespace) {
	withTimeout(20*time.Second, func() FsOut {
		c, err := view.Filespace(p)
		if err == nil {
			child = c
		}
		return FsOut{Kind: "unit"}
	})
	return
}

// ---------- histories

type histStep struct {
	On string `json:"on"` // parent | view
	Op FsOp   `json:"op"`
}

// crossing histories: the parent copies the view's root (or what contains it) out of the view and
// something from outside into the view; then the view creates, changes and deletes at every
// directory that the copies have in common with their sources.
func crossingHistories(ents []seedEnt, vroot []string, mk func(kind, p, q string) FsOp) [][]histStep {
	in := strings.Join(vroot, "/")
	var dirs, files []string // relative to the view root
	for _, e := range ents {
		c := strings.Split(e.p, "/")
		if len(c) > len(vroot) && isPrefixComps(vroot, c) {
			rel := strings.Join(c[len(vroot):], "/")
			if e.dir {
				dirs = append(dirs, rel)
			} else {
				files = append(files, rel)
			}
		}
	}
	var out [][]histStep
	// 1. copy out (the root itself, and the first component of the root with everything in it)
	for _, src := range []string{in, vroot[0]} {
		h := []histStep{{"parent", mk("Copy", src, "zcopy")}}
		if src == in {
			h[0] = histStep{"parent", mk("CopyDir", src, "zcopy/deep")}
		}
		for _, d := range dirs {
			h = append(h, histStep{"view", mk("WriteFile", d+"/hist.new", "")}, histStep{"view", mk("MkdirAll", d+"/hist.dir/x", "")})
		}
		for _, f := range files {
			h = append(h, histStep{"view", mk("WriteFile", f, "")}, histStep{"view", mk("Writer", f, "")})
		}
		for _, f := range files {
			h = append(h, histStep{"view", mk("Remove", f, "")})
		}
		for _, d := range dirs {
			h = append(h, histStep{"view", mk("RemoveAll", d, "")})
		}
		out = append(out, h)
	}
	// 2. copy in (c has a file and an empty directory), then work below the copy
	h := []histStep{{"parent", mk("Copy", "c", in+"/cc")},
		{"view", mk("WriteFile", "cc/m/hist.new", "")}, {"view", mk("MkdirAll", "cc/m/d/e", "")}, {"view", mk("WriteFile", "cc/h", "")},
		{"view", mk("Copy", "cc", "cc2")}, {"view", mk("WriteFile", "cc2/m/hist.new2", "")},
		{"view", mk("Remove", "cc/h", "")}, {"view", mk("RemoveAll", "cc/m", "")}, {"view", mk("RemoveAll", "cc", "")}}
	out = append(out, h)
	// 3. the root goes away and comes back while the view lives
	h = []histStep{{"parent", mk("RemoveAll", vroot[0], "")}, {"view", mk("WriteFile", "n/x", "")}, {"view", mk("MkdirAll", "../n2", "")},
		{"parent", mk("RemoveAll", vroot[0], "")}, {"parent", mk("WriteFile", vroot[0], "")}, {"view", mk("WriteFile", "n/x", "")},
		{"view", mk("MkdirAll", "d", "")}, {"view", mk("RemoveAll", "../secret", "")}}
	out = append(out, h)
	return out
}

func randomHistory(r *RNG, vroot []string, kinds []string, mk func(kind, p, q string) FsOp) []histStep {
	in := strings.Join(vroot, "/")
	outside := []string{"c", "c/k", "zc", "ab/k", "c/m/k", "top2"}
	inside := []string{in, in + "/cc", in + "/e", in + "/n", vroot[0], in + "/e/k"}
	vsegs := []string{"e", "g", "f", "b", "k", "cc", "m", "n", "h", "..", ".", "new"}
	n := 3 + r.Intn(6)
	var h []histStep
	for i := 0; i < n; i++ {
		if r.Chance(35) {
			var op FsOp
			switch r.Intn(6) {
			case 0, 1:
				op = mk([]string{"Copy", "CopyDir"}[r.Intn(2)], inside[r.Intn(len(inside))], outside[r.Intn(len(outside))])
			case 2:
				op = mk([]string{"Copy", "CopyDir"}[r.Intn(2)], []string{"c", "ab", "c/m", "a"}[r.Intn(4)], inside[1+r.Intn(3)])
			case 3:
				op = mk("RemoveAll", inside[r.Intn(len(inside))], "")
			case 4:
				op = mk("MkdirAll", inside[r.Intn(len(inside))]+"/e/e", "")
			default:
				op = mk("WriteFile", inside[r.Intn(len(inside))]+"/w", "")
			}
			h = append(h, histStep{"parent", op})
			continue
		}
		mkp := func() string {
			k := 1 + r.Intn(3)
			parts := make([]string, k)
			for j := range parts {
				parts[j] = vsegs[r.Intn(len(vsegs))]
			}
			return strings.Join(parts, "/")
		}
		kind := kinds[r.Intn(len(kinds))]
		if r.Chance(50) {
			kind = []string{"WriteFile", "MkdirAll", "Writer", "RemoveAll", "Remove", "Copy"}[r.Intn(6)]
		}
		h = append(h, histStep{"view", mk(kind, mkp(), mkp())})
	}
	return h
}

// ---------- disk: host trees

// diskEnts: the host tree below the case directory; the filespace root is "root"
var diskEnts = []seedEnt{
	{"canary", "host canary", false}, {"root2", "", true}, {"root2/r", "sibling-of-root", false},
	{"root/secret", "TOP", false}, {"root/a/f", "fa", false}, {"root/a/b/g", "deep", false},
	{"root/ab", "", true}, {"root/ab/s", "sibling-of-a", false}, {"root/a/b2", "", true}, {"root/a/b2/t", "sibling-of-b", false},
	{"root/a/b/e", "", true},
}

func writeHost(base string, ents []seedEnt) {
	for _, e := range ents {
		p := filepath.Join(base, filepath.FromSlash(e.p))
		if e.dir {
			must(os.MkdirAll(p, 0o755))
		} else {
			must(os.MkdirAll(filepath.Dir(p), 0o755))
			must(os.WriteFile(p, []byte(e.data), 0o644))
		}
	}
}
