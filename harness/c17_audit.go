package main

// C17, the shapes the first generators do not reach (coverage audit against the property text):
//
//	(6)  every byte value 0..255 inside a word, a quoted argument and a heredoc body, alone and at
//	     the edges ("unchanged byte-for-byte (including non-ASCII bytes)");
//	(7)  heredoc bodies that look like their marker: lines that are proper prefixes of the marker,
//	     the marker in another case, the marker after a blank, empty lines, lines that only BEGIN
//	     with the marker (text since the repair F40), the empty heredoc, the marker followed by a
//	     blank / a tab / a newline / the end of the input - random over a pool of 10 markers and
//	     exhaustive over {NL,a,b,SP} for the marker "ab";
//	(8)  everything that can follow "k=<<" over a token alphabet (marker letters, blanks, newline,
//	     quote, backslash, terminator), exhaustive to 4/5 tokens: the heredoc part of the machine is
//	     out of reach of the byte-exhaustive generator (its shortest complete heredoc has 9 bytes);
//	(9)  a backslash-newline BETWEEN arguments, before and after blanks, at the start of a command
//	     and right before its newline; a backslash that is NOT followed by the newline (backslash
//	     blank newline, two backslashes newline) does not continue the line;
//	(10) argument lists over all 256 byte values rendered with the reference quoting and split;
//	(11) arguments of 255..65537 bytes and commands of 3000 arguments (L2 only: too long for the
//	     in-Coq evaluation);
//	(12) InjectArgs with more than ten positional arguments, InjectString.

import (
	"bytes"
	"fmt"
	"strings"

	"github.com/goatcms/goatcore/app/scope/argscope"
	"github.com/goatcms/goatcore/varutil"
)

type c17Hooks struct {
	addRead        func(input []byte) readObs
	checkTokens    func(all []byte, expected [][]string, tail string, noL1, looseFirst bool) bool
	doInject       func(args []string)
	doInjectString func(src string, args []string)
}

func c17Split(src string) (o readObs) {
	defer func() {
		if r := recover(); r != nil {
			o = readObs{Kind: "panic"}
		}
	}()
	args, eof, err := varutil.SplitArguments(src)
	if err != nil {
		return readObs{Kind: "err"}
	}
	return readObs{Kind: "ok", Args: args, EOF: eof}
}

// c17Short renders an argument list for a failure message; long arguments are abbreviated.
func c17Short(args []string) string {
	var sb strings.Builder
	sb.WriteByte('[')
	for i, a := range args {
		if i > 0 {
			sb.WriteByte(' ')
		}
		if i >= 12 {
			fmt.Fprintf(&sb, "... (%d arguments)", len(args))
			break
		}
		if len(a) > 60 {
			fmt.Fprintf(&sb, "%q...%q(%d bytes)", a[:24], a[len(a)-24:], len(a))
		} else {
			fmt.Fprintf(&sb, "%q", a)
		}
	}
	sb.WriteByte(']')
	return sb.String()
}

func c17ShortSets(sets [][2]interface{}) string {
	var sb strings.Builder
	for i, s := range sets {
		if i >= 16 {
			fmt.Fprintf(&sb, " ... (%d sets)", len(sets))
			break
		}
		fmt.Fprintf(&sb, " %q=%q", fmt.Sprint(s[0]), fmt.Sprint(s[1]))
	}
	return "[" + strings.TrimSpace(sb.String()) + "]"
}

func c17ShortPairs(sets [][3]string) string {
	var sb strings.Builder
	for i, s := range sets {
		if i >= 16 {
			fmt.Fprintf(&sb, " ... (%d sets)", len(sets))
			break
		}
		fmt.Fprintf(&sb, " %q=%q", s[0], s[1])
	}
	return "[" + strings.TrimSpace(sb.String()) + "]"
}

// c17ExpectInject restates the mapping clause: the arguments after the first "--" are kept apart;
// of the ones before it, an argument with '=' is named (up to two leading '-' dropped, key = the
// text before the first '='), any other is positional: $0, $1, ... in order. Each expected set is
// {key, value, "named"|"pos"}.
func c17ExpectInject(args []string) (sets [][3]string, sep []string) {
	before := args
	for j, a := range args {
		if a == "--" {
			before, sep = args[:j], args[j+1:]
			break
		}
	}
	pos := 0
	for _, a := range before {
		if strings.Contains(a, "=") {
			t := strings.TrimPrefix(strings.TrimPrefix(a, "-"), "-")
			idx := strings.Index(t, "=")
			sets = append(sets, [3]string{t[:idx], t[idx+1:], "named"})
		} else {
			sets = append(sets, [3]string{fmt.Sprintf("$%d", pos), a, "pos"})
			pos++
		}
	}
	return
}

func c17TrimBlanks(s string) string { return strings.Trim(s, " \t") }

// c17TermLine: a heredoc's terminator line (repair F40) - the marker followed by nothing, a blank
// or a tab. A line that merely begins with the marker (EOFX) is text.
func c17TermLine(line, m string) bool {
	return line == m || strings.HasPrefix(line, m+" ") || strings.HasPrefix(line, m+"\t")
}

// heredocBodyOK: no line of the text - the first one included - is a terminator line, so the
// text written between "k=<<m NL" and "NL m" (followed by a blank, a newline or the end of the
// input) must come back whole, trimmed of surrounding blanks.
func c17HeredocBodyOK(body, m string) bool {
	for _, l := range strings.Split(body, "\n") {
		if c17TermLine(l, m) {
			return false
		}
	}
	return true
}

func c17Audit(o *Out, rng *RNG, tier string, h c17Hooks) {
	thorough := tier == "thorough"
	pick := func(q, t int) int {
		if thorough {
			return t
		}
		return q
	}

	// ---- (6) every byte value
	for v := 0; v < 256; v++ {
		b := string([]byte{byte(v)})
		structural := strings.ContainsAny(b, " \t\n\"\\")
		if !structural {
			words := []string{"x" + b + "y", b, b + "z", "z" + b, b + b}
			h.checkTokens([]byte(strings.Join(words, " ")+"\nnext\n"), [][]string{words, {"next"}}, "", false, false)
		}
		qargs := []string{"x" + b + " y", b, b + b, " " + b}
		var q []string
		for _, a := range qargs {
			q = append(q, refQuote1(a))
		}
		h.checkTokens([]byte(strings.Join(q, " ")+"\nnext\n"), [][]string{qargs, {"next"}}, "", false, false)
		for _, body := range []string{"x" + b + "y", b, " " + b + "x\t"} {
			if !c17HeredocBodyOK(body, "EOF") {
				continue
			}
			h.checkTokens([]byte("c k=<<EOF\n"+body+"\nEOF t\nnext\n"), [][]string{{"c", "k=" + c17TrimBlanks(body), "t"}, {"next"}}, "", false, false)
		}
		// an escaped byte: what it yields is left to the model (L1 only)
		h.addRead([]byte("x\\" + b + "y " + b + "\n"))
		h.addRead([]byte("\"x\\" + b + "y\" z\n"))
		h.addRead([]byte("k=<<E" + b + "\nx\nE\n"))
		h.addRead([]byte("k=<<E" + b + "\nx\nE" + b + "\n"))
		o.Stat("byte_sweep")
	}

	// ---- (7) heredoc bodies that look like the marker
	markers := []string{"EOF", "E", "end_x", "Zz", "EOFD", "aa", "aab", "_", "abab", "eof"}
	filler := []string{"x", "x y", "=", "<<", "\"", "\\", "k=<<EOF", "\xc3\xa9", "\r", " ", "\t", ""}
	for i, n := 0, pick(500, 12000); i < n; i++ {
		m := markers[rng.Intn(len(markers))]
		var lines []string
		for k := rng.Intn(5); k > 0; k-- {
			var l string
			switch rng.Intn(13) {
			case 9:
				l = m + []string{"X", "_", "s", "1", "=", "\"", "\\", "\xc3\xa9", "\r"}[rng.Intn(9)] // only BEGINS with the marker: text
			case 10:
				l = m + m
			case 11:
				l = m + []string{" ", "\t", " x", "\ty"}[rng.Intn(4)] // a terminator line: the rest is L1 only
			case 12:
				l = m // the marker line itself inside the text: L1 only
			case 0, 1:
				l = m[:rng.Intn(len(m))] // proper prefix of the marker (or empty)
			case 2:
				l = strings.ToLower(m)
			case 3:
				l = strings.ToUpper(m)
			case 4:
				l = " " + m
			case 5:
				l = m[1:] + m[:1]
			case 6:
				l = m[:1] + m[:len(m)-1]
			default:
				l = filler[rng.Intn(len(filler))]
			}
			lines = append(lines, l)
		}
		body := strings.Join(lines, "\n")
		if len(lines) > 0 && rng.Chance(25) {
			body += "\n" // the body ends with an empty line
		}
		key := []string{"k", "key.name", "-k", "", "a=b"}[rng.Intn(5)]
		src := key + "=<<" + m + "\n" + body + "\n" + m
		if len(lines) == 0 && rng.Bool() {
			src = key + "=<<" + m + "\n" + m // the EMPTY heredoc: the marker line directly behind the opening one
			o.Stat("heredoc_empty")
		}
		if !c17HeredocBodyOK(body, m) {
			h.addRead([]byte(src + "\nnext\n")) // L1 only
			o.Stat("heredoc_lookalike_l1")
			continue
		}
		arg := key + "=" + c17TrimBlanks(body)
		switch rng.Intn(3) {
		case 0:
			h.checkTokens([]byte("c "+src+" t\nnext\n"), [][]string{{"c", arg, "t"}, {"next"}}, "", false, false)
		case 1:
			h.checkTokens([]byte("c "+src+"\tt\nnext\n"), [][]string{{"c", arg, "t"}, {"next"}}, "", false, false)
		default:
			h.checkTokens([]byte(src+"\nnext one\n"), [][]string{{arg}, {"next", "one"}}, "", false, false)
		}
		h.addRead([]byte("c " + src)) // the input ends right behind the marker: the command is complete (L1)
		o.Stat("heredoc_lookalike")
	}
	exhMarkers := []string{"ab"}
	if thorough {
		exhMarkers = []string{"ab", "aab"}
	}
	for _, m := range exhMarkers {
		alpha := []byte{'\n', 'a', 'b', ' '}
		maxLen := pick(5, 6)
		var rec func(body []byte)
		rec = func(body []byte) {
			if c17HeredocBodyOK(string(body), m) {
				h.checkTokens([]byte("k=<<"+m+"\n"+string(body)+"\n"+m+"\nn\n"), [][]string{{"k=" + c17TrimBlanks(string(body))}, {"n"}}, "", false, false)
				o.Stat("heredoc_exhaustive")
			}
			if len(body) == maxLen {
				return
			}
			for _, c := range alpha {
				rec(append(append([]byte{}, body...), c))
			}
		}
		rec(nil)
	}

	// ---- (8) everything that can follow "k=<<", over a token alphabet (L1; hangs and panics L2)
	{
		toks := []string{"E", " ", "\t", "\n", "a", "\"", "\\", "\nE"}
		maxLen := pick(4, 5)
		var rec func(prefix string, n int)
		rec = func(prefix string, n int) {
			h.addRead([]byte(prefix))
			o.Stat("heredoc_prefixed")
			if n == maxLen {
				return
			}
			for _, t := range toks {
				rec(prefix+t, n+1)
			}
		}
		rec("k=<<", 0)
	}

	// ---- (9) continuations between arguments; what is not a continuation
	wordPool := []byte{'a', 'b', 'z', '=', '<', '-', '$', '\'', 0xC3, 0xA9, 0xFF, 0x80, 0xA0, 0x85, 1, '_', '.', '/', '\r', '\v', '\f', 0x7F, '#', ';'}
	anyPool := append([]byte{' ', '\t', '\n', '"', '\\', 0}, wordPool...)
	genWord := func() string {
		for {
			b := make([]byte, 1+rng.Intn(8))
			for j := range b {
				b[j] = wordPool[rng.Intn(len(wordPool))]
			}
			if !strings.Contains(string(b), "=<<") {
				return string(b)
			}
		}
	}
	genAny := func(max int) string {
		b := make([]byte, rng.Intn(max+1))
		for j := range b {
			b[j] = anyPool[rng.Intn(len(anyPool))]
		}
		return string(b)
	}
	lastHeredoc := false // behind a heredoc's marker only a blank, a newline or the end of the input ends it
	genToken := func() (src, arg string) {
		lastHeredoc = false
		switch k := rng.Intn(10); {
		case k < 5:
			w := genWord()
			return w, w
		case k < 8:
			a := genAny(9)
			return refQuote1(a), a
		default:
			lastHeredoc = true
			m := markers[rng.Intn(len(markers))]
			if rng.Chance(10) {
				return "k=<<" + m + "\n" + m, "k=" // the empty heredoc
			}
			for {
				body := genAny(9)
				if c17HeredocBodyOK(body, m) {
					return "k=<<" + m + "\n" + body + "\n" + m, "k=" + c17TrimBlanks(body)
				}
			}
		}
	}
	seps := []string{" ", "\t", " \t ", " \\\n", "\\\n ", " \\\n ", " \\\n\\\n", "\t\\\n\t", " \\\n \\\n "}
	leads := []string{"", "", " ", "\\\n", " \\\n", "\t\\\n "}
	trails := []string{"", "", " ", "\t", " \\\n", " \\\n "}
	genCommand := func(maxTok int) (src string, args []string) {
		var sb strings.Builder
		sb.WriteString(leads[rng.Intn(len(leads))])
		lastHeredoc = false
		for t, n := 0, rng.Intn(maxTok+1); t < n; t++ {
			if t > 0 {
				if rng.Chance(50) {
					sep := seps[rng.Intn(len(seps))]
					if lastHeredoc && sep[0] == '\\' {
						sep = " " + sep // a backslash right behind the marker would be text
					}
					sb.WriteString(sep)
				} else {
					sb.WriteByte(' ')
				}
			}
			s, a := genToken()
			sb.WriteString(s)
			args = append(args, a)
		}
		sb.WriteString(trails[rng.Intn(len(trails))])
		return sb.String(), args
	}
	for i, n := 0, pick(500, 20000); i < n; i++ {
		var input bytes.Buffer
		var expected [][]string
		for c, nc := 0, 1+rng.Intn(3); c < nc; c++ {
			src, args := genCommand(4)
			input.WriteString(src + "\n")
			expected = append(expected, args)
		}
		tail := ""
		if rng.Chance(30) {
			tail = genWord()
			input.WriteString(tail)
		}
		h.checkTokens(append([]byte{}, input.Bytes()...), expected, tail, false, false)
		o.Stat("continuation_mix")
	}
	// a backslash that is not directly followed by the newline does not continue the line: the
	// command ends at that newline (what the backslash yields is left open), the next call returns
	// the next command
	notCont := []string{" \\ ", " \\\t", "\\ ", "\\ \t ", " \\\\", "\\\\", " \\\\ ", "a\\\\", " \\\n\\ "}
	for i, n := 0, pick(200, 6000); i < n; i++ {
		src, args := genCommand(3)
		nc := notCont[rng.Intn(len(notCont))]
		if lastHeredoc && nc[0] != ' ' {
			nc = " " + nc // right behind a heredoc's marker the backslash (or letter) would be text
		}
		src += nc
		var input bytes.Buffer
		input.WriteString(src + "\n")
		expected := [][]string{args}
		for c, nc := 0, 1+rng.Intn(2); c < nc; c++ {
			s2, a2 := genCommand(3)
			input.WriteString(s2 + "\n")
			expected = append(expected, a2)
		}
		h.checkTokens(append([]byte{}, input.Bytes()...), expected, "", false, true)
		o.Stat("not_a_continuation")
	}

	// ---- (10) argument lists over all byte values, reference quoting, split again
	genBytes := func(n int) string {
		b := make([]byte, n)
		for j := range b {
			if rng.Chance(30) {
				b[j] = " \t\n\"\\=<"[rng.Intn(7)]
			} else {
				b[j] = byte(rng.Intn(256))
			}
		}
		return string(b)
	}
	for i, n := 0, pick(300, 10000); i < n; i++ {
		args := make([]string, rng.Intn(7))
		var q []string
		for j := range args {
			l := rng.Intn(30)
			if rng.Chance(5) {
				l = rng.Intn(150)
			}
			args[j] = genBytes(l)
			q = append(q, refQuote1(args[j]))
		}
		sep := " "
		if rng.Chance(20) {
			sep = " \t"
		}
		h.checkTokens([]byte(strings.Join(q, sep)+"\nnext\n"), [][]string{args, {"next"}}, "", false, false)
		o.Stat("quote_roundtrip")
	}

	// ---- (11) long arguments and long commands (L2 only)
	sizes := []int{255, 256, 257, 1023, 1024, 1025, 4095, 4096, 4097, 8193, 65537}
	if thorough {
		sizes = append(sizes, 511, 512, 513, 2047, 2048, 2049, 16385, 32769, 131073)
	}
	genPlain := func(n int) string { // no blank, newline, quote, backslash; no "=<<"
		b := make([]byte, n)
		for j := range b {
			for {
				c := byte(rng.Intn(256))
				if !strings.ContainsRune(" \t\n\"\\<", rune(c)) {
					b[j] = c
					break
				}
			}
		}
		return string(b)
	}
	for _, n := range sizes {
		w := genPlain(n)
		h.checkTokens([]byte("c "+w+" t\nnext\n"), [][]string{{"c", w, "t"}, {"next"}}, "", true, false)
		a := genBytes(n)
		h.checkTokens([]byte("c "+refQuote1(a)+" t\nnext\n"), [][]string{{"c", a, "t"}, {"next"}}, "", true, false)
		// ... and one quoted section of that length (the reference quoting leaves the quotes at every
		// backslash): blanks, newlines and escaped quotes inside, no backslash
		ab := []byte(genPlain(n))
		for j := 0; j < n; j += 1 + rng.Intn(40) {
			ab[j] = " \t\n\"<"[rng.Intn(5)]
		}
		h.checkTokens([]byte("c "+refQuote1(string(ab))+" t\nnext\n"), [][]string{{"c", string(ab), "t"}, {"next"}}, "", true, false)
		body := "x" + strings.ReplaceAll(genBytes(n-2), "\nEOF", "\nEOG") + "y"
		h.checkTokens([]byte("c k=<<EOF\n"+body+"\nEOF t\nnext\n"), [][]string{{"c", "k=" + body, "t"}, {"next"}}, "", true, false)
		o.Stat("long_arguments")
	}
	for _, n := range []int{300, 3000} {
		words := make([]string, n)
		for j := range words {
			words[j] = genWord()
		}
		h.checkTokens([]byte(strings.Join(words, " ")+"\nnext\n"), [][]string{words, {"next"}}, "", true, false)
		o.Stat("long_commands")
	}

	// a reader that fails (not with io.EOF) after k bytes: still no panic, still a return
	for i, n := 0, pick(200, 4000); i < n; i++ {
		src, _ := genCommand(4)
		src += "\nnext\n"
		k := rng.Intn(len(src) + 1)
		ob := implReadFrom(&c17FailingReader{data: []byte(src[:k])})
		if ob.Kind == "panic" || ob.Kind == "hang" {
			o.Fail("no_panic", fmt.Sprintf("ReadArguments on a reader that fails after %d bytes of %q: %s", k, src, ob.Kind), "panic",
				map[string]interface{}{"op": "failing-reader", "input": byteList([]byte(src)), "k": k})
		}
		o.CountEval(fmt.Sprintf("fr:%d:%s", k, src), true)
		o.Stat("failing_reader")
	}

	// ---- (12) InjectArgs beyond ten positional arguments; InjectString
	argPool := []string{"a", "b", "-", "k=v", "--k=v", "=x", "k=", "--flag", "x y", "", "$0", "$1=v", "$10", "----=x", "--", "a\nb", "\xc3\xa9",
		"K=V", "Key=v", " k=v", "k =v", "k= v ", "k==", "\xd0\xba=v", "k.a=v", "-k", " --", "-- ", "--\n", "\t--", "---", "- -", "--=", "-=", "k\n=v"}
	for i, n := 0, pick(100, 3000); i < n; i++ {
		args := make([]string, 8+rng.Intn(24))
		for j := range args {
			switch {
			case rng.Chance(60):
				args[j] = genWord()
				if strings.Contains(args[j], "=") && rng.Bool() {
					args[j] = "p"
				}
			case rng.Chance(3):
				args[j] = "--"
			default:
				args[j] = argPool[rng.Intn(len(argPool))]
			}
		}
		h.doInject(args)
		o.Stat("inject_many")
	}
	{
		args := make([]string, 1200)
		for j := range args {
			args[j] = fmt.Sprintf("p%d", j)
		}
		h.doInject(args)
	}
	// InjectString: sources with a known first command
	fixed := []struct {
		src  string
		args []string
	}{
		{"", nil}, {"\n", nil}, {"\na b", nil}, {" \t\n a", nil}, {" a b ", []string{"a", "b"}}, {"a b\n", []string{"a", "b"}},
		{"a k=v \n c d=e", []string{"a", "k=v"}}, {"\ta", []string{"a"}}, {"a\r", []string{"a\r"}}, {"\va", []string{"\va"}},
		{"a\f", []string{"a\f"}}, {"\xc2\xa0a", []string{"\xc2\xa0a"}}, {"a\xc2\x85", []string{"a\xc2\x85"}}, {"\r\na", []string{"\r"}},
		{"a -- b c=d", []string{"a", "--", "b", "c=d"}}, {"\"--\" -- --", []string{"--", "--", "--"}},
		{"k=<<E\n v \nE x", []string{"k=v", "x"}}, {"a \\\n b", []string{"a", "b"}}, {"a\\\nb", []string{"ab"}},
	}
	for _, f := range fixed {
		h.doInjectString(f.src, f.args)
	}
	for i, n := 0, pick(300, 6000); i < n; i++ {
		src, args := genCommand(5)
		if rng.Chance(50) {
			s2, _ := genCommand(2)
			src += "\n" + s2
		}
		h.doInjectString(src, args)
	}
	// ... and arbitrary sources: mapped like their first command, refused when the split is refused
	for i, n := 0, pick(300, 6000); i < n; i++ {
		src := genAny(30)
		sp := c17Split(src)
		switch sp.Kind {
		case "ok":
			h.doInjectString(src, sp.Args)
		case "err":
			r := &recorder{}
			var err error
			panicked := false
			func() {
				defer func() {
					if recover() != nil {
						panicked = true
					}
				}()
				err = argscope.InjectString(r, src)
			}()
			if panicked || err == nil {
				o.Fail("inject_shape", fmt.Sprintf("InjectString(%q): the split is refused, InjectString panicked=%v err=%v sets=%s", src, panicked, err, c17ShortSets(r.sets)),
					"inject", map[string]interface{}{"op": "injectstr", "input": byteList([]byte(src))})
			}
			o.CountEval("is:"+src, true)
		}
	}
}

// c17FailingReader delivers data one byte per call and then fails with an error that is not io.EOF.
type c17FailingReader struct {
	data []byte
	pos  int
}

func (r *c17FailingReader) Read(p []byte) (int, error) {
	if len(p) == 0 {
		return 0, nil
	}
	if r.pos >= len(r.data) {
		return 0, errC17Reader
	}
	p[0] = r.data[r.pos]
	r.pos++
	return 1, nil
}

var errC17Reader = fmt.Errorf("c17: the reader failed")
