package main

// C10, the parts of the quantifier and of the anchor files that the plain programs of c10.go do not
// reach:
//
//   - name pools of look-alike names (c10Spells): the model's names are numbers, so any injective
//     spelling is the same program; names that are prefixes of one another, differ in case or in a
//     blank, contain the optional marker '?' or struct-tag syntax, are no UTF-8, are long or empty;
//   - extra injectors (Provider.AddInjectors, app/injector/map.go, app/injector/multi.go,
//     app/scope/datascope/injector.go): registered before / after the first resolution, and
//     InjectTo on structs that carry fields for them next to the dependency fields;
//   - dependency.NewStaticProvider: the accepted explicit definitions of a program given to the
//     static constructor, the program's requests and (now all late) definition calls run on it;
//   - two providers alive at once, one resolving from inside a factory of the other;
//   - every kind of late definition after every kind of first resolution (a sweep, not a sample).

import (
	"fmt"
	"strings"

	"github.com/goatcms/goatcore/app"
	"github.com/goatcms/goatcore/app/dependency"
	"github.com/goatcms/goatcore/app/injector"
	"github.com/goatcms/goatcore/app/scope/datascope"
)

// ---- spellings of the name pool

type c10Spell struct {
	Title   string
	Names   [c10Pool]string
	GetOnly bool // names no struct tag can ask for as required ("" and a leading '?'): requests are Gets
}

var c10Cur = 0 // spelling of the program being run (the harness runs one program at a time)

var c10Spells = []c10Spell{
	{"plain n0..n7", [c10Pool]string{"n0", "n1", "n2", "n3", "n4", "n5", "n6", "n7"}, false},
	{"prefixes of one another", [c10Pool]string{"ab", "a", "abc", "a.b", "a/b", "b", "ba", "a2"}, false},
	{"case, blanks, homoglyphs", [c10Pool]string{"dep", "Dep", "dep ", " dep", "DEP", "de p", "d\u00e9p", "d\u0435p"}, false},
	{"optional marker inside the name", [c10Pool]string{"a?", "a", "a?b", "ab", "x?", "a??", "!a", "*"}, false},
	{"struct-tag syntax inside the name", [c10Pool]string{`a"b`, `a\b`, "a:b", "a,b", "a b", "a`b", "a\tb", "a\nb"}, false},
	{"no UTF-8, NUL, long, two normal forms", [c10Pool]string{"\xff", "\xff\xfe", "a\x00", "a\x00b",
		strings.Repeat("n", 200), strings.Repeat("n", 199) + "m", "\u00e9", "e\u0301"}, false},
	{"empty name and leading optional marker", [c10Pool]string{"", "?", "?a", "a", "??a", " ", "?n0", "n0"}, true},
}

// a program for a GetOnly pool: factories resolve by Get, every InjectTo becomes the Gets of its fields
func c10GetOnly(ops []c10Op) []c10Op {
	var out []c10Op
	nreq := 0
	for _, op := range ops {
		switch op.Kind {
		case "inject", "sinject":
			for _, f := range op.fields() {
				out = append(out, c10Op{Kind: "get", Name: f.Name})
				nreq++
			}
		case "addinj":
		default:
			if op.Prog != nil {
				p := *op.Prog
				p.ViaInject = false
				op.Prog = &p
			}
			if op.Kind == "get" {
				nreq++
			}
			out = append(out, op)
		}
	}
	if nreq == 0 {
		out = append(out, c10Op{Kind: "get", Name: 0})
	}
	return out
}

// ---- extra injectors

type c10XField struct {
	Tag int  `json:"tag"`
	Key int  `json:"key"`
	Opt bool `json:"opt"`
}

var c10XTags = []string{"xm", "xd", "xu", "xv"}
var c10XKeys = []string{"k", "kk", "k0", "K", "k.", "0"}

const c10XUnits = 4

func c10XValues() [][]*c10Inst {
	v := make([][]*c10Inst, len(c10XTags))
	for t := range v {
		v[t] = make([]*c10Inst, len(c10XKeys))
		for k := range v[t] {
			v[t][k] = &c10Inst{Name: 100 + 10*t + k, Kind: "KX"}
		}
	}
	return v
}

// which tags an injector unit serves, with the key mask of each: (tag, mask)
func c10XUnitTags(unit, mask int) [][2]int {
	lo, hi := mask&63, mask>>6&63
	switch unit {
	case 0:
		return [][2]int{{0, lo}} // MapInjector
	case 1:
		return [][2]int{{1, lo}} // datascope.Injector
	case 2:
		return [][2]int{{2, lo}, {3, hi}} // MultiInjector[MapInjector, datascope.Injector]
	}
	return [][2]int{{1, lo}, {0, hi}} // MultiInjector[MapInjector, datascope.Injector] on the tags of units 1 and 0
}

func c10XUnit(x *c10Run, unit, mask int) []app.Injector {
	mapInj := func(t, m int) app.Injector {
		data := map[string]interface{}{}
		for k := range c10XKeys {
			if m>>uint(k)&1 == 1 {
				data[c10XKeys[k]] = x.xval[t][k]
			}
		}
		return injector.NewMapInjector(c10XTags[t], data)
	}
	dsInj := func(t, m int) app.Injector {
		data := map[interface{}]interface{}{}
		for k := range c10XKeys {
			if m>>uint(k)&1 == 1 {
				data[c10XKeys[k]] = x.xval[t][k]
			}
		}
		return datascope.NewInjector(c10XTags[t], datascope.New(data))
	}
	tm := c10XUnitTags(unit, mask)
	switch unit {
	case 0:
		return []app.Injector{mapInj(tm[0][0], tm[0][1])}
	case 1:
		return []app.Injector{dsInj(tm[0][0], tm[0][1])}
	}
	return []app.Injector{injector.NewMultiInjector([]app.Injector{mapInj(tm[0][0], tm[0][1]), dsInj(tm[1][0], tm[1][1])})}
}

// c10AddInjectorOps puts AddInjectors calls into a program (before the first request, sometimes one
// after it) and fields for the extra injectors into its InjectTo requests.
func c10AddInjectorOps(rng *RNG, ops []c10Op) []c10Op {
	first := len(ops)
	for i, op := range ops {
		if !op.isDef() && (op.Kind == "get" || len(op.fields()) > 0) {
			first = i
			break
		}
	}
	mask := func() int {
		m := rng.Intn(1 << 12)
		if rng.Chance(40) {
			m |= rng.Intn(1 << 12) // rather full
		}
		return m
	}
	var early []c10Op
	for n := 1 + rng.Intn(3); n > 0; n-- {
		early = append(early, c10Op{Kind: "addinj", Unit: rng.Intn(c10XUnits), Mask: mask()})
	}
	usedTags := []int{}
	for _, e := range early {
		for _, tm := range c10XUnitTags(e.Unit, e.Mask) {
			usedTags = append(usedTags, tm[0])
		}
	}
	var out []c10Op
	for i, op := range ops {
		for len(early) > 0 && (i == first || (i < first && rng.Chance(30))) {
			out = append(out, early[0])
			early = early[1:]
		}
		if op.Kind == "sinject" && rng.Chance(50) {
			op = c10Op{Kind: "inject", Fields: op.fields()}
		}
		if op.Kind == "inject" && rng.Chance(75) {
			for n := 1 + rng.Intn(4); n > 0; n-- {
				f := c10XField{Tag: usedTags[rng.Intn(len(usedTags))], Key: rng.Intn(len(c10XKeys)), Opt: rng.Chance(55)}
				if rng.Chance(10) {
					f.Tag = rng.Intn(len(c10XTags))
				}
				op.Extra = append(op.Extra, f)
			}
		}
		out = append(out, op)
		if i >= first && rng.Chance(12) {
			out = append(out, c10Op{Kind: "addinj", Unit: rng.Intn(c10XUnits), Mask: mask()}) // late: must be refused
		}
	}
	out = append(out, early...)
	if first == len(ops) || rng.Chance(40) {
		// a last request that the injectors alone decide, next to an optional dependency
		op := c10Op{Kind: "inject", Fields: []c10Dep{{Name: rng.Intn(c10Pool), Opt: true}}}
		for n := 2 + rng.Intn(3); n > 0; n-- {
			op.Extra = append(op.Extra, c10XField{Tag: usedTags[rng.Intn(len(usedTags))], Key: rng.Intn(len(c10XKeys)), Opt: rng.Chance(70)})
		}
		out = append(out, op)
	}
	return out
}

// ---- the static provider

// c10StaticRun gives the accepted explicit definitions of the program to NewStaticProvider and runs
// the whole program on it: the requests must obey the same oracles (lazy, once, same instance,
// cycle, outcome = memo-free resolution, nothing accepted after the first resolution).
func c10StaticRun(o *Out, ops []c10Op, res c10Result) {
	if res.hang {
		return
	}
	sp := c10SpecOf(ops, res.obs)
	var pre []c10Op
	for n := 0; n < c10Pool; n++ {
		if d := sp.inst[n]; d != nil {
			pre = append(pre, c10Op{Kind: "set", Name: n, ID: d.id})
		}
		if d := sp.fac[n]; d != nil {
			pre = append(pre, c10Op{Kind: "fac", Name: n, ID: d.id, Prog: d.prog})
		}
	}
	if len(pre) == 0 {
		return
	}
	all := append(append([]c10Op{}, pre...), ops...)
	r := c10ExecOn(all, func(x *c10Run) int {
		facs := map[string]app.Factory{}
		insts := map[string]interface{}{}
		for _, op := range pre {
			if op.Kind == "set" {
				insts[c10Name(op.Name)] = &c10Inst{Name: op.Name, Kind: "KInst", ID: op.ID}
			} else {
				facs[c10Name(op.Name)] = x.factory(op.Name, "KFac", op.ID, op.Prog)
			}
		}
		x.dp = dependency.NewStaticProvider(c10Tag, facs, insts, []app.Injector{})
		return len(pre)
	})
	// (whether the static provider takes definitions before its first resolution is its own
	// contract, not this property's: the oracles only hold it to "none after the first resolution")
	c10Oracles(o, all, r, fmt.Sprintf("NewStaticProvider built from the accepted explicit definitions = the first %d calls", len(pre)))
	o.Stat("static_provider_programs")
	o.CountEval("static:"+c10Key(ops), true)
}

// ---- two providers at once

func c10ObsText(ob c10Obs) string {
	var sb strings.Builder
	sb.WriteString(ob.Res + " " + c10Tok(ob.Inst) + " [")
	for _, f := range ob.Filled {
		sb.WriteString(c10Tok(f) + ";")
	}
	sb.WriteString("] [")
	for _, f := range ob.XFill {
		sb.WriteString(c10Tok(f) + ";")
	}
	fmt.Fprintf(&sb, "] %v %q", ob.Runs, ob.Keys)
	return sb.String()
}

// c10TwinRun runs the program on one provider while a second provider with the same definitions is
// asked, from inside every factory of the first, for the name that factory builds.  The providers
// share nothing: the first must answer exactly as it did alone, and the second must answer what
// the memo-free resolution of the definitions says.
func c10TwinRun(o *Out, ops []c10Op, res c10Result) {
	if res.hang {
		return
	}
	r := c10ExecOn(ops, func(x *c10Run) int {
		x.dp = dependency.NewProvider(c10Tag)
		x.cross = &c10Run{dp: dependency.NewProvider(c10Tag), xval: x.xval}
		return 0
	})
	desc := c10Desc(ops, res.obs)
	desc["twin"] = "every factory first calls Get(<its own name>) on a second provider holding the same definitions"
	if r.hang {
		o.Fail("no_hang", "twin run did not finish", "no_hang", desc)
		return
	}
	for i := range ops {
		if a, b := c10ObsText(res.obs[i]), c10ObsText(r.obs[i]); a != b {
			o.Fail("independent_providers", fmt.Sprintf("op %d answers %s alone and %s while a second provider is in use", i, a, b), "independent_providers", desc)
			break
		}
	}
	sp := c10SpecOf(ops, res.obs)
	for _, c := range r.cross {
		if want := sp.resolve(c.Name, 0); want != c.Ok {
			o.Fail("independent_providers", fmt.Sprintf("a second provider with the same definitions, asked for n%d from inside the first one's factory of n%d: ok=%v, resolution of the definitions says ok=%v", c.Name, c.Name, c.Ok, want), "independent_providers", desc)
			break
		}
	}
	o.Stat("twin_provider_programs")
	o.CountEval("twin:"+c10Key(ops), len(r.cross) > 0)
}

// ---- late definitions: every kind after every kind of first resolution

func c10LateSweep() [][]c10Op {
	ok := &c10Prog{}
	bad := &c10Prog{Fails: true}
	states := [][]c10Op{
		{},
		{{Kind: "set", Name: 0, ID: 1}},
		{{Kind: "setdef", Name: 0, ID: 1}},
		{{Kind: "fac", Name: 0, ID: 1, Prog: ok}},
		{{Kind: "dfac", Name: 0, ID: 1, Prog: ok}},
		{{Kind: "fac", Name: 0, ID: 1, Prog: bad}},
	}
	triggers := [][]c10Op{
		{{Kind: "set", Name: 1, ID: 2}, {Kind: "get", Name: 1}},
		{{Kind: "fac", Name: 1, ID: 2, Prog: ok}, {Kind: "get", Name: 1}},
		{{Kind: "get", Name: 1}},
		{{Kind: "fac", Name: 1, ID: 2, Prog: bad}, {Kind: "get", Name: 1}},
		{{Kind: "inject", Fields: []c10Dep{{1, true}}}},
		{{Kind: "inject", Fields: []c10Dep{{1, false}}}},
		{{Kind: "get", Name: 0}},
		{{Kind: "dfac", Name: 1, ID: 2, Prog: &c10Prog{Deps: []c10Dep{{0, true}}, ViaInject: true}}, {Kind: "inject", Fields: []c10Dep{{1, false}}, Pad: 1}},
	}
	lates := []c10Op{
		{Kind: "set", Name: 0, ID: 9},
		{Kind: "setdef", Name: 0, ID: 9},
		{Kind: "fac", Name: 0, ID: 9, Prog: ok},
		{Kind: "dfac", Name: 0, ID: 9, Prog: ok},
		{Kind: "addinj", Unit: 0, Mask: 1},
		{Kind: "set", Name: 2, ID: 9},
		{Kind: "dfac", Name: 2, ID: 9, Prog: ok},
	}
	var out [][]c10Op
	for _, st := range states {
		for _, tr := range triggers {
			for _, l := range lates {
				p := append(append(append([]c10Op{}, st...), tr...), l)
				p = append(p, c10Op{Kind: "get", Name: 0}, c10Op{Kind: "get", Name: 2}, c10Op{Kind: "get", Name: 1},
					c10Op{Kind: "inject", Fields: []c10Dep{{0, true}}, Extra: []c10XField{{Tag: 0, Key: 0, Opt: true}}})
				out = append(out, p)
			}
		}
	}
	return out
}
