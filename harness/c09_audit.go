package main

// C09 — additions made by the coverage audit of the check against the property text
// (DESIGN §11, "Coverage audit of C09").  Four further families, all on the real memfs:
//
// (vi)   sessions: Writer sessions that yield between their chunks and Reader sessions that yield
//        between their chunk reads, against WriteFile / ReadFile / Copy* / Remove+re-create of the
//        same files.  Values carry a 16-bit identity, so the oracle knows for every byte string a
//        reader gets WHICH call wrote it: it must be a whole value, written to THAT file, and not a
//        value that a completed later write had replaced before the read began.
// (vii)  commons: every goroutine works on names of its own, but all names live in the SAME two
//        shared directories (creation, overwrite, removal, copies, queries, listings).  Every
//        result must be the one a plain tree gives for that goroutine alone, a listing of the
//        shared directory must show the caller's own names exactly as they are, and the final
//        tree is the union of what the goroutines left.
// (viii) creation storms: 2-5 goroutines released together on ONE new node (all the same kind of
//        creator / mixed kinds / a removal of the parent among them).  All results AND the final
//        tree must be those of some sequential order of the calls (plain Go tree, results
//        included; the successful ones go to the Coq acceptor as CHist cases).
// (ix)   listing storm: every goroutine removes and re-creates names of its own in one large
//        directory and lists it in between: each of its names that exists is listed exactly
//        once, the one it removed is not listed, no name twice.

import (
	"encoding/json"
	"fmt"
	"os"
	"runtime"
	"strconv"
	"strings"
	"sync"
	"sync/atomic"
	"time"

	"github.com/goatcms/goatcore/filesystem"
	"github.com/goatcms/goatcore/filesystem/filespace/memfs"
	"github.com/goatcms/goatcore/varutil/verifhook"
)

// ---------- values with an identity

func c9UVal(id int) []byte {
	n := 24 + (id*37)%300
	v := make([]byte, n)
	v[0], v[1] = byte(id), byte(id>>8)
	v[2] = 0xA5 ^ v[0] ^ v[1]
	for i := 3; i < n; i++ {
		v[i] = byte(id*31+i*7+3) ^ v[1]
	}
	return v
}

func c9UId(v []byte) (int, bool) {
	if len(v) < 3 {
		return -1, false
	}
	id := int(v[0]) | int(v[1])<<8
	return id, string(c9UVal(id)) == string(v)
}

func c9WaitWG(wg *sync.WaitGroup, d time.Duration) bool {
	done := make(chan struct{})
	go func() { wg.Wait(); close(done) }()
	select {
	case <-done:
		return true
	case <-time.After(d):
		return false
	}
}

// ---------- (vi) sessions

type c9SOp struct {
	Kind  string `json:"kind"` // Write Writer Read Reader CopyFile Copy CopyDir Remove
	File  string `json:"file"`
	ID    int    `json:"id,omitempty"`
	Chunk int    `json:"chunk,omitempty"`
	Dest  string `json:"dest,omitempty"`
}

type c9SRes struct {
	Kind  string `json:"kind"` // ok data err panic
	Data  []byte `json:"-"`
	Len   int    `json:"len"`
	Msg   string `json:"msg,omitempty"`
	Begin uint64 `json:"begin"`
	End   uint64 `json:"end"`
}

func c9Pause(r *RNG) {
	switch r.Intn(4) {
	case 0:
	case 1:
		runtime.Gosched()
	case 2:
		for k := 0; k < 3; k++ {
			runtime.Gosched()
		}
	default:
		time.Sleep(time.Duration(2+r.Intn(30)) * time.Microsecond)
	}
}

func c9SExec(fs filesystem.Filespace, op c9SOp, r *RNG) (res c9SRes) {
	defer func() {
		if x := recover(); x != nil {
			res = c9SRes{Kind: "panic", Msg: fmt.Sprint(x)}
		}
	}()
	fail := func(err error) c9SRes { return c9SRes{Kind: "err", Msg: err.Error()} }
	switch op.Kind {
	case "Write":
		buf := c9UVal(op.ID)
		err := fs.WriteFile(op.File, buf, 0o644)
		for i := range buf {
			buf[i] ^= 0x5a
		}
		if err != nil {
			return fail(err)
		}
		return c9SRes{Kind: "ok"}
	case "Writer":
		v := c9UVal(op.ID)
		w, err := fs.Writer(op.File)
		if err != nil {
			return fail(err)
		}
		closed := false
		defer func() { // a panic inside the session must not leave the file locked for the others
			if !closed {
				defer func() { recover() }()
				w.Close()
			}
		}()
		a := 1 + r.Intn(len(v)-2)
		b := a + 1 + r.Intn(len(v)-a-1)
		for _, part := range [][]byte{v[:a], v[a:b], v[b:]} {
			buf := append([]byte{}, part...)
			if n, werr := w.Write(buf); werr != nil || n != len(part) {
				closed = true
				w.Close()
				return c9SRes{Kind: "err", Msg: fmt.Sprintf("Write of a session: n=%d err=%v", n, werr)}
			}
			for i := range buf {
				buf[i] ^= 0x33
			}
			c9Pause(r)
		}
		closed = true
		if err = w.Close(); err != nil {
			return fail(err)
		}
		return c9SRes{Kind: "ok"}
	case "Read":
		d, err := fs.ReadFile(op.File)
		if err != nil {
			return fail(err)
		}
		return c9SRes{Kind: "data", Data: d, Len: len(d)}
	case "Reader":
		rd, err := fs.Reader(op.File)
		if err != nil {
			return fail(err)
		}
		closed := false
		defer func() {
			if !closed {
				defer func() { recover() }()
				rd.Close()
			}
		}()
		var all []byte
		buf := make([]byte, op.Chunk)
		for i := 0; i < 400; i++ {
			n, rerr := rd.Read(buf)
			all = append(all, buf[:n]...)
			if rerr != nil {
				break
			}
			c9Pause(r)
		}
		closed = true
		if err = rd.Close(); err != nil {
			return fail(err)
		}
		return c9SRes{Kind: "data", Data: all, Len: len(all)}
	case "CopyFile", "Copy", "CopyDir":
		var err error
		back := op.Dest
		switch op.Kind {
		case "CopyFile":
			err = fs.CopyFile(op.File, op.Dest)
		case "Copy":
			err = fs.Copy(op.File, op.Dest)
		default: // the directory of the file
			i := strings.LastIndexByte(op.File, '/')
			err = fs.CopyDirectory(op.File[:i], op.Dest)
			back = op.Dest + op.File[i:]
		}
		if err != nil {
			return fail(err)
		}
		d, err := fs.ReadFile(back)
		if err != nil {
			return c9SRes{Kind: "err", Msg: "the copy cannot be read back: " + err.Error()}
		}
		fs.RemoveAll(op.Dest)
		return c9SRes{Kind: "data", Data: d, Len: len(d)}
	case "Remove":
		if err := fs.Remove(op.File); err != nil {
			return fail(err)
		}
		return c9SRes{Kind: "ok"}
	}
	panic("c09: unknown session op " + op.Kind)
}

// c9SessionMix: files s/m0, s/m1 are written by everybody, s/o<i> only by goroutine i (everybody
// reads and copies them), v/x is written, removed and created again by everybody.
func c9SessionMix(o *Out, rng *RNG, round, procs int) {
	fs, err := memfs.NewFilespace()
	must(err)
	old := runtime.GOMAXPROCS(procs)
	defer runtime.GOMAXPROCS(old)
	verifhook.SetCallback(nil)
	g := 3 + rng.Intn(6)
	per := 12 + rng.Intn(20)
	nextID := 1
	type wr struct {
		id         int
		begin, end uint64
	}
	files := []string{"s/m0", "s/m1", "v/x"}
	for i := 0; i < g; i++ {
		files = append(files, fmt.Sprintf("s/o%d", i))
	}
	writes := map[string][]wr{}
	for _, f := range files {
		must(fs.WriteFile(f, c9UVal(nextID), 0o644))
		writes[f] = append(writes[f], wr{id: nextID})
		nextID++
	}
	progs := make([][]c9SOp, g)
	seeds := make([]uint64, g)
	for i := range progs {
		r := rng.Fork()
		seeds[i] = r.Next()
		anyFile := func() string {
			switch r.Intn(8) {
			case 0, 1:
				return files[r.Intn(2)]
			case 2:
				return "v/x"
			case 3, 4:
				return fmt.Sprintf("s/o%d", i)
			}
			return fmt.Sprintf("s/o%d", r.Intn(g))
		}
		wrFile := func() string {
			switch r.Intn(6) {
			case 0, 1:
				return files[r.Intn(2)]
			case 2:
				return "v/x"
			}
			return fmt.Sprintf("s/o%d", i)
		}
		for j := 0; j < per; j++ {
			var op c9SOp
			switch r.Intn(16) {
			case 0, 1, 2:
				op = c9SOp{Kind: "Write", File: wrFile(), ID: nextID}
				nextID++
			case 3, 4, 5:
				op = c9SOp{Kind: "Writer", File: wrFile(), ID: nextID}
				nextID++
			case 6, 7, 8:
				op = c9SOp{Kind: "Read", File: anyFile()}
			case 9, 10, 11:
				op = c9SOp{Kind: "Reader", File: anyFile(), Chunk: []int{5, 16, 33, 97}[r.Intn(4)]}
			case 12:
				op = c9SOp{Kind: "CopyFile", File: anyFile(), Dest: fmt.Sprintf("c/%d_%d", i, j)}
			case 13:
				op = c9SOp{Kind: "Copy", File: anyFile(), Dest: fmt.Sprintf("c/%d_%d", i, j)}
			case 14:
				op = c9SOp{Kind: "CopyDir", File: anyFile(), Dest: fmt.Sprintf("c/%d_%d", i, j)}
			default:
				op = c9SOp{Kind: "Remove", File: "v/x"}
			}
			progs[i] = append(progs[i], op)
		}
	}
	res := make([][]c9SRes, g)
	var seq uint64
	var wg sync.WaitGroup
	gate := make(chan struct{})
	for i := range progs {
		res[i] = make([]c9SRes, 0, per)
		wg.Add(1)
		go func(i int) {
			defer wg.Done()
			r := NewRNG(seeds[i])
			<-gate
			for _, op := range progs[i] {
				b := atomic.AddUint64(&seq, 1)
				x := c9SExec(fs, op, r)
				x.Begin, x.End = b, atomic.AddUint64(&seq, 1)
				res[i] = append(res[i], x)
			}
		}(i)
	}
	close(gate)
	desc := map[string]interface{}{"kind": "session-mix", "goroutines": g, "ops_per_goroutine": per, "gomaxprocs": procs, "round": round}
	o.Stat("session_mix_runs")
	if !c9WaitWG(&wg, 15*time.Second) {
		o.Fail("no_hang", fmt.Sprintf("session mix (%d goroutines x %d ops: Writer/Reader sessions that yield, WriteFile, ReadFile, Copy*, Remove) did not finish within 15 s", g, per), "hang", desc)
		o.CountEval("hang", false)
		o.Stat("audit_hangs") // the goroutines of a run that hangs stay behind: the family stops after a few of them
		return
	}
	for i, l := range res {
		for j, x := range l {
			op := progs[i][j]
			if (op.Kind == "Write" || op.Kind == "Writer") && x.Kind == "ok" {
				writes[op.File] = append(writes[op.File], wr{id: op.ID, begin: x.Begin, end: x.End})
			}
		}
	}
	hist := func(i, j int) map[string]interface{} {
		return map[string]interface{}{"run": desc, "goroutine": i, "index": j, "op": progs[i][j], "result": res[i][j]}
	}
	bad := 0
	for i, l := range res {
		for j, x := range l {
			op := progs[i][j]
			o.Stat("sess_" + op.Kind + "_" + x.Kind)
			volatile := op.File == "v/x"
			switch {
			case x.Kind == "panic":
				o.Fail("no_panic", fmt.Sprintf("session mix: %s %s panicked: %s", op.Kind, op.File, x.Msg), "panic", hist(i, j))
				bad++
			case x.Kind == "err" && !volatile:
				// the files under s/ and their directory are never removed: every call on them succeeds on a plain tree
				o.Fail("distinct_paths", fmt.Sprintf("session mix: %s %s failed although the file exists all the time and nobody removes it: %s", op.Kind, op.File, x.Msg), "op-failed", hist(i, j))
				bad++
			case x.Kind == "data":
				id, whole := c9UId(x.Data)
				if !whole {
					what := fmt.Sprintf("%s %s returned %d bytes that are not a complete written value (sessions with yields between their chunks run on the file)", op.Kind, op.File, len(x.Data))
					sig := "torn-read"
					if len(x.Data) == 0 {
						what = fmt.Sprintf("%s %s: a reader saw an empty content nobody wrote", op.Kind, op.File)
						sig = "empty-read"
					}
					o.Fail("read_values", what, sig, hist(i, j))
					bad++
					continue
				}
				var w *wr
				for k := range writes[op.File] {
					if writes[op.File][k].id == id {
						w = &writes[op.File][k]
					}
				}
				if w == nil {
					o.Fail("file_values", fmt.Sprintf("%s %s returned value #%d, a whole value, but no successful call wrote it to this file", op.Kind, op.File, id), "foreign-value", hist(i, j))
					bad++
					continue
				}
				if volatile {
					continue // removed and created again: which write a reader may still see is left open here
				}
				for _, w2 := range writes[op.File] {
					if w.end < w2.begin && w2.end < x.Begin {
						c := hist(i, j)
						c["returned_write"] = map[string]interface{}{"id": w.id, "begin": w.begin, "end": w.end}
						c["later_write"] = map[string]interface{}{"id": w2.id, "begin": w2.begin, "end": w2.end}
						o.Fail("visible_afterwards", fmt.Sprintf("%s %s returned value #%d although the write of #%d began after that write had ended and was complete before this read began: a successful write did not take effect", op.Kind, op.File, w.id, w2.id), "stale-read", c)
						bad++
						break
					}
				}
			}
		}
	}
	final, ok, why := walkFs(fs)
	if !ok {
		o.Fail("final_walk", "the sequential walk after the session mix failed: "+why, "walk", desc)
		return
	}
	for _, e := range final {
		if e.IsDir || len(e.Path) != 2 || e.Path[0] == "c" {
			continue
		}
		f := key(e.Path)
		id, whole := c9UId(e.Data)
		known := false
		for _, w := range writes[f] {
			known = known || w.id == id
		}
		if !whole || !known {
			o.Fail("file_values", fmt.Sprintf("after the session mix %s holds %d bytes that are not one of the values written to it", f, len(e.Data)), "torn-file", desc)
			bad++
		}
	}
	o.CountEval(fmt.Sprintf("SM:%d:%d:%d:%d", g, per, procs, seeds[0]), bad == 0)
}

// ---------- (vii) commons

func c9RunFsProgs(fs filesystem.Filespace, progs [][]FsOp, procs int, seed uint64, watchdog time.Duration) (res [][]FsOut, hang bool) {
	old := runtime.GOMAXPROCS(procs)
	defer runtime.GOMAXPROCS(old)
	verifhook.SetCallback(c9Jitter(seed))
	defer verifhook.SetCallback(nil)
	res = make([][]FsOut, len(progs))
	var wg sync.WaitGroup
	gate := make(chan struct{})
	for i := range progs {
		res[i] = make([]FsOut, 0, len(progs[i]))
		wg.Add(1)
		go func(i int) {
			defer wg.Done()
			<-gate
			for _, op := range progs[i] {
				func() {
					defer func() {
						if x := recover(); x != nil {
							res[i] = append(res[i], FsOut{Kind: "panic", Msg: fmt.Sprint(x)})
						}
					}()
					res[i] = append(res[i], execOn(fs, op))
				}()
			}
		}(i)
	}
	close(gate)
	if !c9WaitWG(&wg, watchdog) {
		return nil, true
	}
	return res, false
}

func c9Commons(o *Out, rng *RNG, round, procs int) {
	fs, err := memfs.NewFilespace()
	must(err)
	base := NewRefFS()
	for _, op := range []FsOp{
		{Kind: "WriteFile", P: "src/file", Data: c9Val(4)}, {Kind: "WriteFile", P: "src/dir/a", Data: c9Val(5)},
		{Kind: "WriteFile", P: "src/dir/sub/b", Data: c9Val(6)}, {Kind: "MkdirAll", P: "cm/in"},
	} {
		if msg := base.Apply(memPolicy, nil, op, execOn(fs, op)); msg != "" {
			o.Fail("setup", "commons: setup operation refused: "+msg, "setup", op)
			return
		}
	}
	g := 2 + rng.Intn(15)
	per := 10 + rng.Intn(30)
	dirs := []string{"cm", "cm/in"}
	progs := make([][]FsOp, g)
	for i := range progs {
		r := rng.Fork()
		for j := 0; j < per; j++ {
			n := fmt.Sprintf("%s/g%d_%d", dirs[r.Intn(2)], i, r.Intn(4))
			n2 := fmt.Sprintf("%s/g%d_%d", dirs[r.Intn(2)], i, r.Intn(4))
			child := fmt.Sprintf("%s/c%d", n, r.Intn(2))
			tag := 7 + r.Intn(240)
			var op FsOp
			switch r.Intn(26) {
			case 0, 1, 2:
				op = FsOp{Kind: "WriteFile", P: n, Data: c9Val(tag)}
			case 3:
				op = FsOp{Kind: "Writer", P: n, Chunks: c9Chunks(r, c9Val(tag))}
			case 4:
				op = FsOp{Kind: "MkdirAll", P: n}
			case 5, 6:
				op = FsOp{Kind: "WriteFile", P: child, Data: c9Val(tag)}
			case 7:
				op = FsOp{Kind: "MkdirAll", P: n + "/d/e"}
			case 8:
				op = FsOp{Kind: "CopyFile", P: "src/file", Q: n}
			case 9:
				op = FsOp{Kind: "Copy", P: []string{"src/dir", "src/file"}[r.Intn(2)], Q: n}
			case 10:
				op = FsOp{Kind: "CopyDir", P: "src/dir", Q: n}
			case 11, 12:
				op = FsOp{Kind: "Remove", P: n}
			case 13, 14:
				op = FsOp{Kind: "RemoveAll", P: n}
			case 15:
				op = FsOp{Kind: "Remove", P: child}
			case 16:
				op = FsOp{Kind: "ReadFile", P: n}
			case 17:
				op = FsOp{Kind: "Reader", P: n, Bufs: []int{97, 97, 97, 97, 97, 97, 1000}}
			case 18:
				op = FsOp{Kind: []string{"IsExist", "IsFile", "IsDir"}[r.Intn(3)], P: n}
			case 19:
				op = FsOp{Kind: "Lstat", P: n}
			case 20, 21:
				op = FsOp{Kind: "ReadDir", P: dirs[r.Intn(2)]}
			case 22:
				op = FsOp{Kind: "ReadDir", P: n}
			case 23:
				op = FsOp{Kind: "Copy", P: n, Q: n2}
			case 24:
				op = FsOp{Kind: "ReadFile", P: child}
			default:
				op = FsOp{Kind: "IsFile", P: child}
			}
			progs[i] = append(progs[i], op)
		}
	}
	seed := rng.Next()
	desc := map[string]interface{}{"kind": "commons", "goroutines": g, "ops_per_goroutine": per, "gomaxprocs": procs, "jitter_seed": seed, "round": round}
	o.Stat("commons_runs")
	res, hang := c9RunFsProgs(fs, progs, procs, seed, 10*time.Second)
	if hang {
		o.Fail("no_hang", fmt.Sprintf("commons run (%d goroutines x %d ops on names of their own in two shared directories) did not finish within 10 s", g, per), "hang", desc)
		o.CountEval("hang", false)
		o.Stat("audit_hangs") // the goroutines of a run that hangs stay behind: the family stops after a few of them
		return
	}
	merged := base.Clone()
	bad := 0
	for i := range progs {
		ref := base.Clone()
		mine := fmt.Sprintf("g%d_", i)
		for j, op := range progs[i] {
			out := res[i][j]
			o.Stat("commons_" + op.Kind + "_" + out.Kind)
			var msg string
			if op.Kind == "ReadDir" && (op.P == "cm" || op.P == "cm/in") {
				msg = c9OwnListing(ref, op.P, mine, out)
			} else {
				msg = ref.Apply(memPolicy, nil, op, out)
			}
			if msg != "" && bad < 3 {
				op.fillJSON()
				oracle, sig := "distinct_paths", "own-path-result"
				if out.Kind == "panic" {
					oracle, sig = "no_panic", "panic"
				} else if op.Kind == "ReadDir" {
					oracle, sig = "listing_distinct", "own-listing"
				}
				o.Fail(oracle, fmt.Sprintf("commons: goroutine %d is the only one that touches the names %s* in cm and cm/in, yet its call #%d %s %s %s does not give what a plain tree gives for its own calls so far: %s", i, mine, j, op.Kind, op.P, op.Q, msg), sig,
					map[string]interface{}{"run": desc, "goroutine": i, "index": j, "op": op, "result_kind": out.Kind, "result_msg": out.Msg, "why": msg})
			}
			if msg != "" {
				bad++
				break
			}
		}
		for k, v := range ref.m {
			merged.m[k] = v
		}
	}
	final, ok, why := walkFs(fs)
	if !ok {
		o.Fail("final_walk", "the sequential walk after the commons run failed: "+why, "walk", desc)
		return
	}
	if bad == 0 {
		if same, diff := walkEqual(final, merged.Walk()); !same {
			o.Fail("distinct_paths", "commons: every call gave the result of a plain tree, but the final tree is not the union of what the goroutines left under their own names: "+diff, "own-path-final", desc)
			bad++
		}
	}
	o.CountEval(fmt.Sprintf("CM:%d:%d:%d:%d", g, per, procs, seed), bad == 0)
}

// c9OwnListing: a listing of a shared directory taken by the owner of the names mine*: distinct
// names, and the names beginning with mine are exactly the owner's existing nodes of that directory.
func c9OwnListing(ref *RefFS, dir string, mine string, out FsOut) string {
	if out.Kind != "list" {
		return "ReadDir of a directory that always exists gave " + out.Kind + " " + out.Msg
	}
	seen := map[string]bool{}
	got := map[string]bool{}
	for _, e := range out.List {
		if seen[e.Name] {
			return "the listing contains the name " + e.Name + " twice"
		}
		seen[e.Name] = true
		if strings.HasPrefix(e.Name, mine) {
			got[e.Name] = e.IsDir
		}
	}
	n := 0
	for _, e := range ref.childrenOf(strings.Split(dir, "/")) {
		if !strings.HasPrefix(e.Name, mine) {
			continue
		}
		n++
		isDir, ok := got[e.Name]
		if !ok {
			return "the listing lacks the caller's own existing node " + e.Name
		}
		if isDir != e.IsDir {
			return "the listing shows the caller's node " + e.Name + " with the wrong kind"
		}
	}
	if n != len(got) {
		return fmt.Sprintf("the listing shows %d nodes with the caller's prefix, the caller has %d there", len(got), n)
	}
	return ""
}

// ---------- (viii) creation storms

// c9SerialisableRes: like c9Serialisable, but over ALL calls with their observed result classes.
func c9SerialisableRes(init []WalkEnt, ops []c9Hop, outs []FsOut, final []WalkEnt) bool {
	n := len(ops)
	used := make([]bool, n)
	var rec func(ref *RefFS, left int) bool
	rec = func(ref *RefFS, left int) bool {
		if left == 0 {
			ok, _ := walkEqual(final, ref.Walk())
			return ok
		}
		for i := 0; i < n; i++ {
			if used[i] {
				continue
			}
			blocked := false
			for j := 0; j < n; j++ {
				if !used[j] && j != i && ops[j].End < ops[i].Begin {
					blocked = true
					break
				}
			}
			if blocked {
				continue
			}
			r2 := ref.Clone()
			if msg := r2.Apply(memPolicy, nil, ops[i].Op.fsop(), outs[i]); msg != "" {
				continue
			}
			used[i] = true
			if rec(r2, left-1) {
				used[i] = false
				return true
			}
			used[i] = false
		}
		return false
	}
	return rec(c9RefFrom(init), n)
}

// c9RefusedByCopy: WriteFile / Writer of a NEW file refused ("node named x exists") because an
// overlapping Copy* put its node under the same name first.  Copy* inserts without the directory's
// outer lock, so the check-then-create of WriteFile/Writer can find the name taken at its addNode.
// The property does not say that a racing creator succeeds (it says one node results): such a
// refusal is left open here and counted; the call then has no effect (observed on the unchanged
// tree, see notes/C09-audit/FINDING-1).
func c9RefusedByCopy(progs [][]c9Op, res [][]c9Res, i, j int) bool {
	op, r := progs[i][j], res[i][j]
	if (op.Kind != "Write" && op.Kind != "Writer") || r.Kind != "err" {
		return false
	}
	for i2, p2 := range progs {
		for j2, op2 := range p2 {
			r2 := res[i2][j2]
			if (op2.Kind == "Copy" || op2.Kind == "CopyDir" || op2.Kind == "CopyFile") && r2.Kind == "ok" &&
				key(op2.Q) == key(op.P) && !(r2.End < r.Begin || r.End < r2.Begin) {
				return true
			}
		}
	}
	return false
}

func c9StormGen(rng *RNG, round int) (setup []c9Op, progs [][]c9Op, family string) {
	tg := func() int { return 3 + rng.Intn(200) }
	setup = []c9Op{c9W(1, "s"), c9W(2, "t", "s"), c9Mk("t", "e")}
	k := 2 + rng.Intn(4)
	depth := rng.Intn(3)
	target := append([]string{"n", "m"}[:depth:depth], "x")
	if depth > 0 && rng.Bool() {
		setup = append(setup, c9Mk(target[:depth]...))
	}
	sub := func(s string) []string { return append(append([]string{}, target...), s) }
	creator := func(kind int) c9Op {
		switch kind {
		case 0:
			return c9W(tg(), target...)
		case 1:
			return c9Wr(tg(), target...)
		case 2:
			return c9Mk(target...)
		case 3:
			return c9Cp("CopyFile", []string{"s"}, target...)
		case 4:
			return c9Cp("Copy", []string{"s"}, target...)
		case 5:
			return c9Cp("Copy", []string{"t"}, target...)
		case 6:
			return c9Cp("CopyDir", []string{"t"}, target...)
		case 7:
			return c9W(tg(), sub("c")...)
		}
		return c9Mk(sub("y")...)
	}
	switch round % 3 {
	case 0:
		family = "same-kind"
		kind := rng.Intn(9)
		for i := 0; i < k; i++ {
			progs = append(progs, []c9Op{creator(kind)})
		}
	case 1:
		family = "mixed"
		for i := 0; i < k; i++ {
			progs = append(progs, []c9Op{creator(rng.Intn(9))})
		}
	default:
		family = "parent-removed"
		setup = append(setup, c9Mk("d"))
		all := rng.Bool()
		if all && rng.Bool() {
			setup = append(setup, c9W(9, "d", "z"))
		}
		progs = append(progs, []c9Op{c9Rm(all, "d")})
		for i := 1; i < k; i++ {
			switch rng.Intn(5) {
			case 0, 1:
				progs = append(progs, []c9Op{c9W(tg(), "d", fmt.Sprintf("x%d", i))})
			case 2:
				progs = append(progs, []c9Op{c9W(tg(), "d", "x")})
			case 3:
				progs = append(progs, []c9Op{c9Mk("d", "y")})
			default:
				progs = append(progs, []c9Op{c9Cp("CopyFile", []string{"s"}, "d", fmt.Sprintf("x%d", i))})
			}
		}
	}
	return setup, progs, family
}

func c9StormRun(o *Out, rng *RNG, setup []c9Op, progs [][]c9Op, family string, round, procs int) {
	fs, err := memfs.NewFilespace()
	must(err)
	for _, op := range setup {
		c9Exec(fs, op)
	}
	init, _, _ := walkFs(fs)
	old := runtime.GOMAXPROCS(procs)
	defer runtime.GOMAXPROCS(old)
	verifhook.SetCallback(nil)
	if round%4 == 3 {
		verifhook.SetCallback(c9Jitter(rng.Next()))
	}
	defer verifhook.SetCallback(nil)
	res := make([][]c9Res, len(progs))
	var seq uint64
	var ready, goFlag int32
	var wg sync.WaitGroup
	for i := range progs {
		wg.Add(1)
		go func(i int) {
			defer wg.Done()
			atomic.AddInt32(&ready, 1)
			for n := 0; atomic.LoadInt32(&goFlag) == 0; n++ { // released together, not one after the other
				if procs == 1 || n%256 == 255 {
					runtime.Gosched()
				}
			}
			for _, op := range progs[i] {
				b := atomic.AddUint64(&seq, 1)
				r := c9Exec(fs, op)
				r.Begin, r.End = b, atomic.AddUint64(&seq, 1)
				res[i] = append(res[i], r)
			}
		}(i)
	}
	for atomic.LoadInt32(&ready) != int32(len(progs)) {
		runtime.Gosched()
	}
	atomic.StoreInt32(&goFlag, 1)
	desc := map[string]interface{}{"kind": "creation-storm", "family": family, "setup": setup, "progs": progs, "gomaxprocs": procs, "round": round}
	o.Stat("storm_runs")
	o.Stat("storm_" + family)
	if !c9WaitWG(&wg, 10*time.Second) {
		o.Fail("no_hang", "creation storm did not finish within 10 s", "hang", desc)
		o.CountEval("hang", false)
		o.Stat("audit_hangs") // the goroutines of a run that hangs stay behind: the family stops after a few of them
		return
	}
	desc["results"] = res
	final, ok, why := walkFs(fs)
	desc["final"] = c9WalkDesc(final)
	if !ok {
		o.Fail("final_walk", "the sequential walk after the creation storm failed: "+why, "walk", desc)
		return
	}
	c9Basic(o, "creation storm", progs, res, desc)
	names := map[string]bool{}
	for _, e := range final {
		if names[key(e.Path)] {
			o.Fail("create_once", "creation storm: "+key(e.Path)+" exists twice afterwards: concurrent creations of one new node gave two nodes", "dup-node", desc)
			return
		}
		names[key(e.Path)] = true
	}
	keyb, _ := json.Marshal([]interface{}{setup, progs, res})
	if c9Hazard(init, progs, res) {
		o.Stat("storm_hazard_skipped")
		o.CountEval("ST:"+string(keyb), false)
		return
	}
	var hops []c9Hop
	var outs []FsOut
	for i, p := range progs {
		for j, op := range p {
			if c9RefusedByCopy(progs, res, i, j) {
				o.Stat("storm_writer_refused_by_copy")
				continue
			}
			hops = append(hops, c9Hop{Op: op, Begin: res[i][j].Begin, End: res[i][j].End})
			if res[i][j].Kind == "ok" {
				outs = append(outs, FsOut{Kind: "unit"})
			} else {
				outs = append(outs, FsOut{Kind: "err", Msg: res[i][j].Msg})
			}
		}
	}
	if !c9SerialisableRes(init, hops, outs, final) {
		o.Fail("create_once", "creation storm ("+family+"): no sequential order of the calls gives these results and this final tree (e.g. a creator refused because a concurrent creator of the same new node won, two creators that both think they made the node, or a creation lost to a removal that came first)", "storm-not-serialisable", desc)
	} else {
		o.Stat("storm_serialisable")
	}
	succ := c9Succ(progs, res)
	o.AddCase(c9CoqHist(init, succ, final), desc, "ST:"+string(keyb), len(succ) > 1)
}

// ---------- (ix) listing storm

func c9ListingStorm(o *Out, rng *RNG, procs int, iters int) {
	fs, err := memfs.NewFilespace()
	must(err)
	old := runtime.GOMAXPROCS(procs)
	defer runtime.GOMAXPROCS(old)
	verifhook.SetCallback(nil)
	const g, own = 4, 40
	name := func(i, k int) string { return fmt.Sprintf("n%d_%d", i, k) }
	isDir := func(i, k int) bool { return (i+k)%3 == 0 }
	add := func(i, k int) error {
		if isDir(i, k) {
			return fs.MkdirAll("L/"+name(i, k), 0o777)
		}
		return fs.WriteFile("L/"+name(i, k), c9Short(3+k), 0o644)
	}
	for k := 0; k < own; k++ {
		for i := 0; i < g; i++ {
			must(add(i, k))
		}
	}
	type finding struct {
		oracle, what, sig string
		c                 map[string]interface{}
	}
	var mu sync.Mutex
	var found *finding
	var stop int32
	var listings int64
	report := func(f *finding) {
		mu.Lock()
		if found == nil {
			found = f
		}
		mu.Unlock()
		atomic.StoreInt32(&stop, 1)
	}
	var wg sync.WaitGroup
	for i := 0; i < g; i++ {
		wg.Add(1)
		go func(i int) {
			defer wg.Done()
			c := func(it int, step string) map[string]interface{} {
				return map[string]interface{}{"kind": "listing-storm", "goroutine": i, "iteration": it, "step": step, "gomaxprocs": procs}
			}
			defer func() {
				if x := recover(); x != nil {
					report(&finding{"no_panic", fmt.Sprintf("listing storm: a call panicked: %v", x), "panic", c(-1, "")})
				}
			}()
			mine := fmt.Sprintf("n%d_", i)
			check := func(it int, step string, absent int) bool {
				infos, err := fs.ReadDir("L")
				if err != nil {
					report(&finding{"distinct_paths", "listing storm: ReadDir of a directory nobody removes failed: " + err.Error(), "op-failed", c(it, step)})
					return false
				}
				atomic.AddInt64(&listings, 1)
				seen := make(map[string]bool, len(infos))
				n := 0
				for _, inf := range infos {
					nm := inf.Name()
					if seen[nm] {
						report(&finding{"listing_distinct", "listing storm: a listing contains the name " + nm + " twice", "dup-listing", c(it, step)})
						return false
					}
					seen[nm] = true
					if strings.HasPrefix(nm, mine) {
						n++
					}
				}
				want := own
				if absent >= 0 {
					want--
					if seen[name(i, absent)] {
						report(&finding{"listing_distinct", "listing storm: a listing taken by the owner after its successful removal of " + name(i, absent) + " still shows that name", "own-listing", c(it, step)})
						return false
					}
				}
				if n != want {
					for k := 0; k < own; k++ {
						if k != absent && !seen[name(i, k)] {
							report(&finding{"listing_distinct", fmt.Sprintf("listing storm: a listing taken by the owner lacks its existing node %s (it shows %d of the owner's %d names; other goroutines remove and create names of their own in the same directory meanwhile)", name(i, k), n, want), "own-listing", c(it, step)})
							return false
						}
					}
					report(&finding{"listing_distinct", fmt.Sprintf("listing storm: a listing shows %d names of the owner, which has %d", n, want), "own-listing", c(it, step)})
					return false
				}
				return true
			}
			for it := 0; it < iters && atomic.LoadInt32(&stop) == 0; it++ {
				k := (it * 7) % own
				var err error
				if isDir(i, k) && it%2 == 0 {
					err = fs.RemoveAll("L/" + name(i, k))
				} else {
					err = fs.Remove("L/" + name(i, k))
				}
				if err != nil {
					report(&finding{"distinct_paths", "listing storm: removal of the caller's own existing node " + name(i, k) + " failed: " + err.Error(), "op-failed", c(it, "remove")})
					return
				}
				if !check(it, "after-remove", k) {
					return
				}
				if err = add(i, k); err != nil {
					report(&finding{"distinct_paths", "listing storm: creation of the caller's own node " + name(i, k) + " failed: " + err.Error(), "op-failed", c(it, "create")})
					return
				}
				if !check(it, "after-create", -1) {
					return
				}
			}
		}(i)
	}
	o.Stat("listing_storm_runs")
	if !c9WaitWG(&wg, 60*time.Second) {
		atomic.StoreInt32(&stop, 1)
		o.Fail("no_hang", "listing storm did not finish within 60 s", "hang", map[string]interface{}{"kind": "listing-storm", "gomaxprocs": procs})
		return
	}
	o.Stats["listing_storm_listings"] += int(atomic.LoadInt64(&listings))
	if found != nil {
		o.Fail(found.oracle, found.what, found.sig, found.c)
		return
	}
	o.CountEval(fmt.Sprintf("LS:%d:%d", procs, iters), true)
}

// ---------- (x) race loop: Remove of an empty directory against creators inside it (two rounds of
// three), four WriteFile/Writer calls on the same new file (every third round)
//
// Remove (not RemoveAll) succeeds only on an EMPTY directory, and the test for emptiness, the
// unlinking and the "removed" mark that sends creators back to the root are one step of the
// protocol.  So whatever Remove answers, every creator that returned nil must be visible afterwards:
// Remove refused => the directory stayed; Remove succeeded => the directory was empty at that
// moment, every successful creator comes later and made the directory again.  The window between
// unlinking and marking has no yield point, so it is hit by repetition only (persistent workers
// released together per round).
func c9RemoveRace(o *Out, rng *RNG, procs int, rounds int) {
	fs, err := memfs.NewFilespace()
	must(err)
	old := runtime.GOMAXPROCS(procs)
	defer runtime.GOMAXPROCS(old)
	verifhook.SetCallback(nil)
	must(fs.WriteFile("s", c9Short(1), 0o644))
	const workers = 4 // worker 0 removes, 1-3 create
	var ready, goFlag int32
	errs := make([]error, workers)
	panics := make([]interface{}, workers)
	kinds := make([]int, workers)
	delay := make([]int32, workers)
	sameMode := false // every third round: all four workers WriteFile / Writer the SAME new file of the directory
	dirOf := func(it int32) string { return fmt.Sprintf("r%d", it) }
	nameOf := func(w int) string { return fmt.Sprintf("x%d", w) }
	startCh := make([]chan int32, workers)
	doneCh := make(chan int, workers)
	for w := 0; w < workers; w++ {
		startCh[w] = make(chan int32, 1)
		go func(w int) {
			for it := range startCh[w] {
				// woken one after the other, released together
				atomic.AddInt32(&ready, 1)
				for n := 0; atomic.LoadInt32(&goFlag) != it+1; n++ {
					if n%64 == 63 {
						runtime.Gosched()
					}
				}
				for n := int32(0); n < delay[w]; n++ { // shifts the calls against each other by a few hundred ns
					atomic.LoadInt32(&goFlag)
				}
				func() {
					defer func() {
						if x := recover(); x != nil {
							panics[w] = x
						}
						doneCh <- w
					}()
					d := dirOf(it)
					if w == 0 && !sameMode {
						errs[w] = fs.Remove(d)
						return
					}
					p := d + "/" + nameOf(w)
					if sameMode {
						p = d + "/same"
					}
					switch kinds[w] {
					case 0:
						errs[w] = fs.WriteFile(p, c9Short(10+w), 0o644)
					case 1:
						errs[w] = fs.MkdirAll(p, 0o777)
					case 2:
						errs[w] = fs.CopyFile("s", p)
					default:
						var wr filesystem.Writer
						if wr, errs[w] = fs.Writer(p); errs[w] == nil {
							wr.Write(c9Short(10 + w))
							errs[w] = wr.Close()
						}
					}
				}()
			}
		}(w)
	}
	defer func() {
		for w := range startCh {
			close(startCh[w])
		}
	}()
	o.Stat("remove_race_runs")
	tmo := time.NewTimer(10 * time.Second)
	defer tmo.Stop()
	// the creators start bias spins after the remover; the feedback below keeps Remove winning about
	// half of the time, i.e. the insertions land around the moment the directory is unlinked
	var bias int32
	for it := int32(0); it < int32(rounds); it++ {
		must(fs.MkdirAll(dirOf(it), 0o777))
		for w := 1; w < workers; w++ {
			kinds[w] = rng.Intn(4)
			delay[w] = bias + int32(rng.Intn(80))
			errs[w], panics[w] = nil, nil
		}
		errs[0], panics[0], delay[0] = nil, nil, int32(rng.Intn(100))
		if sameMode = it%3 == 2; sameMode {
			for w := 0; w < workers; w++ {
				kinds[w] = []int{0, 3}[rng.Intn(2)]
				delay[w] = int32(rng.Intn(60))
			}
		}
		atomic.StoreInt32(&ready, 0)
		for w := range startCh {
			startCh[w] <- it
		}
		for n := 0; atomic.LoadInt32(&ready) != workers; n++ {
			if n%64 == 63 {
				runtime.Gosched()
			}
		}
		atomic.StoreInt32(&goFlag, it+1)
		if !tmo.Stop() {
			select {
			case <-tmo.C:
			default:
			}
		}
		tmo.Reset(10 * time.Second)
		for k := 0; k < workers; k++ {
			select {
			case <-doneCh:
			case <-tmo.C:
				o.Fail("no_hang", "Remove of an empty directory against three creators inside it did not finish within 10 s", "hang", map[string]interface{}{"kind": "remove-race", "round": it, "gomaxprocs": procs})
				o.Stat("audit_hangs")
				return
			}
		}
		c := map[string]interface{}{"kind": "remove-race", "round": it, "gomaxprocs": procs, "creators": append([]int{}, kinds[1:]...), "remove_refused": errs[0] != nil}
		for w := 0; w < workers; w++ {
			if panics[w] != nil {
				o.Fail("no_panic", fmt.Sprintf("remove race: a call panicked: %v", panics[w]), "panic", c)
				return
			}
		}
		if sameMode {
			// WriteFile and Writer look the name up and create the file under the directory's outer lock:
			// on a plain tree each of them succeeds whether the file is new or was just made by another one
			c["kind"], c["creators"] = "same-new-file", append([]int{}, kinds...)
			o.Stat("same_new_file_rounds")
			p := dirOf(it) + "/same"
			for w := 0; w < workers; w++ {
				if errs[w] != nil {
					o.Fail("create_once", fmt.Sprintf("four concurrent WriteFile/Writer calls on the same new file %s: %s was refused although every sequential order lets all of them succeed: %v", p, []string{"WriteFile", "", "", "Writer"}[kinds[w]], errs[w]), "creator-refused", c)
					return
				}
			}
			d, rerr := fs.ReadFile(p)
			whole := false
			for w := 0; w < workers; w++ {
				whole = whole || string(d) == string(c9Short(10+w))
			}
			if rerr != nil || !whole {
				o.Fail("file_values", fmt.Sprintf("four concurrent WriteFile/Writer calls on the same new file %s all returned nil, but the file does not hold one of their values afterwards (%d bytes, %v)", p, len(d), rerr), "torn-file", c)
				return
			}
			if infos, lerr := fs.ReadDir(dirOf(it)); lerr != nil || len(infos) != 1 || infos[0].Name() != "same" {
				o.Fail("create_once", fmt.Sprintf("four concurrent creations of the new file %s: the directory lists %d nodes afterwards instead of the one file (%v)", p, len(infos), lerr), "dup-node", c)
				return
			}
			fs.RemoveAll(dirOf(it))
			continue
		}
		if errs[0] == nil {
			o.Stat("remove_race_removed")
			if bias -= 12; bias < 0 {
				bias = 0
			}
		} else {
			o.Stat("remove_race_refused")
			if bias += 12; bias > 20000 {
				bias = 20000
			}
		}
		for w := 1; w < workers; w++ {
			p := dirOf(it) + "/" + nameOf(w)
			kind := []string{"WriteFile", "MkdirAll", "CopyFile", "Writer"}[kinds[w]]
			if errs[w] != nil {
				o.Fail("distinct_paths", fmt.Sprintf("remove race: %s %s failed (nothing is in its way whether the concurrent Remove of the directory comes first or not): %v", kind, p, errs[w]), "op-failed", c)
				return
			}
			okNode := false
			if kinds[w] == 1 {
				okNode = fs.IsDir(p)
			} else if d, rerr := fs.ReadFile(p); rerr == nil {
				want := c9Short(10 + w)
				if kinds[w] == 2 {
					want = c9Short(1)
				}
				okNode = string(d) == string(want)
			}
			if !okNode {
				what := "Remove was refused, so the directory was never removed"
				if errs[0] == nil {
					what = "Remove succeeded, so the directory was empty at that moment and this creator comes after it"
				}
				o.Fail("distinct_paths", fmt.Sprintf("remove race: %s %s returned nil but the node is not there afterwards (%s): a successful creation was lost", kind, p, what), "lost-create", c)
				return
			}
		}
		fs.RemoveAll(dirOf(it))
	}
	o.CountEval(fmt.Sprintf("RR:%d:%d", procs, rounds), true)
}

func c9AuditFamilies(o *Out, rng *RNG, tier string) {
	nSess, nCommons, nStorm, nIter, nRace := 48, 60, 900, 1500, 6000
	if tier == "thorough" {
		nSess, nCommons, nStorm, nIter, nRace = 1200, 1500, 20000, 20000, 100000
	}
	only := os.Getenv("VERIF_C09_FAMILY") // debugging aid: sessions | commons | storms | race | listing
	reps := 1
	if v, err := strconv.Atoi(os.Getenv("VERIF_C09_REPEAT")); err == nil && v > 0 {
		reps = v
	}
	procs := []int{1, 2, 4, 16}
	for i := 0; i < nSess; i++ {
		if r := rng.Fork(); (only == "" || only == "sessions") && o.Stats["audit_hangs"] < 2 {
			c9SessionMix(o, r, i, procs[i%4])
		}
	}
	for i := 0; i < nCommons; i++ {
		if r := rng.Fork(); (only == "" || only == "commons") && o.Stats["audit_hangs"] < 4 {
			c9Commons(o, r, i, procs[i%4])
		}
	}
	for i := 0; i < nStorm; i++ {
		if r := rng.Fork(); (only == "" || only == "storms") && o.Stats["audit_hangs"] < 6 {
			setup, progs, family := c9StormGen(r, i)
			for k := 0; k < reps; k++ {
				c9StormRun(o, r, setup, progs, family, i, []int{2, 4, 16, 16, 4, 1, 8}[i%7])
			}
		}
	}
	if only == "" || only == "race" {
		for _, pr := range []int{4, 16, 2} {
			if o.Stats["audit_hangs"] < 6 {
				c9RemoveRace(o, rng.Fork(), pr, nRace)
			}
		}
	}
	if only != "" && only != "listing" {
		return
	}
	for _, pr := range []int{2, 4, 16, 1} {
		n := nIter
		if pr == 1 {
			n = nIter / 4
		}
		c9ListingStorm(o, rng.Fork(), pr, n)
	}
}
