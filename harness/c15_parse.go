package main

// C15 (iii): the lock-list parsing of pip:run (pipc/helpers.go markBoolMapForNamespace, reached
// through pipc.Run with a recording runner) against the pure model Model/Locks.v mark_bool_map.

import (
	"fmt"
	"sort"

	"github.com/goatcms/goatcore/app"
	"github.com/goatcms/goatcore/app/gio"
	"github.com/goatcms/goatcore/app/goatapp"
	"github.com/goatcms/goatcore/app/injector"
	"github.com/goatcms/goatcore/app/modules/pipelinem/pipcommands/pipc"
	"github.com/goatcms/goatcore/app/modules/pipelinem/pipservices"
	"github.com/goatcms/goatcore/app/modules/pipelinem/pipservices/namespaces"
	"github.com/goatcms/goatcore/app/scope"
	"github.com/goatcms/goatcore/app/scope/datascope"
)

type c15Recorder struct {
	got  map[string]bool
	seen bool
}

func (r *c15Recorder) Run(pip pipservices.Pip) error {
	r.seen = true
	r.got = map[string]bool{}
	for k, v := range pip.Lock {
		r.got[k] = v
	}
	return nil
}

func c15RunParse(mapp *goatapp.MockupApp, rec *c15Recorder, rl, wl, ns string) (kind string, rows []c15Row) {
	defer func() {
		if r := recover(); r != nil {
			kind, rows = "panic", nil
		}
	}()
	rec.seen, rec.got = false, nil
	argsData := datascope.New(make(map[interface{}]interface{}))
	argsData.SetValue("name", "n")
	argsData.SetValue("body", "x")
	if rl != "" {
		argsData.SetValue("rlock", rl)
	}
	if wl != "" {
		argsData.SetValue("wlock", wl)
	}
	parent := mapp.Scopes().App()
	child := scope.NewChild(parent, scope.ChildParams{
		DataScope: datascope.New(make(map[interface{}]interface{})),
		Injector: injector.NewMultiInjector([]app.Injector{
			mapp,
			datascope.NewInjector("command", argsData),
		}),
		Name: "c15parse",
	})
	defer child.Close()
	if err := namespaces.NewUnit().Define(child, namespaces.NewNamespaces(pipservices.NamasepacesParams{Task: "", Lock: ns})); err != nil {
		return "err", nil
	}
	ctx := gio.NewIOContext(child, mapp.IOContext().IO())
	if err := pipc.Run(mapp, ctx); err != nil {
		return "err", nil
	}
	if !rec.seen {
		return "err", nil
	}
	for k, v := range rec.got {
		rows = append(rows, c15Row{k, v})
	}
	sort.Slice(rows, func(i, j int) bool { return rows[i].Name < rows[j].Name })
	return "ok", rows
}

func c15Parse(o *Out, rng *RNG, n int) {
	rec := &c15Recorder{}
	mapp, err := goatapp.NewMockupApp(goatapp.Params{})
	if err == nil {
		dp := mapp.DependencyProvider()
		err = dp.AddDefaultFactory(pipservices.NamespacesUnitService, namespaces.UnitFactory)
		if err == nil {
			err = dp.AddDefaultFactory(pipservices.RunnerService, func(dp app.DependencyProvider) (interface{}, error) {
				return pipservices.Runner(rec), nil
			})
		}
	}
	if err != nil {
		o.Extra["parse_skipped"] = err.Error()
		return
	}
	atoms := []string{"a", "b", "ab", "B", "_x", "a1", "@a", "@b", "@g_1", " a", "b ", "\ta\n", "1a", "", "a-b", "@", "@1", "a@", "é", " @a ", "@ a", "A_9z"}
	gen := func() string {
		k := rng.Intn(4)
		if rng.Chance(15) {
			k = 0
		}
		s := ""
		for i := 0; i < k; i++ {
			if i > 0 {
				s += ","
			}
			if rng.Chance(85) {
				s += atoms[rng.Intn(10)] // valid share
			} else {
				s += atoms[rng.Intn(len(atoms))]
			}
		}
		if rng.Chance(3) {
			s += ","
		}
		return s
	}
	for i := 0; i < n; i++ {
		rl, wl := gen(), gen()
		ns := []string{"", "", "ns", "p:q", "x_"}[rng.Intn(5)]
		kind, rows := c15RunParse(mapp, rec, rl, wl, ns)
		desc := map[string]interface{}{"op": "parse", "rlock": rl, "wlock": wl, "namespace": ns, "kind": kind, "rows": descRows(rows)}
		o.Stat("parse_" + kind)
		if kind == "panic" {
			o.Fail("no_panic", "pip:run panicked while parsing its lock lists", "panic", desc)
		}
		res := "None"
		if kind == "ok" {
			res = "(Some " + coqRows(rows) + ")"
			// L2: every requested name appears, a name in wlock is a write lock
			o.Stat(fmt.Sprintf("parse_rows_%d", len(rows)))
		}
		o.AddCase(fmt.Sprintf("CParse %s %s %s %s", coqStr(rl), coqStr(wl), coqStr(ns), res), desc,
			"p:"+rl+"|"+wl+"|"+ns, kind == "ok" && len(rows) > 0)
	}
}
