package main

// C15 (iii): the lock-list parsing of pip:run (pipc/helpers.go markBoolMapForNamespace, reached
// through pipc.Run with a recording runner) against the pure model Model/Locks.v mark_bool_map.

import (
	"fmt"
	"regexp"
	"sort"
	"strings"

	"github.com/goatcms/goatcore/app"
	"github.com/goatcms/goatcore/app/gio"
	"github.com/goatcms/goatcore/app/goatapp"
	"github.com/goatcms/goatcore/app/injector"
	"github.com/goatcms/goatcore/app/modules/pipelinem/pipcommands/pipc"
	"github.com/goatcms/goatcore/app/modules/pipelinem/pipservices"
	"github.com/goatcms/goatcore/app/modules/pipelinem/pipservices/namespaces"
	"github.com/goatcms/goatcore/app/scope"
	"github.com/goatcms/goatcore/app/scope/datascope"
)

type c15Recorder struct {
	got  map[string]bool
	seen bool
}

func (r *c15Recorder) Run(pip pipservices.Pip) error {
	r.seen = true
	r.got = map[string]bool{}
	for k, v := range pip.Lock {
		r.got[k] = v
	}
	return nil
}

func c15RunParse(mapp *goatapp.MockupApp, rec *c15Recorder, rl, wl, ns string) (kind string, rows []c15Row) {
	defer func() {
		if r := recover(); r != nil {
			kind, rows = "panic", nil
		}
	}()
	rec.seen, rec.got = false, nil
	argsData := datascope.New(make(map[interface{}]interface{}))
	argsData.SetValue("name", "n")
	argsData.SetValue("body", "x")
	if rl != "" {
		argsData.SetValue("rlock", rl)
	}
	if wl != "" {
		argsData.SetValue("wlock", wl)
	}
	parent := mapp.Scopes().App()
	child := scope.NewChild(parent, scope.ChildParams{
		DataScope: datascope.New(make(map[interface{}]interface{})),
		Injector: injector.NewMultiInjector([]app.Injector{
			mapp,
			datascope.NewInjector("command", argsData),
		}),
		Name: "c15parse",
	})
	defer child.Close()
	if err := namespaces.NewUnit().Define(child, namespaces.NewNamespaces(pipservices.NamasepacesParams{Task: "", Lock: ns})); err != nil {
		return "err", nil
	}
	ctx := gio.NewIOContext(child, mapp.IOContext().IO())
	if err := pipc.Run(mapp, ctx); err != nil {
		return "err", nil
	}
	if !rec.seen {
		return "err", nil
	}
	for k, v := range rec.got {
		rows = append(rows, c15Row{k, v})
	}
	sort.Slice(rows, func(i, j int) bool { return rows[i].Name < rows[j].Name })
	return "ok", rows
}

func c15Parse(o *Out, rng *RNG, n int) {
	rec := &c15Recorder{}
	mapp, err := goatapp.NewMockupApp(goatapp.Params{})
	if err == nil {
		dp := mapp.DependencyProvider()
		err = dp.AddDefaultFactory(pipservices.NamespacesUnitService, namespaces.UnitFactory)
		if err == nil {
			err = dp.AddDefaultFactory(pipservices.RunnerService, func(dp app.DependencyProvider) (interface{}, error) {
				return pipservices.Runner(rec), nil
			})
		}
	}
	if err != nil {
		o.Extra["parse_skipped"] = err.Error()
		return
	}
	// the first nValid atoms are well-formed; among them names that BEGIN WITH one of the lock
	// namespaces below (x_a in namespace x_ is the resource x_x_a, not x_a), names that are a
	// namespace, and the absolute forms of such names
	atoms := []string{"a", "b", "ab", "B", "_x", "a1", "@a", "@b", "@g_1", " a",
		"x_a", "nsa", "ns", "x_", "aa", "@x_a", "@nsa", "x_x_a", "nsb",
		"b ", "\ta\n", "1a", "", "a-b", "@", "@1", "a@", "é", " @a ", "@ a", "A_9z"}
	const nValid = 19
	gen := func() string {
		k := rng.Intn(4)
		if rng.Chance(15) {
			k = 0
		}
		s := ""
		for i := 0; i < k; i++ {
			if i > 0 {
				s += ","
			}
			if rng.Chance(85) {
				s += atoms[rng.Intn(nValid)] // valid share
			} else {
				s += atoms[rng.Intn(len(atoms))]
			}
		}
		if rng.Chance(3) {
			s += ","
		}
		return s
	}
	for i := 0; i < n; i++ {
		rl, wl := gen(), gen()
		ns := []string{"", "", "ns", "p:q", "x_", "a", "x_", "ns"}[rng.Intn(8)]
		if i%25 == 24 { // a long list: 9..40 names
			rl, wl = "", ""
			for k, cnt := 0, 9+rng.Intn(32); k < cnt; k++ {
				nm := fmt.Sprintf("%s%d", atoms[rng.Intn(6)], k/2) // k/2: every name twice
				if rng.Chance(50) {
					rl += "," + nm
				} else {
					wl += "," + nm
				}
			}
			rl, wl = strings.TrimPrefix(rl, ","), strings.TrimPrefix(wl, ",")
		}
		kind, rows := c15RunParse(mapp, rec, rl, wl, ns)
		desc := map[string]interface{}{"op": "parse", "rlock": rl, "wlock": wl, "namespace": ns, "kind": kind, "rows": descRows(rows)}
		o.Stat("parse_" + kind)
		if kind == "panic" {
			o.Fail("no_panic", "pip:run panicked while parsing its lock lists", "panic", desc)
		}
		res := "None"
		if kind == "ok" {
			res = "(Some " + coqRows(rows) + ")"
			// L2: what the task asked for is what the runner is told to lock - one resource per
			// distinct requested name (names that differ are different resources, none is
			// dropped), write access for every name of --wlock, read access for the others
			if nR, nW, judged := c15ParseExpect(rl, wl, ns); judged {
				gotR, gotW := 0, 0
				for _, r := range rows {
					if r.W {
						gotW++
					} else {
						gotR++
					}
				}
				if gotR != nR || gotW != nW {
					o.Fail("lock_request", fmt.Sprintf("pip:run --rlock=%q --wlock=%q in lock namespace %q asks for %d resources for write and %d others for read, "+
						"the runner was handed a lock map with %d write and %d read entries", rl, wl, ns, nW, nR, gotW, gotR), "parse-lock-request", desc)
				}
			}
			o.Stat(fmt.Sprintf("parse_rows_%d", len(rows)))
		}
		o.AddCase(fmt.Sprintf("CParse %s %s %s %s", coqStr(rl), coqStr(wl), coqStr(ns), res), desc,
			"p:"+rl+"|"+wl+"|"+ns, kind == "ok" && len(rows) > 0)
	}
}

var c15NameRe = regexp.MustCompile("^[a-zA-Z_]+[a-zA-Z0-9_]*$")

// c15ParseExpect: how many distinct resources the two lists ask for (write / read only), or
// judged = false when one of the names is not well-formed (what is rejected is left open).
// Two requests name the same resource iff both are absolute (@name) or both relative to the
// lock namespace, and spell the same name.
func c15ParseExpect(rl, wl, ns string) (nR, nW int, judged bool) {
	resolve := func(list string, into map[string]bool) bool {
		if list == "" {
			return true
		}
		for _, tok := range strings.Split(list, ",") {
			tok = strings.Trim(tok, "\n\t ")
			if strings.HasPrefix(tok, "@") {
				if !c15NameRe.MatchString(tok[1:]) {
					return false
				}
				into["abs\x00"+tok[1:]] = true
			} else {
				if !c15NameRe.MatchString(tok) {
					return false
				}
				into["rel\x00"+tok] = true
			}
		}
		return true
	}
	r, w := map[string]bool{}, map[string]bool{}
	if !resolve(rl, r) || !resolve(wl, w) {
		return 0, 0, false
	}
	for k := range r {
		if !w[k] {
			nR++
		}
	}
	return nR, len(w), true
}
