package main

// C09 — (xi) the SIZE of the values.
//
// Every other family of this check writes values of 8-512 bytes.  The clause "a file always holds
// exactly one of the values written to it and readers only ever see complete written values" is
// quantified over all values, and how the file data is copied in and out (under which lock, into
// which buffer, in how many pieces) is exactly the part of memfs whose windows are as wide as a
// value is long: with 512 bytes a reader's copy takes some nanoseconds and no writer ever lands
// inside it, whatever the code does.  This family keeps a few files that exist all the time and
// overwrites them again and again - WriteFile and Writer sessions (1-3 chunks, yields between
// them) - with values of 24 bytes to 2 MiB: many of the SAME length with different bytes at every
// position, shorter ones that fit the buffer of the longer ones, longer ones again; while other
// goroutines use ReadFile, Reader sessions (various chunk sizes, yields between the chunk reads)
// and Copy / CopyFile / CopyDirectory to fresh destinations (read back).
//
// Every written value carries the number of the call that wrote it at its head AND at its tail
// and a body in which every byte tells which pool value it belongs to.  Oracles:
//   * no panic, no error (files and their directory are never removed), no hang;
//   * every value read (or found in a copy, or in the file at the end) is ONE complete value,
//     written by a successful call to THAT file;
//   * it is not a value that a write, begun after that write had ended, had replaced before the
//     read began (a successful write takes effect and is visible afterwards);
//   * the buffers the harness passed in or got back are scribbled over right after the call, so a
//     file that keeps a caller's big buffer, or hands out its own, shows as a torn value too.
// The bytes are judged here (a 1 MiB literal per read is nothing a Coq term should carry); what the
// model says about these histories is C09_values / C09_values_by_path, in which getData, setData
// and copyFile are one step under the data lock - this family is the tie of THAT atomicity to the
// code for values whose copy takes long enough to be interrupted.

import (
	"bytes"
	"encoding/binary"
	"fmt"
	"runtime"
	"strings"
	"sync"
	"sync/atomic"
	"time"

	"github.com/goatcms/goatcore/filesystem"
	"github.com/goatcms/goatcore/filesystem/filespace/memfs"
	"github.com/goatcms/goatcore/varutil/verifhook"
)

const c9BigStamp = 8 // bytes of the stamp at the head and at the tail of every value

// c9BigPos is the position-dependent half of a body byte, c9BigKey the value-dependent half: two
// different pool values differ at EVERY position (37 is odd, so k -> k*37+11 is injective mod 256).
func c9BigPos(i int) byte { return byte(i*7 + (i>>8)*3 + (i>>16)*5) }
func c9BigKey(k int) byte { return byte(k*37 + 11) }

// sizes of the pool values as fractions of the round's unit (in 1/16); 0 = a small value
var c9BigShape = []int{16, 16, 16, 16, 16, 12, 8, 8, 16, 15, 32, 0, 0, 4, 16, 1}
var c9BigSmall = []int{24, 300, 4096, 65536}

var c9BigReadKinds = []string{"Read", "CopyFile", "Reader", "Copy", "CopyDir"}

type c9BigPool struct {
	unit int
	val  [][]byte
}

var c9BigPools = map[int]*c9BigPool{}

func c9BigPoolFor(unit int) *c9BigPool {
	if p, ok := c9BigPools[unit]; ok {
		return p
	}
	p := &c9BigPool{unit: unit}
	small := 0
	for k, sh := range c9BigShape {
		n := unit / 16 * sh
		if sh == 15 {
			n = unit - 1
		}
		if sh == 0 {
			n = c9BigSmall[small%len(c9BigSmall)]
			small++
		}
		if n < 3*c9BigStamp {
			n = 3 * c9BigStamp
		}
		v := make([]byte, n)
		key := c9BigKey(k)
		for i := range v {
			v[i] = key + c9BigPos(i)
		}
		p.val = append(p.val, v)
	}
	c9BigPools[unit] = p
	return p
}

// c9BigStamped: a private copy of pool value k that carries the call number at both ends.
func (p *c9BigPool) stamped(k int, id uint32) []byte {
	v := append([]byte{}, p.val[k]...)
	binary.LittleEndian.PutUint32(v[0:], id)
	binary.LittleEndian.PutUint32(v[4:], ^id)
	copy(v[len(v)-c9BigStamp:], v[:c9BigStamp])
	return v
}

// c9BigScribble spoils a buffer the harness owns (both ends and a sparse grid: cheap, and enough
// to break the stamps and the body of a value that still shares memory with it).
func c9BigScribble(b []byte) {
	for i := 0; i < len(b); i += 509 {
		b[i] ^= 0x5a
	}
	for i := 0; i < len(b) && i < 2*c9BigStamp; i++ {
		b[i] ^= 0xa5
		b[len(b)-1-i] ^= 0xc3
	}
}

type c9BigWrite struct {
	ID         uint32
	File       string
	K          int
	Begin, End uint64
	OK         bool
}

// c9BigJudge: which call wrote v (0 = none), and if it is not a complete value, a description of
// what it is made of.
func (p *c9BigPool) judge(v []byte, writes map[uint32]*c9BigWrite) (id uint32, whole bool, what string) {
	if len(v) == 0 {
		return 0, false, "an empty content"
	}
	if len(v) >= 3*c9BigStamp {
		a, na := binary.LittleEndian.Uint32(v[0:]), binary.LittleEndian.Uint32(v[4:])
		if a == ^na {
			if w := writes[a]; w != nil {
				want := p.val[w.K]
				if len(v) == len(want) && bytes.Equal(v[len(v)-c9BigStamp:], v[:c9BigStamp]) &&
					bytes.Equal(v[c9BigStamp:len(v)-c9BigStamp], want[c9BigStamp:len(want)-c9BigStamp]) {
					return a, true, ""
				}
				id = a
			}
		}
	}
	// describe: runs of body bytes by the pool value they belong to
	type run struct{ from, to, k int }
	var runs []run
	owner := map[byte]int{}
	for k := range p.val {
		owner[c9BigKey(k)] = k
	}
	lo, hi := c9BigStamp, len(v)-c9BigStamp
	if hi <= lo {
		lo, hi = 0, len(v)
	}
	// (stretches shorter than 64 bytes are not listed: the stamps of shorter values, chance matches)
	nruns, short := 0, 0
	cur := run{lo, lo, -2}
	flush := func() {
		if cur.k == -2 {
			return
		}
		if cur.to-cur.from < 64 {
			short += cur.to - cur.from
			return
		}
		nruns++
		if len(runs) < 6 {
			runs = append(runs, cur)
		}
	}
	for i := lo; i < hi; i++ {
		k, ok := owner[v[i]-c9BigPos(i)]
		if !ok {
			k = -1
		}
		if cur.k == k {
			cur.to = i + 1
			continue
		}
		flush()
		cur = run{i, i + 1, k}
	}
	flush()
	what = fmt.Sprintf("%d bytes", len(v))
	if id != 0 {
		w := writes[id]
		what += fmt.Sprintf(" beginning with the stamp of write #%d (a value of %d bytes)", id, len(p.val[w.K]))
	} else {
		what += " without the stamp of any write at their head"
	}
	if len(v) >= 3*c9BigStamp && !bytes.Equal(v[len(v)-c9BigStamp:], v[:c9BigStamp]) {
		t, nt := binary.LittleEndian.Uint32(v[len(v)-8:]), binary.LittleEndian.Uint32(v[len(v)-4:])
		if w := writes[t]; t == ^nt && w != nil {
			what += fmt.Sprintf(", ending with the stamp of write #%d", t)
		} else {
			what += ", ending with no write's stamp"
		}
	}
	what += "; body:"
	for _, r := range runs {
		if r.k < 0 {
			what += fmt.Sprintf(" [%d,%d) bytes of no value;", r.from, r.to)
		} else {
			what += fmt.Sprintf(" [%d,%d) bytes of the %d-byte pool value %d;", r.from, r.to, len(p.val[r.k]), r.k)
		}
	}
	if nruns > len(runs) {
		what += fmt.Sprintf(" ... (%d such stretches)", nruns)
	}
	if short > 0 {
		what += fmt.Sprintf(" and %d bytes in stretches of less than 64", short)
	}
	return id, false, what
}

type c9BigOp struct {
	Kind   string `json:"kind"` // Write Writer Read Reader CopyFile Copy CopyDir
	File   string `json:"file"`
	ID     uint32 `json:"id,omitempty"` // writes: the stamp
	K      int    `json:"pool_value,omitempty"`
	Len    int    `json:"len,omitempty"`
	Chunk  int    `json:"chunk,omitempty"`  // Reader: buffer size
	Chunks int    `json:"chunks,omitempty"` // Writer: number of Write calls
	Dest   string `json:"dest,omitempty"`
}

type c9BigRes struct {
	Kind  string `json:"kind"` // ok data err panic
	Len   int    `json:"len"`
	ID    uint32 `json:"value_of_write,omitempty"`
	Whole bool   `json:"whole,omitempty"`
	What  string `json:"what,omitempty"`
	Msg   string `json:"msg,omitempty"`
	Begin uint64 `json:"begin"`
	End   uint64 `json:"end"`
}

// c9BigExec runs one call; `seq` stamps its end BEFORE the harness looks at what came back.
func c9BigExec(fs filesystem.Filespace, p *c9BigPool, op c9BigOp, r *RNG, seq *uint64) (res c9BigRes, data []byte) {
	defer func() {
		if x := recover(); x != nil {
			res = c9BigRes{Kind: "panic", Msg: fmt.Sprint(x), Begin: res.Begin, End: atomic.AddUint64(seq, 1)}
			data = nil
		}
	}()
	fail := func(err error) c9BigRes {
		return c9BigRes{Kind: "err", Msg: err.Error(), Begin: res.Begin, End: atomic.AddUint64(seq, 1)}
	}
	switch op.Kind {
	case "Write":
		buf := p.stamped(op.K, op.ID)
		res.Begin = atomic.AddUint64(seq, 1)
		err := fs.WriteFile(op.File, buf, 0o644)
		end := atomic.AddUint64(seq, 1)
		c9BigScribble(buf)
		if err != nil {
			r := fail(err)
			r.End = end
			return r, nil
		}
		return c9BigRes{Kind: "ok", Begin: res.Begin, End: end}, nil
	case "Writer":
		v := p.stamped(op.K, op.ID)
		cuts := []int{0, len(v)}
		for i := 1; i < op.Chunks; i++ {
			cuts = append(cuts, 1+r.Intn(len(v)-1))
		}
		sortInts(cuts)
		res.Begin = atomic.AddUint64(seq, 1)
		w, err := fs.Writer(op.File)
		if err != nil {
			return fail(err), nil
		}
		closed := false
		defer func() { // a panic inside the session must not leave the file locked for the others
			if !closed {
				defer func() { recover() }()
				w.Close()
			}
		}()
		for i := 0; i+1 < len(cuts); i++ {
			part := v[cuts[i]:cuts[i+1]]
			if len(part) == 0 {
				continue
			}
			if n, werr := w.Write(part); werr != nil || n != len(part) {
				closed = true
				w.Close()
				return c9BigRes{Kind: "err", Msg: fmt.Sprintf("Write of a session: n=%d err=%v", n, werr), Begin: res.Begin, End: atomic.AddUint64(seq, 1)}, nil
			}
			c9BigScribble(part)
			if i+2 < len(cuts) {
				c9Pause(r)
			}
		}
		closed = true
		err = w.Close()
		end := atomic.AddUint64(seq, 1)
		if err != nil {
			r := fail(err)
			r.End = end
			return r, nil
		}
		return c9BigRes{Kind: "ok", Begin: res.Begin, End: end}, nil
	case "Read":
		res.Begin = atomic.AddUint64(seq, 1)
		d, err := fs.ReadFile(op.File)
		if err != nil {
			return fail(err), nil
		}
		return c9BigRes{Kind: "data", Len: len(d), Begin: res.Begin, End: atomic.AddUint64(seq, 1)}, d
	case "Reader":
		res.Begin = atomic.AddUint64(seq, 1)
		rd, err := fs.Reader(op.File)
		if err != nil {
			return fail(err), nil
		}
		closed := false
		defer func() {
			if !closed {
				defer func() { recover() }()
				rd.Close()
			}
		}()
		var all []byte
		buf := make([]byte, op.Chunk)
		for i := 0; i < 1<<16; i++ {
			n, rerr := rd.Read(buf)
			all = append(all, buf[:n]...)
			if rerr != nil {
				break
			}
			if n == 0 {
				break
			}
			if i < 3 { // yields inside the session, a few only: the session excludes everybody else
				c9Pause(r)
			}
		}
		closed = true
		if err = rd.Close(); err != nil {
			return fail(err), nil
		}
		return c9BigRes{Kind: "data", Len: len(all), Begin: res.Begin, End: atomic.AddUint64(seq, 1)}, all
	case "CopyFile", "Copy", "CopyDir":
		var err error
		back := op.Dest
		res.Begin = atomic.AddUint64(seq, 1)
		switch op.Kind {
		case "CopyFile":
			err = fs.CopyFile(op.File, op.Dest)
		case "Copy":
			err = fs.Copy(op.File, op.Dest)
		default: // the directory of the file
			i := strings.LastIndexByte(op.File, '/')
			err = fs.CopyDirectory(op.File[:i], op.Dest)
			back = op.Dest + op.File[i:]
		}
		if err != nil {
			return fail(err), nil
		}
		end := atomic.AddUint64(seq, 1)
		d, err := fs.ReadFile(back)
		if err != nil {
			return c9BigRes{Kind: "err", Msg: "the copy cannot be read back: " + err.Error(), Begin: res.Begin, End: end}, nil
		}
		fs.RemoveAll(op.Dest)
		return c9BigRes{Kind: "data", Len: len(d), Begin: res.Begin, End: end}, d
	}
	panic("c09: unknown big-value op " + op.Kind)
}

func sortInts(a []int) {
	for i := 1; i < len(a); i++ {
		for j := i; j > 0 && a[j] < a[j-1]; j-- {
			a[j], a[j-1] = a[j-1], a[j]
		}
	}
}

// c9BigValues: one run.  Files big/m0, big/m1 are written by everybody, big/o<i> by goroutine i
// only (everybody reads and copies them).  Nothing is ever removed but the copies.
func c9BigValues(o *Out, rng *RNG, round, procs, unit int) {
	fs, err := memfs.NewFilespace()
	must(err)
	old := runtime.GOMAXPROCS(procs)
	defer runtime.GOMAXPROCS(old)
	verifhook.SetCallback(nil)
	pool := c9BigPoolFor(unit)
	g := 4 + rng.Intn(5)
	per := 24 + rng.Intn(24)
	files := []string{"big/m0", "big/m1"}
	for i := 0; i < g; i += 3 {
		files = append(files, fmt.Sprintf("big/o%d", i))
	}
	// two thirds of the calls of a run are of ONE reading and ONE writing entry point: every pair
	// of them gets runs in which it is dense
	focusR, focusW := c9BigReadKinds[round%5], []string{"Write", "Writer"}[round/5%2]
	var nextID uint32 = 1
	writes := map[uint32]*c9BigWrite{}
	byFile := map[string][]*c9BigWrite{}
	// the initial values are the largest of the pool, so that every later value fits their buffer
	for _, f := range files {
		w := &c9BigWrite{ID: nextID, File: f, K: 10, OK: true}
		buf := pool.stamped(w.K, w.ID)
		must(fs.WriteFile(f, buf, 0o644))
		c9BigScribble(buf)
		writes[w.ID], byFile[f] = w, append(byFile[f], w)
		nextID++
	}
	progs := make([][]c9BigOp, g)
	seeds := make([]uint64, g)
	for i := range progs {
		r := rng.Fork()
		seeds[i] = r.Next()
		own := ""
		if i%3 == 0 {
			own = fmt.Sprintf("big/o%d", i)
		}
		anyFile := func() string {
			if r.Intn(4) == 0 {
				return files[2+r.Intn(len(files)-2)]
			}
			return files[r.Intn(2)]
		}
		wrFile := func() string {
			if own != "" && r.Intn(3) == 0 {
				return own
			}
			return files[r.Intn(2)]
		}
		// goroutines lean towards writing or towards reading, so that both kinds of call are
		// under way at every moment of the run
		writer := i%2 == 0
		for j := 0; j < per; j++ {
			var op c9BigOp
			wr := r.Intn(100) < 15
			if writer {
				wr = r.Intn(100) < 55
			}
			if wr {
				kind := []string{"Write", "Writer"}[r.Intn(2)]
				if r.Intn(3) > 0 {
					kind = focusW
				}
				k := r.Intn(len(pool.val))
				op = c9BigOp{Kind: kind, File: wrFile(), ID: nextID, K: k, Len: len(pool.val[k])}
				if kind == "Writer" {
					op.Chunks = 1 + r.Intn(3)
				}
				nextID++
			} else {
				kind := c9BigReadKinds[r.Intn(len(c9BigReadKinds))]
				if r.Intn(3) > 0 {
					kind = focusR
				}
				op = c9BigOp{Kind: kind, File: anyFile()}
				switch kind {
				case "Read":
				case "Reader":
					op.Chunk = []int{unit/16 + 1, unit / 4, unit/2 + 13, 2*unit + 1, 4096}[r.Intn(5)]
				default:
					op.Dest = fmt.Sprintf("bigc/%d_%d", i, j)
				}
			}
			if op.ID != 0 {
				writes[op.ID] = &c9BigWrite{ID: op.ID, File: op.File, K: op.K}
			}
			progs[i] = append(progs[i], op)
		}
	}
	res := make([][]c9BigRes, g)
	var seq uint64
	var wg sync.WaitGroup
	gate := make(chan struct{})
	for i := range progs {
		res[i] = make([]c9BigRes, 0, per)
		wg.Add(1)
		go func(i int) {
			defer wg.Done()
			r := NewRNG(seeds[i])
			<-gate
			for _, op := range progs[i] {
				x, data := c9BigExec(fs, pool, op, r, &seq)
				if x.Kind == "data" {
					// judged at once (the bytes are not kept); `writes` is only read while the run lasts
					x.ID, x.Whole, x.What = pool.judge(data, writes)
					c9BigScribble(data)
				}
				res[i] = append(res[i], x)
			}
		}(i)
	}
	close(gate)
	desc := map[string]interface{}{"kind": "big-values", "goroutines": g, "ops_per_goroutine": per, "gomaxprocs": procs, "round": round,
		"unit_bytes": unit, "files": files, "mostly": focusR + " against " + focusW}
	o.Stat("big_value_runs")
	if !c9WaitWG(&wg, 60*time.Second) {
		o.Fail("no_hang", fmt.Sprintf("big-value run (%d goroutines x %d calls: WriteFile/Writer/ReadFile/Reader/Copy* on files that exist all the time, values up to %d bytes) did not finish within 60 s", g, per, 2*unit), "hang", desc)
		o.CountEval("hang", false)
		o.Stat("audit_hangs")
		return
	}
	for i, l := range res {
		for j, x := range l {
			if op := progs[i][j]; op.ID != 0 && x.Kind == "ok" {
				w := writes[op.ID]
				w.Begin, w.End, w.OK = x.Begin, x.End, true
				byFile[op.File] = append(byFile[op.File], w)
			}
		}
	}
	hist := func(i, j int) map[string]interface{} {
		return map[string]interface{}{"run": desc, "goroutine": i, "index": j, "op": progs[i][j], "result": res[i][j]}
	}
	// overlapping calls on the same file: what the reader's copy could have been interrupted by
	overl := func(i, j int) []map[string]interface{} {
		var l []map[string]interface{}
		x := res[i][j]
		for a, pl := range progs {
			for b, op2 := range pl {
				y := res[a][b]
				if op2.ID != 0 && op2.File == progs[i][j].File && y.Begin < x.End && x.Begin < y.End && len(l) < 6 {
					l = append(l, map[string]interface{}{"goroutine": a, "index": b, "op": op2, "begin": y.Begin, "end": y.End})
				}
			}
		}
		return l
	}
	stale := func(w *c9BigWrite, before uint64) *c9BigWrite {
		for _, w2 := range byFile[w.File] {
			if w2.ID != w.ID && w.End < w2.Begin && w2.End < before {
				return w2
			}
		}
		return nil
	}
	bad := 0
	for i, l := range res {
		for j, x := range l {
			op := progs[i][j]
			o.Stat("big_" + op.Kind + "_" + x.Kind)
			isCopy := op.Kind == "Copy" || op.Kind == "CopyFile" || op.Kind == "CopyDir"
			switch {
			case x.Kind == "panic":
				o.Fail("no_panic", fmt.Sprintf("big values: %s %s panicked: %s", op.Kind, op.File, x.Msg), "panic", hist(i, j))
				bad++
			case x.Kind == "err":
				o.Fail("distinct_paths", fmt.Sprintf("big values: %s %s failed although the file exists all the time and nobody removes it: %s", op.Kind, op.File, x.Msg), "op-failed", hist(i, j))
				bad++
			case x.Kind == "data" && !x.Whole:
				c := hist(i, j)
				c["overlapping_writes"] = overl(i, j)
				oracle, sig, who := "read_values", "torn-read", fmt.Sprintf("%s %s returned", op.Kind, op.File)
				if isCopy {
					oracle, sig, who = "copy_values", "torn-copy", fmt.Sprintf("%s of %s to a fresh destination: the copy holds", op.Kind, op.File)
				}
				if x.Len == 0 {
					sig = "empty-read"
				}
				o.Fail(oracle, fmt.Sprintf("%s something that is not ONE complete written value: %s (the file is overwritten by WriteFile/Writer with values of %d bytes to %d bytes meanwhile)", who, x.What, 3*c9BigStamp, 2*unit), sig, c)
				bad++
			case x.Kind == "data":
				o.Stat("big_values_judged")
				w := writes[x.ID]
				if w == nil || !w.OK || w.File != op.File {
					o.Fail("file_values", fmt.Sprintf("%s %s returned the value of write #%d, a whole value, but no successful call wrote it to this file", op.Kind, op.File, x.ID), "foreign-value", hist(i, j))
					bad++
					continue
				}
				if w2 := stale(w, x.Begin); w2 != nil {
					c := hist(i, j)
					c["returned_write"], c["later_write"] = w, w2
					o.Fail("visible_afterwards", fmt.Sprintf("%s %s returned the value of write #%d although write #%d began after that write had ended and was complete before this call began: a successful write did not take effect", op.Kind, op.File, w.ID, w2.ID), "stale-read", c)
					bad++
				}
			}
		}
	}
	for _, f := range files {
		d, err := fs.ReadFile(f)
		if err != nil {
			o.Fail("distinct_paths", fmt.Sprintf("after the big-value run %s cannot be read: %v", f, err), "op-failed", desc)
			bad++
			continue
		}
		id, whole, what := pool.judge(d, writes)
		w := writes[id]
		switch {
		case !whole:
			o.Fail("file_values", fmt.Sprintf("after the big-value run %s holds something that is not ONE complete written value: %s", f, what), "torn-file", desc)
			bad++
		case w == nil || !w.OK || w.File != f:
			o.Fail("file_values", fmt.Sprintf("after the big-value run %s holds the value of write #%d, which no successful call wrote to it", f, id), "foreign-value", desc)
			bad++
		default:
			if w2 := stale(w, ^uint64(0)); w2 != nil {
				o.Fail("visible_afterwards", fmt.Sprintf("after the big-value run %s holds the value of write #%d although write #%d began after that write had ended: a successful write did not take effect", f, w.ID, w2.ID), "stale-read", desc)
				bad++
			}
		}
	}
	o.CountEval(fmt.Sprintf("BV:%d:%d:%d:%d:%d", g, per, procs, unit, seeds[0]), bad == 0)
}

// c9BigFamily: (reading entry point x writing entry point) x GOMAXPROCS 4/16/2/8/1 x units of 256 KiB - 1 MiB (values up to twice the unit).
func c9BigFamily(o *Out, rng *RNG, tier string) {
	rounds := 60
	if tier == "thorough" {
		rounds = 1500
	}
	procs := []int{4, 16, 2, 4, 16, 8, 1}
	units := []int{1 << 20, 512 << 10, 256 << 10}
	for i := 0; i < rounds; i++ {
		if r := rng.Fork(); o.Stats["audit_hangs"] < 6 {
			c9BigValues(o, r, i, procs[i%len(procs)], units[i%len(units)])
		}
	}
}
