package main

// C02 — the dimensions of the quantifier ("all path spellings and contents") that the random
// histories of c02.go only sample from small pools, driven through the SAME history runner and the
// same oracles:
//   odd names      node names a careless mapping onto the host file system would fold, trim, escape
//                  or mistake for a climb (`..a`, `a..`, `...`, blanks, `\`, upper case, non-UTF-8,
//                  glob / percent characters, 255 bytes), mixed with the ordinary pool (L1 + L2);
//   decorations    a second spelling feature wrapped around the generator's spelling
//                  (`a//b` + `/x//..`), so that two features meet in one argument (L1 + L2);
//   big contents   sizes around 4 KiB / 32 KiB / 64 KiB / 256 KiB through WriteFile, Writer (small
//                  and large chunks mixed), ReadFile, Reader (whole file, any buffer size), the
//                  three copies (L2 only: the contents are too long for Coq literals);
//   wide / deep    a directory with more entries than any listing batch, a chain of 60 directories.
// Plus info_agree: what Lstat and the entries of ReadDir say (name, kind, size) about every node of
// the final tree, on both backends.

import (
	"fmt"
	"strings"
	"time"

	"github.com/goatcms/goatcore/filesystem"
)

type c02Opts struct {
	tag       string                                             // shape label (statistics, replay description)
	noL1      bool                                               // L2 oracles only
	namePool  []string                                           // the history's names: half ordinary, half drawn from this pool
	decorate  int                                                // percent of the operations whose arguments are wrapped in a second spelling
	opGen     func(r *RNG, g *FsGen, b []string, t c02Tree) FsOp // replaces the choice of operations
	setup     []FsOp                                             // bulk preparation on both backends (no per-step walks)
	setupDesc string                                             //   … described for the replay
	setupWant func(base []string) []WalkEnt                      //   … and the tree it must produce
	script    []FsOp                                             // exactly these operations instead of generated ones
}

// ---------- odd names

// Every entry is a legal node name on both backends (no '/', no NUL, at most 255 bytes, not "",
// "." or ".."): the property quantifies over them like over "a" and "b".
var c02OddNames = []string{
	"..a", "a..", "...", "....", ".a.", "..a..", ".ab", "a.", // dots that are not "." / ".."
	" a", "a ", " ", "a b", "a\tb", "a\nb", "\t", // blanks
	"a\\b", "\\", "\\..", "a\\", // a backslash is an ordinary byte
	"A", "Ab", "aB", "aa", "aaa", "a.b.c", // look-alikes of the ordinary pool
	"\xc3\xa9", "\xff", "\xc3", "a\xffb", "\xe2\x80\xae", "a\x01", "\x7f", // UTF-8, broken UTF-8, control bytes
	"-a", "--", "~", "*", "a*", "?", "a?", "[a]", "{a,b}", "%2e%2e", "%2F", "a%00", "a:b", "a;b", "a'b", "a\"b", "$a", "#", "&",
}

// names at the host's length limit (in a few histories only: they are long Coq literals)
var c02LongNames = []string{strings.Repeat("n", 255), strings.Repeat("n", 254), "a" + strings.Repeat(".", 254), strings.Repeat("n", 128)}

var c02PlainNames = []string{"a", "b", "c", "d", "ab", "a.b", "a2", ".a"}

// c02DrawNames: four ordinary names and four odd ones, so that nodes are still revisited often.
func c02DrawNames(r *RNG, pool []string) []string {
	names := []string{}
	for len(names) < 4 {
		n := c02PlainNames[r.Intn(len(c02PlainNames))]
		if !containsStr(names, n) {
			names = append(names, n)
		}
	}
	for len(names) < 8 {
		n := pool[r.Intn(len(pool))]
		if !containsStr(names, n) {
			names = append(names, n)
		}
	}
	return names
}

func containsStr(l []string, s string) bool {
	for _, x := range l {
		if x == s {
			return true
		}
	}
	return false
}

// ---------- a second spelling around the first

// c02Decorate keeps the meaning of s (same components, same climbing verdict): the prefix adds no
// component, the suffix adds none or adds a name and takes it back.
func c02Decorate(r *RNG, g *FsGen, s string) string {
	nm := g.Names[r.Intn(len(g.Names))]
	pre := []string{"", "", "/", "//", "./", "/./", "././", "///"}[r.Intn(8)]
	suf := []string{"", "/", "//", "/.", "/./", "/./.", "/" + nm + "/..", "/" + nm + "//..", "/" + nm + "/./..", "//" + nm + "/../", "/" + nm + "/../."}[r.Intn(11)]
	return pre + s + suf
}

// ---------- what the FileInfo values say

// c02InfoProbe: for every node of the walked tree, Lstat(path) and the node's entry in the listing of
// its parent must carry the node's name, its kind and (files) its size.
func c02InfoProbe(fs filesystem.Filespace, walk []WalkEnt, backend string) string {
	res := withTimeout(20*time.Second, func() FsOut {
		size := map[string]int{}
		for _, e := range walk {
			if !e.IsDir {
				size[key(e.Path)] = len(e.Data)
			}
		}
		dirs := [][]string{{}}
		for _, e := range walk {
			p := strings.Join(e.Path, "/")
			last := e.Path[len(e.Path)-1]
			info, err := fs.Lstat(p)
			if err != nil || info == nil {
				return FsOut{Kind: "err", Msg: fmt.Sprintf("Lstat(%q) of a node of the final tree failed: %v", p, err)}
			}
			if info.Name() != last {
				return FsOut{Kind: "err", Msg: fmt.Sprintf("Lstat(%q).Name() = %q", p, info.Name())}
			}
			if info.IsDir() != e.IsDir {
				return FsOut{Kind: "err", Msg: fmt.Sprintf("Lstat(%q).IsDir() = %v", p, info.IsDir())}
			}
			if !e.IsDir && info.Size() != int64(len(e.Data)) {
				return FsOut{Kind: "err", Msg: fmt.Sprintf("Lstat(%q).Size() = %d, the file has %d bytes", p, info.Size(), len(e.Data))}
			}
			if e.IsDir {
				dirs = append(dirs, e.Path)
			}
		}
		for _, d := range dirs {
			infos, err := fs.ReadDir(strings.Join(d, "/"))
			if err != nil {
				return FsOut{Kind: "err", Msg: fmt.Sprintf("ReadDir(%q) of a directory of the final tree failed: %v", strings.Join(d, "/"), err)}
			}
			for _, i := range infos {
				if i.IsDir() {
					continue
				}
				want, ok := size[key(cat(d, []string{i.Name()}))]
				if ok && i.Size() != int64(want) {
					return FsOut{Kind: "err", Msg: fmt.Sprintf("ReadDir(%q): entry %q has Size() = %d, the file has %d bytes", strings.Join(d, "/"), i.Name(), i.Size(), want)}
				}
			}
		}
		return FsOut{Kind: "unit"}
	})
	if res.Kind == "unit" {
		return ""
	}
	return backend + " backend: " + res.Kind + " " + res.Msg
}

// ---------- big contents

var c02BigSizes = []int{4095, 4096, 4097, 8192, 32767, 32768, 32769, 40000, 65535, 65536, 65537, 70001, 131077, 262145}

// position-dependent bytes: a lost, repeated or reordered block changes the content
func c02BigContent(n, salt int) []byte {
	b := make([]byte, n)
	for i := range b {
		b[i] = byte(i*31 + (i>>8)*7 + (i>>16)*3 + salt)
	}
	return b
}

func c02BigContents() [][]byte {
	l := [][]byte{{}, []byte("small"), c02BigContent(300, 1)}
	for i, n := range c02BigSizes {
		l = append(l, c02BigContent(n, i+2))
	}
	return l
}

var c02ChunkSizes = []int{0, 1, 10, 100, 1000, 4095, 4096, 4097, 5000, 32768, 40000, 70001}

// c02BigOp: an operation built from the current tree (as c02SmartOp) whose Writer sessions mix
// small and large chunks and whose Reader sessions read the WHOLE file with one buffer size.
func c02BigOp(r *RNG, g *FsGen, b []string, t c02Tree) FsOp {
	op := c02SmartOp(r, g, b, t)
	switch op.Kind {
	case "Writer":
		op.Chunks = nil
		n := 1 + r.Intn(5)
		for i := 0; i < n; i++ {
			op.Chunks = append(op.Chunks, c02BigContent(c02ChunkSizes[r.Intn(len(c02ChunkSizes))], 40+i))
		}
	case "Reader":
		size := 0
		if pc, climbs := refNorm(op.P); !climbs {
			if e, ok := t.get(cat(b, pc)); ok && !e.dir {
				size = len(e.data)
			}
		}
		bs := []int{1, 7, 512, 4096, 32768, 65536, 1 << 20}[r.Intn(7)]
		for size/bs > 300 {
			bs *= 8
		}
		op.Bufs = nil
		for i := 0; i < size/bs+2; i++ {
			op.Bufs = append(op.Bufs, bs)
		}
		op.Bufs = append(op.Bufs, 1000)
	}
	// the replay description names the case by index; the contents are not spelled out
	op.DataI, op.ChunkI = nil, nil
	return op
}

func c02BigGen() *FsGen {
	g := defaultFsGen()
	g.ViewPct = 0
	g.Names = []string{"a", "b", "c", "ab"}
	g.MaxDepth = 2
	g.Contents = c02BigContents()
	g.Kinds = []string{"WriteFile", "WriteFile", "WriteFile", "Writer", "Writer", "Writer", "ReadFile", "ReadFile", "Reader", "Reader", "Reader",
		"Lstat", "MkdirAll", "Remove", "ReadDir", "CopyFile", "CopyFile", "Copy"}
	return g
}

// ---------- a wide directory

const c02WideN = 1100

func c02WideContent(i int) []byte { return []byte(fmt.Sprintf("content of entry %d", i)) }

func c02WideSetup() (ops []FsOp, want func(base []string) []WalkEnt) {
	ops = append(ops, FsOp{Kind: "MkdirAll", P: "w/sub"})
	for i := 0; i < c02WideN; i++ {
		ops = append(ops, FsOp{Kind: "WriteFile", P: fmt.Sprintf("w/f%04d", i), Data: c02WideContent(i)})
	}
	for i := 0; i < 40; i++ {
		ops = append(ops, FsOp{Kind: "MkdirAll", P: fmt.Sprintf("w/d%02d", i)})
	}
	want = func(base []string) []WalkEnt {
		var w []WalkEnt
		for i := 1; i <= len(base); i++ {
			w = append(w, WalkEnt{Path: append([]string{}, base[:i]...), IsDir: true})
		}
		w = append(w, WalkEnt{Path: cat(base, []string{"w"}), IsDir: true}, WalkEnt{Path: cat(base, []string{"w", "sub"}), IsDir: true})
		for i := 0; i < c02WideN; i++ {
			w = append(w, WalkEnt{Path: cat(base, []string{"w", fmt.Sprintf("f%04d", i)}), Data: c02WideContent(i)})
		}
		for i := 0; i < 40; i++ {
			w = append(w, WalkEnt{Path: cat(base, []string{"w", fmt.Sprintf("d%02d", i)}), IsDir: true})
		}
		return w
	}
	return ops, want
}

func c02WideScript() []FsOp {
	return []FsOp{
		{Kind: "ReadDir", P: "w"},
		{Kind: "CopyDir", P: "w", Q: "w2"},
		{Kind: "ReadDir", P: "w2/"},
		{Kind: "Remove", P: "w/f0500"},
		{Kind: "RemoveAll", P: "w"},
		{Kind: "Copy", P: "w2", Q: "c/w3"},
		{Kind: "ReadDir", P: "c/w3"},
		{Kind: "Lstat", P: fmt.Sprintf("c/w3/f%04d", c02WideN-1)},
	}
}

// ---------- a deep chain

func c02DeepScript(r *RNG) []FsOp {
	depth := 40 + r.Intn(21)
	comps := make([]string, depth)
	for i := range comps {
		comps[i] = []string{"a", "b", "ab", ".a"}[r.Intn(4)]
	}
	p := func(n int, more ...string) string {
		return strings.Join(append(append([]string{}, comps[:n]...), more...), "/")
	}
	wide := strings.Join(comps, "/x/../") // every component followed by a detour
	return []FsOp{
		{Kind: "MkdirAll", P: p(depth)},
		{Kind: "WriteFile", P: p(depth, "f"), Data: []byte("deepest")},
		{Kind: "WriteFile", P: p(depth/2, "g"), Data: []byte("half way")},
		{Kind: "ReadFile", P: wide + "/f"},
		{Kind: "Lstat", P: p(depth) + "/"},
		{Kind: "CopyDir", P: comps[0], Q: "copy"},
		{Kind: "ReadFile", P: "copy/" + strings.Join(comps[1:], "/") + "/f"},
		{Kind: "Writer", P: p(depth, "h"), Chunks: [][]byte{[]byte("x"), []byte("y")}},
		{Kind: "CopyFile", P: p(depth, "f"), Q: "top"},
		{Kind: "Copy", P: p(depth - 1), Q: p(3, "moved")},
		{Kind: "Remove", P: p(depth)},
		{Kind: "RemoveAll", P: p(depth / 3)},
		{Kind: "ReadDir", P: p(depth/3 - 1)},
		{Kind: "IsExist", P: p(depth, "f")},
		{Kind: "MkdirAll", P: p(depth, "f", "below")},
		{Kind: "RemoveAll", P: comps[0]},
	}
}

// ---------- name sweep: every operation on every odd name, at the first and at the last position of
// a path, next to the names a careless normalisation would fold it onto

// c02LookAlikes: what trimming, case folding, UTF-8 repair, unescaping, separator translation or
// cleaning would make of n. They are only ARGUMENTS (mostly of queries): whatever they address, the
// oracles know the answer.
func c02LookAlikes(n string) []string {
	noCtl := strings.Map(func(r rune) rune {
		if r < 0x20 || r == 0x7f {
			return -1
		}
		return r
	}, n)
	unesc := n
	for _, p := range [][2]string{{"%2e", "."}, {"%2E", "."}, {"%2F", "/"}, {"%2f", "/"}, {"%00", ""}} {
		unesc = strings.ReplaceAll(unesc, p[0], p[1])
	}
	cands := []string{
		strings.TrimSpace(n), strings.TrimRight(n, " \t\n"), strings.TrimLeft(n, " \t\n"),
		strings.ToLower(n), strings.ToUpper(n),
		strings.ToValidUTF8(n, "?"), strings.ToValidUTF8(n, ""), strings.ToValidUTF8(n, "�"), string([]rune(n)),
		strings.Trim(n, "."), strings.TrimLeft(n, "."), strings.TrimRight(n, "."), strings.TrimLeft(n, "./"), strings.TrimLeft(n, "-"),
		strings.ReplaceAll(n, "\\", "/"), strings.ReplaceAll(n, "\\", ""), unesc, noCtl,
		strings.TrimLeft(n, "~$#&"), strings.Trim(n, "\"'"), strings.TrimRight(n, "*?"),
	}
	if len(n) > 200 {
		cands = append(cands, n[:200], n[:len(n)-1])
	}
	var out []string
	for _, c := range cands {
		if c != n && c != "" && !strings.Contains(c, "\x00") && !containsStr(out, c) {
			out = append(out, c)
		}
	}
	return out
}

func c02IsPlainName(s string) bool {
	return s != "" && s != "." && s != ".." && !strings.Contains(s, "/") && len(s) <= 255
}

func c02NameScript(n string) []FsOp {
	d1, d2 := []byte("first content"), []byte("second")
	rd := func(p string) FsOp { return FsOp{Kind: "Reader", P: p, Bufs: []int{5, 1000}} }
	ops := []FsOp{
		{Kind: "MkdirAll", P: "p"},
		{Kind: "WriteFile", P: "p/" + n, Data: d1}, // last position
		{Kind: "WriteFile", P: n + "/f", Data: d1}, // first position
		{Kind: "MkdirAll", P: "q/" + n + "/sub"},
	}
	queries := func(p string) {
		for _, k := range []string{"IsExist", "IsFile", "IsDir", "Lstat", "ReadFile", "ReadDir", "Filespace"} {
			ops = append(ops, FsOp{Kind: k, P: p})
		}
		ops = append(ops, rd(p))
	}
	queries("p/" + n)
	queries(n + "/f")
	queries(n)
	queries("q/" + n)
	ops = append(ops, FsOp{Kind: "ReadDir", P: "p"}, FsOp{Kind: "ReadDir", P: ""}, FsOp{Kind: "ReadDir", P: "q"})
	likes := c02LookAlikes(n)
	for _, l := range likes {
		for _, p := range []string{"p/" + l, l + "/f", l} {
			for _, k := range []string{"IsExist", "IsFile", "IsDir", "Lstat", "ReadFile"} {
				ops = append(ops, FsOp{Kind: k, P: p})
			}
		}
	}
	// a look-alike sibling appears: the two nodes stay two nodes
	sib := ""
	for _, l := range likes {
		if c02IsPlainName(l) {
			sib = l
			break
		}
	}
	if sib != "" {
		ops = append(ops,
			FsOp{Kind: "WriteFile", P: "p/" + sib, Data: d2},
			FsOp{Kind: "ReadFile", P: "p/" + n},
			FsOp{Kind: "ReadFile", P: "p/" + sib},
			FsOp{Kind: "ReadDir", P: "p"},
			FsOp{Kind: "Writer", P: "p/" + n, Chunks: [][]byte{[]byte("re"), []byte("written")}},
			FsOp{Kind: "ReadFile", P: "p/" + sib},
			FsOp{Kind: "Remove", P: "p/" + sib},
			FsOp{Kind: "IsFile", P: "p/" + n},
		)
	}
	// copies of the file and of the directories holding the name (preconditions met), removals
	ops = append(ops,
		FsOp{Kind: "MkdirAll", P: "r"},
		FsOp{Kind: "CopyFile", P: "p/" + n, Q: "r/" + n},
		FsOp{Kind: "Copy", P: "p/" + n, Q: "p/" + "copy"},
		FsOp{Kind: "CopyDir", P: "q", Q: "s"},
		FsOp{Kind: "Copy", P: n, Q: "t/" + n},
		FsOp{Kind: "ReadFile", P: "t/" + n + "/f"},
		FsOp{Kind: "ReadFile", P: "r/" + n},
		FsOp{Kind: "IsDir", P: "s/" + n + "/sub"},
		FsOp{Kind: "Remove", P: "q/" + n},
		FsOp{Kind: "Remove", P: "q/" + n + "/sub"},
		FsOp{Kind: "Remove", P: "q/" + n},
		FsOp{Kind: "Remove", P: "p/" + n},
		FsOp{Kind: "IsExist", P: "p/" + n},
		FsOp{Kind: "RemoveAll", P: n},
		FsOp{Kind: "ReadDir", P: ""},
	)
	// outside the preconditions (the backends may part here): a file copy below a missing directory,
	// copies of a directory into itself (refused, or a deep copy - never an endless descent)
	ops = append(ops, FsOp{Kind: "CopyFile", P: "r/" + n, Q: "u/" + n})
	if len(n) < 250 {
		ops = append(ops,
			FsOp{Kind: "CopyDir", P: "s", Q: "s/" + n + "_"},
			FsOp{Kind: "CopyDir", P: "s/" + n, Q: "s/" + n + "/sub/" + n},
			FsOp{Kind: "CopyDir", P: "t/" + n, Q: "t/" + n + "/" + n},
		)
	}
	return ops
}
