package main

// C20, streams added by the coverage audit of the check against the property text:
//   (5) sizes: deeply nested / wide documents for the reader, keys of up to 9 segments and maps of
//       up to 60 keys for the emitter;
//   (6) the configuration route of the anchor files app/goatapp/app.go and filesystem/json/json.go:
//       a nested JSON configuration file -> ReadJSON -> RecursiveMapToPlainMap -> config scope, and
//       WriteJSON -> ReadJSON of nested maps;
//   (7) loader: layouts beyond the fsloop queue size, files beyond 64 KiB, loads whose consumers are
//       released together (gated ReadFile) and storms of overlapping I18Mem.Set calls.
// The L2 oracles restate the clause on what the implementation returned; where a Coq case exists it
// is an ordinary CFlat / CRead / CEmit case.

import (
	"encoding/json"
	"fmt"
	"runtime"
	"sort"
	"strconv"
	"strings"
	"sync"
	"sync/atomic"
	"time"

	"github.com/goatcms/goatcore/app"
	"github.com/goatcms/goatcore/app/goatapp"
	"github.com/goatcms/goatcore/app/scope"
	"github.com/goatcms/goatcore/filesystem"
	"github.com/goatcms/goatcore/filesystem/filespace/memfs"
	fsjson "github.com/goatcms/goatcore/filesystem/json"
	"github.com/goatcms/goatcore/i18n"
	"github.com/goatcms/goatcore/i18n/fsi18loader"
	"github.com/goatcms/goatcore/i18n/i18mem"
)

type c20Ctx struct {
	o         *Out
	rng       *RNG
	scale     int
	addRead   func(data []byte, stream string) (string, map[string]string)
	doEmitMap func(m map[string]string, stream string)
	genKey    func() string
	randVal   func(int) string
	randValU  func(int) string
}

// ---------- (5) sizes

// an object that nests [depth] further objects; every level has 0-2 leaves beside the nested member
func c20DeepObject(g *c20Gen, depth int) string {
	rng := g.rng
	var members []string
	n := rng.Intn(3)
	if depth == 0 && n == 0 {
		n = 1
	}
	for i := 0; i < n; i++ {
		name := "l" + strconv.Itoa(i)
		if rng.Chance(30) {
			name = g.strBody(true, 1) + strconv.Itoa(i)
		}
		val := `"` + g.strBody(false, 0) + `"`
		switch rng.Intn(5) {
		case 0:
			val = g.number()
		case 1:
			val = []string{"true", "null", "[1,{\"x\":\"y\"}]"}[rng.Intn(3)]
		}
		members = append(members, g.ws()+`"`+name+`"`+g.ws()+":"+g.ws()+val+g.ws())
	}
	if depth > 0 {
		name := []string{"o", "a", "A", "sub", "é"}[rng.Intn(5)]
		m := g.ws() + `"` + name + `"` + g.ws() + ":" + g.ws() + c20DeepObject(g, depth-1) + g.ws()
		at := rng.Intn(len(members) + 1)
		members = append(members[:at:at], append([]string{m}, members[at:]...)...)
	}
	return "{" + strings.Join(members, ",") + "}"
}

func c20WideObject(g *c20Gen, n int) string {
	rng := g.rng
	members := make([]string, n)
	for i := range members {
		name := "m" + strconv.Itoa(i)
		if rng.Chance(20) {
			name += g.strBody(true, 1)
		}
		val := `"` + g.strBody(false, 0) + `"`
		switch rng.Intn(6) {
		case 0:
			val = g.number()
		case 1:
			val = `{"in":` + g.number() + `,"s":"` + g.strBody(false, 0) + `"}`
		case 2:
			val = "false"
		}
		members[i] = g.ws() + `"` + name + `"` + g.ws() + ":" + g.ws() + val + g.ws()
	}
	return "{" + strings.Join(members, ",") + "}"
}

func (c *c20Ctx) readLeafOracle(doc []byte, stream string) {
	o := c.o
	rkind, got := c.addRead(doc, stream)
	ref, dup, _, err := c20RefLeaves(doc)
	desc := map[string]interface{}{"op": "read_leaf", "stream": stream, "data": c20q(string(doc)), "kind": rkind, "result": c20Pairs(got), "reference": c20Pairs(ref)}
	switch {
	case err != nil:
		o.Fail("read_leaf", fmt.Sprintf("encoding/json rejects the generated document %s: %v", c20q(string(doc)), err), "read_leaf_generator", desc)
	case dup:
		o.Stat("doc_" + stream + "_skipped_dup")
	case rkind != "ok" || !c20MapsEqual(ref, got):
		o.Fail("read_leaf", fmt.Sprintf("%s document (%d bytes): got kind=%s, %d leaves; encoding/json has %d leaves; first difference: %s", stream, len(doc), rkind, len(got), len(ref), c20FirstDiff(ref, got)), "read_leaf", desc)
	default:
		o.Stat("doc_" + stream + "_l2_compared")
	}
}

func c20FirstDiff(want, got map[string]string) string {
	for _, k := range c20SortedKeys(want) {
		if g, ok := got[k]; !ok {
			return "missing " + c20q(k)
		} else if g != want[k] {
			return c20q(k) + " = " + c20q(g) + ", expected " + c20q(want[k])
		}
	}
	for _, k := range c20SortedKeys(got) {
		if _, ok := want[k]; !ok {
			return "unexpected " + c20q(k)
		}
	}
	return "none"
}

func (c *c20Ctx) sizes() {
	rng := c.rng
	for i := 0; i < 40*c.scale; i++ {
		g := &c20Gen{rng: rng, wsPct: []int{0, 10, 30}[rng.Intn(3)]}
		depth := 6 + rng.Intn(10)
		if rng.Chance(25) {
			depth = 16 + rng.Intn(30)
		}
		c.o.Stat("doc_deep")
		c.readLeafOracle([]byte(c20DeepObject(g, depth)), "deep")
	}
	for i := 0; i < 6*c.scale; i++ {
		g := &c20Gen{rng: rng, wsPct: []int{0, 10}[rng.Intn(2)]}
		c.o.Stat("doc_wide")
		c.readLeafOracle([]byte(c20WideObject(g, 40+rng.Intn(80))), "wide")
	}
	// long values (beyond any small fixed buffer of an escaper / unescaper), both directions
	for i := 0; i < 4*c.scale; i++ {
		n := 300 + rng.Intn(2500)
		if i == 0 {
			n = 4400 + rng.Intn(400) // beyond 4 KiB
		}
		var sb strings.Builder
		for sb.Len() < n {
			if rng.Chance(50) {
				sb.WriteString(c.randVal(12))
			} else {
				sb.WriteString(c.randValU(12))
			}
		}
		m := map[string]string{c.genKey(): sb.String()}
		if rng.Bool() {
			m["zz.after"] = c.randVal(4)
		}
		c.doEmitMap(m, "longvalue")
		g := &c20Gen{rng: rng}
		var body strings.Builder
		for body.Len() < n {
			body.WriteString(g.strBody(false, 1))
		}
		c.o.Stat("doc_longleaf")
		c.readLeafOracle([]byte(`{"k":{"long":"`+body.String()+`","n":`+g.number()+`},"`+g.strBody(true, 1)+`z":"`+g.strBody(false, 0)+`"}`), "longleaf")
	}
	// emitter: long paths and many keys
	for i := 0; i < 20*c.scale; i++ {
		n := 2 + rng.Intn(8)
		if rng.Chance(30) {
			n = 20 + rng.Intn(31)
		}
		var keys []string
		for tries := 0; len(keys) < n && tries < 4*n; tries++ {
			k := c.genKey()
			if rng.Chance(60) { // extend to 4-9 segments, often below an existing key's parent
				if len(keys) > 0 && rng.Bool() {
					p := keys[rng.Intn(len(keys))]
					if idx := strings.LastIndex(p, "."); idx > 0 {
						k = p[:idx] + "." + k
					}
				}
				for strings.Count(k, ".") < 3+rng.Intn(6) {
					k += "." + []string{"a", "b", "c", "ab", "k1"}[rng.Intn(5)]
				}
			}
			keys = c20MakePrefixFree(append(keys, k))
		}
		m := map[string]string{}
		for _, k := range keys {
			m[k] = c.randVal(6)
		}
		c.o.Stat("emit_map_deepwide_keys_" + strconv.Itoa(len(keys)/10*10))
		c.doEmitMap(m, "deepwide")
	}
}

// ---------- (6) configuration route

// canonical rendering of a decoded JSON value; numbers by value (whatever Go type carries them)
func c20CanonJSON(v interface{}) string {
	num := func(f float64) string { return "n:" + strconv.FormatFloat(f, 'g', -1, 64) }
	switch x := v.(type) {
	case nil:
		return "null"
	case bool:
		return "b:" + strconv.FormatBool(x)
	case string:
		return "s:" + x
	case float64:
		return num(x)
	case float32:
		return num(float64(x))
	case int:
		return num(float64(x))
	case int64:
		return num(float64(x))
	case json.Number:
		if f, err := x.Float64(); err == nil {
			return num(f)
		}
		return "n:" + string(x)
	case []interface{}:
		items := make([]string, len(x))
		for i, e := range x {
			items[i] = strconv.Quote(c20CanonJSON(e))
		}
		return "[" + strings.Join(items, ",") + "]"
	case map[string]interface{}:
		keys := make([]string, 0, len(x))
		for k := range x {
			keys = append(keys, k)
		}
		sort.Strings(keys)
		items := make([]string, len(keys))
		for i, k := range keys {
			items[i] = strconv.Quote(k) + ":" + strconv.Quote(c20CanonJSON(x[k]))
		}
		return "{" + strings.Join(items, ",") + "}"
	}
	return fmt.Sprintf("%T=%#v", v, v)
}

// nested map with the leaves rendered by c20CanonJSON
func c20CanonTree(m map[string]interface{}) map[string]interface{} {
	out := make(map[string]interface{}, len(m))
	for k, v := range m {
		if sub, ok := v.(map[string]interface{}); ok {
			out[k] = c20CanonTree(sub)
		} else {
			out[k] = c20CanonJSON(v)
		}
	}
	return out
}

var c20CfgKeys = []string{"a", "A", "dbHost", "dbhost", "DBHOST", " a", "a ", "ab", "a b", "é", "K", "k", "url", "x1", "a-b", "a/b", "\t", "Ünï", "0"}
var c20CfgVals = []string{"http://host:80/x", "a // b", "//", "/* c */", "<&>", `C:\dir`, "# x", " lead", "trail ", "", "ĄĆ", "\u2028"}

func (c *c20Ctx) cfgTree(depth int) map[string]interface{} {
	rng := c.rng
	m := map[string]interface{}{}
	n := 1 + rng.Intn(4)
	for i := 0; i < n; i++ {
		k := c20CfgKeys[rng.Intn(len(c20CfgKeys))]
		if _, dup := m[k]; dup {
			continue
		}
		switch r := rng.Intn(100); {
		case r < 30 && depth < 3:
			m[k] = c.cfgTree(depth + 1)
		case r < 50:
			m[k] = c20CfgVals[rng.Intn(len(c20CfgVals))]
		case r < 70:
			m[k] = strings.ToValidUTF8(c.randValU(10), "?")
		case r < 78:
			m[k] = float64(rng.Intn(2000)-1000) / 4
		case r < 84:
			m[k] = rng.Bool()
		case r < 88:
			m[k] = nil
		case r < 94:
			m[k] = []interface{}{"x", float64(rng.Intn(9)), map[string]interface{}{"in": "arr"}}
		default:
			m[k] = float64(rng.Intn(100000))
		}
	}
	return m
}

func (c *c20Ctx) config() {
	o, rng := c.o, c.rng
	envs := []string{"", "prod", "qa-1", "Test"}
	for i := 0; i < 150*c.scale; i++ {
		env := envs[rng.Intn(len(envs))]
		fileEnv := env
		if fileEnv == "" {
			fileEnv = app.DefaultEnv
		}
		cfgPath := strings.Replace(goatapp.ConfigFilePath, "{{env}}", fileEnv, -1)
		root, err := memfs.NewFilespace()
		must(err)
		must(root.MkdirAll("cwd", 0777))
		cwd, err := root.Filespace("cwd")
		must(err)
		// the file: either a document of the generator (all character forms, free whitespace) written as it
		// is, or a Go map written through filesystem/json.WriteJSON
		var doc []byte
		source := "document"
		var written map[string]interface{}
		if rng.Chance(35) {
			source = "WriteJSON"
			written = c.cfgTree(0)
			if kind := c20Guard(func() error { return fsjson.WriteJSON(cwd, cfgPath, written) }); kind != "ok" {
				o.Fail("config_json", "filesystem/json.WriteJSON of a nested map of strings / numbers / booleans / null / arrays: "+kind, "config_writejson",
					map[string]interface{}{"op": "WriteJSON", "tree": c20CanonJSON(written)})
				continue
			}
			if doc, err = cwd.ReadFile(cfgPath); err != nil {
				o.Fail("config_json", "the file written by filesystem/json.WriteJSON cannot be read: "+cfgPath, "config_writejson", map[string]interface{}{"op": "WriteJSON", "path": cfgPath})
				continue
			}
		} else {
			g := &c20Gen{rng: rng, wsPct: []int{0, 10, 30, 60}[rng.Intn(4)]}
			for tries := 0; ; tries++ {
				doc = []byte(g.ws() + g.object(0) + g.ws())
				if len(doc) <= 600 || tries > 20 {
					break
				}
			}
			must(cwd.MkdirAll(cfgPath[:strings.LastIndex(cfgPath, "/")], 0777))
			must(cwd.WriteFile(cfgPath, doc, 0666))
		}
		desc := map[string]interface{}{"op": "config", "env": env, "path": cfgPath, "source": source, "file": c20q(string(doc))}
		// reference: encoding/json's tree, flattened with the naming rule
		var tree map[string]interface{}
		if err := json.Unmarshal(doc, &tree); err != nil {
			o.Fail("config_json", fmt.Sprintf("encoding/json rejects the configuration file %s: %v", c20q(string(doc)), err), "config_generator", desc)
			continue
		}
		if written != nil && c20CanonJSON(written) != c20CanonJSON(tree) {
			o.Fail("config_json", fmt.Sprintf("the file written by WriteJSON decodes to %s, the map was %s", c20CanonJSON(tree), c20CanonJSON(written)), "config_writejson", desc)
		}
		canon := c20CanonTree(tree)
		want, collision := c20OwnFlatten(canon)
		if collision || !c20CfgWellFormed(tree) {
			o.Stat("config_skipped_outside_quantifier")
			continue
		}
		// ReadJSON alone
		back := map[string]interface{}{}
		if kind := c20Guard(func() error { return fsjson.ReadJSON(cwd, cfgPath, &back) }); kind != "ok" || c20CanonJSON(back) != c20CanonJSON(tree) {
			o.Fail("config_json", fmt.Sprintf("filesystem/json.ReadJSON: %s, got %s, encoding/json decodes the file to %s", kind, c20CanonJSON(back), c20CanonJSON(tree)), "config_readjson", desc)
		}
		// the application
		var obs map[string]string
		kind := c20Guard(func() error {
			mapp, err := goatapp.NewMockupApp(goatapp.Params{Env: env, Filespaces: goatapp.Filespaces{Root: root, CWD: cwd}})
			if err != nil {
				return err
			}
			cfg := mapp.Scopes().Config()
			obs = map[string]string{}
			for _, k := range cfg.Keys() {
				ks, ok := k.(string)
				if !ok {
					ks = fmt.Sprintf("%T=%#v", k, k)
				}
				obs[ks] = c20CanonJSON(cfg.Value(k))
			}
			return nil
		})
		o.Stat("config_" + source)
		o.Stat("config_" + kind)
		desc["kind"], desc["config"], desc["expected"] = kind, c20Pairs(obs), c20Pairs(want)
		ch, _ := c20Children(canon)
		o.AddCase(fmt.Sprintf("CFlat %s %s", ch, c20Fobs(kind, obs)), desc, "cfg:"+ch, len(want) > 0)
		switch {
		case kind == "panic":
			o.Fail("no_panic", "NewGoatApp panicked on a configuration file", "panic", desc)
		case kind != "ok":
			o.Fail("config", "NewGoatApp fails on a well-formed configuration file", "config", desc)
		case !c20MapsEqual(want, obs):
			o.Fail("config", fmt.Sprintf("the config scope differs from the flattened file: %s", c20FirstDiff(want, obs)), "config", desc)
		default:
			if len(want) > 0 {
				o.Stat("config_compared_nonempty")
			}
		}
	}
	// recorded, not judged (FINDING of the audit, outside the plainmap clauses): WriteJSON cannot write the
	// six characters \u003c
	func() {
		fs, err := memfs.NewFilespace()
		must(err)
		in, out := map[string]string{"k": `\u003c`}, map[string]string{}
		k1 := c20Guard(func() error { return fsjson.WriteJSON(fs, "c.json", in) })
		k2 := c20Guard(func() error { return fsjson.ReadJSON(fs, "c.json", &out) })
		if k1 == "ok" && k2 == "ok" && out["k"] == in["k"] {
			o.Stat("probe_writejson_backslash_u003c_holds")
		} else {
			o.Stat("probe_writejson_backslash_u003c_fails")
		}
	}()
}

// dot-free non-empty keys, no empty sub-map (the quantifier of the flatten clause)
func c20CfgWellFormed(m map[string]interface{}) bool {
	for k, v := range m {
		if k == "" || strings.Contains(k, ".") {
			return false
		}
		if sub, ok := v.(map[string]interface{}); ok && (len(sub) == 0 || !c20CfgWellFormed(sub)) {
			return false
		}
	}
	return true
}

func c20Guard(f func() error) (kind string) {
	defer func() {
		if r := recover(); r != nil {
			kind = "panic"
		}
	}()
	if err := f(); err != nil {
		return "err"
	}
	return "ok"
}

// ---------- (7) loader: sizes and schedules

// Load with a time limit, then every expected key must translate to its value
func (c *c20Ctx) loadAndJudge(fs filesystem.Filespace, base string, i18 i18n.I18N, withScope bool, expected map[string]string, stream string, desc map[string]interface{}) {
	o := c.o
	var scp app.Scope
	if withScope {
		scp = scope.New(scope.Params{})
	}
	type loadRes struct {
		err      error
		panicked bool
	}
	ch := make(chan loadRes, 1)
	go func() {
		defer func() {
			if r := recover(); r != nil {
				ch <- loadRes{panicked: true}
			}
		}()
		ch <- loadRes{err: fsi18loader.Load(fs, base, i18, scp)}
	}()
	desc["op"], desc["stream"], desc["base"], desc["keys"] = "load", stream, base, len(expected)
	var res loadRes
	select {
	case res = <-ch:
	case <-time.After(30 * time.Second):
		o.Fail("hang", "fsi18loader.Load did not return within 30 s", "hang", desc)
		return
	}
	o.Stat("loader_" + stream)
	o.CountEval("l"+stream+":"+strconv.Itoa(int(o.Stats["loader_"+stream])), len(expected) > 0)
	switch {
	case res.panicked:
		o.Fail("no_panic", "fsi18loader.Load panicked", "panic", desc)
		return
	case res.err != nil:
		o.Fail("loader", "Load returned an error on well-formed translation files: "+stream, "loader", desc)
		return
	}
	missing, wrong := 0, 0
	example := ""
	for _, k := range c20SortedKeys(expected) {
		got, err := i18.Translate(k)
		if err != nil {
			missing++
			if example == "" {
				example = "no translation for " + c20q(k)
			}
		} else if got != expected[k] {
			wrong++
			if example == "" {
				example = "Translate(" + c20q(k) + ") = " + c20q(got) + ", the file says " + c20q(expected[k])
			}
		}
	}
	if missing+wrong > 0 {
		o.Fail("loader", fmt.Sprintf("%s: %d of %d keys have no translation, %d a wrong one (%s)", stream, missing, len(expected), wrong, example), "loader", desc)
	}
	if scp != nil {
		done := make(chan struct{})
		go func() { defer func() { recover(); close(done) }(); scp.Close() }()
		select {
		case <-done:
		case <-time.After(5 * time.Second):
		}
	}
}

// a translation file with n keys below prefix; values without '%'
func (c *c20Ctx) transFile(prefix string, n, valLen int, expected map[string]string) string {
	keys := map[string]string{}
	for j := 0; j < n; j++ {
		k := prefix + ".k" + strconv.Itoa(j)
		if j%7 == 3 {
			k = prefix + ".grp.K" + strconv.Itoa(j)
		}
		v := strings.ReplaceAll(c.randVal(valLen), "%", "p") + strconv.Itoa(j)
		keys[k], expected[k] = v, v
	}
	kind, text := c20ImplEmit(c.rng.Bool(), keys)
	if kind != "ok" {
		c.o.Fail("loader", "the emitter failed while preparing a translation file: "+kind, "loader_prepare", map[string]interface{}{"op": "emit", "keys": n})
		return "{}"
	}
	return text
}

// ReadFile answers only when [want] readers have arrived (or 3 ms have passed): the consumers of the
// loader leave the file system together and reach the translation store together
type c20InnerFS interface{ filesystem.Filespace }

type c20GateFS struct {
	c20InnerFS
	mu   sync.Mutex
	n    int
	want int
	ch   chan struct{}
}

func (g *c20GateFS) ReadFile(p string) ([]byte, error) {
	data, err := g.c20InnerFS.ReadFile(p)
	g.mu.Lock()
	g.n++
	ch := g.ch
	if g.n >= g.want {
		g.n = 0
		g.ch = make(chan struct{})
		close(ch)
		g.mu.Unlock()
		return data, err
	}
	g.mu.Unlock()
	select {
	case <-ch:
	case <-time.After(3 * time.Millisecond):
		g.mu.Lock()
		if g.ch == ch && g.n > 0 {
			g.n--
		}
		g.mu.Unlock()
	}
	return data, err
}

func (c *c20Ctx) loaderSizesAndSchedules() {
	o, rng := c.o, c.rng
	// --- more files than the queues of the loop hold (fsloop.ChanSize = 1000), in one directory and spread
	for i := 0; i < 3*c.scale; i++ {
		fs, err := memfs.NewFilespace()
		must(err)
		expected := map[string]string{}
		n := 1001 + rng.Intn(300)
		for j := 0; j < n; j++ {
			dir := "t/"
			if i%3 == 1 {
				dir = "t/d" + strconv.Itoa(j%40) + "/"
			} else if i%3 == 2 && j%2 == 0 {
				dir = "t/sub/s" + strconv.Itoa(j%7) + "/"
			}
			must(fs.MkdirAll(dir, 0777))
			must(fs.WriteFile(dir+"f"+strconv.Itoa(j)+".json", []byte(c.transFile("f"+strconv.Itoa(j), 1+rng.Intn(2), 4, expected)), 0666))
		}
		c.loadAndJudge(fs, "t/", i18mem.NewI18N(), i%2 == 0, expected, "many_files", map[string]interface{}{"files": n})
	}
	// --- files beyond 64 KiB beside small ones
	for i := 0; i < 4*c.scale; i++ {
		fs, err := memfs.NewFilespace()
		must(err)
		must(fs.MkdirAll("t/big", 0777))
		expected := map[string]string{}
		nkeys := 1500 + rng.Intn(1500)
		text := c.transFile("big", nkeys, 30, expected)
		must(fs.WriteFile("t/big/big.json", []byte(text), 0666))
		for j := 0; j < 3; j++ {
			must(fs.WriteFile("t/s"+strconv.Itoa(j)+".json", []byte(c.transFile("s"+strconv.Itoa(j), 3, 5, expected)), 0666))
		}
		o.Stat("loader_big_file_kib_" + strconv.Itoa(len(text)/65536*64))
		c.loadAndJudge(fs, "t/", i18mem.NewI18N(), i%2 == 1, expected, "big_file", map[string]interface{}{"big_file_bytes": len(text)})
	}
	// --- gated loads: k files of equal size, their consumers released together, on an empty store and on a
	// store that already holds translations
	for i := 0; i < 250*c.scale; i++ {
		base, err := memfs.NewFilespace()
		must(err)
		must(base.MkdirAll("t/x", 0777))
		expected := map[string]string{}
		k := 2 + rng.Intn(5)
		per := []int{1, 8, 60, 200}[rng.Intn(4)]
		for j := 0; j < k; j++ {
			dir := "t/"
			if j%3 == 2 {
				dir = "t/x/"
			}
			must(base.WriteFile(dir+"g"+strconv.Itoa(j)+".json", []byte(c.transFile("g"+strconv.Itoa(j), per, 6, expected)), 0666))
		}
		i18 := i18mem.NewI18N()
		if i%3 == 2 {
			pre := map[string]string{"pre.one": "1", "pre.two": "2"}
			i18.Set(pre)
			expected["pre.one"], expected["pre.two"] = "1", "2"
		}
		gate := &c20GateFS{c20InnerFS: base, want: k, ch: make(chan struct{})}
		if i%5 == 4 {
			// a second directory loaded into the same store at the same time
			must(base.MkdirAll("u/y", 0777))
			other := map[string]string{}
			for j := 0; j < k; j++ {
				must(base.WriteFile("u/y/h"+strconv.Itoa(j)+".json", []byte(c.transFile("h"+strconv.Itoa(j), per, 6, other)), 0666))
			}
			gate.want = 2 * k
			done := make(chan struct{})
			go func() {
				defer close(done)
				defer func() { recover() }()
				fsi18loader.Load(gate, "u/", i18, nil)
			}()
			c.loadAndJudge(gate, "t/", i18, false, expected, "gated_two_loads", map[string]interface{}{"files": k, "keys_per_file": per})
			select {
			case <-done:
			case <-time.After(30 * time.Second):
				o.Fail("hang", "a second concurrent fsi18loader.Load did not return within 30 s", "hang", map[string]interface{}{"op": "load", "stream": "gated_two_loads"})
				continue
			}
			lost := 0
			for key, want := range other {
				if got, err := i18.Translate(key); err != nil || got != want {
					lost++
				}
			}
			if lost > 0 {
				o.Fail("loader", fmt.Sprintf("two directories loaded into one store at the same time: %d of %d keys of the second are not translatable to their value", lost, len(other)), "loader",
					map[string]interface{}{"op": "load", "stream": "gated_two_loads", "files": k, "keys_per_file": per})
			}
			continue
		}
		c.loadAndJudge(gate, "t/", i18, false, expected, "gated", map[string]interface{}{"files": k, "keys_per_file": per, "prefilled": i%3 == 2})
	}
	// --- storms of overlapping Set calls on one store (what the consumers of the loader do)
	for i := 0; i < 1500*c.scale; i++ {
		k := 2 + rng.Intn(4)
		per := []int{1, 4, 40}[rng.Intn(3)]
		maps := make([]map[string]string, k)
		expected := map[string]string{}
		for j := range maps {
			maps[j] = map[string]string{}
			for x := 0; x < per; x++ {
				key, v := "s"+strconv.Itoa(j)+".k"+strconv.Itoa(x), strconv.Itoa(i)+"/"+strconv.Itoa(j)+"/"+strconv.Itoa(x)
				maps[j][key], expected[key] = v, v
			}
		}
		i18 := i18mem.NewI18N()
		if i%4 == 3 {
			i18.Set(map[string]string{"pre": "p"})
			expected["pre"] = "p"
		}
		var ready int32
		var wg sync.WaitGroup
		panicked := int32(0)
		for j := range maps {
			wg.Add(1)
			go func(m map[string]string) {
				defer wg.Done()
				defer func() {
					if r := recover(); r != nil {
						atomic.StoreInt32(&panicked, 1)
					}
				}()
				atomic.AddInt32(&ready, 1)
				for atomic.LoadInt32(&ready) < int32(k) {
					runtime.Gosched()
				}
				i18.Set(m)
			}(maps[j])
		}
		wg.Wait()
		o.Stat("set_storm")
		lost := 0
		example := ""
		for key, want := range expected {
			if got, err := i18.Translate(key); err != nil || got != want {
				lost++
				example = key
			}
		}
		if lost > 0 || panicked != 0 {
			o.Fail("loader", fmt.Sprintf("%d overlapping I18Mem.Set calls (%d keys each, store %s before): %d of %d keys are not translatable to their value afterwards (e.g. %s)", k, per,
				map[bool]string{true: "filled", false: "empty"}[i%4 == 3], lost, len(expected), c20q(example)), "loader",
				map[string]interface{}{"op": "set_storm", "sets": k, "keys_per_set": per, "lost": lost, "panicked": panicked != 0})
		}
	}
	o.CountEval("set_storm", true)
}

// The cases of the audit streams are few and large; left at the end they would all land in the last
// shard, which then decides the wall time of the Coq evaluation.  Spread them evenly over the list
// (cases and their descriptions stay index-aligned; the order of cases carries no meaning).
func c20Spread(o *Out, from int) {
	if from <= 0 || from >= len(o.cases) {
		return
	}
	head, tail := o.cases[:from], o.cases[from:]
	hj, tj := o.caseJSON[:from], o.caseJSON[from:]
	cases := make([]string, 0, len(o.cases))
	descs := make([]interface{}, 0, len(o.caseJSON))
	step := len(head)/len(tail) + 1
	t := 0
	for i := range head {
		cases, descs = append(cases, head[i]), append(descs, hj[i])
		if (i+1)%step == 0 && t < len(tail) {
			cases, descs = append(cases, tail[t]), append(descs, tj[t])
			t++
		}
	}
	cases, descs = append(cases, tail[t:]...), append(descs, tj[t:]...)
	o.cases, o.caseJSON = cases, descs
}
