package main

// C12 — the failures that the anchor app/terminal/termexec/run.go signals ITSELF.  RunLoop runs two
// goroutines (the reader of the terminal input and the command loop); both report what goes wrong
// into the scope of the calling context (a read error of the input, a malformed line, the error of a
// command).  Whoever started the loop learns the verdict the way terminalm's runLoop does: RunLoop
// returns, then scope.Wait(), then the scope is closed.  The clause "every appended error is ...
// reported by waiting on or closing it ... no call panics" therefore needs an order: the error is in
// the scope BEFORE the loop can be observed as finished.  Otherwise Wait answers nil, Close commits
// and the late AppendError is lost for the verdict or meets the closed scope and panics in a
// goroutine nobody recovers.
//
// Generated: scripts of commands that do not touch the scope, an input that fails at EVERY byte
// position of the script (non-EOF read error, possibly slow; or the text simply ends there, which
// inside a quotation is a malformed line), a failing command as the last line, the calling scope
// plain or a child with an isolated context (as terminalm builds it), and - the schedule - a scope
// wrapper that holds every signalling call (AppendError / Kill / Stop) of the library back before it
// is forwarded (yields, or a sleep: the forced variant "the signalling goroutine is descheduled right
// before its call"), or after it.
// Judged (L2) at the moment RunLoop returns and after Wait / Close:
//   reported        the input failed with a read error => RunLoop or Wait reports an error and the
//                   injected error is in Errors() when RunLoop returns;
//   signalled_first everything the loop's goroutines hand to AppendError/Kill during the round is in
//                   the scope when RunLoop returns (no signalling call still pending or yet to come);
//   done            an error in the scope => IsDone() and a receive from Done() succeed at that moment;
//   no_panic        no signalling call panics (a late one meets the closed scope), nor RunLoop/Wait/Close;
//   wait/close      Wait() and Close() report an error iff the scope holds one.
// L1: the caller's view is written as a sequential history (newroot; the append the loop owes; wait;
// close) with what the implementation showed at the return of RunLoop as the observation of the
// append step; the model (Model/Scope.v) must show the same.

import (
	"fmt"
	"io"
	"runtime"
	"strings"
	"sync"
	"sync/atomic"
	"time"

	"github.com/goatcms/goatcore/app"
	"github.com/goatcms/goatcore/app/gio"
	"github.com/goatcms/goatcore/app/goatapp"
	"github.com/goatcms/goatcore/app/scope"
	"github.com/goatcms/goatcore/app/scope/contextscope"
	"github.com/goatcms/goatcore/app/terminal"
	"github.com/goatcms/goatcore/app/terminal/termexec"
)

// c12SigCall is one signalling call the library made on the calling scope.
type c12SigCall struct {
	Kind   string `json:"kind"`             // append | kill | stop
	Errors int    `json:"errors"`           // non-nil errors handed over (kill: 1)
	After  string `json:"after,omitempty"`  // "return" / "close": the call BEGAN after RunLoop had returned / the scope was closed
	Panic  string `json:"panic,omitempty"`  // the forwarded call panicked
	Done   bool   `json:"forwarded_return"` // the forwarded call returned
}

// c12SigScope forwards everything to the wrapped scope; the three signalling calls are logged and
// held back according to mode (0 not at all, 1 yields before, 2 sleep before, 3 sleep after).
type c12SigScope struct {
	app.Scope
	mode     int
	yields   int
	d        time.Duration
	mu       sync.Mutex
	calls    []*c12SigCall
	inflight int32
	inside   int32 // calls that have been forwarded and have not returned yet
	phase    int32 // 0 loop running, 1 RunLoop returned, 2 scope closed
}

func (s *c12SigScope) signal(kind string, n int, f func()) {
	c := &c12SigCall{Kind: kind, Errors: n}
	switch atomic.LoadInt32(&s.phase) {
	case 1:
		c.After = "return"
	case 2:
		c.After = "close"
	}
	atomic.AddInt32(&s.inflight, 1)
	s.mu.Lock()
	s.calls = append(s.calls, c)
	s.mu.Unlock()
	defer atomic.AddInt32(&s.inflight, -1)
	defer func() {
		if p := recover(); p != nil {
			s.mu.Lock()
			c.Panic = fmt.Sprintf("%.160v", p)
			s.mu.Unlock()
		}
	}()
	switch s.mode {
	case 1:
		for i := 0; i < s.yields; i++ {
			runtime.Gosched()
		}
	case 2:
		time.Sleep(s.d)
	}
	atomic.AddInt32(&s.inside, 1)
	defer atomic.AddInt32(&s.inside, -1)
	f()
	s.mu.Lock()
	c.Done = true
	s.mu.Unlock()
	if s.mode == 3 {
		time.Sleep(s.d)
	}
}

// c12SlowCtx is a context whose signalling calls return late: the error is recorded and the done
// signal has fired, the caller of AppendError/Kill/Stop is still inside.
type c12SlowCtx struct {
	app.ContextScope
	d time.Duration
}

func (c *c12SlowCtx) AppendError(errs ...error) { c.ContextScope.AppendError(errs...); time.Sleep(c.d) }
func (c *c12SlowCtx) Kill()                     { c.ContextScope.Kill(); time.Sleep(c.d) }
func (c *c12SlowCtx) Stop()                     { c.ContextScope.Stop(); time.Sleep(c.d) }

func (s *c12SigScope) AppendError(errs ...error) {
	n := 0
	for _, e := range errs {
		if e != nil {
			n++
		}
	}
	s.signal("append", n, func() { s.Scope.AppendError(errs...) })
}
func (s *c12SigScope) Kill() { s.signal("kill", 1, s.Scope.Kill) }
func (s *c12SigScope) Stop() { s.signal("stop", 0, s.Scope.Stop) }

func (s *c12SigScope) snapshot() (calls []c12SigCall, signalled int) {
	s.mu.Lock()
	defer s.mu.Unlock()
	for _, c := range s.calls {
		calls = append(calls, *c)
		signalled += c.Errors
	}
	return
}

// c12FaultInput serves data[:cut]; then it fails with err (err == nil: plain end of input).
type c12FaultInput struct {
	data  []byte
	cut   int
	pos   int
	err   error
	slow  time.Duration
	fired int32
}

func (r *c12FaultInput) Read(p []byte) (int, error) {
	if r.pos >= r.cut {
		if r.err == nil {
			return 0, io.EOF
		}
		if r.slow != 0 {
			time.Sleep(r.slow)
		}
		atomic.StoreInt32(&r.fired, 1)
		return 0, r.err
	}
	n := copy(p, r.data[r.pos:r.cut])
	r.pos += n
	return n, nil
}

func c12HoldsErr(errs []error, want error) bool {
	for _, e := range errs {
		if e == want || (e != nil && strings.Contains(e.Error(), want.Error())) {
			return true
		}
	}
	return false
}

type c12LoopRound struct {
	Script   string `json:"script"`
	Cut      int    `json:"input_ends_at_byte"`
	Fault    string `json:"fault"` // read_error | end_of_input
	SlowRead bool   `json:"slow_read,omitempty"`
	Mode     int    `json:"signal_held_back"` // 0 no, 1 yields before, 2 sleep before, 3 sleep after, 4 the context's own signalling calls return late
	Yields   int    `json:"yields,omitempty"`
	DelayUS  int    `json:"delay_us,omitempty"`
	Isolated bool   `json:"isolated_caller"`
	Procs    int    `json:"gomaxprocs"`
	L1       bool   `json:"also_evaluated_on_the_model"`
}

const c12InputErrID = 14 // the injected read error; 15 stands for any other error in the L1 history

func c12LoopFailureProbe(o *Out, rng *RNG, thorough bool) {
	mapp, err := goatapp.NewMockupApp(goatapp.Params{})
	must(err)
	t0 := time.Now()
	defer func() { o.Stats["loopfail_wall_ms"] = int(time.Since(t0) / time.Millisecond) }()
	var failRan int32
	mk := func(name string, f func() error) app.TerminalCommand {
		return terminal.NewCommand(terminal.CommandParams{Name: name, Callback: func(a app.App, ctx app.IOContext) error { return f() }})
	}
	cmds := terminal.NewCommands(
		mk("ok", func() error { return nil }),
		mk("yield", func() error { runtime.Gosched(); return nil }),
		mk("fail", func() error { atomic.AddInt32(&failRan, 1); return idErr(11) }),
	)
	scripts := []string{
		"ok\nok\n",
		"ok \"a b\" c\nyield\n",
		"yield h=<<E\nx y\nE\nok\n",
		"ok\n\n \nok",
		"ok\nfail\nok\n",
		"fail\n",
	}
	old := runtime.GOMAXPROCS(0)
	defer runtime.GOMAXPROCS(old)
	inputErr := idErr(c12InputErrID)
	hangs := 0
	round := 0
	run := func(rd c12LoopRound) {
		round++
		runtime.GOMAXPROCS(rd.Procs)
		atomic.StoreInt32(&failRan, 0)
		in := &c12FaultInput{data: []byte(rd.Script), cut: rd.Cut}
		if rd.Fault == "read_error" {
			in.err = inputErr
			if rd.SlowRead {
				in.slow = 300 * time.Microsecond
			}
		}
		// mode 4: the scope's context records the error / fires the done signal and returns late, i.e.
		// the signalling call is descheduled INSIDE the scope right after the signal; whoever the
		// signal releases (the caller: Wait, then Close) runs while that call is still in flight
		slow := func(c app.ContextScope) app.ContextScope {
			if rd.Mode == 4 {
				return &c12SlowCtx{ContextScope: c, d: time.Duration(rd.DelayUS) * time.Microsecond}
			}
			return c
		}
		top := scope.New(scope.Params{ContextScope: slow(contextscope.New())})
		real := top
		if rd.Isolated {
			real = scope.NewChild(top, scope.ChildParams{ContextScope: slow(contextscope.NewIsolated(top)), DataScope: top.BaseDataScope()})
		}
		scp := &c12SigScope{Scope: real, mode: rd.Mode, yields: rd.Yields, d: time.Duration(rd.DelayUS) * time.Microsecond}
		cio := gio.NewIO(gio.IOParams{In: gio.NewInput(in), Out: gio.NewNilOutput(), Err: gio.NewNilOutput(), CWD: scopeIO().CWD()})
		rctx := termexec.NewRunCtx(termexec.RunCtxParams{Application: mapp, Ctx: gio.NewIOContext(scp, cio), Commands: cmds})
		doneCh := real.Done()
		desc := map[string]interface{}{"family": "loop_failure", "round": rd}
		fail := func(oracle, what string) { o.Fail(oracle, what, "loopfail_"+oracle, desc) }
		o.Stat("loopfail_rounds")
		o.Stat("loopfail_" + rd.Fault)
		o.Stat(fmt.Sprintf("loopfail_mode%d", rd.Mode))

		// ---- the loop; the caller's view is taken in the goroutine that RunLoop returns to
		type view struct {
			Done   bool `json:"is_done"`
			Recv   bool `json:"done_channel_closed"`
			NErr   int  `json:"errors"`
			Holds  bool `json:"holds_injected_error"`
			Fired  bool `json:"input_failed"`
			FailRn bool `json:"failing_command_ran"`
		}
		look := func() (v view) {
			errs := real.Errors()
			v.Done, v.NErr, v.Holds = real.IsDone(), len(errs), c12HoldsErr(errs, inputErr)
			select {
			case <-doneCh:
				v.Recv = true
			default:
			}
			v.Fired = atomic.LoadInt32(&in.fired) != 0
			v.FailRn = atomic.LoadInt32(&failRan) != 0
			return
		}
		var atRet view
		loopErr, lpan, ok := callGuard(func() error {
			e := termexec.RunLoop(rctx, "")
			atomic.StoreInt32(&scp.phase, 1)
			atRet = look()
			return e
		}, 10*time.Second)
		if !ok {
			fail("no_hang", "RunLoop did not return although its input had failed / ended")
			hangs++
			return
		}
		desc["loop_error"] = loopErr != nil
		desc["at_return"] = atRet
		if lpan != nil {
			fail("no_panic", fmt.Sprintf("RunLoop panicked: %.120v", lpan))
		}
		waitErr, wpan, ok := callGuard(real.Wait, 5*time.Second)
		if !ok {
			fail("no_hang", "the loop returned, yet Wait() on the calling scope blocks")
			hangs++
			return
		}
		atWait := look()
		if wpan != nil {
			fail("no_panic", fmt.Sprintf("Wait() on the calling scope panicked: %.120v", wpan))
		}
		// A signalling call that is INSIDE the scope at this moment (its error recorded, the done signal
		// fired, the error listeners not yet run) is NOT waited for: the done signal is what releases
		// the caller, and closing the scope under such a call must not make it panic (it did: a nil
		// dereference in scope.appendError, repaired by 451be9e; mode 4 forces this schedule).
		closeErr, cpan, ok := callGuard(real.Close, 5*time.Second)
		if !ok {
			fail("no_hang", "the loop returned, yet Close() of the calling scope blocks")
			hangs++
			return
		}
		atomic.StoreInt32(&scp.phase, 2)
		// let signalling calls that are held back, or were about to begin, come to their end
		grace := 300 * time.Microsecond
		if rd.Mode >= 2 {
			grace += scp.d
		}
		for dl := time.Now().Add(grace); time.Now().Before(dl); {
			runtime.Gosched()
			time.Sleep(50 * time.Microsecond)
		}
		for dl := time.Now().Add(5 * time.Second); atomic.LoadInt32(&scp.inflight) != 0 && time.Now().Before(dl); {
			time.Sleep(50 * time.Microsecond)
		}
		calls, signalled := scp.snapshot()
		atEnd := look()
		desc["wait_error"], desc["close_error"], desc["after_wait"], desc["at_end"], desc["signalling_calls"] = waitErr != nil, closeErr != nil, atWait, atEnd, calls
		o.CountEval(fmt.Sprintf("loopfail:%q:%d:%s:%d:%v", rd.Script, rd.Cut, rd.Fault, rd.Mode, rd.Isolated), atRet.Fired || atRet.FailRn || signalled != 0)

		// ---- L2
		if cpan != nil {
			fail("no_panic", fmt.Sprintf("Close() of the calling scope panicked: %.120v", cpan))
		}
		for _, c := range calls {
			if c.Panic != "" {
				fail("no_panic", fmt.Sprintf("a signalling call of the loop (%s, begun after: %q) panicked - in the library it runs in a goroutine nobody recovers: %s", c.Kind, c.After, c.Panic))
				break
			}
		}
		if atRet.Fired && loopErr == nil && waitErr == nil {
			fail("reported", fmt.Sprintf("the input failed with a read error; RunLoop returned nil and Wait() returned nil (at the return of RunLoop: done=%v, %d errors)", atRet.Done, atRet.NErr))
		} else if atRet.Fired && !atRet.Holds {
			fail("reported", fmt.Sprintf("the input failed with a read error before RunLoop returned, but the scope does not hold that error at the return (%d errors, done=%v)", atRet.NErr, atRet.Done))
		}
		if atRet.FailRn && loopErr == nil && waitErr == nil {
			fail("reported", "a command of the script returned an error; RunLoop returned nil and Wait() returned nil")
		}
		if signalled > atRet.NErr {
			fail("signalled_first", fmt.Sprintf("the loop's goroutines handed %d error(s) to the scope during the round, the scope held %d when RunLoop returned: a failure was signalled after the loop could be seen as finished (Wait error=%v, Close error=%v)", signalled, atRet.NErr, waitErr != nil, closeErr != nil))
		}
		if atRet.NErr != 0 && !(atRet.Done && atRet.Recv) {
			fail("done_once", fmt.Sprintf("at the return of RunLoop the scope holds %d error(s) but IsDone()=%v, receive from Done()=%v", atRet.NErr, atRet.Done, atRet.Recv))
		}
		if wpan == nil && (waitErr != nil) != (atRet.NErr != 0) && atWait.NErr == atRet.NErr {
			fail("wait_iff_nonempty", fmt.Sprintf("Wait()==nil is %v with %d errors in the scope", waitErr == nil, atRet.NErr))
		}
		if cpan == nil && (closeErr != nil) != (atWait.NErr != 0) && atEnd.NErr == atWait.NErr {
			fail("close_iff_nonempty", fmt.Sprintf("Close()==nil is %v with %d errors in the scope", closeErr == nil, atWait.NErr))
		}

		// ---- L1: the caller's view as a sequential history on the model
		if rd.L1 && !rd.Isolated && lpan == nil && wpan == nil {
			owed := signalled
			id := 15
			if atRet.Fired {
				owed, id = 1, c12InputErrID
			} else if atRet.FailRn {
				owed = 1
			}
			if owed <= 1 {
				ob := func(main []string, closer int, v view) stepObs {
					d := 0
					if v.Done {
						d = 1
					}
					return stepObs{Main: main, Closers: []int{closer}, Ctxs: [][2]int{{d, v.NErr}}}
				}
				r := seqResult{Hist: []sop{{K: "newroot"}}, Obs: []stepObs{ob(nil, 0, view{})}}
				if owed == 1 {
					r.Hist = append(r.Hist, sop{K: "apperr", S: 0, Es: []int{id}})
					r.Obs = append(r.Obs, ob(nil, 0, atRet))
				}
				cst := 2
				if cpan != nil {
					cst = 4
				} else if closeErr != nil {
					cst = 3
				}
				r.Hist = append(r.Hist, sop{K: "wait", S: 0}, sop{K: "close", S: 0})
				r.Obs = append(r.Obs, ob([]string{"SBool " + coqBool(waitErr != nil)}, 0, atWait), ob(nil, cst, atEnd))
				var ids []int
				for _, e := range real.Errors() {
					if c12HoldsErr([]error{e}, inputErr) {
						ids = append(ids, c12InputErrID)
					} else {
						ids = append(ids, 15)
					}
				}
				r.Errs = [][]int{ids}
				d := r.desc()
				d["family"], d["round"] = "loop_failure", rd
				o.AddCase(fmt.Sprintf("CSeq %s %s %s", r.coqHist(), r.coqObs(), r.coqErrs()), d, "loopfail:"+r.key()+fmt.Sprint(rd.Cut, rd.Mode, rd.Script), owed == 1)
				o.Stat("loopfail_l1_cases")
			}
		}
		if rd.Isolated {
			callGuard(top.Close, 2*time.Second)
		}
		func() { defer func() { recover() }(); top.BaseContextScope().Stop() }()
	}

	procs := []int{1, 2, 4, old}
	// (1) the sweep: every script x every byte position of the failure x {read error, end of input};
	// the signalling call passes straight through, or is held back by a forced sleep
	for si, sc := range scripts {
		for cut := 0; cut <= len(sc); cut++ {
			for _, fault := range []string{"read_error", "end_of_input"} {
				if hangs >= 3 {
					return
				}
				rd := c12LoopRound{Script: sc, Cut: cut, Fault: fault, Procs: procs[(si+cut)%4], Isolated: (si+cut)%5 == 4, L1: true}
				run(rd)
				rd.Mode, rd.DelayUS = 2, 3000
				if thorough {
					rd.DelayUS = 20000
				}
				run(rd)
				if cut%3 == si%3 || thorough {
					rd.Mode, rd.DelayUS, rd.L1 = 4, 2000, false
					run(rd)
				}
			}
		}
	}
	// (2) free-running and mildly disturbed rounds
	n := 600
	if thorough {
		n = 20000
	}
	for i := 0; i < n && hangs < 3; i++ {
		sc := scripts[rng.Intn(len(scripts))]
		rd := c12LoopRound{Script: sc, Cut: rng.Intn(len(sc) + 1), Fault: "read_error", Procs: procs[i%4], Isolated: rng.Chance(25), SlowRead: rng.Chance(20)}
		if rng.Chance(20) {
			rd.Fault = "end_of_input"
		}
		switch rng.Intn(4) {
		case 1:
			rd.Mode, rd.Yields = 1, 1+rng.Intn(40)
		case 2:
			rd.Mode, rd.DelayUS = 3, 200+rng.Intn(600)
		case 3:
			if rng.Chance(30) {
				rd.Mode, rd.DelayUS = 4, 200+rng.Intn(1500)
			}
		}
		run(rd)
	}
}
