package main

// C08 through the two callers of fsloop inside goatcore (anchor files filesystem/fshelper/copy.go
// and i18n/fsi18loader/main.go): the loop's clauses restated on what the caller promises.
//
//   fshelper.Copy(src, dst, filter)   nil  => every file below an accepted directory is in dst with its
//                                             content, every accepted directory is in dst, no other file is;
//                                     a listing / read / write / mkdir failure that really happened
//                                          => Copy returns an error
//   fsi18loader.Load(fs, base, ..)    nil  => the keys of every *.json file below base are set and those of
//                                             no file outside base (a file without the suffix or a
//                                             directory named x.json, if visited, makes Load fail);
//                                     a listing / read failure or a broken file => Load returns an error
//
// Nothing here looks at error texts, at the order of the walk or at the number of goroutines.

import (
	"errors"
	"fmt"
	"os"
	"sort"
	"strings"
	"sync"
	"sync/atomic"
	"time"

	"github.com/goatcms/goatcore/app"
	"github.com/goatcms/goatcore/app/scope"
	"github.com/goatcms/goatcore/filesystem"
	"github.com/goatcms/goatcore/filesystem/filespace/memfs"
	"github.com/goatcms/goatcore/filesystem/fshelper"
	"github.com/goatcms/goatcore/i18n/fsi18loader"
	"github.com/goatcms/goatcore/i18n/i18mem"
)

// c08SpyFS counts what the walk's callbacks do per (normalised) path and fails one chosen call.
type c08SpyFS struct {
	c08Inner
	mu        sync.Mutex
	reads     map[string]int // ReadFile + Reader
	writes    map[string]int // Writer
	failRead  string
	failList  string // "." = the root
	failWrite string
	failMkdir string
	fired     int32
	tick      func() // called when a ReadFile / Reader / ReadDir of the walk begins (nil = nothing)
}

func c08Spy(inner filesystem.Filespace) *c08SpyFS {
	return &c08SpyFS{c08Inner: inner, reads: map[string]int{}, writes: map[string]int{}}
}

func (f *c08SpyFS) count(m map[string]int, p string) string {
	np := c08Norm(p)
	f.mu.Lock()
	m[np]++
	f.mu.Unlock()
	return np
}

func (f *c08SpyFS) fail(what string) error {
	atomic.AddInt32(&f.fired, 1)
	return errors.New("injected " + what + " error")
}

func (f *c08SpyFS) ReadFile(p string) ([]byte, error) {
	if f.tick != nil {
		f.tick()
	}
	if np := f.count(f.reads, p); f.failRead != "" && np == f.failRead {
		return nil, f.fail("read")
	}
	return f.c08Inner.ReadFile(p)
}

func (f *c08SpyFS) Reader(p string) (filesystem.Reader, error) {
	if f.tick != nil {
		f.tick()
	}
	if np := f.count(f.reads, p); f.failRead != "" && np == f.failRead {
		return nil, f.fail("read")
	}
	return f.c08Inner.Reader(p)
}

func (f *c08SpyFS) Writer(p string) (filesystem.Writer, error) {
	if np := f.count(f.writes, p); f.failWrite != "" && np == f.failWrite {
		return nil, f.fail("write")
	}
	return f.c08Inner.Writer(p)
}

func (f *c08SpyFS) MkdirAll(p string, m os.FileMode) error {
	if f.failMkdir != "" && c08Norm(p) == f.failMkdir {
		return f.fail("mkdir")
	}
	return f.c08Inner.MkdirAll(p, m)
}

func (f *c08SpyFS) ReadDir(p string) ([]os.FileInfo, error) {
	if f.tick != nil {
		f.tick()
	}
	if np := c08Norm(p); f.failList != "" && (np == f.failList || (f.failList == "." && np == "")) {
		return nil, f.fail("listing")
	}
	return f.c08Inner.ReadDir(p)
}

// c08Materialise writes the tree into fs (content of a file = content(path)); entries the
// filespace refuses are dropped from the tree that is returned.
func c08Materialise(fs filesystem.Filespace, base string, l []*c08Node, content func(p string) []byte) []*c08Node {
	var out []*c08Node
	for _, n := range l {
		p := base + n.Name
		if n.Dir {
			if fs.MkdirAll(p, 0755) != nil || !fs.IsDir(p) {
				continue
			}
			out = append(out, &c08Node{Name: n.Name, Dir: true, Ch: c08Materialise(fs, p+"/", n.Ch, content)})
		} else {
			if fs.WriteFile(p, content(p), 0644) != nil || !fs.IsFile(p) {
				continue
			}
			out = append(out, &c08Node{Name: n.Name})
		}
	}
	return out
}

// every file of a filespace: normalised path -> content
func c08Files(fs filesystem.Filespace, base string, out map[string]string) {
	infos, err := fs.ReadDir(base)
	if err != nil {
		return
	}
	for _, in := range infos {
		p := base + in.Name()
		if in.IsDir() {
			c08Files(fs, p+"/", out)
		} else if data, err := fs.ReadFile(p); err == nil {
			out[c08Norm(p)] = string(data)
		}
	}
}

func c08Short(l []string) []string {
	sort.Strings(l)
	if len(l) > 6 {
		return append(l[:6:6], fmt.Sprintf("...(%d)", len(l)))
	}
	return l
}

func c08CopyProbe(o *Out, rng *RNG, n int) {
	for i := 0; i < n; i++ {
		src, _ := memfs.NewFilespace()
		dst, _ := memfs.NewFilespace()
		tree := c08Materialise(src, "", c08GenSmall(rng, 3, 5), func(p string) []byte { return []byte("content of " + p) })
		r := &c08Run{Root: tree, Kind: "copy", HasDF: rng.Chance(60), OnDir: true, OnFile: true, Salt: rng.Next()}
		exp := r.expected()
		var files, dirs []string
		for _, e := range exp {
			if strings.HasPrefix(e, "F:") {
				files = append(files, c08Norm(e[2:]))
			} else {
				dirs = append(dirs, c08Norm(e[2:]))
			}
		}
		ssrc, sdst := c08Spy(src), c08Spy(dst)
		fault := "none"
		if rng.Chance(40) {
			switch k := rng.Intn(4); {
			case k == 0 && len(files) > 0:
				fault, ssrc.failRead = "source read", files[rng.Intn(len(files))]
			case k == 1 && len(files) > 0:
				fault, sdst.failWrite = "destination write", files[rng.Intn(len(files))]
			case k == 2 && len(dirs) > 0:
				fault, sdst.failMkdir = "destination mkdir", dirs[rng.Intn(len(dirs))]
			default:
				fault, ssrc.failList = "source listing", "."
				if len(dirs) > 0 && rng.Chance(70) {
					ssrc.failList = dirs[rng.Intn(len(dirs))]
				}
			}
		}
		var filter filesystem.LoopFilter
		if r.HasDF {
			filter = func(fs filesystem.Filespace, p string) bool { return r.df(p) }
		}
		res := make(chan error, 1)
		go func() { res <- fshelper.Copy(ssrc, sdst, filter) }()
		d := map[string]interface{}{"probe": "fshelper.Copy", "i": i, "tree": c08Desc(tree), "dirfilter": r.HasDF, "salt": r.Salt, "fault": fault,
			"fault_at": ssrc.failRead + ssrc.failList + sdst.failWrite + sdst.failMkdir}
		var err error
		select {
		case err = <-res:
		case <-time.After(30 * time.Second):
			o.Fail("no-hang", "fshelper.Copy did not return within 30 s", "C08-hang", d)
			return
		}
		fired := atomic.LoadInt32(&ssrc.fired)+atomic.LoadInt32(&sdst.fired) > 0
		d["copy_error"] = fmt.Sprint(err)
		d["fault_fired"] = fired
		o.CountEval(fmt.Sprintf("copy|%v|%s|%d|%d", r.HasDF, fault, len(files), len(dirs)), len(exp) > 0)
		o.Stat("copy_probe_" + strings.ReplaceAll(fault, " ", "_"))
		if fired {
			if err == nil {
				o.Fail("error-reported", "fshelper.Copy returned nil although a "+fault+" failed during the walk", "C08-copy-error-lost", d)
			}
			continue
		}
		if err != nil {
			o.Fail("no-spurious-error", "fshelper.Copy reports an error although nothing failed: "+err.Error(), "C08-copy-spurious", d)
			continue
		}
		got := map[string]string{}
		c08Files(dst, "", got)
		var miss, extra []string
		for _, f := range files {
			if c, ok := got[f]; !ok || c != "content of "+f {
				miss = append(miss, f)
			}
			delete(got, f)
		}
		for f := range got {
			extra = append(extra, f)
		}
		for _, dir := range dirs {
			if !dst.IsDir(dir) {
				miss = append(miss, dir+"/")
			}
		}
		if len(miss)+len(extra) > 0 {
			o.Fail("exactly-once", fmt.Sprintf("fshelper.Copy returned nil: selected but not (correctly) in the destination %q; in the destination but not selected %q",
				c08Short(miss), c08Short(extra)), "C08-copy-exactly-once", d)
		}
	}
}

func c08LoadProbe(o *Out, rng *RNG, n int) {
	for i := 0; i < n; i++ {
		// translation trees: some files and some DIRECTORIES carry the .json suffix
		var suffix func(l []*c08Node)
		suffix = func(l []*c08Node) {
			for _, nd := range l {
				if (nd.Dir && rng.Chance(15)) || (!nd.Dir && rng.Chance(60)) {
					nd.Name += ".json"
				}
				suffix(nd.Ch)
			}
		}
		gen := c08GenSmall(rng, 3, 5)
		suffix(gen)
		mem, _ := memfs.NewFilespace()
		key := func(p string) string { return fmt.Sprintf("k%x", c08Hash(p, 7)) }
		tree := c08Materialise(mem, "", gen, func(p string) []byte {
			if strings.HasSuffix(p, ".json") {
				return []byte(fmt.Sprintf(`{"%s":"v"}`, key(p)))
			}
			return []byte("{ this is not a translation file")
		})
		r := &c08Run{Root: tree, Kind: "load", OnFile: true}
		if dirs := c08AllDirs("", tree); rng.Chance(50) {
			switch {
			case len(dirs) == 0 || rng.Chance(30):
				r.Start = "./"
			case rng.Bool():
				r.Start = dirs[rng.Intn(len(dirs))]
			default:
				r.Start = "./" + dirs[rng.Intn(len(dirs))]
			}
		}
		var sel, listed []string
		for _, e := range r.expected() {
			if strings.HasSuffix(e, ".json") {
				sel = append(sel, c08Norm(e[2:]))
			}
		}
		r.OnDir, r.OnFile = true, false
		for _, e := range r.expected() {
			listed = append(listed, c08Norm(e[2:]))
		}
		spy := c08Spy(mem)
		fault := "none"
		if rng.Chance(40) {
			switch k := rng.Intn(3); {
			case k == 0 && len(sel) > 0:
				fault, spy.failRead = "read", sel[rng.Intn(len(sel))]
			case k == 1 && len(sel) > 0:
				fault = "broken file"
				must(mem.WriteFile(sel[rng.Intn(len(sel))], []byte(`{"k": `), 0644))
			default:
				fault, spy.failList = "listing", r.startDir()
				if len(listed) > 0 && rng.Chance(70) {
					spy.failList = listed[rng.Intn(len(listed))]
				}
			}
		}
		var scp app.Scope
		if rng.Chance(65) {
			scp = scope.New(scope.Params{})
		}
		// the application scope the loader is attached to is ended by somebody else while the files are
		// being loaded (Kill, an error of another component, the same on a child scope), when the n-th
		// listing / read of the walk begins; nothing fails inside the walk
		outside, outsideN := "none", 0
		var reached int32
		if scp != nil && fault == "none" && rng.Chance(75) {
			var cnt int32
			outsideN = 1 + rng.Intn(len(sel)+len(listed)+2)
			target := scp
			kind := rng.Intn(4)
			if kind >= 2 {
				target = scope.NewChild(scp, scope.ChildParams{})
			}
			outside = []string{"Kill", "AppendError", "Kill of a child scope", "AppendError on a child scope"}[kind]
			spy.tick = func() {
				if atomic.AddInt32(&cnt, 1) != int32(outsideN) {
					return
				}
				atomic.StoreInt32(&reached, 1)
				done := make(chan struct{})
				go func() {
					defer close(done)
					if kind%2 == 0 {
						target.Kill()
					} else {
						target.AppendError(errors.New("error of another component of the application"))
					}
				}()
				<-done
			}
		}
		i18 := i18mem.NewI18N()
		res := make(chan error, 1)
		go func() { res <- fsi18loader.Load(spy, r.base(), i18, scp) }()
		d := map[string]interface{}{"probe": "fsi18loader.Load", "i": i, "tree": c08Desc(tree), "base": r.base(), "scope": scp != nil, "fault": fault,
			"fault_at": spy.failRead + spy.failList, "selected": sel, "scope_ended_from_outside": outside, "at_read_or_listing_no": outsideN}
		var err error
		select {
		case err = <-res:
		case <-time.After(30 * time.Second):
			o.Fail("no-hang", "fsi18loader.Load did not return within 30 s", "C08-hang", d)
			return
		}
		fired := atomic.LoadInt32(&spy.fired) > 0 || fault == "broken file"
		d["load_error"] = fmt.Sprint(err)
		d["fault_fired"] = fired
		o.CountEval(fmt.Sprintf("load|%s|%s|%d|%v|%s", r.Start, fault, len(sel), scp != nil, outside), len(sel) > 0)
		o.Stat("load_probe_" + strings.ReplaceAll(fault, " ", "_"))
		if fired {
			if err == nil {
				o.Fail("error-reported", "fsi18loader.Load returned nil although a "+fault+" failed during the walk", "C08-load-error-lost", d)
			}
			continue
		}
		if atomic.LoadInt32(&reached) == 1 {
			// Load may report the end of its scope or finish the walk; what it must not do is return nil
			// with translations missing (decided below)
			o.Stat("load_probe_scope_ended_from_outside")
			if err != nil {
				continue
			}
			o.Stat("load_probe_scope_ended_from_outside_returned_nil")
		} else if err != nil {
			o.Fail("no-spurious-error", "fsi18loader.Load reports an error although nothing failed: "+err.Error(), "C08-load-spurious", d)
			continue
		}
		// what was visited is read off the translations: every file has a key of its own
		var miss, extra []string
		isSel := map[string]bool{}
		for _, f := range sel {
			isSel[f] = true
			if v, terr := i18.Translate(key(f)); terr != nil || v != "v" {
				miss = append(miss, f)
			}
		}
		for _, e := range (&c08Run{Root: tree, OnFile: true}).expected() {
			f := c08Norm(e[2:])
			if _, terr := i18.Translate(key(f)); terr == nil && !isSel[f] {
				extra = append(extra, f)
			}
		}
		if len(miss)+len(extra) > 0 {
			o.Fail("exactly-once", fmt.Sprintf("fsi18loader.Load(%q) returned nil: *.json files below the base that were not loaded %q; files loaded that are not below the base %q",
				r.base(), c08Short(miss), c08Short(extra)), "C08-load-exactly-once", d)
		}
	}
}
