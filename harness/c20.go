package main

// Correspondence harness for C20: varutil/plainmap (RecursiveMapToPlainMap, ToRecursiveMap,
// StringMapToRecursiveMap, JSONToPlainStringMap, PlainStringMapTo[Formatted]JSON) and
// i18n/fsi18loader.Load + i18mem.  Every case carries the input and the projected observable of
// the implementation; Corr/C20.v [check] evaluates the Coq models on the same input.  The L2
// oracles restate the property on the implementation's outputs (round trips, encoding/json as
// the reference decoder, loader translations).

import (
	"fmt"
	"sort"
	"strconv"
	"strings"
	"time"
	"unicode/utf8"

	"github.com/goatcms/goatcore/app"
	"github.com/goatcms/goatcore/app/scope"
	"github.com/goatcms/goatcore/filesystem/filespace/memfs"
	"github.com/goatcms/goatcore/i18n/fsi18loader"
	"github.com/goatcms/goatcore/i18n/i18mem"
)

func init() { runners["C20"] = runC20 }

func runC20(o *Out, rng *RNG, tier string, replay string) {
	o.Imports = "From GC Require Import Common.Base Model.PlainMap Model.Json Corr.C20."
	o.CaseType = "case"
	o.CheckFn = "check"
	o.ShardSize = 500
	o.Rule = "inputs: (1) nested string maps (depth <= 4, 15% up to 8, overlapping key pool; ~15% malformed: dotted / empty keys, empty sub-maps) -> " +
		"RecursiveMapToPlainMap -> StringMapToRecursiveMap / ToRecursiveMap, and flat maps with dotted keys (prefix-free, ~20% with a " +
		"path-prefix conflict or the empty key) -> unflatten -> flatten; (2) flat string maps (keys with empty segments included: leading '.b', inner 'a..c', trailing 'a.', the empty key) -> PlainStringMapToJSON / FormattedJSON -> " +
		"JSONToPlainStringMap, values exhaustive over {\",\\,LF,TAB,0x01,e-acute,a,/,u,0xFF} up to the tier's length plus random byte strings " +
		"up to 200 bytes; (3) generated JSON documents of the subset (all character forms, whitespace everywhere, arrays, literals, numbers, " +
		"duplicates, dotted and empty keys, raw control / invalid UTF-8 bytes) and a malformed stream (lone surrogates, bad escapes, truncation, " +
		"structural damage, byte mutations, random alphabet strings); (4) loader layouts in memfs (json + non-json files, nested directories, dot / blank / upper-case directory and file names, " +
		"look-alike keys inside a file); keys everywhere include look-alikes (case, blanks, one a prefix of the other, control and non-UTF-8 bytes, neighbours of '.'), a quarter of the nested / flat maps " +
		"carry typed leaves (nil, numbers, booleans, slices, maps of another type) compared by type and value; (5) sizes: chains of 9-32 levels and nodes of 30-90 leaves, documents nested 6-45 deep / " +
		"40-120 members wide / string leaves of 0.3-4.8 kB, emitted keys of 4-9 segments and maps of 20-50 keys, values up to 4.8 kB (one beyond 4 KiB in every run); (6) configuration route: generated documents and WriteJSON output as " +
		"config/config_<env>.json -> NewGoatApp -> config scope against encoding/json + own flattening, ReadJSON/WriteJSON round trip; (7) loader beyond the queue size (1001-1300 files), files of " +
		"64-190 KiB, loads whose consumers are released together by a gated ReadFile (also two loads into one store), storms of 2-5 overlapping I18Mem.Set calls. " +
		"Observables: result class ok/err/panic, maps as lists sorted by key, emitted text byte for byte. Non-trivial: non-empty map / document " +
		"with at least one leaf, or an error; distinct by input bytes."

	scale := 1
	if tier == "thorough" {
		scale = 15
	}
	c20Watchdog(o, 20*time.Second)

	noPanic := func(kind, what string, desc interface{}) {
		if kind == "panic" {
			o.Fail("no_panic", what+" panicked", "panic", desc)
		}
	}

	// ---- JSONToPlainStringMap: one L1 case
	addRead := func(data []byte, stream string) (string, map[string]string) {
		kind, got := c20ImplRead(data)
		desc := map[string]interface{}{"op": "read", "stream": stream, "data": c20q(string(data)), "kind": kind, "result": c20Pairs(got)}
		o.AddCase(fmt.Sprintf("CRead %s %s", coqBytes(data), c20Fobs(kind, got)), desc, "r:"+string(data), kind != "ok" || len(got) > 0)
		o.Stat("read_" + kind)
		noPanic(kind, "JSONToPlainStringMap", desc)
		return kind, got
	}

	// ---- RecursiveMapToPlainMap: one L1 case (skipped when the result depends on the iteration order)
	// typed: the leaves are arbitrary Go values (numbers, booleans, nil, slices, maps of another type, ...);
	// they are compared through an injective rendering (type and value), which is also what the Coq
	// case carries as the leaf: the model treats leaves as opaque
	var lastFlatRaw map[string]interface{}
	addFlatX := func(tree map[string]interface{}, typed bool, stream string) (string, map[string]string) {
		var kind string
		var got map[string]string
		lastFlatRaw = nil
		if typed {
			var raw map[string]interface{}
			kind, raw = c20ImplFlattenAny(tree)
			if kind == "ok" {
				got, lastFlatRaw = c20EncFlat(raw), raw
			}
			tree = c20EncTree(tree)
			o.Stat("flat_typed")
		} else {
			kind, got = c20ImplFlatten(tree)
		}
		o.Stat("flat_" + kind)
		own, collision := c20OwnFlatten(tree)
		ch, _ := c20Children(tree)
		desc := map[string]interface{}{"op": "flatten", "stream": stream, "tree": c20TreeDesc(tree), "kind": kind, "result": c20Pairs(got)}
		noPanic(kind, "RecursiveMapToPlainMap", desc)
		if kind != "ok" && kind != "panic" {
			o.Fail("flatten_paths", "RecursiveMapToPlainMap returned "+kind, "flatten_paths", desc)
		}
		if collision {
			o.Stat("flat_skipped_collision")
			o.CountEval("f:"+ch, len(own) > 0)
			return kind, got
		}
		if kind == "ok" && !c20MapsEqual(own, got) {
			o.Fail("flatten_paths", fmt.Sprintf("expected the leaf paths %v, got %v", c20Pairs(own), c20Pairs(got)), "flatten_paths", desc)
		}
		o.AddCase(fmt.Sprintf("CFlat %s %s", ch, c20Fobs(kind, got)), desc, "f:"+ch, len(own) > 0)
		return kind, got
	}
	addFlat := func(tree map[string]interface{}, stream string) (string, map[string]string) {
		return addFlatX(tree, false, stream)
	}

	// ---- StringMapToRecursiveMap ("S") / ToRecursiveMap ("I"): one L1 case
	// variant "T": ToRecursiveMap on typed values (rawT); src is its rendering, the returned tree is
	// rendered the same way
	var rawT, lastUnflatRaw map[string]interface{}
	addUnflat := func(src map[string]string, variant string, stream string) (string, map[string]interface{}) {
		var kind string
		var tree map[string]interface{}
		if variant == "S" {
			kind, tree = c20ImplUnflatS(src)
		} else if variant == "T" {
			kind, tree = c20ImplUnflatI(rawT)
			lastUnflatRaw = tree
			if kind == "ok" {
				tree = c20EncTree(tree)
			}
			o.Stat("unflat_typed")
		} else {
			isrc := map[string]interface{}{}
			for k, v := range src {
				isrc[k] = v
			}
			kind, tree = c20ImplUnflatI(isrc)
		}
		o.Stat("unflat_" + kind)
		keys := c20SortedKeys(src)
		_, hasEmpty := src[""]
		conflict := c20PrefixConflict(keys)
		anyorder := conflict && !hasEmpty // with the empty key the result is an error in every order
		desc := map[string]interface{}{"op": "unflatten", "variant": variant, "stream": stream, "map": c20Pairs(src), "kind": kind}
		tobs := "TPanic"
		switch kind {
		case "ok":
			ch, okc := c20Children(tree)
			if !okc {
				o.Fail("unflatten_type", "a leaf of the rebuilt tree is not a string", "unflatten_type", desc)
			}
			desc["tree"] = c20TreeDesc(tree)
			tobs = "(TOk " + ch + ")"
		case "err":
			tobs = "TErr"
		}
		noPanic(kind, "unflatten", desc)
		if conflict {
			o.Stat("unflat_order_dependent")
		}
		key := "u" + variant + ":" + c20MapKey(src)
		if anyorder && len(keys) > 5 {
			o.Stat("unflat_skipped_order")
			o.CountEval(key, true)
			return kind, tree
		}
		o.AddCase(fmt.Sprintf("CUnflat %s %s %s", coqBool(anyorder), c20Flat(src), tobs), desc, key, len(src) > 0)
		return kind, tree
	}

	// valid UTF-8 only (the emit_valid oracle compares the decoded text only then)
	uniPieces := []string{"a", "b", ".", "\"", "\\", " ", "\n", "1", "é", "€", "\t", "\x01", "/", "u", "\r", "\x7f", "😀", "\x00", "\x1f"}
	randValU := func(max int) string {
		n := rng.Intn(max + 1)
		var sb strings.Builder
		for i := 0; i < n; i++ {
			sb.WriteString(uniPieces[rng.Intn(len(uniPieces))])
		}
		return sb.String()
	}

	canonTree := func(t map[string]interface{}) string { s, _ := c20Children(t); return s }

	randVal := func(max int) string {
		n := rng.Intn(max + 1)
		b := make([]byte, n)
		for i := range b {
			if rng.Chance(40) {
				b[i] = byte(rng.Intn(256))
			} else {
				b[i] = "ab.\"\\ \n1"[rng.Intn(8)]
			}
		}
		return string(b)
	}

	// ================= (0) known finding K-C20, exercised on every run: a nested map with the empty
	// string as a top-level key flattens to {"": v}, which the rebuild functions reject
	for _, variant := range []string{"S", "I"} {
		tree := map[string]interface{}{"": "x"}
		fkind, flat := addFlat(tree, "probe")
		ukind, back := addUnflat(flat, variant, "probe")
		if fkind != "ok" || ukind != "ok" || canonTree(back) != canonTree(tree) {
			o.Stat("probe_empty_top_level_key_fails")
			o.Fail("flatten_unflatten", fmt.Sprintf("variant %s: flatten {\"\":\"x\"} = %v (kind=%s), rebuild kind=%s: flatten and rebuild are not inverse for an empty top-level key",
				variant, c20Pairs(flat), fkind, ukind), "K-C20-empty-top-level-key",
				map[string]interface{}{"op": "flatten_unflatten", "variant": variant, "tree": c20TreeDesc(tree), "flat": c20Pairs(flat), "kind": ukind})
		} else {
			o.Stat("probe_empty_top_level_key_holds")
		}
	}

	// ================= (1) nested maps
	goodKeys := []string{"a", "b", "cfg", "x1", "é", "k", "zz"}
	// dot-free look-alikes of the keys above (case, blanks, one a prefix of the other, control and
	// non-UTF-8 bytes, neighbours of '.' in byte order): well-formed, so they must survive exactly
	oddKeys := []string{"A", "Cfg", " a", "a ", "ab", "a b", "a\tb", "\x01", "\xff", "a-b", "a/b", "@a", "a\n", " ", "K", "zz ", "\xc3", "a\x00"}
	badKeys := []string{"a.b", "", ".", "a.", ".a", "cfg.x1", "a..b", "b.a"}
	nTrees := 1200 * scale
	judgeTree := func(tree map[string]interface{}, typedTree bool, stream string) {
		wf := c20WellFormedTree(tree)
		if wf {
			o.Stat("tree_wellformed")
		} else {
			o.Stat("tree_malformed")
		}
		fkind, flat := addFlatX(tree, typedTree, stream)
		if fkind != "ok" {
			return
		}
		variants := []string{"S", "I"}
		if typedTree {
			variants, rawT, tree = []string{"T"}, lastFlatRaw, c20EncTree(tree)
		}
		for _, variant := range variants {
			ukind, back := addUnflat(flat, variant, stream)
			if wf {
				if ukind != "ok" || canonTree(back) != canonTree(tree) {
					o.Fail("flatten_unflatten", fmt.Sprintf("variant %s: the tree rebuilt from the flattened map differs (kind=%s)", variant, ukind), "flatten_unflatten",
						map[string]interface{}{"op": "flatten_unflatten", "variant": variant, "tree": c20TreeDesc(tree), "flat": c20Pairs(flat), "kind": ukind, "rebuilt": c20TreeDesc(back)})
				}
			}
		}
	}
	for i := 0; i < nTrees; i++ {
		mal := rng.Chance(15)
		odd := rng.Chance(30)
		typedTree := rng.Chance(25)
		leaves := 0
		maxDepth := 3
		if rng.Chance(15) {
			maxDepth = 7 // occasionally deep: paths of up to 8 segments
		}
		var gen func(depth int) map[string]interface{}
		gen = func(depth int) map[string]interface{} {
			n := 1 + rng.Intn(3)
			if depth == 0 {
				n = 1 + rng.Intn(4)
				if rng.Chance(2) {
					n = 0
				}
			}
			m := map[string]interface{}{}
			for c := 0; c < n; c++ {
				key := goodKeys[rng.Intn(len(goodKeys))]
				if odd && rng.Chance(50) {
					key = oddKeys[rng.Intn(len(oddKeys))]
				}
				if mal && rng.Chance(30) {
					key = badKeys[rng.Intn(len(badKeys))]
				}
				if _, dup := m[key]; dup {
					continue
				}
				if depth < maxDepth && leaves < 12 && rng.Chance(40+5*maxDepth) {
					if mal && rng.Chance(25) {
						m[key] = map[string]interface{}{}
						continue
					}
					m[key] = gen(depth + 1)
				} else {
					m[key] = randVal(6)
					if typedTree {
						m[key] = c20TypedLeaf(rng, randVal)
					}
					leaves++
				}
			}
			return m
		}
		judgeTree(gen(0), typedTree, "tree")
	}

	// ================= (1b) flat maps with dotted keys
	segs := []string{"a", "b", "c", "dd", "a", "b", "c", "dd", "a", "b", "c", "", " a", "a ", "A", "ab", "\tb", "\xff"}
	genSegKey := func() string {
		n := 1 + rng.Intn(3)
		p := make([]string, n)
		for i := range p {
			p[i] = segs[rng.Intn(len(segs))]
		}
		return strings.Join(p, ".")
	}
	nFlat := 600 * scale
	for i := 0; i < nFlat; i++ {
		n := 1 + rng.Intn(6)
		if rng.Chance(10) {
			n = 6 + rng.Intn(6)
		}
		if rng.Chance(2) {
			n = 0
		}
		keys := make([]string, n)
		for j := range keys {
			keys[j] = genSegKey()
		}
		keys = c20MakePrefixFree(keys)
		good := true
		if rng.Chance(20) {
			good = false
			if len(keys) > 4 && rng.Chance(80) {
				keys = keys[:4]
			}
			switch {
			case rng.Chance(30) || len(keys) == 0:
				keys = append(keys, "")
			case rng.Bool():
				k := keys[rng.Intn(len(keys))]
				keys = append(keys, k+"."+segs[rng.Intn(len(segs))])
			default:
				k := keys[rng.Intn(len(keys))]
				if idx := strings.LastIndex(k, "."); idx >= 0 {
					keys = append(keys, k[:idx])
				} else {
					keys = append(keys, k+".b")
				}
			}
		}
		src := map[string]string{}
		typedFlat := rng.Chance(25)
		if typedFlat {
			rawT = map[string]interface{}{}
			for _, k := range keys {
				rawT[k] = c20TypedLeaf(rng, randVal)
			}
			src = c20EncFlat(rawT)
		} else {
			for _, k := range keys {
				src[k] = randVal(5)
			}
		}
		_, hasEmpty := src[""]
		good = good || (!hasEmpty && !c20PrefixConflict(c20SortedKeys(src)))
		if good {
			o.Stat("flatmap_prefixfree")
		} else {
			o.Stat("flatmap_conflict_or_emptykey")
		}
		var ukind string
		var tree map[string]interface{}
		if typedFlat {
			ukind, _ = addUnflat(src, "T", "flat")
			tree = lastUnflatRaw
		} else {
			ukind, tree = addUnflat(src, "S", "flat")
			if rng.Chance(30) {
				addUnflat(src, "I", "flat")
			}
		}
		if hasEmpty && ukind != "err" && ukind != "panic" {
			o.Fail("unflatten_flatten", "the empty key was accepted", "unflatten_emptykey", map[string]interface{}{"op": "unflatten_flatten", "map": c20Pairs(src), "kind": ukind})
		}
		if ukind != "ok" {
			if good {
				o.Fail("unflatten_flatten", "StringMapToRecursiveMap failed on a prefix-free map: "+ukind, "unflatten_flatten", map[string]interface{}{"op": "unflatten_flatten", "map": c20Pairs(src), "kind": ukind})
			}
			continue
		}
		fkind, back := addFlatX(tree, typedFlat, "flat")
		if good && (fkind != "ok" || !c20MapsEqual(back, src)) {
			o.Fail("unflatten_flatten", fmt.Sprintf("flatten(unflatten m) = %v (kind=%s)", c20Pairs(back), fkind), "unflatten_flatten",
				map[string]interface{}{"op": "unflatten_flatten", "map": c20Pairs(src), "kind": fkind, "result": c20Pairs(back)})
		}
	}

	// ================= (2) flat string maps -> JSON text -> map
	emitSegs := []string{"a", "b", "c", "k1", "é", "x y", "q\"", "b\\", "a", "b", ""} // "" gives leading ".b", inner "a..c", trailing "a."
	// look-alikes of the segments above and every class of byte the escaper treats in a NAME
	// (object names and leaf names are written by different statements of the emitter)
	emitOddSegs := []string{"A", " a", "a ", "ab", "a!", "a/", "a-", "\x01", "\n", "\t", "\r", "\x1f", "\x00", "\x7f", "\xff", "\xc3", "\u00a0", "😀", "K1", "a\\u0041"}
	genEmitKey := func() string {
		n := 1 + rng.Intn(3)
		p := make([]string, n)
		odd := rng.Chance(25)
		for i := range p {
			p[i] = emitSegs[rng.Intn(len(emitSegs))]
			if odd && rng.Chance(50) {
				p[i] = emitOddSegs[rng.Intn(len(emitOddSegs))]
			}
		}
		return strings.Join(p, ".")
	}
	genEmitKeys := func(n int) []string {
		var keys []string
		for tries := 0; len(keys) < n && tries < 200; tries++ {
			keys = c20MakePrefixFree(append(keys, genEmitKey()))
		}
		return keys
	}
	doEmitMap := func(m map[string]string, stream string) {
		keys := c20SortedKeys(m)
		validUTF := true
		for _, k := range keys {
			if k == "" || k[0] == '.' || strings.Contains(k, "..") || strings.HasSuffix(k, ".") {
				o.Stat("emit_key_empty_segment")
			}
			if !utf8.ValidString(k) || !utf8.ValidString(m[k]) {
				validUTF = false
			}
		}
		prefixFree := !c20PrefixConflict(keys)
		o.Stat("emit_map_" + stream)
		for _, fm := range []bool{false, true} {
			kind, text := c20ImplEmit(fm, m)
			variant := "compact"
			if fm {
				variant = "formatted"
			}
			o.Stat("emit_" + variant)
			o.Stat("emit_" + kind)
			desc := map[string]interface{}{"op": "emit", "variant": variant, "stream": stream, "map": c20Pairs(m), "kind": kind, "text": c20q(text)}
			eobs := "EPanic"
			if kind == "ok" {
				eobs = "(EOk " + coqStr(text) + ")"
			} else if kind == "err" {
				eobs = "EErr"
			}
			o.AddCase(fmt.Sprintf("CEmit %s %s %s", coqBool(fm), c20Flat(m), eobs), desc, "e"+variant+":"+c20MapKey(m), len(m) > 0)
			noPanic(kind, "PlainStringMapToJSON", desc)
			if kind != "ok" {
				if kind == "err" {
					o.Fail("write_read", "the emitter returned an error", "write_read", desc)
				}
				continue
			}
			rkind, back := addRead([]byte(text), "emitted")
			if rkind != "ok" || !c20MapsEqual(back, m) {
				d := map[string]interface{}{"op": "write_read", "variant": variant, "map": c20Pairs(m), "text": c20q(text), "kind": rkind, "read_back": c20Pairs(back)}
				o.Fail("write_read", fmt.Sprintf("%s: read(emit m) != m: kind=%s read back %v", variant, rkind, c20Pairs(back)), "write_read", d)
			}
			ref, err := c20RefDecode(text)
			if err != nil {
				o.Fail("emit_valid", fmt.Sprintf("%s: encoding/json does not accept the emitted text %s: %v", variant, c20q(text), err), "emit_valid", desc)
			} else if validUTF && prefixFree && !c20MapsEqual(ref, m) {
				o.Fail("emit_valid", fmt.Sprintf("%s: encoding/json decodes the emitted text %s to %v", variant, c20q(text), c20Pairs(ref)), "emit_valid", desc)
			} else if validUTF && prefixFree {
				o.Stat("emit_valid_compared")
			} else {
				o.Stat("emit_valid_accepted_only")
			}
		}
	}
	// exhaustive values
	symbols := []string{`"`, `\`, "\n", "\t", "\x01", "é", "a", "/", "u", "\xff"}
	maxSym := 3
	if tier == "thorough" {
		maxSym = 4
	}
	var exhaustive []string
	var recSym func(prefix string, n int)
	recSym = func(prefix string, n int) {
		exhaustive = append(exhaustive, prefix)
		if n == maxSym {
			return
		}
		for _, s := range symbols {
			recSym(prefix+s, n+1)
		}
	}
	recSym("", 0)
	o.Extra["exhaustive_alphabet"] = strsBytes(symbols)
	o.Extra["exhaustive_max_len"] = maxSym
	o.Extra["exhaustive_values"] = len(exhaustive)
	for i := 0; i < len(exhaustive); {
		n := 1 + rng.Intn(4)
		if i+n > len(exhaustive) {
			n = len(exhaustive) - i
		}
		keys := genEmitKeys(n)
		m := map[string]string{}
		for j, k := range keys {
			m[k] = exhaustive[i+j]
		}
		i += len(keys)
		doEmitMap(m, "exhaustive")
	}
	// random maps
	heavy := []string{`"`, `\`, "\n", "\r", "\t", "\x00", "\x1f", "\\u", "\\n", "\x7f", "é", "\xc3", "/", "\b", "\f", "u0041", "}", "{", ",", ":"}
	longVal := func() string {
		n := rng.Intn(201)
		var sb strings.Builder
		for sb.Len() < n {
			if rng.Chance(35) {
				sb.WriteString(heavy[rng.Intn(len(heavy))])
			} else {
				sb.WriteByte(byte(rng.Intn(256)))
			}
		}
		return sb.String()
	}
	nRandMaps := 3000*scale - nTrees - nFlat - int(o.Stats["emit_map_exhaustive"])
	badEmitKeys := []string{".a", "", "a..b", ".", "a.", "..", ".a.b", "a.b."}
	for i := 0; i < nRandMaps; i++ {
		m := map[string]string{}
		switch k := rng.Intn(100); {
		case k < 2:
			// the empty map
		case k < 20: // long values, small maps
			for _, key := range genEmitKeys(1 + rng.Intn(2)) {
				m[key] = longVal()
			}
		case k < 35: // malformed keys
			for _, key := range genEmitKeys(rng.Intn(4)) {
				m[key] = randVal(8)
			}
			if rng.Bool() {
				m[badEmitKeys[rng.Intn(len(badEmitKeys))]] = randVal(8)
			} else {
				m["a"] = randVal(8)
				m["a.b"] = randVal(8)
				if rng.Bool() {
					m["a.b.c"] = randVal(8)
				}
			}
		case k < 70: // valid UTF-8 values
			for _, key := range genEmitKeys(1 + rng.Intn(8)) {
				m[key] = randValU(12)
				if rng.Chance(5) {
					m[key] = randValU(150)
				}
			}
		default:
			for _, key := range genEmitKeys(1 + rng.Intn(8)) {
				m[key] = randVal(12)
			}
		}
		doEmitMap(m, "random")
	}

	// ================= (3) JSON documents
	nDocs := 3000 * scale
	for i := 0; i < nDocs; i++ {
		g := &c20Gen{rng: rng, wsPct: []int{0, 10, 30, 60}[rng.Intn(4)]}
		g.dups = rng.Chance(10)
		g.dots = rng.Chance(12)
		g.empty = rng.Chance(8)
		k := rng.Intn(100)
		switch {
		case k < 20: // malformed stream: L1 + no panic
			plain := &c20Gen{rng: rng, wsPct: 10}
			doc, kind := c20Malformed(rng, plain.document)
			o.Stat("doc_malformed")
			o.Stat("doc_malformed_" + kind)
			rkind, _ := addRead([]byte(doc), "malformed:"+kind)
			o.Stat("doc_malformed_read_" + rkind)
		case k < 30: // raw control characters / invalid UTF-8 inside strings: L1 only
			g.raw = true
			doc := g.document()
			o.Stat("doc_rawbytes")
			addRead([]byte(doc), "rawbytes")
		default:
			doc := []byte(g.document())
			o.Stat("doc_valid")
			rkind, got := addRead(doc, "valid")
			ref, dup, empty, err := c20RefLeaves(doc)
			desc := map[string]interface{}{"op": "read_leaf", "data": c20q(string(doc)), "kind": rkind, "result": c20Pairs(got), "reference": c20Pairs(ref)}
			switch {
			case err != nil:
				o.Fail("read_leaf", fmt.Sprintf("encoding/json rejects the generated document %s: %v", c20q(string(doc)), err), "read_leaf_generator", desc)
			case dup:
				o.Stat("doc_valid_l2_skipped_dup")
				if rkind != "ok" {
					o.Fail("read_leaf", "a document of the subset was rejected: "+rkind, "read_leaf", desc)
				}
			case rkind != "ok" || !c20MapsEqual(ref, got):
				o.Fail("read_leaf", fmt.Sprintf("document %s: got kind=%s %v, encoding/json leaves %v", c20q(string(doc)), rkind, c20Pairs(got), c20Pairs(ref)), "read_leaf", desc)
			default:
				o.Stat("doc_valid_l2_compared")
				if empty {
					o.Stat("doc_valid_l2_compared_with_empty_name")
				}
				if len(ref) > 0 {
					o.Stat("doc_valid_with_leaves")
				}
			}
		}
	}

	// ================= (4) loader
	nLoad := 150 * scale
	bases := []string{"translations/", "translations/", "i18n/pl/", "./", "t/", "", ".i18n/", "T r/"}
	dirs := []string{"", "", "pl/", "en/", "forms/", "pl/forms/", "a/b/c/", "x.json/", "deep/er/still/more/",
		".d/", ".git/x/", "..x/", "_p/", " sp/", "PL/", "pl /", "~/", "#1/"}
	// pairs of keys that a careless normalisation (case, blanks) would fold onto each other
	alikeKeys := [][2]string{{"Yes", "yes"}, {"no", "NO"}, {"k ", "k"}, {" m", "m"}, {"grp.Open", "grp.open"}, {"é", "É"}, {"t\tx", "t x"}}
	noPct := func(s string) string { return strings.ReplaceAll(s, "%", "p") }
	badContents := []string{"", "{", `{"a":`, `[1]`, `{"a":"\ud800"}`, `{"a" 1}`, `{"a":"b"`, `{"a":tru}`}
	for i := 0; i < nLoad; i++ {
		fs, err := memfs.NewFilespace()
		must(err)
		base := bases[rng.Intn(len(bases))]
		must(fs.MkdirAll(base, 0777))
		nfiles := rng.Intn(13)
		type lfile struct {
			path     string
			content  string
			selected bool
			keys     map[string]string
		}
		var files []lfile
		usedPath := map[string]bool{}
		expected := map[string]string{}
		forbidden := map[string]string{}
		for j := 0; j < nfiles; j++ {
			selected := rng.Chance(65)
			outside := base != "./" && base != "" && rng.Chance(10)
			var name, prefix string
			if selected && !outside {
				name = []string{"f" + strconv.Itoa(j) + ".json", strconv.Itoa(j) + ".json", ".json", "x.y.json", "a.txt.json", "pl.json",
					"..json", " .json", "a b.json", "ü.json", "F.json", ".hidden.json", "json.json", "~.json"}[rng.Intn(14)]
				prefix = "f" + strconv.Itoa(j)
			} else {
				selected = false
				name = []string{"n" + strconv.Itoa(j) + ".txt", "f.json.bak", "json", "fjson", "f.JSON", "f.jsonx", "readme", "f.json.txt", "f.jso"}[rng.Intn(9)]
				if outside {
					name = "o" + strconv.Itoa(j) + ".json"
				}
				prefix = "n" + strconv.Itoa(j)
			}
			dir := base
			if outside {
				dir = "outside/"
			}
			path := dir + dirs[rng.Intn(len(dirs))] + name
			if usedPath[path] {
				continue
			}
			usedPath[path] = true
			// content
			var content string
			keys := map[string]string{}
			if rng.Chance(25) {
				g := &c20Gen{rng: rng, wsPct: []int{0, 10, 30, 60}[rng.Intn(4)]}
				for tries := 0; ; tries++ {
					inner := g.object(1)
					content = g.ws() + `{` + g.ws() + `"` + prefix + `"` + g.ws() + `:` + g.ws() + inner + g.ws() + `}` + g.ws()
					ref, dup, empty, err := c20RefLeaves([]byte(content))
					if err == nil && !dup && !empty {
						keys = ref
						break
					}
					if tries > 50 {
						content, keys = `{"`+prefix+`":{"k":"v"}}`, map[string]string{prefix + ".k": "v"}
						break
					}
				}
				o.Stat("loader_file_handrendered")
			} else {
				for _, k := range genEmitKeys(1 + rng.Intn(4)) {
					v := noPct(randVal(10))
					if rng.Chance(10) {
						v = noPct(longVal())
						if len(v) > 60 {
							v = v[:60]
						}
					}
					keys[prefix+"."+k] = v
				}
				if rng.Chance(35) {
					pair := alikeKeys[rng.Intn(len(alikeKeys))]
					keys[prefix+".@."+pair[0]], keys[prefix+".@."+pair[1]] = noPct(randVal(6))+"1", noPct(randVal(6))+"2"
					o.Stat("loader_file_lookalike_keys")
				}
				kind, text := c20ImplEmit(rng.Bool(), keys)
				if kind != "ok" {
					o.Fail("loader", "the emitter failed while preparing a translation file: "+kind, "loader_prepare", map[string]interface{}{"op": "emit", "map": c20Pairs(keys)})
					continue
				}
				content = text
				o.Stat("loader_file_emitted")
			}
			files = append(files, lfile{path: path, content: content, selected: selected, keys: keys})
		}
		// sometimes one selected file is not a JSON object at all: Load must report an error
		broken := -1
		if rng.Chance(8) {
			var sel []int
			for j, f := range files {
				if f.selected {
					sel = append(sel, j)
				}
			}
			if len(sel) > 0 {
				broken = sel[rng.Intn(len(sel))]
				files[broken].content = badContents[rng.Intn(len(badContents))]
				files[broken].keys = map[string]string{}
			}
		}
		sort.Slice(files, func(a, b int) bool { return files[a].path < files[b].path })
		var selectedContents []string
		var layout []interface{}
		nsel := 0
		for _, f := range files {
			must(fs.WriteFile(f.path, []byte(f.content), 0777))
			layout = append(layout, map[string]interface{}{"path": f.path, "selected": f.selected, "content": c20q(f.content)})
			if f.selected {
				nsel++
				selectedContents = append(selectedContents, coqStr(f.content))
				for k, v := range f.keys {
					expected[k] = v
				}
			} else {
				for k, v := range f.keys {
					forbidden[k] = v
				}
			}
		}
		o.Stat("loader_files_" + strconv.Itoa(nsel))
		i18 := i18mem.NewI18N()
		var scp app.Scope
		if rng.Bool() {
			scp = scope.New(scope.Params{})
		}
		type loadRes struct {
			err      error
			panicked bool
		}
		ch := make(chan loadRes, 1)
		go func() {
			defer func() {
				if r := recover(); r != nil {
					ch <- loadRes{panicked: true}
				}
			}()
			ch <- loadRes{err: fsi18loader.Load(fs, base, i18, scp)}
		}()
		desc := map[string]interface{}{"op": "load", "base": base, "files": layout, "scope": scp != nil, "broken_file": broken >= 0}
		var res loadRes
		select {
		case res = <-ch:
		case <-time.After(20 * time.Second):
			o.Stat("loader_hang")
			o.Fail("hang", "fsi18loader.Load did not return within 20 s", "hang", desc)
			continue
		}
		kind := "ok"
		if res.panicked {
			kind = "panic"
		} else if res.err != nil {
			kind = "err"
		}
		o.Stat("loader_" + kind)
		desc["kind"] = kind
		noPanic(kind, "fsi18loader.Load", desc)
		observed := map[string]string{}
		if kind == "ok" {
			for k, want := range expected {
				got, err := i18.Translate(k)
				if err != nil {
					o.Fail("loader", fmt.Sprintf("key %s of a selected file has no translation", c20q(k)), "loader", desc)
					continue
				}
				observed[k] = got
				if got != want {
					o.Fail("loader", fmt.Sprintf("Translate(%s) = %s, the file says %s", c20q(k), c20q(got), c20q(want)), "loader", desc)
				}
			}
			if broken >= 0 {
				o.Fail("loader_err", "a selected file is not a JSON object but Load returned nil", "loader_err", desc)
			}
		} else if kind == "err" && broken < 0 {
			o.Fail("loader", "Load returned an error on well-formed translation files", "loader", desc)
		}
		for k := range forbidden {
			if got, err := i18.Translate(k); err == nil {
				o.Fail("loader_filter", fmt.Sprintf("key %s of a file that is not selected is translated to %s", c20q(k), c20q(got)), "loader_filter", desc)
			}
		}
		desc["observed"] = c20Pairs(observed)
		o.AddCase(fmt.Sprintf("CLoad %s %s", coqList(selectedContents), c20Fobs(kind, observed)), desc,
			"l:"+strings.Join(selectedContents, "|"), kind != "ok" || len(observed) > 0)
		if scp != nil && kind != "panic" {
			done := make(chan struct{})
			go func() { defer func() { recover(); close(done) }(); scp.Close() }()
			select {
			case <-done:
			case <-time.After(5 * time.Second):
			}
		}
	}

	// ================= (5)-(7) sizes, the configuration route, loader sizes and schedules (c20_audit.go)
	auditFrom := len(o.cases)
	// long chains and wide nodes (sizes beyond the random trees above)
	for i := 0; i < 24*scale; i++ {
		depth, width := 9+rng.Intn(24), 0
		if i%4 == 3 {
			depth, width = 1+rng.Intn(3), 30+rng.Intn(60)
		}
		typedTree := rng.Chance(25)
		leaf := func() interface{} {
			if typedTree {
				return c20TypedLeaf(rng, randVal)
			}
			return randVal(4)
		}
		var chain func(d int) map[string]interface{}
		chain = func(d int) map[string]interface{} {
			m := map[string]interface{}{}
			n := rng.Intn(3)
			if d == 0 {
				n = 1 + width
			}
			for c := 0; c < n; c++ {
				m["l"+strconv.Itoa(c)] = leaf()
			}
			if d > 0 {
				key := goodKeys[rng.Intn(len(goodKeys))]
				if rng.Chance(20) {
					key = oddKeys[rng.Intn(len(oddKeys))]
				}
				m[key] = chain(d - 1)
			}
			return m
		}
		o.Stat("tree_deep_or_wide")
		judgeTree(chain(depth), typedTree, "deepwide")
	}
	ctx := &c20Ctx{o: o, rng: rng, scale: scale, addRead: addRead, doEmitMap: doEmitMap, genKey: genEmitKey, randVal: randVal, randValU: randValU}
	ctx.sizes()
	ctx.config()
	ctx.loaderSizesAndSchedules()
	c20Spread(o, auditFrom)
}
