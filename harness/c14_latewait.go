package main

// C14: "waiting on the task manager returns once ALL [tasks] have [finished], reporting an error
// exactly when some task failed" - also for tasks that are registered AFTER the wait began.  A
// body held at a gate is released only when TasksManager.Wait is already in progress; it then
// makes a nested submission whose task lives in a context of its own (pip:try's body) and fails.
// The outer task succeeds (the try block contains the failure), the body task has failed: Wait
// must return only after it finished, and with an error.

import (
	"fmt"
	"time"

	"github.com/goatcms/goatcore/app/modules/pipelinem/pipservices"
	"github.com/goatcms/goatcore/app/modules/pipelinem/pipservices/namespaces"
	"github.com/goatcms/goatcore/app/scope"
)

func c14LateRegistrationProbe(o *Out) {
	pa, err := newPipApp()
	if err != nil {
		o.Fail("harness", "newPipApp: "+err.Error(), "c14-late-app", nil)
		return
	}
	for _, failing := range []bool{true, false} {
		epoch := fmt.Sprintf("late%v", failing)
		pa.log.reset(epoch)
		desc := map[string]interface{}{"op": "wait-began-before-registration", "late_task_fails": failing}
		root := scope.New(scope.Params{})
		mgr, err := pa.tasksUnit.FromScope(root)
		must(err)
		ns := namespaces.NewNamespaces(pipservices.NamasepacesParams{})
		inner := "begin " + epoch + ".in"
		if failing {
			inner = "fail " + epoch + ".in"
		}
		body := "gate " + epoch + ".g\npip:try --name=T --silent=true --body=\"" + inner + "\"\nend " + epoch + ".after\n"
		if err := pa.runner.Run(pa.pip(root, ns, "outer", nil, body)); err != nil {
			o.Fail("accept_rule", "a plain submission was refused: "+err.Error(), "c14-late-submit", desc)
			continue
		}
		type wres struct {
			err error
		}
		done := make(chan wres, 1)
		go func() { done <- wres{mgr.Wait()} }()
		time.Sleep(30 * time.Millisecond) // Wait is in progress (it cannot return: outer is held at its gate)
		select {
		case r := <-done:
			o.Fail("manager_wait", fmt.Sprintf("TasksManager.Wait returned (%v) while a task was still held at its gate", r.err), "c14-late-early", desc)
			pa.log.release(epoch + ".g")
			continue
		default:
		}
		pa.log.release(epoch + ".g")
		select {
		case r := <-done:
			events, _, _ := pa.log.snapshot()
			ranInner, ranAfter := false, false
			for _, e := range events {
				if e.ID == epoch+".in" {
					ranInner = true
				}
				if e.ID == epoch+".after" {
					ranAfter = true
				}
			}
			if !ranInner || !ranAfter {
				o.Fail("manager_wait", fmt.Sprintf("Wait returned before everything had run (try body ran: %v, command after the try block ran: %v)", ranInner, ranAfter), "c14-late-incomplete", desc)
			}
			if (r.err != nil) != failing {
				o.Fail("manager_wait", fmt.Sprintf("a task registered after Wait began %s, Wait returned %v: an error must be reported exactly when some task failed",
					map[bool]string{true: "FAILED (the body of a try block, in a context of its own)", false: "succeeded"}[failing], r.err), "c14-late-result", desc)
			}
		case <-time.After(20 * time.Second):
			o.Fail("manager_wait", "TasksManager.Wait did not return within 20 s after the gate was opened", "c14-late-hang", desc)
		}
		o.Stat("late_registration_probe")
		o.CountEval("latewait:"+epoch, true)
	}
}
