package main

// C12 — Scope failure signalling is safe from any number of goroutines.
//  (a) stress on the real code: 2..64 goroutines x random mixes of AppendError/Kill/Stop/IsDone/Err/Errors
//      on a plain context, a root scope, a root+child pair sharing one context, an isolated context;
//      L2 oracles: no panic, every appended error retained (as a multiset), done closed exactly when
//      something was signalled, Err/Wait/Close report non-nil iff the list is non-empty;
//  (b) small concurrent runs recorded in completion order and replayed on the model (L1, CLin);
//  (c) child-of-done scenarios enumerated exhaustively (L1 CSeq + L2);
//  (d) random sequential histories on small scope trees without listeners (L1 CSeq).

import (
	"fmt"
	"runtime"
	"sort"
	"strings"
	"sync"
	"sync/atomic"
	"time"

	"github.com/goatcms/goatcore/app"
	"github.com/goatcms/goatcore/app/scope"
	"github.com/goatcms/goatcore/app/scope/contextscope"
	"github.com/goatcms/goatcore/varutil/verifhook"
)

func init() { runners["C12"] = runC12 }

type c12op struct {
	K     string `json:"k"` // append kill stop isdone err errors
	Es    []int  `json:"es,omitempty"`
	Via   int    `json:"via"` // which handle (0 = first, 1 = child scope)
	stamp int64
}

type c12trial struct {
	Kind  int       `json:"kind"` // 0 plain ctx, 1 root scope, 2 root+child (shared ctx), 3 isolated ctx
	Progs [][]c12op `json:"progs"`
}

type c12result struct {
	Panics   int
	Errors   []int
	Done     bool
	ErrNil   bool
	ErrCount int // number of errors the cumulative Err() reports when everything is quiet
	WaitNil  int // -1 n/a, 0 non-nil, 1 nil
	CloseNil int
	ClosePan bool
	ParentOK bool // isolated: after the parent stops, the isolated context is done
	Hang     bool
}

func genC12Trial(rng *RNG, maxG int) c12trial {
	t := c12trial{Kind: rng.Intn(4)}
	g := 2 + rng.Intn(maxG-1)
	if rng.Chance(50) {
		g = 2 + rng.Intn(3)
	}
	next := 1
	for i := 0; i < g; i++ {
		n := 1 + rng.Intn(3)
		var prog []c12op
		for j := 0; j < n; j++ {
			op := c12op{}
			if t.Kind == 2 {
				op.Via = rng.Intn(2)
			}
			switch k := rng.Intn(100); {
			case k < 35:
				op.K = "append"
				ne := 1 + rng.Intn(3)
				for e := 0; e < ne; e++ {
					if rng.Chance(20) {
						op.Es = append(op.Es, -1)
					} else {
						op.Es = append(op.Es, next)
						next++
					}
				}
			case k < 55:
				op.K = "kill"
			case k < 75:
				op.K = "stop"
			case k < 85:
				op.K = "isdone"
			case k < 93:
				op.K = "err"
			default:
				op.K = "errors"
			}
			prog = append(prog, op)
		}
		t.Progs = append(t.Progs, prog)
	}
	return t
}

func runC12Trial(t *c12trial, record bool) c12result {
	var handles []app.ContextScope // what the operations are issued on
	var root, child app.Scope
	var parent app.ContextScope
	switch t.Kind {
	case 0:
		handles = []app.ContextScope{contextscope.New()}
	case 1:
		root = scope.New(scope.Params{})
		handles = []app.ContextScope{root}
	case 2:
		root = scope.New(scope.Params{})
		child = scope.NewChild(root, scope.ChildParams{})
		handles = []app.ContextScope{root, child}
	case 3:
		parent = contextscope.New()
		handles = []app.ContextScope{contextscope.NewIsolated(parent)}
	}
	var panics int32
	var stamp int64
	start := make(chan struct{})
	var wg sync.WaitGroup
	for gi := range t.Progs {
		wg.Add(1)
		go func(prog []c12op) {
			defer wg.Done()
			<-start
			for i := range prog {
				op := &prog[i]
				func() {
					defer func() {
						if r := recover(); r != nil {
							atomic.AddInt32(&panics, 1)
						}
					}()
					h := handles[op.Via]
					switch op.K {
					case "append":
						h.AppendError(toErrs(op.Es)...)
					case "kill":
						h.Kill()
					case "stop":
						h.Stop()
					case "isdone":
						h.IsDone()
					case "err":
						_ = h.Err()
					case "errors":
						_ = len(h.Errors())
					}
				}()
				if record {
					op.stamp = atomic.AddInt64(&stamp, 1)
				}
			}
		}(t.Progs[gi])
	}
	close(start)
	fin := make(chan struct{})
	go func() { wg.Wait(); close(fin) }()
	res := c12result{WaitNil: -1, CloseNil: -1, ParentOK: true}
	select {
	case <-fin:
	case <-time.After(10 * time.Second):
		res.Hang = true
		return res
	}
	h := handles[0]
	res.Panics = int(atomic.LoadInt32(&panics))
	for _, e := range h.Errors() {
		res.Errors = append(res.Errors, errID(e))
	}
	sort.Ints(res.Errors)
	res.Done = h.IsDone()
	if res.Done {
		select {
		case <-h.Done():
		default:
			res.Done = false // IsDone true but the receive does not succeed
			res.Panics += 1000
		}
	}
	res.ErrNil = h.Err() == nil
	res.ErrCount = c12ErrCount(h.Err())
	if root != nil {
		func() {
			defer func() {
				if r := recover(); r != nil {
					res.ClosePan = true
				}
			}()
			done := make(chan error, 1)
			go func() {
				defer func() {
					if r := recover(); r != nil {
						res.ClosePan = true
						done <- nil
					}
				}()
				if child != nil {
					child.Close()
				}
				werr := root.Wait()
				if werr == nil {
					res.WaitNil = 1
				} else {
					res.WaitNil = 0
				}
				done <- root.Close()
			}()
			select {
			case err := <-done:
				if err == nil {
					res.CloseNil = 1
				} else {
					res.CloseNil = 0
				}
			case <-time.After(10 * time.Second):
				res.Hang = true
			}
		}()
	}
	if parent != nil {
		parent.Stop()
		deadline := time.Now().Add(5 * time.Second)
		for !h.IsDone() {
			if time.Now().After(deadline) {
				res.ParentOK = false
				break
			}
			runtime.Gosched()
		}
	}
	return res
}

func (t *c12trial) expected() (errs []int, signalled bool, mutators int) {
	for _, prog := range t.Progs {
		mut := false
		for _, op := range prog {
			switch op.K {
			case "append":
				for _, e := range op.Es {
					if e >= 0 {
						errs = append(errs, e)
						signalled = true
						mut = true
					}
				}
			case "kill":
				errs = append(errs, 0)
				signalled = true
				mut = true
			case "stop":
				signalled = true
				mut = true
			}
		}
		if mut {
			mutators++
		}
	}
	sort.Ints(errs)
	return
}

func sameInts(a, b []int) bool {
	if len(a) != len(b) {
		return false
	}
	for i := range a {
		if a[i] != b[i] {
			return false
		}
	}
	return true
}

// history of a recorded trial in completion order, as Model ops
func (t *c12trial) linearised() []sop {
	var h []sop
	target := func(via int) int { return via }
	switch t.Kind {
	case 0:
		h = []sop{{K: "newctx"}}
	case 1:
		h = []sop{{K: "newroot"}}
	case 2:
		h = []sop{{K: "newroot"}, {K: "newchild", S: 0}}
	case 3:
		h = []sop{{K: "newctx"}, {K: "newiso", S: 0}}
		target = func(int) int { return 1 }
	}
	var all []c12op
	for _, p := range t.Progs {
		all = append(all, p...)
	}
	sort.Slice(all, func(i, j int) bool { return all[i].stamp < all[j].stamp })
	onScope := t.Kind == 1 || t.Kind == 2
	for _, op := range all {
		s := target(op.Via)
		switch op.K {
		case "append":
			if onScope {
				h = append(h, sop{K: "apperr", S: s, Es: op.Es})
			} else {
				h = append(h, sop{K: "capp", S: s, Es: op.Es})
			}
		case "kill":
			if onScope {
				h = append(h, sop{K: "kill", S: s})
			} else {
				h = append(h, sop{K: "ckill", S: s})
			}
		case "stop":
			if onScope {
				h = append(h, sop{K: "stop", S: s})
			} else {
				h = append(h, sop{K: "cstop", S: s})
			}
		case "isdone":
			if onScope {
				h = append(h, sop{K: "isdone", S: s})
			} else {
				h = append(h, sop{K: "cisdone", S: s})
			}
		case "err", "errors":
			if onScope {
				h = append(h, sop{K: "err", S: s})
			} else {
				h = append(h, sop{K: "cerr", S: s})
			}
		}
	}
	return h
}

func coqHist(h []sop) string {
	items := make([]string, len(h))
	for i, p := range h {
		items[i] = p.coq()
	}
	return coqList(items)
}

func intsCoq(l []int) string {
	s := make([]string, len(l))
	for i, e := range l {
		s[i] = fmt.Sprint(e)
	}
	return coqList(s)
}

// permutations of the child-of-done events respecting N<CC, N<PC, F<PC
// c12ErrCount: how many errors a cumulative error (goaterr.ToError of the list) stands for
func c12ErrCount(err error) int {
	if err == nil {
		return 0
	}
	if w, ok := err.(interface{ UnwrapAll() []error }); ok {
		if l := w.UnwrapAll(); len(l) > 0 {
			return len(l)
		}
	}
	return 1
}

func c12Orders() [][]string {
	ev := []string{"F", "N", "CC", "PC"}
	var res [][]string
	var rec func(cur []string, used int)
	rec = func(cur []string, used int) {
		if len(cur) == 4 {
			pos := map[string]int{}
			for i, e := range cur {
				pos[e] = i
			}
			if pos["N"] < pos["CC"] && pos["N"] < pos["PC"] && pos["F"] < pos["PC"] {
				res = append(res, append([]string{}, cur...))
			}
			return
		}
		for i, e := range ev {
			if used&(1<<i) == 0 {
				rec(append(cur, e), used|(1<<i))
			}
		}
	}
	rec(nil, 0)
	return res
}

func runC12(o *Out, rng *RNG, tier string, replay string) {
	o.Imports = "From GC Require Import Common.Base Model.Scope Corr.C12."
	o.CaseType = "case"
	o.CheckFn = "check"
	o.ShardSize = 150
	o.Rule = "stress trials: 2..64 goroutines x 1..3 operations each (AppendError with nil and non-nil errors, Kill, Stop, IsDone, Err, Errors) " +
		"on {plain context, root scope, root+child sharing a context, isolated context}, yield hook at the Stop gap; " +
		"non-trivial = at least two goroutines signal (append/kill/stop); distinct by the operation lists. " +
		"L1: small concurrent runs replayed in completion order (CLin), the exhaustive child-of-done orders and random sequential " +
		"histories on scope trees (CSeq) are evaluated on the model inside Coq."
	thorough := tier == "thorough"
	if replay != "" {
		if r, ok := replayHistory(replay); ok {
			o.AddCase(fmt.Sprintf("CSeq %s %s %s", r.coqHist(), r.coqObs(), r.coqErrs()), r.desc(), "replay", true)
		} else {
			fmt.Println("replay file holds a stress trial: re-run the check with the same seed to repeat it")
		}
		return
	}

	verifhook.SetCallback(func(point string) {
		if strings.HasSuffix(point, "stop.gap") {
			runtime.Gosched()
		}
	})
	defer verifhook.SetCallback(nil)

	// ---- (a) stress, L2 oracles
	nStress := 20000
	if thorough {
		nStress = 400000
	}
	for i := 0; i < nStress; i++ {
		t := genC12Trial(rng, 64)
		res := runC12Trial(&t, false)
		exp, signalled, mut := t.expected()
		key := fmt.Sprintf("%d:%v", t.Kind, t.Progs)
		o.CountEval(key, mut >= 2)
		o.Stat(fmt.Sprintf("stress_kind%d", t.Kind))
		if len(t.Progs) > 16 {
			o.Stat("stress_over16_goroutines")
		}
		fail := func(oracle, what string) {
			o.Fail(oracle, what, oracle, map[string]interface{}{"trial": t, "observed": res})
		}
		if res.Hang {
			fail("no_hang", "trial did not finish within the watchdog")
			continue
		}
		if res.Panics != 0 || res.ClosePan {
			fail("no_panic", fmt.Sprintf("%d recovered panics (close panicked: %v)", res.Panics, res.ClosePan))
		}
		if !sameInts(res.Errors, exp) {
			fail("errors_retained", fmt.Sprintf("Errors() as a multiset = %v, appended non-nil + one Canceled per Kill = %v", res.Errors, exp))
		}
		if res.Done != signalled {
			fail("done_once", fmt.Sprintf("done = %v although signalled = %v", res.Done, signalled))
		}
		if res.ErrNil != (len(exp) == 0) {
			fail("err_iff_nonempty", fmt.Sprintf("Err()==nil is %v with %d errors", res.ErrNil, len(exp)))
		}
		if res.ErrCount != len(exp) {
			fail("accessors", fmt.Sprintf("after all calls returned, Err() reports %d error(s) while %d were appended (Errors() has %d): the cumulative accessor lost errors", res.ErrCount, len(exp), len(res.Errors)))
		}
		if res.WaitNil >= 0 && (res.WaitNil == 1) != (len(exp) == 0) {
			fail("wait_iff_nonempty", fmt.Sprintf("Wait()==nil is %v with %d errors", res.WaitNil == 1, len(exp)))
		}
		if res.CloseNil >= 0 && (res.CloseNil == 1) != (len(exp) == 0) {
			fail("close_iff_nonempty", fmt.Sprintf("Close()==nil is %v with %d errors", res.CloseNil == 1, len(exp)))
		}
		if !res.ParentOK {
			fail("isolated_follows_parent", "isolated context not done after its parent was stopped")
		}
	}

	// ---- (b) recorded concurrent runs replayed on the model in completion order
	nLin := 450
	if thorough {
		nLin = 6000
	}
	for i := 0; i < nLin; i++ {
		t := genC12Trial(rng, 6)
		if t.Kind == 3 {
			// keep the parent out of the final comparison: replay stops before the parent is stopped
		}
		res := runC12TrialNoParentStop(&t)
		hist := t.linearised()
		_, _, mut := t.expected()
		var final []string
		switch t.Kind {
		case 3:
			final = []string{"(false, [])", fmt.Sprintf("(%s, %s)", coqBool(res.Done), intsCoq(res.Errors))}
		default:
			final = []string{fmt.Sprintf("(%s, %s)", coqBool(res.Done), intsCoq(res.Errors))}
		}
		term := fmt.Sprintf("CLin %s %s %s", coqHist(hist), coqList(final), coqNat(res.Panics))
		o.AddCase(term, map[string]interface{}{"trial": t, "history": hist, "observed": res}, fmt.Sprintf("lin:%d:%v", t.Kind, hist), mut >= 2)
		o.Stat("lin_cases")
	}

	// ---- (c) child of a done scope: every order of {fail parent, NewChild, child.Close, parent.Close}
	for _, ord := range c12Orders() {
		for fk := 0; fk < 3; fk++ {
			for iso := 0; iso < 2; iso++ {
				var hist []sop
				hist = append(hist, sop{K: "newroot"})
				for _, e := range ord {
					switch e {
					case "F":
						hist = append(hist, []sop{{K: "stop", S: 0}, {K: "kill", S: 0}, {K: "apperr", S: 0, Es: []int{7}}}[fk])
					case "N":
						hist = append(hist, sop{K: "newchild", S: 0, Iso: iso == 1})
					case "CC":
						hist = append(hist, sop{K: "close", S: 1})
					case "PC":
						hist = append(hist, sop{K: "close", S: 0})
					}
				}
				i := 0
				r := runSeq(func(w *world, step int) *sop {
					if i >= len(hist) {
						return nil
					}
					i++
					return &hist[i-1]
				}, 100)
				o.AddCase(fmt.Sprintf("CSeq %s %s %s", r.coqHist(), r.coqObs(), r.coqErrs()), r.desc(), "cod:"+r.key(), true)
				o.Stat("child_of_done_orders")
				bad := r.Hang || r.Ended != ""
				last := r.Obs[len(r.Obs)-1]
				for _, ob := range r.Obs {
					for _, m := range ob.Main {
						if m == "SPanic" {
							bad = true
						}
					}
				}
				for _, c := range last.Closers {
					if c != 2 && c != 3 {
						bad = true
					}
				}
				// the parent's counter is not negative: Wait() returns
				wdone := make(chan struct{})
				go func() {
					defer func() { recover(); close(wdone) }()
					r.W.scopes[0].Wait()
				}()
				select {
				case <-wdone:
				case <-time.After(3 * time.Second):
					bad = true
				}
				if bad {
					o.Fail("child_of_done", fmt.Sprintf("order %v (fail kind %d, isolated %v): panic, blocked Close or hang: %+v", ord, fk, iso == 1, r.Obs), "child_of_done", r.desc())
				}
			}
		}
	}

	// ---- (c') a task signals while the scope's Close waits for it (accepted since b43446f)
	for fk := 0; fk < 3; fk++ {
		for iso := 0; iso < 2; iso++ {
			sig := []sop{{K: "stop", S: 1}, {K: "kill", S: 1}, {K: "apperr", S: 1, Es: []int{7}}}[fk]
			hist := []sop{{K: "newroot"}, {K: "newchild", S: 0, Iso: iso == 1}, {K: "add", S: 1}, {K: "close", S: 1}, sig,
				{K: "err", S: 1}, {K: "done", S: 1}, {K: "close", S: 0}}
			i := 0
			r := runSeq(func(w *world, step int) *sop {
				if i >= len(hist) {
					return nil
				}
				i++
				return &hist[i-1]
			}, 100)
			o.AddCase(fmt.Sprintf("CSeq %s %s %s", r.coqHist(), r.coqObs(), r.coqErrs()), r.desc(), "waiting:"+r.key(), true)
			o.Stat("signal_while_close_waits")
			bad := r.Hang || r.Ended != "" || len(r.Obs) != len(hist)
			for _, ob := range r.Obs {
				for _, m := range ob.Main {
					if m == "SPanic" {
						bad = true
					}
				}
			}
			if !bad {
				want := 3 // Kill / AppendError: the child rolls back and reports the error
				if fk == 0 {
					want = 2
				}
				if r.Obs[len(r.Obs)-1].Closers[0] != want {
					bad = true
				}
			}
			if bad {
				o.Fail("signal_while_close_waits", fmt.Sprintf("signal kind %d on a scope whose Close waits for a task (isolated %v): panic, hang or wrong Close result: %+v", fk, iso == 1, r.Obs), "signal_while_close_waits", r.desc())
			}
		}
	}

	// ---- (c'') NewChild racing with the parent's end (forced through a wrapping context, and free-running)
	nRace := 4000
	if thorough {
		nRace = 100000
	}
	c12ChildRace(o, rng, nRace)

	// ---- (d) random sequential histories on scope trees without listeners
	nSeq := 500
	if thorough {
		nSeq = 8000
	}
	hangs := 0
	for i := 0; i < nSeq; i++ {
		r := runSeq(genNext(rng, genCfg{listeners: false, misuse: rng.Chance(30), maxOps: 5 + rng.Intn(26), drain: rng.Chance(60)}, o), 400)
		for _, p := range r.Hist {
			o.Stat("seq_op_" + p.K)
		}
		if r.Ended != "" {
			o.Stat("seq_ended_" + r.Ended)
		}
		if r.Hang {
			o.Fail("no_hang", "sequential history hung", "hang", r.desc())
			hangs++
			if hangs >= 3 {
				break
			}
			continue
		}
		o.AddCase(fmt.Sprintf("CSeq %s %s %s", r.coqHist(), r.coqObs(), r.coqErrs()), r.desc(), "seq:"+r.key(), len(r.Hist) > 4)
	}
}

// the same trial runner, but for the isolated kind the parent is left alone (final state = what the
// concurrent phase produced)
func runC12TrialNoParentStop(t *c12trial) c12result {
	if t.Kind != 3 {
		res := runC12Trial(t, true)
		return res
	}
	parent := contextscope.New()
	h := contextscope.NewIsolated(parent)
	var panics int32
	var stamp int64
	start := make(chan struct{})
	var wg sync.WaitGroup
	for gi := range t.Progs {
		wg.Add(1)
		go func(prog []c12op) {
			defer wg.Done()
			<-start
			for i := range prog {
				op := &prog[i]
				func() {
					defer func() {
						if r := recover(); r != nil {
							atomic.AddInt32(&panics, 1)
						}
					}()
					switch op.K {
					case "append":
						h.AppendError(toErrs(op.Es)...)
					case "kill":
						h.Kill()
					case "stop":
						h.Stop()
					case "isdone":
						h.IsDone()
					case "err":
						_ = h.Err()
					case "errors":
						_ = len(h.Errors())
					}
				}()
				op.stamp = atomic.AddInt64(&stamp, 1)
			}
		}(t.Progs[gi])
	}
	close(start)
	wg.Wait()
	res := c12result{WaitNil: -1, CloseNil: -1, ParentOK: true, Panics: int(panics)}
	for _, e := range h.Errors() {
		res.Errors = append(res.Errors, errID(e))
	}
	sort.Ints(res.Errors)
	res.Done = h.IsDone()
	// release the watcher goroutine
	h.Stop()
	return res
}
