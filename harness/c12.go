package main

// C12 — Scope failure signalling is safe from any number of goroutines.
//  (a) stress on the real code: 2..64 goroutines x random mixes of AppendError/Kill/Stop/IsDone/Err/Errors
//      on a plain context, a root scope, a root+child pair sharing one context, an isolated context;
//      L2 oracles: no panic, every appended error retained (as a multiset), done closed exactly when
//      something was signalled, Err/Wait/Close report non-nil iff the list is non-empty;
//  (b) small concurrent runs recorded in completion order and replayed on the model (L1, CLin);
//  (c) child-of-done scenarios enumerated exhaustively (L1 CSeq + L2);
//  (d) random sequential histories on small scope trees without listeners (L1 CSeq).

import (
	"fmt"
	"runtime"
	"sort"
	"strings"
	"sync"
	"sync/atomic"
	"time"

	"github.com/goatcms/goatcore/app"
	"github.com/goatcms/goatcore/app/scope"
	"github.com/goatcms/goatcore/app/scope/contextscope"
	"github.com/goatcms/goatcore/varutil/verifhook"
)

func init() { runners["C12"] = runC12 }

type c12op struct {
	K     string `json:"k"` // append kill stop isdone err errors
	Es    []int  `json:"es,omitempty"`
	Via   int    `json:"via"` // which handle (0 = first, 1 = child scope)
	stamp int64
}

type c12trial struct {
	// 0 plain ctx, 1 root scope, 2 root+child (shared ctx), 3 isolated ctx (parent left alone until the end),
	// 4 root scope + child SCOPE with an isolated context (Via 0 = the child, 1 = the root),
	// 5 plain ctx + isolated ctx of it (Via 0 = the isolated one, 1 = its parent): the parent ends DURING the run
	Kind  int       `json:"kind"`
	Progs [][]c12op `json:"progs"`
}

// what one context showed when everything was quiet
type c12ctxres struct {
	Errors   []int
	Done     bool
	DoneRecv bool // a receive from Done() succeeds
	ErrNil   bool
	ErrCount int
	Released int // the goroutine that sat in <-Done() from before the start: 1 released, 0 still waiting
}

type c12result struct {
	Panics   int
	Errors   []int
	Done     bool
	ErrNil   bool
	ErrCount int // number of errors the cumulative Err() reports when everything is quiet
	WaitNil  int // -1 n/a, 0 non-nil, 1 nil
	CloseNil int
	ClosePan bool
	ParentOK bool // isolated: after the parent stops, the isolated context is done
	Hang     bool
	Released int        // primary context: its Done() waiter was released (1) or not (0)
	Par      *c12ctxres `json:",omitempty"` // kinds 4, 5: the parent's context
	ChildNil int        // kinds 2, 4: child.Close()==nil (1), !=nil (0), n/a (-1)
	InRun    []string   `json:",omitempty"` // what a caller saw right after its own completed call
	FollowOK bool       // isolated kinds: after the parent's end the isolated Done() channel is closed
	Waiters  []string   `json:",omitempty"` // a goroutine sitting in <-Done(): released iff the context ended
}

func genC12Trial(rng *RNG, maxG int) c12trial { return genC12TrialK(rng, maxG, 6) }

func genC12TrialK(rng *RNG, maxG int, kinds int) c12trial {
	t := c12trial{Kind: rng.Intn(kinds)}
	g := 2 + rng.Intn(maxG-1)
	if rng.Chance(50) {
		g = 2 + rng.Intn(3)
	}
	next := 1
	for i := 0; i < g; i++ {
		n := 1 + rng.Intn(3)
		var prog []c12op
		for j := 0; j < n; j++ {
			op := c12op{}
			if t.Kind == 2 {
				op.Via = rng.Intn(2)
			}
			if t.Kind >= 4 && rng.Chance(40) {
				op.Via = 1
			}
			switch k := rng.Intn(100); {
			case k < 35:
				op.K = "append"
				ne := 1 + rng.Intn(3)
				for e := 0; e < ne; e++ {
					if rng.Chance(20) {
						op.Es = append(op.Es, -1)
					} else {
						op.Es = append(op.Es, next)
						next++
					}
				}
			case k < 55:
				op.K = "kill"
			case k < 75:
				op.K = "stop"
			case k < 85:
				op.K = "isdone"
			case k < 93:
				op.K = "err"
			default:
				op.K = "errors"
			}
			prog = append(prog, op)
		}
		t.Progs = append(t.Progs, prog)
	}
	return t
}

// ctxOf: which context an operation issued through handle via lands on
func (t *c12trial) ctxOf(via int) int {
	if t.Kind >= 4 {
		return via
	}
	return 0
}

// c12Extras: have = want + extra as multisets, with every extra drawn from pool (each pool entry once)
func c12Extras(have, want, pool []int) (extra []int, ok bool) {
	cnt := map[int]int{}
	for _, x := range have {
		cnt[x]++
	}
	for _, x := range want {
		cnt[x]--
		if cnt[x] < 0 {
			return nil, false
		}
	}
	avail := map[int]int{}
	for _, x := range pool {
		avail[x]++
	}
	for x, n := range cnt {
		if n > avail[x] {
			return nil, false
		}
		for ; n > 0; n-- {
			extra = append(extra, x)
		}
	}
	return extra, true
}

func containsAll(have []error, want []int) bool {
	cnt := map[int]int{}
	for _, e := range have {
		cnt[errID(e)]++
	}
	for _, x := range want {
		cnt[x]--
		if cnt[x] < 0 {
			return false
		}
	}
	return true
}

func readCtx(h app.ContextScope) c12ctxres {
	var r c12ctxres
	for _, e := range h.Errors() {
		r.Errors = append(r.Errors, errID(e))
	}
	sort.Ints(r.Errors)
	r.Done = h.IsDone()
	select {
	case <-h.Done():
		r.DoneRecv = true
	default:
	}
	e := h.Err() // ONE reading: a watcher may hand its Canceled down between two
	r.ErrNil = e == nil
	r.ErrCount = c12ErrCount(e)
	return r
}

func runC12Trial(t *c12trial, record bool) c12result {
	var handles []app.ContextScope // what the operations are issued on
	var root, child app.Scope
	var parent app.ContextScope
	switch t.Kind {
	case 0:
		handles = []app.ContextScope{contextscope.New()}
	case 1:
		root = scope.New(scope.Params{})
		handles = []app.ContextScope{root}
	case 2:
		root = scope.New(scope.Params{})
		child = scope.NewChild(root, scope.ChildParams{})
		handles = []app.ContextScope{root, child}
	case 3:
		parent = contextscope.New()
		handles = []app.ContextScope{contextscope.NewIsolated(parent)}
	case 4:
		root = scope.New(scope.Params{})
		child = scope.NewChild(root, scope.ChildParams{ContextScope: contextscope.NewIsolated(root)})
		handles = []app.ContextScope{child, root}
		parent = root.BaseContextScope()
	case 5:
		parent = contextscope.New()
		handles = []app.ContextScope{contextscope.NewIsolated(parent), parent}
	}
	nctx := 1
	if t.Kind >= 4 {
		nctx = 2
	}
	var panics int32
	var stamp int64
	var inrunMu sync.Mutex
	var inrun []string
	note := func(f string, a ...interface{}) {
		inrunMu.Lock()
		if len(inrun) < 4 {
			inrun = append(inrun, fmt.Sprintf(f, a...))
		}
		inrunMu.Unlock()
	}
	// one goroutine per context sits in <-Done() from before the start
	var released [2]int32
	for c := 0; c < nctx; c++ {
		d := handles[c].Done()
		go func(c int) { <-d; atomic.StoreInt32(&released[c], 1) }(c)
	}
	start := make(chan struct{})
	var wg sync.WaitGroup
	for gi := range t.Progs {
		wg.Add(1)
		go func(prog []c12op) {
			defer wg.Done()
			<-start
			var mine [2][]int // what this goroutine's completed calls appended, per context
			var sig [2]bool   // ... and whether one of them signalled the end
			for i := range prog {
				op := &prog[i]
				func() {
					defer func() {
						if r := recover(); r != nil {
							atomic.AddInt32(&panics, 1)
						}
					}()
					h := handles[op.Via]
					c := t.ctxOf(op.Via)
					switch op.K {
					case "append":
						h.AppendError(toErrs(op.Es)...)
						for _, e := range op.Es {
							if e >= 0 {
								mine[c] = append(mine[c], e)
								sig[c] = true
							}
						}
					case "kill":
						h.Kill()
						mine[c] = append(mine[c], 0)
						sig[c] = true
					case "stop":
						h.Stop()
						sig[c] = true
					case "isdone":
						if !h.IsDone() && sig[c] {
							note("IsDone() is false after this caller's own AppendError/Kill/Stop had returned")
						}
					case "err":
						if h.Err() == nil && len(mine[c]) != 0 {
							note("Err() is nil after this caller's own AppendError/Kill had returned")
						}
					case "errors":
						if l := h.Errors(); !containsAll(l, mine[c]) {
							note("Errors() = %d entries lacks errors this caller had appended before (%v)", len(l), mine[c])
						}
					}
					if record {
						op.stamp = atomic.AddInt64(&stamp, 1)
					}
					// what the caller sees right after its own completed call
					switch op.K {
					case "append", "kill", "stop":
						if sig[c] {
							if !h.IsDone() {
								note("%s returned, IsDone() is still false", op.K)
							}
							select {
							case <-h.Done():
							default:
								note("%s returned, the Done() channel is still open", op.K)
							}
						}
						if len(mine[c]) != 0 {
							if l := h.Errors(); !containsAll(l, mine[c]) {
								note("%s returned, Errors() (%d entries) lacks what this caller appended (%v)", op.K, len(l), mine[c])
							}
							if e := h.Err(); e == nil || c12ErrCount(e) < len(mine[c]) {
								note("%s returned, Err() stands for %d errors, this caller alone appended %d", op.K, c12ErrCount(e), len(mine[c]))
							}
						}
					}
				}()
				if record && op.stamp == 0 {
					op.stamp = atomic.AddInt64(&stamp, 1)
				}
			}
		}(t.Progs[gi])
	}
	close(start)
	fin := make(chan struct{})
	go func() { wg.Wait(); close(fin) }()
	res := c12result{WaitNil: -1, CloseNil: -1, ChildNil: -1, ParentOK: true, FollowOK: true}
	select {
	case <-fin:
	case <-time.After(10 * time.Second):
		res.Hang = true
		return res
	}
	h := handles[0]
	res.Panics = int(atomic.LoadInt32(&panics))
	res.InRun = inrun
	// isolated kinds whose parent was signalled during the run: the watcher acts on its own
	follows := func() {
		deadline := time.Now().Add(5 * time.Second)
		for !h.IsDone() {
			if time.Now().After(deadline) {
				res.ParentOK = false
				return
			}
			runtime.Gosched()
		}
		select {
		case <-h.Done():
		case <-time.After(2 * time.Second):
			res.FollowOK = false // IsDone() says done, the channel a waiter would sit on is still open
		}
	}
	if t.Kind >= 4 && parent.IsDone() {
		follows()
	}
	pr := readCtx(h)
	res.Errors, res.Done, res.ErrNil, res.ErrCount = pr.Errors, pr.Done, pr.ErrNil, pr.ErrCount
	if res.Done && !pr.DoneRecv {
		res.Done = false // IsDone true but the receive does not succeed
		res.Panics += 1000
	}
	if t.Kind >= 4 {
		q := readCtx(parent)
		res.Par = &q
	}
	if parent != nil && !parent.IsDone() {
		// the parent ends now, quietly: the isolated context follows
		parent.Stop()
		follows()
	}
	if root != nil {
		func() {
			defer func() {
				if r := recover(); r != nil {
					res.ClosePan = true
				}
			}()
			done := make(chan error, 1)
			go func() {
				defer func() {
					if r := recover(); r != nil {
						res.ClosePan = true
						done <- nil
					}
				}()
				if child != nil {
					if child.Close() == nil {
						res.ChildNil = 1
					} else {
						res.ChildNil = 0
					}
				}
				werr := root.Wait()
				if werr == nil {
					res.WaitNil = 1
				} else {
					res.WaitNil = 0
				}
				done <- root.Close()
			}()
			select {
			case err := <-done:
				if err == nil {
					res.CloseNil = 1
				} else {
					res.CloseNil = 0
				}
			case <-time.After(10 * time.Second):
				res.Hang = true
			}
		}()
	}
	// the Done() waiters: released exactly when the context is done
	for c := 0; c < nctx; c++ {
		hc := handles[c]
		if hc.IsDone() {
			deadline := time.Now().Add(2 * time.Second)
			for atomic.LoadInt32(&released[c]) == 0 && time.Now().Before(deadline) {
				runtime.Gosched()
			}
		}
		rel := int(atomic.LoadInt32(&released[c]))
		if (rel == 1) != hc.IsDone() {
			res.Waiters = append(res.Waiters, fmt.Sprintf("context %d: IsDone()=%v, the goroutine waiting on the Done() channel it obtained before the run was released: %v", c, hc.IsDone(), rel == 1))
		}
		if c == 0 {
			res.Released = rel
		} else if res.Par != nil {
			res.Par.Released = rel
		}
		if !hc.IsDone() {
			// nothing was signalled: let the waiter (and a watcher) go
			func() {
				defer func() { recover() }()
				if sc, ok := hc.(app.Scope); ok {
					sc.BaseContextScope().Stop()
				} else {
					hc.Stop()
				}
			}()
		}
	}
	return res
}

// expectedOn: what the operations issued on context c must leave there
func (t *c12trial) expectedOn(c int) (errs []int, signalled bool) {
	for _, prog := range t.Progs {
		for _, op := range prog {
			if t.ctxOf(op.Via) != c {
				continue
			}
			switch op.K {
			case "append":
				for _, e := range op.Es {
					if e >= 0 {
						errs = append(errs, e)
						signalled = true
					}
				}
			case "kill":
				errs = append(errs, 0)
				signalled = true
			case "stop":
				signalled = true
			}
		}
	}
	sort.Ints(errs)
	return
}

func (t *c12trial) expected() (errs []int, signalled bool, mutators int) {
	for _, prog := range t.Progs {
		mut := false
		for _, op := range prog {
			switch op.K {
			case "append":
				for _, e := range op.Es {
					if e >= 0 {
						mut = true
					}
				}
			case "kill", "stop":
				mut = true
			}
		}
		if mut {
			mutators++
		}
	}
	errs, signalled = t.expectedOn(0)
	return
}

func sameInts(a, b []int) bool {
	if len(a) != len(b) {
		return false
	}
	for i := range a {
		if a[i] != b[i] {
			return false
		}
	}
	return true
}

// history of a recorded trial in completion order, as Model ops
func (t *c12trial) linearised() []sop {
	var h []sop
	target := func(via int) int { return via }
	switch t.Kind {
	case 0:
		h = []sop{{K: "newctx"}}
	case 1:
		h = []sop{{K: "newroot"}}
	case 2:
		h = []sop{{K: "newroot"}, {K: "newchild", S: 0}}
	case 3:
		h = []sop{{K: "newctx"}, {K: "newiso", S: 0}}
		target = func(int) int { return 1 }
	}
	var all []c12op
	for _, p := range t.Progs {
		all = append(all, p...)
	}
	sort.Slice(all, func(i, j int) bool { return all[i].stamp < all[j].stamp })
	onScope := t.Kind == 1 || t.Kind == 2
	for _, op := range all {
		s := target(op.Via)
		switch op.K {
		case "append":
			if onScope {
				h = append(h, sop{K: "apperr", S: s, Es: op.Es})
			} else {
				h = append(h, sop{K: "capp", S: s, Es: op.Es})
			}
		case "kill":
			if onScope {
				h = append(h, sop{K: "kill", S: s})
			} else {
				h = append(h, sop{K: "ckill", S: s})
			}
		case "stop":
			if onScope {
				h = append(h, sop{K: "stop", S: s})
			} else {
				h = append(h, sop{K: "cstop", S: s})
			}
		case "isdone":
			if onScope {
				h = append(h, sop{K: "isdone", S: s})
			} else {
				h = append(h, sop{K: "cisdone", S: s})
			}
		case "err", "errors":
			if onScope {
				h = append(h, sop{K: "err", S: s})
			} else {
				h = append(h, sop{K: "cerr", S: s})
			}
		}
	}
	return h
}

func coqHist(h []sop) string {
	items := make([]string, len(h))
	for i, p := range h {
		items[i] = p.coq()
	}
	return coqList(items)
}

func intsCoq(l []int) string {
	s := make([]string, len(l))
	for i, e := range l {
		s[i] = fmt.Sprint(e)
	}
	return coqList(s)
}

// permutations of the child-of-done events respecting N<CC, N<PC, F<PC
// c12ErrCount: how many errors a cumulative error (goaterr.ToError of the list) stands for
func c12ErrCount(err error) int {
	if err == nil {
		return 0
	}
	if w, ok := err.(interface{ UnwrapAll() []error }); ok {
		if l := w.UnwrapAll(); len(l) > 0 {
			return len(l)
		}
	}
	return 1
}

func c12Orders() [][]string {
	ev := []string{"F", "N", "CC", "PC"}
	var res [][]string
	var rec func(cur []string, used int)
	rec = func(cur []string, used int) {
		if len(cur) == 4 {
			pos := map[string]int{}
			for i, e := range cur {
				pos[e] = i
			}
			if pos["N"] < pos["CC"] && pos["N"] < pos["PC"] && pos["F"] < pos["PC"] {
				res = append(res, append([]string{}, cur...))
			}
			return
		}
		for i, e := range ev {
			if used&(1<<i) == 0 {
				rec(append(cur, e), used|(1<<i))
			}
		}
	}
	rec(nil, 0)
	return res
}

func runC12(o *Out, rng *RNG, tier string, replay string) {
	o.Imports = "From GC Require Import Common.Base Model.Scope Corr.C12."
	o.CaseType = "case"
	o.CheckFn = "check"
	o.ShardSize = 150
	o.Rule = "stress trials: 2..64 goroutines x 1..3 operations each (AppendError with nil and non-nil errors, Kill, Stop, IsDone, Err, Errors) " +
		"on {plain context, root scope, root+child sharing a context, isolated context, root scope + child scope with an isolated context, " +
		"plain context + its isolated context (operations on both)}, yield hook at the Stop gap; every caller checks IsDone/Done()/Errors()/Err() " +
		"right after its own completed call; one waiter per Done() channel; termexec.RunCommand/RunLoop probe on ending scopes; " +
		"termexec.RunLoop on inputs that fail at every byte position of the script (read error / end of input, failing command) with the " +
		"loop's own signalling calls held back: the failure is in the scope when RunLoop returns, none is signalled later; " +
		"non-trivial = at least two goroutines signal (append/kill/stop); distinct by the operation lists. " +
		"L1: small concurrent runs replayed in completion order (CLin), the exhaustive child-of-done orders and random sequential " +
		"histories on scope trees (CSeq) and the caller's view of every swept RunLoop round (CSeq: the append the loop owes, wait, close) are evaluated on the model inside Coq."
	thorough := tier == "thorough"
	if replay != "" {
		if r, ok := replayHistory(replay); ok {
			o.AddCase(fmt.Sprintf("CSeq %s %s %s", r.coqHist(), r.coqObs(), r.coqErrs()), r.desc(), "replay", true)
		} else {
			fmt.Println("replay file holds a stress trial: re-run the check with the same seed to repeat it")
		}
		return
	}

	verifhook.SetCallback(func(point string) {
		if strings.HasSuffix(point, "stop.gap") {
			runtime.Gosched()
		}
	})
	defer verifhook.SetCallback(nil)

	// ---- (a) stress, L2 oracles
	nStress := 20000
	if thorough {
		nStress = 400000
	}
	for i := 0; i < nStress; i++ {
		t := genC12Trial(rng, 64)
		res := runC12Trial(&t, false)
		exp, signalled, mut := t.expected()
		key := fmt.Sprintf("%d:%v", t.Kind, t.Progs)
		o.CountEval(key, mut >= 2)
		o.Stat(fmt.Sprintf("stress_kind%d", t.Kind))
		if len(t.Progs) > 16 {
			o.Stat("stress_over16_goroutines")
		}
		fail := func(oracle, what string) {
			o.Fail(oracle, what, oracle, map[string]interface{}{"trial": t, "observed": res})
		}
		if res.Hang {
			fail("no_hang", "trial did not finish within the watchdog")
			continue
		}
		if res.Panics != 0 || res.ClosePan {
			fail("no_panic", fmt.Sprintf("%d recovered panics (close panicked: %v)", res.Panics, res.ClosePan))
		}
		var pexp []int // what was appended to the parent (kinds 4, 5)
		psig := false
		if t.Kind >= 4 {
			pexp, psig = t.expectedOn(1)
			signalled = signalled || psig
		}
		// the watcher of an isolated context hands down at most ONE Canceled, only when the parent holds
		// an error, and at a moment of its own choosing (possibly after the isolated context ended by
		// itself): every reading below tolerates that one error being there or not yet
		// (which error is handed down is left open: anything the parent holds, or Canceled, is accepted)
		late := 0
		if len(pexp) != 0 {
			late = 1 + len(pexp)
			if extra, ok := c12Extras(res.Errors, exp, append([]int{0}, pexp...)); ok && len(extra) != 0 {
				exp = append(append([]int{}, exp...), extra...)
				sort.Ints(exp)
				late -= len(extra)
			}
		}
		if !sameInts(res.Errors, exp) {
			fail("errors_retained", fmt.Sprintf("Errors() as a multiset = %v, appended non-nil + one Canceled per Kill = %v", res.Errors, exp))
		}
		if res.Done != signalled {
			fail("done_once", fmt.Sprintf("done = %v although signalled = %v", res.Done, signalled))
		}
		if res.ErrNil != (res.ErrCount == 0) || (res.ErrNil != (len(exp) == 0) && late == 0) || (res.ErrNil && len(exp) != 0) {
			fail("err_iff_nonempty", fmt.Sprintf("Err()==nil is %v with %d errors", res.ErrNil, len(exp)))
		}
		if res.ErrCount < len(exp) || res.ErrCount > len(exp)+late {
			fail("accessors", fmt.Sprintf("after all calls returned, Err() reports %d error(s) while %d were appended (Errors() has %d): the cumulative accessor lost errors", res.ErrCount, len(exp), len(res.Errors)))
		}
		rootExp := exp
		if t.Kind == 4 {
			rootExp = pexp
		}
		if res.WaitNil >= 0 && (res.WaitNil == 1) != (len(rootExp) == 0) {
			fail("wait_iff_nonempty", fmt.Sprintf("Wait()==nil is %v with %d errors", res.WaitNil == 1, len(rootExp)))
		}
		if res.CloseNil >= 0 && (res.CloseNil == 1) != (len(rootExp) == 0) {
			fail("close_iff_nonempty", fmt.Sprintf("Close()==nil is %v with %d errors", res.CloseNil == 1, len(rootExp)))
		}
		if res.ChildNil >= 0 && (res.ChildNil == 1) != (len(exp) == 0) && (late == 0 || len(exp) != 0) {
			fail("close_iff_nonempty", fmt.Sprintf("child.Close()==nil is %v, the child's context holds %d errors", res.ChildNil == 1, len(exp)))
		}
		if !res.ParentOK {
			fail("isolated_follows_parent", "isolated context not done after its parent ended")
		}
		if !res.FollowOK {
			fail("done_once", "isolated context: IsDone() is true after the parent's end but its Done() channel is never closed (a goroutine waiting on it stays blocked)")
		}
		if q := res.Par; q != nil {
			if !sameInts(q.Errors, pexp) {
				fail("errors_retained", fmt.Sprintf("parent of the isolated context: Errors() = %v, appended to it = %v", q.Errors, pexp))
			}
			if q.Done != psig || q.DoneRecv != q.Done {
				fail("done_once", fmt.Sprintf("parent of the isolated context: IsDone = %v, receive from Done() succeeds = %v, signalled = %v", q.Done, q.DoneRecv, psig))
			}
			if q.ErrNil != (len(pexp) == 0) || q.ErrCount != len(pexp) {
				fail("accessors", fmt.Sprintf("parent of the isolated context: Err() stands for %d errors, %d were appended", q.ErrCount, len(pexp)))
			}
		}
		for _, wmsg := range res.Waiters {
			fail("done_once", wmsg)
		}
		for _, m := range res.InRun {
			fail("seen_by_caller", m)
		}
	}

	// ---- (b) recorded concurrent runs replayed on the model in completion order
	nLin := 450
	if thorough {
		nLin = 6000
	}
	for i := 0; i < nLin; i++ {
		t := genC12TrialK(rng, 6, 4)
		if t.Kind == 3 {
			// keep the parent out of the final comparison: replay stops before the parent is stopped
		}
		res := runC12TrialNoParentStop(&t)
		hist := t.linearised()
		_, _, mut := t.expected()
		var final []string
		switch t.Kind {
		case 3:
			final = []string{"(false, [])", fmt.Sprintf("(%s, %s)", coqBool(res.Done), intsCoq(res.Errors))}
		default:
			final = []string{fmt.Sprintf("(%s, %s)", coqBool(res.Done), intsCoq(res.Errors))}
		}
		term := fmt.Sprintf("CLin %s %s %s", coqHist(hist), coqList(final), coqNat(res.Panics))
		o.AddCase(term, map[string]interface{}{"trial": t, "history": hist, "observed": res}, fmt.Sprintf("lin:%d:%v", t.Kind, hist), mut >= 2)
		o.Stat("lin_cases")
	}

	// ---- (c) child of a done scope: every order of {fail parent, NewChild, child.Close, parent.Close}
	for _, ord := range c12Orders() {
		for fk := 0; fk < 3; fk++ {
			for iso := 0; iso < 2; iso++ {
				var hist []sop
				hist = append(hist, sop{K: "newroot"})
				for _, e := range ord {
					switch e {
					case "F":
						hist = append(hist, []sop{{K: "stop", S: 0}, {K: "kill", S: 0}, {K: "apperr", S: 0, Es: []int{7}}}[fk])
					case "N":
						hist = append(hist, sop{K: "newchild", S: 0, Iso: iso == 1})
					case "CC":
						hist = append(hist, sop{K: "close", S: 1})
					case "PC":
						hist = append(hist, sop{K: "close", S: 0})
					}
				}
				i := 0
				r := runSeq(func(w *world, step int) *sop {
					if i >= len(hist) {
						return nil
					}
					i++
					return &hist[i-1]
				}, 100)
				o.AddCase(fmt.Sprintf("CSeq %s %s %s", r.coqHist(), r.coqObs(), r.coqErrs()), r.desc(), "cod:"+r.key(), true)
				o.Stat("child_of_done_orders")
				bad := r.Hang || r.Ended != ""
				last := r.Obs[len(r.Obs)-1]
				for _, ob := range r.Obs {
					for _, m := range ob.Main {
						if m == "SPanic" {
							bad = true
						}
					}
				}
				for _, c := range last.Closers {
					if c != 2 && c != 3 {
						bad = true
					}
				}
				// the parent's counter is not negative: Wait() returns
				wdone := make(chan struct{})
				go func() {
					defer func() { recover(); close(wdone) }()
					r.W.scopes[0].Wait()
				}()
				select {
				case <-wdone:
				case <-time.After(3 * time.Second):
					bad = true
				}
				if bad {
					o.Fail("child_of_done", fmt.Sprintf("order %v (fail kind %d, isolated %v): panic, blocked Close or hang: %+v", ord, fk, iso == 1, r.Obs), "child_of_done", r.desc())
				}
			}
		}
	}

	// ---- (c') a task signals while the scope's Close waits for it (accepted since b43446f)
	for fk := 0; fk < 3; fk++ {
		for iso := 0; iso < 2; iso++ {
			sig := []sop{{K: "stop", S: 1}, {K: "kill", S: 1}, {K: "apperr", S: 1, Es: []int{7}}}[fk]
			hist := []sop{{K: "newroot"}, {K: "newchild", S: 0, Iso: iso == 1}, {K: "add", S: 1}, {K: "close", S: 1}, sig,
				{K: "err", S: 1}, {K: "done", S: 1}, {K: "close", S: 0}}
			i := 0
			r := runSeq(func(w *world, step int) *sop {
				if i >= len(hist) {
					return nil
				}
				i++
				return &hist[i-1]
			}, 100)
			o.AddCase(fmt.Sprintf("CSeq %s %s %s", r.coqHist(), r.coqObs(), r.coqErrs()), r.desc(), "waiting:"+r.key(), true)
			o.Stat("signal_while_close_waits")
			bad := r.Hang || r.Ended != "" || len(r.Obs) != len(hist)
			for _, ob := range r.Obs {
				for _, m := range ob.Main {
					if m == "SPanic" {
						bad = true
					}
				}
			}
			if !bad {
				want := 3 // Kill / AppendError: the child rolls back and reports the error
				if fk == 0 {
					want = 2
				}
				if r.Obs[len(r.Obs)-1].Closers[0] != want {
					bad = true
				}
			}
			if bad {
				o.Fail("signal_while_close_waits", fmt.Sprintf("signal kind %d on a scope whose Close waits for a task (isolated %v): panic, hang or wrong Close result: %+v", fk, iso == 1, r.Obs), "signal_while_close_waits", r.desc())
			}
		}
	}

	// ---- (c'') NewChild racing with the parent's end (forced through a wrapping context, and free-running)
	nRace := 4000
	if thorough {
		nRace = 100000
	}
	c12ChildRace(o, rng, nRace)
	scopeNestedIsolationProbe(o, "C12")

	// ---- (c3) the anchor termexec/run.go: commands dispatched on a scope that has ended / ends meanwhile
	nTerm := 300
	if thorough {
		nTerm = 6000
	}
	c12TermexecProbe(o, rng, nTerm)

	// ---- (d) random sequential histories on scope trees without listeners
	nSeq := 500
	if thorough {
		nSeq = 8000
	}
	hangs := 0
	for i := 0; i < nSeq; i++ {
		r := runSeq(genNext(rng, genCfg{listeners: false, misuse: rng.Chance(30), maxOps: 5 + rng.Intn(26), drain: rng.Chance(60)}, o), 400)
		for _, p := range r.Hist {
			o.Stat("seq_op_" + p.K)
		}
		if r.Ended != "" {
			o.Stat("seq_ended_" + r.Ended)
		}
		if r.Hang {
			o.Fail("no_hang", "sequential history hung", "hang", r.desc())
			hangs++
			if hangs >= 3 {
				break
			}
			continue
		}
		o.AddCase(fmt.Sprintf("CSeq %s %s %s", r.coqHist(), r.coqObs(), r.coqErrs()), r.desc(), "seq:"+r.key(), len(r.Hist) > 4)
	}

	// ---- (e) the failures termexec.RunLoop signals itself (input read error at every position, malformed
	// last line, failing command) with its signalling calls held back: in the scope before the loop is over
	c12LoopFailureProbe(o, rng, thorough)
}

// the same trial runner, but for the isolated kind the parent is left alone (final state = what the
// concurrent phase produced)
func runC12TrialNoParentStop(t *c12trial) c12result {
	if t.Kind != 3 {
		res := runC12Trial(t, true)
		return res
	}
	parent := contextscope.New()
	h := contextscope.NewIsolated(parent)
	var panics int32
	var stamp int64
	start := make(chan struct{})
	var wg sync.WaitGroup
	for gi := range t.Progs {
		wg.Add(1)
		go func(prog []c12op) {
			defer wg.Done()
			<-start
			for i := range prog {
				op := &prog[i]
				func() {
					defer func() {
						if r := recover(); r != nil {
							atomic.AddInt32(&panics, 1)
						}
					}()
					switch op.K {
					case "append":
						h.AppendError(toErrs(op.Es)...)
					case "kill":
						h.Kill()
					case "stop":
						h.Stop()
					case "isdone":
						h.IsDone()
					case "err":
						_ = h.Err()
					case "errors":
						_ = len(h.Errors())
					}
				}()
				op.stamp = atomic.AddInt64(&stamp, 1)
			}
		}(t.Progs[gi])
	}
	close(start)
	wg.Wait()
	res := c12result{WaitNil: -1, CloseNil: -1, ParentOK: true, Panics: int(panics)}
	for _, e := range h.Errors() {
		res.Errors = append(res.Errors, errID(e))
	}
	sort.Ints(res.Errors)
	res.Done = h.IsDone()
	// release the watcher goroutine
	h.Stop()
	return res
}
