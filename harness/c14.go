package main

// C14 — pipeline tasks honour wait lists and never run after a failed prerequisite.
// Generated task graphs are submitted through Runner.Run (one submitter goroutine, concurrently
// with the running tasks; every top-level task on its own isolated context), bodies are scripts of
// probe commands, gates hold bodies open so that tasks really overlap.  The recorded event trace
// is (L1) replayed on the Coq model by Corr/C14.v and (L2) checked by ordering oracles below.

import (
	"encoding/json"
	"fmt"
	"os"
	"sort"
	"strings"
	"time"

	"github.com/goatcms/goatcore/app"
	"github.com/goatcms/goatcore/app/gio"
	"github.com/goatcms/goatcore/app/modules/pipelinem/pipservices"
	"github.com/goatcms/goatcore/app/modules/pipelinem/pipservices/namespaces"
	"github.com/goatcms/goatcore/app/scope"
	"github.com/goatcms/goatcore/app/scope/contextscope"
	"github.com/goatcms/goatcore/app/terminal"
	"github.com/goatcms/goatcore/app/terminal/termexec"
)

func init() { runners["C14"] = runC14 }

type gCmd struct {
	// begin | end | fail | gate | spawn | fork (C16 only: two concurrent nested tasks) |
	// bad (a command name the terminal does not know: the command fails without any probe event) |
	// badq (a line that cannot be parsed - unterminated quote; always the last line of its script)
	Kind string `json:"kind"`
	Pad  int    `json:"pad,omitempty"` // how the line is written: blank / whitespace-only lines before it, leading / trailing blanks
	Sub  *gTask `json:"sub,omitempty"`
	Sub2 *gTask `json:"sub2,omitempty"`
}

type gTask struct {
	Local string   `json:"local"`
	Full  string   `json:"full"`
	Waits []string `json:"waits"` // full names
	WLoc  []string `json:"-"`     // as written in --wait
	Body  []*gCmd  `json:"body"`
	UID   string   `json:"uid"` // unique per generated submission (duplicates share Full)
	Num   int      `json:"num"` // model name
	Ctx   int      `json:"ctx"`
	// Lock: named resources taken around the body (top-level tasks only). Locks restrict the
	// interleavings, they never add behaviour: the model ignores them, the traces stay acceptable,
	// and "every accepted submission eventually finishes" must hold with them too.
	Lock map[string]bool `json:"lock,omitempty"`
	// Via: the top-level task is submitted through the real `pip:run` command (termexec.RunString on
	// the task's isolated scope, in a goroutine of its own: the command returns when the task has
	// finished) instead of Runner.Run; wait list and locks go through --wait / --rlock / --wlock.
	Via bool `json:"via,omitempty"`
}

type nameTable struct {
	m map[string]int
}

func (t *nameTable) num(full string) int {
	if n, ok := t.m[full]; ok {
		return n
	}
	n := len(t.m) + 1
	t.m[full] = n
	return n
}

// ---------- generation

type c14gen struct {
	fork  bool // C16 try bodies: allow one fork command
	bad   bool // failing commands may be an unknown command / an unparsable line instead of the fail probe
	pad   bool // scripts with blank lines, whitespace-only lines, leading and trailing blanks
	via   bool // top-level tasks may go through the pip:run command
	deep  int  // nested submissions down to this depth (0: 2)
	plain bool // C16: no fork command, no late-nested-run shape, manager bound beforehand
	// C16: prefix of the full task names of a try block (the namespace of the task the block runs in)
	tryPrefix string
	uid       int
	rng       *RNG
	budget    int
	names     *nameTable
}

func (g *c14gen) body(owner *gTask, depth int, mayFail bool) {
	n := 1 + g.rng.Intn(4)
	failAt := -1
	if mayFail {
		failAt = g.rng.Intn(n)
	}
	var sibs []string
	for i := 0; i < n; i++ {
		switch {
		case i == failAt:
			kind := "fail"
			if g.bad && g.rng.Chance(70) {
				kind = "bad"
				if g.rng.Chance(25) {
					kind, n = "badq", i+1 // swallows the rest of the script: last line
				}
			}
			owner.Body = append(owner.Body, &gCmd{Kind: kind})
		case g.fork && depth == 1 && g.rng.Chance(45):
			// one command, two concurrent nested tasks: "a" enters a gate and then fails, "b" is held in a gate
			g.fork = false
			mk := func(local string, kinds ...string) *gTask {
				g.uid++
				sub := &gTask{Local: local, Full: owner.Full + ":" + local, Ctx: owner.Ctx, UID: fmt.Sprintf("u%d", g.uid)}
				sub.Num = g.names.num(sub.Full)
				for _, k := range kinds {
					sub.Body = append(sub.Body, &gCmd{Kind: k})
				}
				return sub
			}
			owner.Body = append(owner.Body, &gCmd{Kind: "fork", Sub: mk("fa", "gate", "fail"), Sub2: mk("fb", "begin", "gate", "end")})
		case depth < g.maxDepth() && g.budget > 0 && g.rng.Chance(22):
			g.budget--
			local := fmt.Sprintf("c%d", len(sibs))
			if len(sibs) > 0 && g.rng.Chance(6) {
				local = sibs[g.rng.Intn(len(sibs))] // duplicate name -> rejected
			}
			g.uid++
			sub := &gTask{Local: local, Full: owner.Full + ":" + local, Ctx: owner.Ctx, UID: fmt.Sprintf("u%d", g.uid)}
			for _, s := range sibs {
				if g.rng.Chance(35) {
					sub.WLoc = append(sub.WLoc, s)
				}
			}
			if g.rng.Chance(6) {
				sub.WLoc = append(sub.WLoc, "nosuch")
			}
			if g.rng.Chance(3) {
				sub.WLoc = append(sub.WLoc, local)
			}
			for _, w := range sub.WLoc {
				sub.Waits = append(sub.Waits, owner.Full+":"+w)
			}
			sub.Num = g.names.num(sub.Full)
			g.body(sub, depth+1, g.rng.Chance(20))
			sibs = append(sibs, local)
			owner.Body = append(owner.Body, &gCmd{Kind: "spawn", Sub: sub})
		case g.rng.Chance(30):
			owner.Body = append(owner.Body, &gCmd{Kind: "gate"})
		case g.rng.Bool():
			owner.Body = append(owner.Body, &gCmd{Kind: "begin"})
		default:
			owner.Body = append(owner.Body, &gCmd{Kind: "end"})
		}
	}
	if g.pad {
		for _, c := range owner.Body {
			if g.rng.Chance(40) {
				c.Pad = 1 + g.rng.Intn(5)
			}
		}
	}
}

func (g *c14gen) maxDepth() int {
	if g.deep > 0 {
		return g.deep
	}
	return 2
}

func (g *c14gen) graph() []*gTask {
	nTop := 2 + g.rng.Intn(6)
	g.budget = 10 - nTop
	var tops []*gTask
	for k := 0; k < nTop; k++ {
		local := fmt.Sprintf("t%d", k)
		if k > 0 && g.rng.Chance(5) {
			local = tops[g.rng.Intn(k)].Local // duplicate
		}
		g.uid++
		t := &gTask{Local: local, Full: local, Ctx: 100 + k, UID: fmt.Sprintf("u%d", g.uid)}
		for j := 0; j < k; j++ {
			if g.rng.Chance(30) {
				t.Waits = append(t.Waits, tops[j].Full)
			}
		}
		if g.rng.Chance(40) {
			t.Lock = map[string]bool{}
			for _, r := range []string{"r0", "r1"} {
				if g.rng.Chance(60) {
					t.Lock[r] = g.rng.Chance(70)
				}
			}
		}
		if g.rng.Chance(7) {
			t.Waits = append(t.Waits, "nosuch")
		}
		if g.rng.Chance(4) {
			t.Waits = append(t.Waits, local)
		}
		if g.rng.Chance(5) {
			t.Waits = append(t.Waits, fmt.Sprintf("t%d", k+1+g.rng.Intn(2))) // a later task
		}
		t.Num = g.names.num(t.Full)
		t.Via = g.via && g.rng.Chance(35)
		g.body(t, 1, g.rng.Chance(25))
		tops = append(tops, t)
	}
	return tops
}

func cmdID(epoch, uid string, i int) string { return fmt.Sprintf("%s.%s.%d", epoch, uid, i) }

func (t *gTask) script(epoch string) string {
	var sb strings.Builder
	for i, c := range t.Body {
		id := cmdID(epoch, t.UID, i)
		post := "\n"
		switch c.Pad {
		case 1:
			sb.WriteString("\n")
		case 2:
			sb.WriteString("  ")
		case 3:
			sb.WriteString("\t\n \n")
		case 4:
			post = "  \n"
		case 5:
			sb.WriteString(" \t")
			post = " \t\n\n"
		}
		if c.Kind == "fork" {
			fmt.Fprintf(&sb, "fork %s --name=%s --name2=%s %s %s", id, c.Sub.Local, c.Sub2.Local,
				refQuote1("--body="+c.Sub.script(epoch)), refQuote1("--body2="+c.Sub2.script(epoch)))
		} else if c.Kind == "spawn" {
			fmt.Fprintf(&sb, "spawn %s --name=%s", id, c.Sub.Local)
			if len(c.Sub.WLoc) > 0 {
				fmt.Fprintf(&sb, " --wait=%s", strings.Join(c.Sub.WLoc, ","))
			}
			sb.WriteString(" " + refQuote1("--body="+c.Sub.script(epoch)))
		} else if c.Kind == "bad" {
			fmt.Fprintf(&sb, "nosuchcmd %s", id)
		} else if c.Kind == "badq" {
			fmt.Fprintf(&sb, "begin \"%s", id)
		} else {
			fmt.Fprintf(&sb, "%s %s", c.Kind, id)
		}
		sb.WriteString(post)
	}
	return sb.String()
}

// cmdline is the `tsub` (= pip:run + a log entry with its result) command line of a top-level task.
func (t *gTask) cmdline(id, epoch string) string {
	var sb strings.Builder
	fmt.Fprintf(&sb, "tsub %s --name=%s", id, t.Local)
	if len(t.Waits) > 0 {
		fmt.Fprintf(&sb, " --wait=%s", strings.Join(t.Waits, ","))
	}
	var rl, wl []string
	for r, w := range t.Lock {
		if w {
			wl = append(wl, r)
		} else {
			rl = append(rl, r)
		}
	}
	sort.Strings(rl)
	sort.Strings(wl)
	if len(rl) > 0 {
		fmt.Fprintf(&sb, " --rlock=%s", strings.Join(rl, ","))
	}
	if len(wl) > 0 {
		fmt.Fprintf(&sb, " --wlock=%s", strings.Join(wl, ","))
	}
	sb.WriteString(" " + refQuote1("--body="+t.script(epoch)))
	return sb.String()
}

func hasBadKind(tops []*gTask) (bad bool) {
	for _, t := range tops {
		t.walk(func(x *gTask) {
			for _, c := range x.Body {
				if c.Kind == "bad" || c.Kind == "badq" {
					bad = true
				}
			}
		})
	}
	return bad
}

// registerTsub adds the `tsub` command: the registered pip:run callback on the very same command
// context, then a log entry "TS" with its result (= was the submission accepted).
func (pa *pipApp) registerTsub() {
	term := pa.mapp.Terminal()
	pipRun := term.Command("pip:run")
	if pipRun == nil {
		must(fmt.Errorf("pip:run is not registered"))
	}
	term.SetCommand(terminal.NewCommand(terminal.CommandParams{Name: "tsub", Callback: func(a app.App, ctx app.IOContext) error {
		var arg struct {
			ID string `command:"?$1"`
		}
		ctx.Scope().InjectTo(&arg)
		e := pipRun.Callback()(a, ctx)
		pa.log.add("TS", arg.ID, e == nil)
		return e
	}}))
}

func (l *probeLog) find(kind, id string) (e pEvent, ok bool) {
	l.mu.Lock()
	defer l.mu.Unlock()
	for _, x := range l.events {
		if x.Kind == kind && x.ID == id {
			return x, true
		}
	}
	return e, false
}

func (t *gTask) coqBody(names *nameTable) string {
	var items []string
	for _, c := range t.Body {
		switch c.Kind {
		case "fail", "bad", "badq":
			items = append(items, "CFail")
		case "spawn":
			items = append(items, fmt.Sprintf("CSpawn %d %s %s", c.Sub.Num, coqNums(c.Sub.Waits, names), c.Sub.coqBody(names)))
		default:
			items = append(items, "COk")
		}
	}
	return coqList(items)
}

func coqNums(l []string, names *nameTable) string {
	var items []string
	for _, s := range l {
		items = append(items, fmt.Sprintf("%d", names.num(s)))
	}
	return coqList(items)
}

func (t *gTask) walk(f func(*gTask)) {
	f(t)
	for _, c := range t.Body {
		if c.Sub != nil {
			c.Sub.walk(f)
		}
		if c.Sub2 != nil {
			c.Sub2.walk(f)
		}
	}
}

// ---------- execution of one graph

type c14obs struct {
	Events   []pEvent        `json:"events"`
	Results  []bool          `json:"results"` // top-level submissions in order: accepted?
	Names    []string        `json:"names"`
	Errors   map[string]bool `json:"errors"`
	Mgr      string          `json:"mgr"`                  // ok | err | hang | panic
	EarlyW   string          `json:"early_wait,omitempty"` // "" (none) | returned | hang | panic: a second TasksManager.Wait begun while bodies are still held in their gates
	MaxIn    int             `json:"max_inside"`
	GateHang int             `json:"gate_hangs"`
}

func isoScope(root app.Scope, name string) (app.Scope, app.ContextScope) {
	cs := contextscope.NewIsolated(root.BaseContextScope())
	return scope.NewChild(root, scope.ChildParams{ContextScope: cs, Name: name}), cs
}

func runGraph(pa *pipApp, rng *RNG, epoch string, tops []*gTask) (ob c14obs) {
	pa.log.reset(epoch)
	root := scope.New(scope.Params{})
	mgr, err := pa.tasksUnit.FromScope(root)
	must(err)
	ns := namespaces.NewNamespaces(pipservices.NamasepacesParams{})
	var gates []string
	for _, t := range tops {
		t.walk(func(x *gTask) {
			for i, c := range x.Body {
				if c.Kind == "gate" {
					gates = append(gates, cmdID(epoch, x.UID, i))
				}
			}
		})
	}
	for i := len(gates) - 1; i > 0; i-- {
		j := rng.Intn(i + 1)
		gates[i], gates[j] = gates[j], gates[i]
	}
	early := rng.Chance(30) // release gates while submissions are still going on
	var scopes []app.Scope
	var ctxs []app.ContextScope
	var viaDone []chan struct{}
	done := make(chan struct{})
	go func() {
		defer close(done)
		for k, t := range tops {
			scp, cs := isoScope(root, t.Full)
			scopes = append(scopes, scp)
			ctxs = append(ctxs, cs)
			pa.log.add("S", fmt.Sprintf("%s.%d", epoch, k), true)
			if t.Via {
				// the pip:run command returns when the task has finished: it gets a goroutine of its own;
				// the submitter goes on as soon as the submission's result is known
				id := fmt.Sprintf("%s.top.%d", epoch, k)
				line := t.cmdline(id, epoch)
				ctx := gio.NewIOContext(scp, gio.NewIO(gio.IOParams{In: gio.NewInput(strings.NewReader("")), Out: gio.NewNilOutput(), Err: gio.NewNilOutput(), CWD: pa.cwd}))
				ret := make(chan struct{})
				viaDone = append(viaDone, ret)
				go func() {
					defer close(ret)
					guarded(60*time.Second, func() error {
						return termexec.RunString(termexec.NewRunCtx(termexec.RunCtxParams{Application: pa.mapp, Ctx: ctx, Commands: pa.mapp.Terminal()}), line)
					})
				}()
				waitFor(10*time.Second, func() bool {
					select {
					case <-ret:
						return true
					default:
					}
					return pa.log.has("TS", id)
				})
				ev, seen := pa.log.find("TS", id)
				ob.Results = append(ob.Results, seen && ev.OK)
				if rng.Chance(30) {
					time.Sleep(time.Duration(50+rng.Intn(300)) * time.Microsecond)
				}
				continue
			}
			e, p, _ := guarded(10*time.Second, func() error {
				p := pa.pip(scp, ns, t.Local, t.Waits, t.script(epoch))
				p.Lock = t.Lock
				return pa.runner.Run(p)
			})
			ob.Results = append(ob.Results, e == nil && !p)
			if rng.Chance(30) {
				time.Sleep(time.Duration(50+rng.Intn(300)) * time.Microsecond)
			}
		}
	}()
	// every second graph: a TasksManager.Wait that begins when all top-level submissions are in and
	// (unless the gates were opened early) every gated body is still held; "W" is logged when it returns
	var wres chan string
	earlyWait := func() {
		if !rng.Chance(50) {
			return
		}
		wres = make(chan string, 1)
		pa.log.add("WB", epoch+".wait.0", true)
		go func() {
			e, p, h := guarded(25*time.Second, mgr.Wait)
			switch {
			case h:
				wres <- "hang"
			case p:
				wres <- "panic"
			default:
				pa.log.add("W", epoch+".wait.0", e == nil)
				wres <- "returned"
			}
		}()
	}
	if !early {
		<-done
		time.Sleep(time.Duration(200+rng.Intn(800)) * time.Microsecond)
		earlyWait()
	}
	for _, g := range gates {
		time.Sleep(time.Duration(30+rng.Intn(400)) * time.Microsecond)
		pa.log.release(g)
	}
	<-done
	if early {
		earlyWait()
	}
	e, p, h := guarded(2*time.Second, mgr.Wait)
	if wres != nil {
		select {
		case ob.EarlyW = <-wres:
		case <-time.After(3 * time.Second):
			ob.EarlyW = "hang"
		}
	}
	switch {
	case h:
		ob.Mgr = "hang"
	case p:
		ob.Mgr = "panic"
	case e != nil:
		ob.Mgr = "err"
	default:
		ob.Mgr = "ok"
	}
	ob.Errors = map[string]bool{}
	if !h { // a hanging Wait keeps the manager's read lock: Names() would block behind it
		guarded(3*time.Second, func() error {
			names := mgr.Names()
			errs := map[string]bool{}
			for _, n := range names {
				if t, ok := mgr.Get(n); ok {
					errs[n] = len(t.Errors()) != 0
				}
			}
			ob.Names, ob.Errors = names, errs
			return nil
		})
	}
	ob.Events, ob.MaxIn, ob.GateHang = pa.log.snapshot()
	if !h {
		for _, r := range viaDone {
			select {
			case <-r:
			case <-time.After(3 * time.Second):
			}
		}
		for _, s := range scopes {
			s := s
			guarded(2*time.Second, func() error { return s.Close() })
		}
		guarded(2*time.Second, func() error { return root.Close() })
	}
	for _, c := range ctxs {
		c.Stop()
	}
	return ob
}

// ---------- oracles

type c14case struct {
	Seed  uint64   `json:"seed"`
	Index int      `json:"index"`
	Graph []*gTask `json:"graph"`
	Obs   c14obs   `json:"obs"`
}

func parseID(id string) (full string, i int) {
	p := strings.Split(id, ".")
	fmt.Sscanf(p[len(p)-1], "%d", &i)
	return strings.Join(p[1:len(p)-1], "."), i
}

func c14oracles(o *Out, cs *c14case, tops []*gTask) {
	ob := cs.Obs
	fail := func(oracle, what string) { o.Fail(oracle, what, oracle, cs) }
	if ob.Mgr == "hang" {
		o.Fail("manager_wait", "TasksManager.Wait did not return", "manager-wait-hang", cs)
		return
	}
	if ob.Mgr == "panic" {
		fail("manager_wait", "TasksManager.Wait panicked")
		return
	}
	if ob.GateHang > 0 {
		fail("harness_gate", "a gate was never released")
	}
	// expected acceptance, registered names
	reg := map[string]*gTask{}
	expectAccept := func(t *gTask) bool {
		if reg[t.Full] != nil {
			return false
		}
		for _, w := range t.Waits {
			if w == t.Full || reg[w] == nil {
				return false
			}
		}
		return true
	}
	// events per task
	evs := map[string][]pEvent{}
	var wEv *pEvent
	for k, e := range ob.Events {
		if e.Kind == "W" {
			wEv = &ob.Events[k]
		}
		if e.Kind != "B" && e.Kind != "E" && e.Kind != "SR" {
			continue
		}
		uid, _ := parseID(e.ID)
		evs[uid] = append(evs[uid], e)
	}
	var subtreeLast func(t *gTask) int
	subtreeLast = func(t *gTask) int {
		m := -1
		t.walk(func(x *gTask) {
			if reg[x.Full] == x {
				if l := evs[x.UID]; len(l) > 0 && l[len(l)-1].Seq > m {
					m = l[len(l)-1].Seq
				}
			}
		})
		return m
	}
	cause := map[*gTask]bool{} // group root -> some member has a failure cause
	// walk in execution order: top-level in program order, nested at their spawn command
	failedAt := map[string]bool{} // task failed when it finished (computed from the causes seen in the trace)
	var visit func(t *gTask, rootT *gTask, accepted bool) bool
	visit = func(t *gTask, rootT *gTask, accepted bool) (failed bool) {
		if !accepted {
			return false
		}
		defer func() {
			failedAt[t.Full] = failed
			if failed {
				cause[rootT] = true
			}
		}()
		reg[t.Full] = t
		l := evs[t.UID]
		// failed prerequisite / after prerequisites
		prereqFailed := false
		for _, w := range t.Waits {
			u := reg[w]
			if u == nil {
				continue // accepted against the rule (reported by accept_rule): nothing to order it after
			}
			if failedAt[w] {
				prereqFailed = true
			}
			if len(l) > 0 && subtreeLast(u) > l[0].Seq {
				fail("after_prereqs", fmt.Sprintf("%s began (seq %d) before its prerequisite %s (or a task spawned by it) ended (seq %d)", t.Full, l[0].Seq, w, subtreeLast(u)))
			}
		}
		if prereqFailed {
			failed = true
			if len(l) > 0 {
				fail("failed_prereq", fmt.Sprintf("%s ran although a prerequisite finished with an error", t.Full))
			}
			if !ob.Errors[t.Full] {
				fail("failed_prereq", fmt.Sprintf("%s has no error although a prerequisite finished with an error", t.Full))
			}
		}
		// sequential body
		pos := 0
		stopped := false
		for k := 0; k < len(l); k++ {
			e := l[k]
			_, i := parseID(e.ID)
			if !stopped && pos < len(t.Body) && (t.Body[pos].Kind == "bad" || t.Body[pos].Kind == "badq") {
				failed, stopped = true, true // fails without a probe event; nothing of this body may follow
			}
			if stopped {
				fail("sequential_body", fmt.Sprintf("%s: event %s%d after a failed command", t.Full, e.Kind, i))
				break
			}
			if e.Kind != "B" || i != pos || i >= len(t.Body) {
				fail("sequential_body", fmt.Sprintf("%s: unexpected event %s %d (expected entry of command %d)", t.Full, e.Kind, i, pos))
				break
			}
			c := t.Body[i]
			if k+1 >= len(l) {
				fail("sequential_body", fmt.Sprintf("%s: command %d entered but never left", t.Full, i))
				break
			}
			x := l[k+1]
			_, xi := parseID(x.ID)
			want := "E"
			if c.Kind == "spawn" {
				want = "SR"
			}
			if x.Kind != want || xi != i {
				fail("sequential_body", fmt.Sprintf("%s: command %d entered, next event %s %d", t.Full, i, x.Kind, xi))
				break
			}
			k++
			if c.Kind == "fail" {
				failed = true
				if x.OK {
					fail("harness_probe", "fail probe reported ok")
				}
				stopped = true
			}
			if c.Kind == "spawn" {
				exp := expectAccept(c.Sub)
				if exp != x.OK {
					fail("accept_rule", fmt.Sprintf("nested submission %s: accepted=%v, expected %v", c.Sub.Full, x.OK, exp))
				}
				if x.OK {
					childFailed := visit(c.Sub, rootT, true)
					// synchronous nesting: everything of the child lies before the next command
					if k+1 < len(l) && subtreeLast(c.Sub) > l[k+1].Seq {
						fail("sequential_body", fmt.Sprintf("%s: command %d began before the task spawned by command %d ended", t.Full, i+1, i))
					}
					if childFailed {
						failed = true
						stopped = true
					}
				} else {
					failed = true
					stopped = true
				}
			}
			pos++
		}
		if !stopped && !prereqFailed && pos < len(t.Body) && (t.Body[pos].Kind == "bad" || t.Body[pos].Kind == "badq") {
			failed, stopped = true, true
		}
		if !stopped && !prereqFailed && pos != len(t.Body) {
			fail("accept_finishes", fmt.Sprintf("%s had no failure but executed only %d of %d commands", t.Full, pos, len(t.Body)))
		}
		return failed
	}
	for k, t := range tops {
		exp := expectAccept(t)
		if k < len(ob.Results) && ob.Results[k] != exp {
			fail("accept_rule", fmt.Sprintf("submission %d (%s): accepted=%v, expected %v", k, t.Full, ob.Results[k], exp))
		}
		if k < len(ob.Results) && ob.Results[k] {
			visit(t, t, true)
		} else {
			if len(evs[t.UID]) > 0 {
				fail("rejected_not_run", fmt.Sprintf("rejected submission %s executed commands", t.Full))
			}
		}
	}
	// registered names = accepted submissions
	var want []string
	for n := range reg {
		want = append(want, n)
	}
	sort.Strings(want)
	if strings.Join(want, ",") != strings.Join(ob.Names, ",") {
		fail("rejected_not_registered", fmt.Sprintf("registered names %v, accepted submissions %v", ob.Names, want))
	}
	// failure exactness per context group; manager result
	anyErr := false
	for n, t := range reg {
		rootT := t
		for _, tt := range tops {
			if reg[tt.Full] == tt && (n == tt.Full || strings.HasPrefix(n, tt.Full+":")) {
				rootT = tt
			}
		}
		if ob.Errors[n] != cause[rootT] {
			fail("fails_independently", fmt.Sprintf("task %s: has errors=%v, but its context group has a failure cause=%v", n, ob.Errors[n], cause[rootT]))
		}
		anyErr = anyErr || ob.Errors[n]
	}
	if (ob.Mgr == "err") != anyErr {
		fail("manager_wait", fmt.Sprintf("TasksManager.Wait returned %s but some task has errors=%v", ob.Mgr, anyErr))
	}
	// the Wait that began while the bodies were still held: returns, not before the last command of
	// any task, and with an error exactly when some task failed
	switch ob.EarlyW {
	case "hang", "panic":
		fail("manager_wait", "a TasksManager.Wait begun while tasks were running: "+ob.EarlyW)
	case "returned":
		if wEv == nil {
			fail("harness_probe", "early Wait returned without a log entry")
			break
		}
		for _, e := range ob.Events {
			if e.Seq > wEv.Seq && (e.Kind == "B" || e.Kind == "E" || e.Kind == "SR") {
				uid, i := parseID(e.ID)
				fail("wait_covers_all", fmt.Sprintf("TasksManager.Wait returned (seq %d) while a task was still executing: event %s of command %d of %s at seq %d", wEv.Seq, e.Kind, i, uid, e.Seq))
				break
			}
		}
		if wEv.OK == anyErr {
			fail("manager_wait", fmt.Sprintf("TasksManager.Wait (begun while tasks were running) returned nil=%v but some task has errors=%v", wEv.OK, anyErr))
		}
	}
}

// ---------- Coq case

func c14coq(cs *c14case, tops []*gTask, names *nameTable) string {
	var tr []string
	byUID := map[string]string{}
	for _, t := range tops {
		t.walk(func(x *gTask) { byUID[x.UID] = x.Full })
	}
	parseID := func(id string) (string, int) {
		u, i := parseID(id)
		return byUID[u], i
	}
	for _, e := range cs.Obs.Events {
		switch e.Kind {
		case "S":
			var k int
			p := strings.Split(e.ID, ".")
			fmt.Sscanf(p[len(p)-1], "%d", &k)
			t := tops[k]
			acc := k < len(cs.Obs.Results) && cs.Obs.Results[k]
			tr = append(tr, fmt.Sprintf("TSubmit {| s_name := %d; s_waits := %s; s_body := %s |} %d %s",
				t.Num, coqNums(t.Waits, names), t.coqBody(names), t.Ctx, coqBool(acc)))
		case "B":
			full, i := parseID(e.ID)
			tr = append(tr, fmt.Sprintf("TB %d %s", names.num(full), coqNat(i)))
		case "E":
			full, i := parseID(e.ID)
			tr = append(tr, fmt.Sprintf("TE %d %s %s", names.num(full), coqNat(i), coqBool(e.OK)))
		case "SR":
			full, i := parseID(e.ID)
			tr = append(tr, fmt.Sprintf("TSR %d %s %s", names.num(full), coqNat(i), coqBool(e.OK)))
		}
	}
	var fin []string
	for _, n := range cs.Obs.Names {
		fin = append(fin, fmt.Sprintf("(%d, %s)", names.num(n), coqBool(cs.Obs.Errors[n])))
	}
	mgr := map[string]string{"ok": "MOk", "err": "MErr", "hang": "MHang", "panic": "MHang"}[cs.Obs.Mgr]
	return fmt.Sprintf("{| c_root := 1; c_trace := %s; c_final := %s; c_mgr := %s |}", coqList(tr), coqList(fin), mgr)
}

func runC14(o *Out, rng *RNG, tier string, replay string) {
	o.Imports = "From GC Require Import Common.Base Model.Runner Corr.RunnerAcc Corr.C14."
	o.CaseType = "case"
	o.CheckFn = "check"
	o.ShardSize = 60
	o.Rule = "generated task graphs: 2-7 top-level tasks (<= 10 tasks in all), wait lists = random subsets of earlier tasks plus (rarely) an unknown name, " +
		"the task itself, a later task; duplicate names; bodies of 1-4 probe commands (begin/end/gate/fail) with nested pip:run (depth <= 2, nested waits on siblings); " +
		"~25% of the tasks fail at a random command. Submitted through Runner.Run by one submitter goroutine concurrently with the running tasks, " +
		"every top-level task on its own isolated context (scope.NewChild + contextscope.NewIsolated). " +
		"35% of the top-level tasks are submitted through the real pip:run command (wait list and locks as --wait / --rlock / --wlock; termexec.RunString in a goroutine of its own), the others through Runner.Run; " +
		"nested pip:run down to depth 3 (names a:b:c, waits on siblings at every level); scripts are written with blank lines, whitespace-only lines, leading and trailing blanks; " +
		"in every second graph a TasksManager.Wait begins as soon as the submissions are in, while the gated bodies are still held (it must return after the last command of every task, with an error iff some task failed); " +
		"40 further graphs (oracles only) in which a failing command is a command name the terminal does not know or a line that cannot be parsed. Non-trivial: at least two tasks accepted and at least one probe event; distinct by graph+trace."
	pa, err := newPipApp()
	must(err)
	pa.registerTsub()
	n, extra := 200, 40
	if tier == "thorough" {
		n, extra = 5000, 1000
	}
	nMain := n // graphs nMain .. nMain+extra-1: failing commands may be unknown commands / unparsable lines (L2 only)
	n += extra
	only := -1
	if replay != "" {
		var rp struct {
			Case struct {
				Index int `json:"index"`
			} `json:"case"`
		}
		b, e := os.ReadFile(replay)
		must(e)
		must(json.Unmarshal(b, &rp))
		only = rp.Case.Index
		n = only + 1
	}
	seed := rng.Next()
	for idx := 0; idx < n; idx++ {
		crng := rng.Fork()
		if only >= 0 && idx != only {
			continue
		}
		names := &nameTable{m: map[string]int{}}
		g := &c14gen{rng: crng, names: names, pad: true, via: true, deep: 3, bad: idx >= nMain}
		tops := g.graph()
		epoch := fmt.Sprintf("g%d", idx)
		ob := runGraph(pa, crng, epoch, tops)
		cs := &c14case{Seed: seed, Index: idx, Graph: tops, Obs: ob}
		c14oracles(o, cs, tops)
		accepted := 0
		for _, r := range ob.Results {
			if r {
				accepted++
			}
		}
		key, _ := json.Marshal([]interface{}{tops, ob.Events})
		if hasBadKind(tops) {
			// a command that fails without entering a probe has no event the acceptor could replay: oracles only
			o.CountEval(string(key), accepted >= 2 && len(ob.Events) > accepted)
			o.Stat("graphs_with_unknown_command_l2_only")
		} else {
			o.AddCase(c14coq(cs, tops, names), cs, string(key), accepted >= 2 && len(ob.Events) > accepted)
		}
		if ob.EarlyW != "" {
			o.Stat("graphs_with_wait_begun_early")
		}
		// distribution
		o.Stat("graphs")
		o.Stat("mgr_" + ob.Mgr)
		if o.Stats["mgr_hang"] >= 3 {
			break // a hanging TasksManager.Wait is a definite failure; do not wait for more of them
		}
		if ob.MaxIn >= 2 {
			o.Stat("graphs_with_overlapping_commands")
		}
		for _, r := range ob.Results {
			if r {
				o.Stat("top_accepted")
			} else {
				o.Stat("top_rejected")
			}
		}
		nested, failing, withWaits := 0, 0, 0
		for _, t := range tops {
			if t.Via {
				o.Stat("top_via_pip_run_command")
			}
			t.walk(func(x *gTask) {
				if x != t {
					nested++
					if strings.Count(x.Full, ":") >= 2 {
						o.Stat("tasks_nested_twice")
					}
				}
				if len(x.Waits) > 0 {
					withWaits++
				}
				for _, c := range x.Body {
					if c.Kind == "fail" || c.Kind == "bad" || c.Kind == "badq" {
						failing++
					}
				}
			})
		}
		if nested > 0 {
			o.Stat("graphs_with_nested")
		}
		if failing > 0 {
			o.Stat("graphs_with_failing_task")
		}
		if withWaits > 0 {
			o.Stat("graphs_with_waits")
		}
		for _, e := range ob.Errors {
			if e {
				o.Stat("tasks_failed")
			} else {
				o.Stat("tasks_ok")
			}
		}
	}
	if o.Stats["graphs_with_overlapping_commands"] == 0 && only < 0 {
		o.Fail("harness_overlap", "no graph had two probe commands executing at the same time", "no-overlap", nil)
	}
	// locks and wait lists together (the order "wait for the prerequisites, THEN take the locks" is what
	// keeps a waiter from holding what its prerequisite needs): a few rounds of the runner-level probe
	// of C15, two of them with the critical order forced by an outside holder
	if replay == "" {
		c15RunnerProbe(o, rng.Fork(), 6)
		c14LateRegistrationProbe(o)
	}
}
