package main

// C04, one writer fed in more than one way: "opening a writer, writing ANY chunks and closing it
// leaves exactly the concatenation" also when the chunks arrive through different entry points of
// the handle - plain Write calls, io.Copy INTO the writer (which uses the handle's ReadFrom when it
// has one, e.g. the one *os.File lends to the disk handler) and io.WriteString (WriteString).  A
// handle that buffers one path and not the other stores the bytes out of order.

import (
	"bytes"
	"fmt"
	"io"
)

func c04MixedWriters(o *Out, rng *RNG) {
	for _, kind := range c04AllBackends {
		for round := 0; round < 6; round++ {
			in := c04New(kind, round)
			steps := 2 + rng.Intn(5)
			var want []byte
			var shape []string
			desc := map[string]interface{}{"op": "mixed-writer", "backend": kind}
			failed := ""
			func() {
				defer in.cleanup()
				defer func() {
					if r := recover(); r != nil {
						failed = fmt.Sprintf("panic: %v", r)
					}
				}()
				w, err := in.fs.Writer("mixed.bin")
				if err != nil {
					failed = "Writer: " + err.Error()
					return
				}
				for s := 0; s < steps && failed == ""; s++ {
					n := []int{0, 1, 7, 100, 5000, 40000}[rng.Intn(6)]
					chunk := c04Content(n, byte(17*s+round+1))
					switch how := rng.Intn(3); how {
					case 0:
						shape = append(shape, fmt.Sprintf("Write(%d)", n))
						if _, err := w.Write(chunk); err != nil {
							failed = "Write: " + err.Error()
						}
					case 1:
						shape = append(shape, fmt.Sprintf("io.Copy(%d)", n))
						if _, err := io.Copy(w, bytes.NewReader(chunk)); err != nil {
							failed = "io.Copy into the writer: " + err.Error()
						}
					default:
						shape = append(shape, fmt.Sprintf("io.WriteString(%d)", n))
						if _, err := io.WriteString(w, string(chunk)); err != nil {
							failed = "io.WriteString: " + err.Error()
						}
					}
					want = append(want, chunk...)
				}
				if err := w.Close(); err != nil && failed == "" {
					failed = "Close: " + err.Error()
				}
				if failed != "" {
					return
				}
				if in.cache != nil {
					if err := in.cache.Commit(); err != nil {
						failed = "Commit: " + err.Error()
						return
					}
				}
				got, err := in.fs.ReadFile("mixed.bin")
				if err != nil {
					failed = "ReadFile: " + err.Error()
				} else if !bytes.Equal(got, want) {
					at := 0
					for at < len(got) && at < len(want) && got[at] == want[at] {
						at++
					}
					failed = fmt.Sprintf("the file holds %d bytes, the chunks %d; first difference at offset %d", len(got), len(want), at)
				}
			}()
			desc["steps"] = shape
			if failed != "" {
				o.Fail("writer_exact", fmt.Sprintf("%s writer fed by %v: %s", kind, shape, failed), "mixed-writer:"+kind, desc)
			}
			o.Stat("mixed_writer_sessions")
			o.CountEval(fmt.Sprintf("mixed:%s:%d:%v", kind, round, shape), true)
		}
	}
}
