package main

// C11 — Scope close protocol: ordered events, commit xor rollback, waits for children.
//  (a) sequential histories over generated scope trees (depth <= 4, <= 8 scopes, shared and isolated
//      children) with listeners on all 11 events (some failing): L1 against the model (outputs, closer
//      status vector, done flags / error counts after every step, final error lists, the event log)
//      and L2 oracles evaluated directly on the log;
//  (b) a misuse stream (second Close, DoneTask without a task, signalling a closed scope, On after Close);
//  (c) concurrent runs (operations from 2..8 goroutines on one tree) checked by the L2 oracles only;
//  (d) c11_midcall.go: Kill / Stop / AppendError forced in BETWEEN two instructions of a NewChild /
//      AddTasks on a scope of the same context (40% of the histories without misuse, and a scripted
//      sweep): L1 = one of the two orders of the pair (Corr.C11.CRace11), L2 = the oracles of (a) with
//      the registration of such a child left open, plus "no call panics in a history without misuse".

import (
	"fmt"
	"runtime"
	"sync"
	"time"

	"github.com/goatcms/goatcore/app"
	"github.com/goatcms/goatcore/app/scope"
	"github.com/goatcms/goatcore/app/scope/contextscope"
)

func init() { runners["C11"] = runC11 }

func isCloseEv(ev int) bool { return ev >= evBCo }

const evTaskDone = -2 // log marker (not an event): written right before the DoneTask of a task accepted up front

var commitWord = []int{evBC, evBCo, evCo, evACo, evAC}
var rollbackWord = []int{evBC, evBR, evR, evAR, evAC}

func isSubseq(a, w []int) bool {
	j := 0
	for _, x := range a {
		for j < len(w) && w[j] != x {
			j++
		}
		if j == len(w) {
			return false
		}
		j++
	}
	return true
}

// l2Log evaluates the property oracles on an event log.  probes: listener ids of the never-failing
// listeners registered first on a root (one per event); rootOf: root of each scope's tree.
type l2in struct {
	log        []logEntry
	nScopes    int
	probeRoot  map[int]int // probe lid -> root scope
	rootOf     []int
	closers    []closerView
	regOn      []int
	createdAt  []int // number of closers started when the scope was created
	sequential bool
	failing    map[int]bool // listener ids that return an error
	preTasks   []int        // concurrent runs: tasks accepted before any Close was called; each leaves an evTaskDone marker
	strict     bool         // no misuse: DoneTask only for accepted tasks
}
type closerView struct {
	scope, status, errAfter int
	first                   bool
	startedBefore           int // index in the order of Close calls
	logLenAt, logLenAfter   int
	msg                     string
}

func l2Log(in l2in, fail func(oracle, what string)) {
	firstCloser := map[int]closerView{}
	for _, c := range in.closers {
		if c.first {
			firstCloser[c.scope] = c
		}
	}
	for s := 0; s < in.nScopes; s++ {
		perLid := map[int][]int{}
		var probeSeq []int
		var probeNErr []int
		var probeIdx []int
		for i, e := range in.log {
			if e.By != s || !isCloseEv(e.Ev) {
				continue
			}
			perLid[e.Lid] = append(perLid[e.Lid], e.Ev)
			if r, ok := in.probeRoot[e.Lid]; ok && r == in.rootOf[s] {
				probeSeq = append(probeSeq, e.Ev)
				probeNErr = append(probeNErr, e.NErr)
				probeIdx = append(probeIdx, i)
			}
		}
		for lid, seq := range perLid {
			if !isSubseq(seq, commitWord) && !isSubseq(seq, rollbackWord) {
				fail("event_grammar", fmt.Sprintf("scope %d listener %d saw %v: not a subsequence of BeforeClose (commit|rollback triple) AfterClose", s, lid, seq))
			}
		}
		c, closedOnce := firstCloser[s]
		if !closedOnce {
			if len(probeSeq) != 0 {
				fail("event_grammar", fmt.Sprintf("scope %d fired close events %v without Close", s, probeSeq))
			}
			continue
		}
		if c.status == 2 || c.status == 3 {
			if !sameInts(probeSeq, commitWord) && !sameInts(probeSeq, rollbackWord) {
				fail("event_grammar", fmt.Sprintf("scope %d closed: root probes saw %v, want the full commit or rollback word", s, probeSeq))
			}
			// errors never disappear: a scope that rolled back held an error when it decided, so its
			// Close reports one - under any schedule
			if c.status == 2 && sameInts(probeSeq, rollbackWord) {
				fail("result", fmt.Sprintf("scope %d fired the rollback triple, yet its Close returned nil", s))
			}
			if (c.status == 3) != (c.errAfter > 0) && in.sequential {
				fail("result", fmt.Sprintf("scope %d: Close returned error=%v with %d errors held", s, c.status == 3, c.errAfter))
			}
			if c.status == 3 && c.errAfter == 0 {
				fail("result", fmt.Sprintf("scope %d: Close returned an error but holds none", s))
			}
		} else if !isSubseq(probeSeq, commitWord) && !isSubseq(probeSeq, rollbackWord) {
			fail("event_grammar", fmt.Sprintf("scope %d: root probes saw %v", s, probeSeq))
		}
		decide := -1
		for k, ev := range probeSeq {
			if ev == evBCo || ev == evBR {
				decide = probeIdx[k]
				if ev == evBR && probeNErr[k] == 0 {
					fail("commit_xor_rollback", fmt.Sprintf("scope %d rolled back with an empty error list", s))
				}
				if ev == evBCo && probeNErr[k] != 0 && in.sequential {
					fail("commit_xor_rollback", fmt.Sprintf("scope %d committed with %d errors", s, probeNErr[k]))
				}
			}
		}
		if decide >= 0 && in.preTasks != nil && in.preTasks[s] > 0 {
			seen := 0
			for i, e := range in.log {
				if e.Ev == evTaskDone && e.By == s && i < decide {
					seen++
				}
			}
			if seen < in.preTasks[s] {
				fail("waits", fmt.Sprintf("scope %d passed its wait (log index %d) when only %d of the %d tasks accepted before its Close had reached their DoneTask", s, decide, seen, in.preTasks[s]))
			}
		}
		if decide >= 0 && in.strict {
			// every child registered before this Close was called has fired AfterClose earlier
			for ch := 0; ch < in.nScopes; ch++ {
				if in.regOn[ch] != s || in.createdAt[ch] > c.startedBefore {
					continue
				}
				ac := -1
				for i, e := range in.log {
					if e.By == ch && e.Ev == evAC {
						if _, ok := in.probeRoot[e.Lid]; ok {
							ac = i
							break
						}
					}
				}
				if ac < 0 || ac > decide {
					fail("waits", fmt.Sprintf("scope %d passed its wait (log index %d) before registered child %d fired AfterClose (index %d)", s, decide, ch, ac))
				}
			}
		}
	}
	// the first failing listener ends its Trigger: no later listener call of the same close event
	// fired by the same scope follows it
	for i, e := range in.log {
		if in.failing[e.Lid] && isCloseEv(e.Ev) && i+1 < len(in.log) {
			n := in.log[i+1]
			if n.Ev == e.Ev && n.By == e.By && in.sequential {
				fail("first_error_stops_trigger", fmt.Sprintf("listener %d failed on event %d fired by scope %d, yet listener %d was still called", e.Lid, e.Ev, e.By, n.Lid))
			}
		}
	}
	for _, c := range in.closers {
		if !c.first {
			if c.status != 4 {
				fail("double_close", fmt.Sprintf("second Close of scope %d did not panic (status %d)", c.scope, c.status))
			}
			if in.sequential && c.logLenAfter != c.logLenAt {
				fail("double_close", fmt.Sprintf("second Close of scope %d added %d events", c.scope, c.logLenAfter-c.logLenAt))
			}
		}
	}
}

func rootsOf(par []int) []int {
	r := make([]int, len(par))
	for i, p := range par {
		if p < 0 {
			r[i] = i
		} else {
			r[i] = r[p]
		}
	}
	return r
}

func l2Seq(o *Out, r seqResult, strict bool) {
	w := r.W
	in := l2in{log: r.Log, nScopes: len(w.scopes), probeRoot: map[int]int{}, rootOf: rootsOf(w.scopePar), regOn: w.regOn,
		createdAt: w.createdAt, sequential: true, strict: strict}
	// probes: the first 11 listeners registered on each root by the generator (never failing)
	seen := map[int]int{}
	in.failing = map[int]bool{}
	for _, p := range r.Hist {
		if p.K == "on" && p.Fail >= 0 {
			in.failing[p.Lid] = true
		}
		if p.K == "on" && w.scopePar[p.S] < 0 && p.Fail < 0 && seen[p.S] < 11 && p.Ev == seen[p.S] {
			in.probeRoot[p.Lid] = p.S
			seen[p.S]++
		}
	}
	for i, c := range w.closers {
		in.closers = append(in.closers, closerView{scope: c.scope, status: r.CStatus[i], errAfter: r.CErrAfter[i],
			first: c.first, startedBefore: i, logLenAt: c.logLenAt, logLenAfter: c.logLenAfter})
	}
	fail := func(oracle, what string) { o.Fail(oracle, what, oracle, r.desc()) }
	l2Log(in, fail)
	if strict {
		for _, v := range r.Violations {
			fail("waits", v)
		}
		// no misuse in the history (every DoneTask is for an accepted task, nothing is closed twice,
		// nothing signals a closed scope): then no call panics - in particular no counter goes negative
		for i, c := range w.closers {
			if c.first && r.CStatus[i] == 4 {
				fail("no_panic", fmt.Sprintf("the (only) Close of scope %d panicked", c.scope))
			}
		}
		for i, ob := range r.Obs {
			for _, m := range ob.Main {
				if m == "SPanic" {
					fail("no_panic", fmt.Sprintf("step %d (%s on scope %d) panicked", i, r.Hist[i].K, r.Hist[i].S))
				}
			}
		}
	}
	if r.Hang {
		fail("no_hang", "a Close that the bookkeeping says must return did not (or a watcher never acted)")
	}
}

// ---------- concurrent runs

type concOp struct {
	K  string
	S  int
	Es []int
}

func runC11Conc(o *Out, rng *RNG) {
	w := newWorld(false)
	// tree: built sequentially
	n := 2 + rng.Intn(6)
	lid := 0
	probe := map[int]int{}
	var setup []sop
	addRoot := func() {
		setup = append(setup, sop{K: "newroot"})
		w.apply(setup[len(setup)-1])
		r := len(w.scopes) - 1
		for ev := 0; ev <= 10; ev++ {
			lid++
			p := sop{K: "on", S: r, Ev: ev, Lid: lid, Fail: -1}
			probe[lid] = r
			w.apply(p)
			setup = append(setup, p)
		}
	}
	addRoot()
	for len(w.scopes) < n {
		if rng.Chance(10) {
			addRoot()
			continue
		}
		p := rng.Intn(len(w.scopes))
		if w.scopeDepth[p] >= 3 {
			continue
		}
		op := sop{K: "newchild", S: p, Iso: rng.Chance(35)}
		w.apply(op)
		setup = append(setup, op)
	}
	w.createdAt = make([]int, len(w.scopes))
	nl := rng.Intn(5)
	for i := 0; i < nl; i++ {
		lid++
		f := -1
		if rng.Chance(40) {
			f = 100 + lid
		}
		op := sop{K: "on", S: rng.Intn(len(w.scopes)), Ev: rng.Intn(11), Lid: lid, Fail: f}
		w.apply(op)
		setup = append(setup, op)
	}
	// programs
	g := 2 + rng.Intn(7)
	progs := make([][]concOp, g)
	// tasks accepted before anything runs; some program finishes each (a marker goes into the log
	// right before the DoneTask): the scope must not decide before the marker
	pre := make([]int, len(w.scopes))
	for k := rng.Intn(4); k > 0; k-- {
		s := rng.Intn(len(w.scopes))
		if w.scopes[s].AddTasks(1) == nil {
			pre[s]++
			gi := rng.Intn(g)
			progs[gi] = append(progs[gi], concOp{K: "pretask_done", S: s})
		}
	}
	for s := range w.scopes { // every scope is closed exactly once, by some goroutine
		gi := rng.Intn(g)
		progs[gi] = append(progs[gi], concOp{K: "close", S: s})
	}
	for gi := range progs {
		extra := rng.Intn(5)
		for k := 0; k < extra; k++ {
			s := rng.Intn(len(w.scopes))
			var op concOp
			switch x := rng.Intn(100); {
			case x < 35:
				op = concOp{K: "task", S: s}
			case x < 55:
				op = concOp{K: "apperr", S: s, Es: []int{1 + rng.Intn(50)}}
			case x < 65:
				op = concOp{K: "kill", S: s}
			case x < 75:
				op = concOp{K: "stop", S: s}
			case x < 88:
				op = concOp{K: "isdone", S: s}
			default:
				op = concOp{K: "err", S: s}
			}
			pos := rng.Intn(len(progs[gi]) + 1)
			progs[gi] = append(progs[gi][:pos], append([]concOp{op}, progs[gi][pos:]...)...)
		}
		// the tree also grows DURING the run: a child (shared or isolated context) is created on a scope
		// before the same program calls that scope's Close, while the other programs signal and close;
		// the program closes the child at its end
		if rng.Chance(50) {
			var cl []int
			for i, op := range progs[gi] {
				if op.K == "close" {
					cl = append(cl, i)
				}
			}
			if len(cl) > 0 {
				ci := cl[rng.Intn(len(cl))]
				op := concOp{K: "child", S: progs[gi][ci].S}
				if rng.Chance(35) {
					op.K = "child_iso"
				}
				pos := rng.Intn(ci + 1)
				progs[gi] = append(progs[gi][:pos], append([]concOp{op}, progs[gi][pos:]...)...)
			}
		}
	}
	start := make(chan struct{})
	var wg, cwg sync.WaitGroup
	var mu sync.Mutex
	var closers []closerView
	var dynPanics []string
	for gi := range progs {
		wg.Add(1)
		go func(prog []concOp) {
			defer wg.Done()
			<-start
			var pending []int
			var children []app.Scope
			dyn := func(what string, f func()) {
				defer func() {
					if r := recover(); r != nil {
						mu.Lock()
						dynPanics = append(dynPanics, fmt.Sprintf("%s: %.90v", what, r))
						mu.Unlock()
					}
				}()
				f()
			}
			for _, op := range prog {
				func() {
					defer func() { recover() }() // Kill/Stop/AppendError on a closed scope panic by design
					sc := w.scopes[op.S]
					switch op.K {
					case "close":
						cwg.Add(1)
						cs := op.S
						go func() {
							defer cwg.Done()
							cv := closerView{scope: cs, first: true, status: 4}
							func() {
								defer func() {
									if r := recover(); r != nil {
										m := fmt.Sprint(r)
										if len(m) > 90 {
											m = m[:90]
										}
										cv.msg = m
									}
								}()
								err := sc.Close()
								cv.errAfter = len(sc.Errors())
								if err != nil {
									cv.status = 3
								} else {
									cv.status = 2
								}
							}()
							mu.Lock()
							closers = append(closers, cv)
							mu.Unlock()
						}()
					case "pretask_done":
						w.record(evTaskDone, op.S, 0, -1)
						sc.DoneTask()
					case "child", "child_iso":
						dyn(fmt.Sprintf("NewChild on scope %d (its Close not yet called)", op.S), func() {
							cp := scope.ChildParams{}
							if op.K == "child_iso" {
								cp.ContextScope = contextscope.NewIsolated(sc)
							}
							children = append(children, scope.NewChild(sc, cp))
						})
					case "task":
						if sc.AddTasks(1) == nil {
							pending = append(pending, op.S)
						}
					case "apperr":
						sc.AppendError(toErrs(op.Es)...)
					case "kill":
						sc.Kill()
					case "stop":
						sc.Stop()
					case "isdone":
						sc.IsDone()
					case "err":
						_ = sc.Err()
					}
				}()
				runtime.Gosched()
			}
			for _, s := range pending {
				w.scopes[s].DoneTask()
			}
			for _, ch := range children {
				ch := ch
				dyn("Close of a child created during the run", func() { ch.Close() })
			}
		}(progs[gi])
	}
	close(start)
	fin := make(chan struct{})
	go func() { wg.Wait(); cwg.Wait(); close(fin) }()
	desc := map[string]interface{}{"setup": setup, "programs": progs}
	select {
	case <-fin:
	case <-time.After(10 * time.Second):
		o.Fail("no_hang", "concurrent run: some Close never returned although every task was done and every scope closed", "hang", desc)
		return
	}
	w.mu.Lock()
	log := append([]logEntry{}, w.log...)
	w.mu.Unlock()
	desc["log"] = log
	for _, m := range dynPanics {
		o.Fail("no_panic", "concurrent run: "+m, "dyn_child_panic", desc)
	}
	for i := range closers {
		if closers[i].status == 4 {
			o.Fail("no_panic", fmt.Sprintf("Close of scope %d panicked: %s", closers[i].scope, closers[i].msg), "close_panic", desc)
		}
		// errors can be appended after Close returned; only the implication that survives is checked
		closers[i].startedBefore = 1 << 30
	}
	in := l2in{log: log, nScopes: len(w.scopes), probeRoot: probe, rootOf: rootsOf(w.scopePar), regOn: w.regOn,
		createdAt: w.createdAt, closers: closers, sequential: false, strict: true, preTasks: pre}
	l2Log(in, func(oracle, what string) { o.Fail(oracle, "concurrent run: "+what, oracle, desc) })
	o.CountEval(fmt.Sprintf("conc:%v:%v", setup, progs), g >= 2 && len(w.scopes) >= 2)
	o.Stat("conc_runs")
	// release watchers
	for i, p := range w.ctxIso {
		if p < 0 {
			func() { defer func() { recover() }(); w.ctxs[i].Stop() }()
		}
	}
}

func runC11(o *Out, rng *RNG, tier string, replay string) {
	o.Imports = "From GC Require Import Common.Base Model.Scope Corr.C12 Corr.C11."
	o.CaseType = "Corr.C11.case"
	o.CheckFn = "Corr.C11.check"
	o.ShardSize = 100
	o.Rule = "sequential histories: 1-2 roots with 11 never-failing probe listeners each, then <= 30 random operations " +
		"(NewChild shared/isolated up to 8 scopes and depth 4, On with 25% failing listeners, AddTasks, DoneTask, AppendError, Kill, Stop, " +
		"Close in its own goroutine, IsDone, Err, Wait), optionally drained (all tasks done, every scope closed children first); a misuse " +
		"stream adds second Close / DoneTask without task / signalling or On on a closed scope. Non-trivial: at least one Close returned; " +
		"distinct by history. A third of the children are made by gio.NewChildIOContext and closed through IOContext.Close, a quarter of the " +
		"AddTasks calls carry a delta of 2-3 (emitted to Coq as single additions), 40% of the random listeners join an earlier listener's " +
		"(scope, event). Concurrent runs (2..8 goroutines, with tasks accepted before the start; half of the programs also create a child, shared " +
		"or isolated, on a scope they close later, and close it at their end) are checked by the L2 oracles only; " +
		"L2 families: wait-recheck, gio probe, Close racing Close on one scope, Close + Wait callers parked on one scope. " +
		"Mid-call end: in 40% of the histories without misuse every context is wrapped so that a Kill/Stop/AppendError (on the context or through " +
		"a scope sharing it) is issued at the k-th look (k <= 2, before or after it) that a NewChild / AddTasks takes at the parent's context; such a " +
		"pair has one observation and must equal one of its two orders in the model; 720 scripted histories sweep hook point x kind of end x what " +
		"else is registered on the parent (nothing, a task, a sibling child) x kind of parent and child; in histories without misuse no call may panic."
	thorough := tier == "thorough"
	if replay != "" {
		if r, ok := replayHistory(replay); ok {
			o.AddCase(c11Case(r), r.desc(), "replay", true)
			l2Seq(o, r, false)
		} else {
			fmt.Println("replay file holds a concurrent run: re-run the check with the same seed to repeat it")
		}
		return
	}
	_ = app.KillEvent
	_ = scope.New
	_ = contextscope.New

	nSeq := 1500
	if thorough {
		nSeq = 30000
	}
	hangs := 0
	for i := 0; i < nSeq; i++ {
		misuse := rng.Chance(20)
		race := !misuse && rng.Chance(40)
		r := runSeq(genNext(rng, genCfg{listeners: true, misuse: misuse, maxOps: 5 + rng.Intn(26), drain: rng.Chance(65), wide: true, race: race}, o), 600)
		if r.hasRace() {
			o.Stat("histories_with_midcall_end")
		}
		for _, p := range r.Hist {
			o.Stat("op_" + p.K)
			if p.End != nil {
				o.Stat("midcall_" + p.K + "_" + p.End.K)
				if p.Fired {
					o.Stat("midcall_reached_hook_point")
				}
			}
			if p.K == "newchild" && p.Iso {
				o.Stat("op_newchild_isolated")
			}
			if p.K == "newchild" && p.Via == 1 {
				o.Stat("op_newchild_gio")
			}
			if p.K == "add" && p.N > 1 {
				o.Stat("op_add_delta")
			}
			if p.K == "on" && p.Fail >= 0 {
				o.Stat("failing_listeners")
			}
		}
		if misuse {
			o.Stat("misuse_histories")
		}
		if r.Ended != "" {
			o.Stat("ended_" + r.Ended)
		}
		returned := 0
		for _, st := range r.CStatus {
			switch st {
			case 2:
				o.Stat("close_returned_nil")
				returned++
			case 3:
				o.Stat("close_returned_error")
				returned++
			case 4:
				o.Stat("close_panicked")
			case 1:
				o.Stat("close_left_blocked")
			}
		}
		l2Seq(o, r, !misuse)
		if r.Hang {
			hangs++
			if hangs >= 3 {
				break // already a violation; every further hang costs seconds
			}
			continue
		}
		o.AddCase(c11Case(r), r.desc(), "seq:"+r.key(), returned > 0)
	}
	c11MidCallSweep(o)

	nRecheck := 400
	if thorough {
		nRecheck = 6000
	}
	c11WaitRecheck(o, rng, nRecheck)
	scopeNestedIsolationProbe(o, "C11")

	c11GioProbe(o)
	nRace, nMulti := 600, 150
	if thorough {
		nRace, nMulti = 20000, 3000
	}
	c11CloseRace(o, rng, nRace)
	c11MultiWaiter(o, rng, nMulti)

	nConc := 1500
	if thorough {
		nConc = 40000
	}
	for i := 0; i < nConc; i++ {
		runC11Conc(o, rng)
	}
}
