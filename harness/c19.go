package main

// C19 — template providers: layered definitions, isolated views, cache-transparent.
//
// Generates file sets on a memfs (helpers/, layouts/<name>/, views/<name>/ by the packages' default
// patterns; nested and hidden directories, overlapping definition names, extensions of several
// shapes and look-alike file names, missing directories, bad and unreadable files, directories
// that can not be listed, bodies that call a function of the provider's FuncMap),
// runs request sequences (Base / Layout / View / Execute of an earlier result) on both providers,
// cached and uncached, and emits (a) Coq cases (file set + requests + observed answers) for the
// model comparison L1, (b) L2 oracles: reference built with the standard library directly,
// cached == uncached, isolation, twice, rendered marker == parsed body (validity of the
// define/override/clone abstraction), (c) concurrent first use in a child process.

import (
	"bytes"
	"encoding/json"
	"errors"
	"fmt"
	htemplate "html/template"
	"io"
	"os"
	"os/exec"
	"regexp"
	"sort"
	"strconv"
	"strings"
	ttemplate "text/template"
	"text/template/parse"
	"time"

	"github.com/goatcms/goatcore/filesystem"
	"github.com/goatcms/goatcore/filesystem/filespace/memfs"
	"github.com/goatcms/goatcore/goathtml"
	"github.com/goatcms/goatcore/goathtml/ghprovider"
	"github.com/goatcms/goatcore/goattext"
	"github.com/goatcms/goatcore/goattext/gtprovider"
)

func init() {
	runners["C19"] = runC19
	runners["C19child"] = runC19Child
}

const c19Root = "baseTemplate"

// ---------------------------------------------------------------- file sets

type c19Def struct {
	Name string `json:"n"`
	ID   int    `json:"id"`
	Fn   bool   `json:"fn,omitempty"` // the body calls the function "fn" of the provider's FuncMap (renders "")
}

type c19Node struct {
	Name     string     `json:"name"`
	IsDir    bool       `json:"dir,omitempty"`
	Children []*c19Node `json:"ch,omitempty"`
	// file: "", "empty", "syntax", "unreadable" (ReadFile reports an error; the content is well formed)
	// directory: "", "unlistable" (ReadDir reports an error)
	Bad  string   `json:"bad,omitempty"`
	Defs []c19Def `json:"defs,omitempty"`
	Pad  int      `json:"pad,omitempty"` // file: a template comment of this many bytes in front (large file)
}

type c19Dir struct {
	Name     string     `json:"name"`
	Children []*c19Node `json:"ch"`
	Bad      string     `json:"bad,omitempty"` // "", "unlistable"
}

type c19FS struct {
	Ext     string   `json:"ext"`
	Funcs   bool     `json:"funcs,omitempty"` // the provider is built with a FuncMap {"fn"}; bodies may call it
	Helpers *c19Dir  `json:"helpers"`         // nil: directory missing
	Layouts []c19Dir `json:"layouts"`
	Views   []c19Dir `json:"views"`
}

func (n *c19Node) content() string {
	switch n.Bad {
	case "empty":
		return ""
	case "syntax":
		return `{{define "a"}}M0{{end}}{{define`
	}
	var parts []string
	if n.Pad > 0 {
		// a comment leaves no trace in the parsed template; a reader that truncates the file does
		parts = append(parts, "{{/*"+strings.Repeat("p", n.Pad)+"*/}}")
	}
	for _, d := range n.Defs {
		body := "M" + strconv.Itoa(d.ID)
		if d.Fn {
			body += "{{fn}}"
		}
		if d.Name == c19Root {
			parts = append(parts, body)
		} else {
			parts = append(parts, fmt.Sprintf("{{define %q}}%s{{end}}", d.Name, body))
		}
	}
	if len(n.Defs) == 0 {
		parts = append(parts, "\n") // a file without definitions (not empty: an empty file is an error)
	}
	return strings.Join(parts, "")
}

// the FuncMap of a file set with Funcs: one function that renders nothing, so that a body
// "M7{{fn}}" still renders its marker - provided the provider registered the function before it
// parsed the file (otherwise the file does not parse at all).
func c19Fn() string { return "" }

var c19FnCall = regexp.MustCompile(`\{\{fn[^}]*\}\}`)

type c19Gen struct {
	rng      *RNG
	nextID   int
	ext      string
	errPct   int
	funcs    bool
	maxDepth int
}

var c19DefPool = []string{"a", "b", "c", "hdr", "ftr", c19Root, "x.y", "content"}

// names containing ':' exercise the views cache key: ("a:b","c") vs ("a","b:c")
var c19LayoutDirs = []string{"default", "main", "alt", "a", "a:b"}
var c19ViewDirs = []string{"v", "w", "u", "c", "b:c"}
var c19ReqLayouts = []string{"", "", "default", "main", "alt", "ghost", "a", "a:b"}
var c19ReqViews = []string{"v", "w", "u", "v", "w", "ghost", "c", "b:c"}

func (g *c19Gen) file(name string) *c19Node {
	n := &c19Node{Name: name}
	if g.rng.Chance(g.errPct) {
		switch g.rng.Intn(3) {
		case 0:
			n.Bad = "empty"
			return n
		case 1:
			n.Bad = "syntax"
			return n
		}
		n.Bad = "unreadable" // well-formed content that ReadFile refuses to hand out
	}
	if g.rng.Chance(1) {
		n.Pad = 70000 // larger than any usual buffer size
	}
	k := g.rng.Intn(4)
	used := map[string]bool{}
	for i := 0; i < k; i++ {
		nm := c19DefPool[g.rng.Intn(len(c19DefPool))]
		// a duplicate inside one file is a parse error: rare (top-level text would just concatenate)
		if used[nm] && (nm == c19Root || !g.rng.Chance(g.errPct)) {
			continue
		}
		used[nm] = true
		g.nextID++
		n.Defs = append(n.Defs, c19Def{Name: nm, ID: g.nextID, Fn: g.funcs && g.rng.Chance(35)})
	}
	return n
}

func (g *c19Gen) children(depth int) []*c19Node {
	k := g.rng.Intn(4)
	var out []*c19Node
	used := map[string]bool{}
	stems := []string{"a", "b", "z", "m", "k", ""}
	for i := 0; i < k; i++ {
		var n *c19Node
		r := g.rng.Intn(100)
		switch {
		case r < 62:
			n = g.file(stems[g.rng.Intn(len(stems))] + g.ext)
		case r < 78:
			// look-alikes of a template file name: the extension in the middle, without its first
			// character, alone, in the other case, followed by one more character
			bare := strings.TrimPrefix(g.ext, ".")
			alts := []string{"n.txt", "a" + g.ext + ".bak", "x" + bare, bare, "readme",
				c19SwapCase("a" + g.ext), "a" + g.ext + "x", "." + bare + "a"}
			n = g.file(alts[g.rng.Intn(len(alts))])
		default:
			if depth >= g.maxDepth {
				n = g.file("q" + g.ext)
			} else {
				dn := []string{"sub", "inc", "d" + g.ext, "0", ".d", ".hid" + g.ext, "..."}
				n = &c19Node{Name: dn[g.rng.Intn(len(dn))], IsDir: true, Children: g.children(depth + 1)}
				if g.rng.Chance(g.errPct / 3) {
					n.Bad = "unlistable"
				}
			}
		}
		if n.Name == "" { // (empty stem or look-alike with the empty extension)
			n.Name = "e"
		}
		if used[n.Name] {
			continue
		}
		used[n.Name] = true
		out = append(out, n)
	}
	return out
}

func c19SwapCase(s string) string {
	b := []byte(s)
	for i, c := range b {
		switch {
		case c >= 'a' && c <= 'z':
			b[i] = c - 32
		case c >= 'A' && c <= 'Z':
			b[i] = c + 32
		}
	}
	return string(b)
}

// extensions: the two documented ones and a short one (most file sets), and the shapes a careless
// test for "has the extension" gets wrong: two dots, no leading dot, upper case, and the empty
// extension (every file is a template file)
var c19ExtsUsual = []string{goathtml.FileExtension, goattext.FileExtension, ".t"}
var c19ExtsOdd = []string{".tpl.html", "html", "_t", ".T", ""}

func c19GenFS(rng *RNG, errPct int) *c19FS {
	g := &c19Gen{rng: rng, errPct: errPct, maxDepth: 2}
	if rng.Chance(72) {
		g.ext = c19ExtsUsual[rng.Intn(len(c19ExtsUsual))]
	} else {
		g.ext = c19ExtsOdd[rng.Intn(len(c19ExtsOdd))]
	}
	if rng.Chance(12) {
		g.maxDepth = 4
	}
	g.funcs = rng.Chance(25)
	fs := &c19FS{Ext: g.ext, Funcs: g.funcs}
	top := func(name string) c19Dir {
		d := c19Dir{Name: name, Children: g.children(0)}
		if rng.Chance(errPct / 4) {
			d.Bad = "unlistable"
		}
		return d
	}
	if !rng.Chance(12) {
		h := top("helpers")
		fs.Helpers = &h
	}
	for _, l := range c19LayoutDirs {
		if rng.Chance(72) {
			fs.Layouts = append(fs.Layouts, top(l))
		}
	}
	for _, v := range c19ViewDirs {
		if rng.Chance(75) {
			fs.Views = append(fs.Views, top(v))
		}
	}
	return fs
}

// c19Conf is how a provider is configured: the documented defaults of the two packages
// (goathtml/main.go, goattext/main.go). The file sets are laid out by the same patterns, so the
// check follows the constants and asks of them only what the property needs: different names
// give different directories, "" stands for the package's DefaultLayout.
type c19Conf struct{ helpers, layouts, views, deflt string }

func c19ConfOf(html bool) c19Conf {
	if html {
		return c19Conf{goathtml.HelpersPath, goathtml.LayoutPath, goathtml.ViewPath, goathtml.DefaultLayout}
	}
	return c19Conf{goattext.HelpersPath, goattext.LayoutPath, goattext.ViewPath, goattext.DefaultLayout}
}

func c19DirOf(pattern, name string) string {
	return strings.TrimRight(strings.Replace(pattern, "{name}", name, 1), "/")
}

// c19Canon: the path without empty segments (WalkFS asks for "helpers//a.t")
func c19Canon(p string) string {
	var seg []string
	for _, x := range strings.Split(p, "/") {
		if x != "" {
			seg = append(seg, x)
		}
	}
	return strings.Join(seg, "/")
}

// c19FaultFS is the file set with its permanent read failures: an unreadable file, a directory
// that can not be listed. Everything else is the memfs below.
type c19BaseFS = filesystem.Filespace

type c19FaultFS struct {
	c19BaseFS
	badFile map[string]bool
	badDir  map[string]bool
}

var errC19Injected = errors.New("injected: permission denied")

func (f *c19FaultFS) ReadFile(p string) ([]byte, error) {
	if f.badFile[c19Canon(p)] {
		return nil, errC19Injected
	}
	return f.c19BaseFS.ReadFile(p)
}

func (f *c19FaultFS) ReadDir(p string) ([]os.FileInfo, error) {
	if f.badDir[c19Canon(p)] {
		return nil, errC19Injected
	}
	return f.c19BaseFS.ReadDir(p)
}

func c19Write(fs filesystem.Filespace, ff *c19FaultFS, base string, ch []*c19Node) {
	must(fs.MkdirAll(base, 0o755))
	for _, n := range ch {
		p := base + "/" + n.Name
		if n.IsDir {
			c19Write(fs, ff, p, n.Children)
			if n.Bad == "unlistable" {
				ff.badDir[c19Canon(p)] = true
			}
		} else {
			must(fs.WriteFile(p, []byte(n.content()), 0o644))
			if n.Bad == "unreadable" {
				ff.badFile[c19Canon(p)] = true
			}
		}
	}
}

// mem lays the file set out on a fresh memfs by the patterns of the provider kind.
func (d *c19FS) mem(html bool) filesystem.Filespace {
	fs, err := memfs.NewFilespace()
	must(err)
	cf := c19ConfOf(html)
	ff := &c19FaultFS{c19BaseFS: fs, badFile: map[string]bool{}, badDir: map[string]bool{}}
	top := func(dir string, t *c19Dir) {
		c19Write(fs, ff, dir, t.Children)
		if t.Bad == "unlistable" {
			ff.badDir[c19Canon(dir)] = true
		}
	}
	if d.Helpers != nil {
		top(c19DirOf(cf.helpers, ""), d.Helpers)
	}
	// creation order of the layout/view directories themselves is irrelevant (looked up by name)
	for i := range d.Layouts {
		top(c19DirOf(cf.layouts, d.Layouts[i].Name), &d.Layouts[i])
	}
	for i := range d.Views {
		top(c19DirOf(cf.views, d.Views[i].Name), &d.Views[i])
	}
	if len(ff.badFile)+len(ff.badDir) == 0 {
		return fs
	}
	return ff
}

// c19Unlistable stands for a directory whose listing fails, at its position of the walk
var c19Unlistable = &c19Node{Bad: "unlistable"}

// files of a directory in walk order, only those with the extension (used by the reference); a
// directory that can not be listed is one entry (the walk fails there)
func c19Walk(ext string, ch []*c19Node, out *[]*c19Node) {
	for _, n := range ch {
		if n.IsDir {
			if n.Bad == "unlistable" {
				*out = append(*out, c19Unlistable)
				continue
			}
			c19Walk(ext, n.Children, out)
		} else if strings.HasSuffix(n.Name, ext) {
			*out = append(*out, n)
		}
	}
}

func c19WalkTop(ext string, d *c19Dir) (files []*c19Node) {
	if d == nil {
		return nil
	}
	if d.Bad == "unlistable" {
		return []*c19Node{c19Unlistable}
	}
	c19Walk(ext, d.Children, &files)
	return files
}

func (d *c19FS) dir(list []c19Dir, name string) *c19Dir {
	for i := range list {
		if list[i].Name == name {
			return &list[i]
		}
	}
	return nil
}

// ---- Coq rendering of a file set

// A directory that can not be listed is rendered for the model as a directory holding one
// template file that fails to load: the walk that reaches it reports an error in both.
func c19CoqUnlistable(ext string) string {
	return "[" + fmt.Sprintf("NFile %s None", coqStr("x"+ext)) + "]"
}

func c19CoqNodes(ext string, ch []*c19Node) string {
	items := make([]string, len(ch))
	for i, n := range ch {
		if n.IsDir && n.Bad == "unlistable" {
			items[i] = fmt.Sprintf("NDir %s %s", coqStr(n.Name), c19CoqUnlistable(ext))
		} else if n.IsDir {
			items[i] = fmt.Sprintf("NDir %s %s", coqStr(n.Name), c19CoqNodes(ext, n.Children))
		} else if n.Bad != "" {
			items[i] = fmt.Sprintf("NFile %s None", coqStr(n.Name))
		} else {
			ds := make([]string, len(n.Defs))
			for j, d := range n.Defs {
				ds[j] = fmt.Sprintf("(%s, %d)", coqStr(d.Name), d.ID)
			}
			items[i] = fmt.Sprintf("NFile %s (Some %s)", coqStr(n.Name), coqList(ds))
		}
	}
	return coqList(items)
}

func c19CoqTop(ext string, d *c19Dir) string {
	if d.Bad == "unlistable" {
		return c19CoqUnlistable(ext)
	}
	return c19CoqNodes(ext, d.Children)
}

func c19CoqDirs(ext string, l []c19Dir) string {
	items := make([]string, len(l))
	for i := range l {
		items[i] = fmt.Sprintf("(%s, %s)", coqStr(l[i].Name), c19CoqTop(ext, &l[i]))
	}
	return coqList(items)
}

func (d *c19FS) coq() string {
	h := "None"
	if d.Helpers != nil {
		h = "(Some " + c19CoqTop(d.Ext, d.Helpers) + ")"
	}
	return fmt.Sprintf("{| f_ext := %s; f_helpers := %s; f_layouts := %s; f_views := %s |}",
		coqStr(d.Ext), h, c19CoqDirs(d.Ext, d.Layouts), c19CoqDirs(d.Ext, d.Views))
}

// ---------------------------------------------------------------- requests and observables

type c19Req struct {
	Op string `json:"op"` // base | layout | view | exec
	L  string `json:"l,omitempty"`
	V  string `json:"v,omitempty"`
	R  int    `json:"r,omitempty"`
}

func (q c19Req) coq() string {
	switch q.Op {
	case "base":
		return "RBase"
	case "layout":
		return "RLayout " + coqStr(q.L)
	case "view":
		return fmt.Sprintf("RView %s %s", coqStr(q.L), coqStr(q.V))
	}
	return fmt.Sprintf("RExec %d%%nat", q.R)
}
func (q c19Req) ccoq() string {
	switch q.Op {
	case "base":
		return "CBase"
	case "layout":
		return "CLayout " + coqStr(q.L)
	}
	return fmt.Sprintf("CView %s %s", coqStr(q.L), coqStr(q.V))
}
func (q c19Req) key() string { return q.Op + "\x00" + q.L + "\x00" + q.V }

type c19Obs struct {
	Kind string            `json:"kind"` // tmpl | err | panic | skip | hang
	Map  map[string]string `json:"map,omitempty"`
}

func (a c19Obs) equal(b c19Obs) bool {
	if a.Kind != b.Kind || len(a.Map) != len(b.Map) { // kinds: tmpl, err, nil, panic, skip, hang
		return false
	}
	for k, v := range a.Map {
		if w, ok := b.Map[k]; !ok || w != v {
			return false
		}
	}
	return true
}

func c19MarkerID(s string) (int, bool) {
	if len(s) < 2 || s[0] != 'M' {
		return 0, false
	}
	n, err := strconv.Atoi(s[1:])
	if err != nil || n < 0 || strconv.Itoa(n) != s[1:] {
		return 0, false
	}
	return n, true
}

func (a c19Obs) coq() (string, bool) {
	switch a.Kind {
	case "tmpl":
		names := make([]string, 0, len(a.Map))
		for k := range a.Map {
			names = append(names, k)
		}
		sort.Strings(names)
		items := make([]string, len(names))
		ok := true
		for i, k := range names {
			id, good := c19MarkerID(a.Map[k])
			if !good {
				ok = false
			}
			items[i] = fmt.Sprintf("(%s, %d)", coqStr(k), id)
		}
		return "ITmpl " + coqList(items), ok
	case "err":
		return "IErr", true
	case "skip":
		return "ISkip", true
	}
	return "IPanic", true
}

// ---------------------------------------------------------------- the two providers behind one interface

type c19Tmpl interface{} // *htemplate.Template | *ttemplate.Template

type c19Provider interface {
	Base() (c19Tmpl, error)
	Layout(l string) (c19Tmpl, error)
	View(l, v string) (c19Tmpl, error)
}

type c19H struct{ p *ghprovider.Provider }
type c19T struct{ p *gtprovider.Provider }

// c19NilNoErr marks the answer (nil, nil): a "successful" nil template. It is an observable of
// its own (kind "nil"), distinct from an error and from a template.
type c19NilNoErr struct{}

func c19WrapH(t *htemplate.Template, err error) (c19Tmpl, error) {
	if err != nil {
		return nil, err
	}
	if t == nil {
		return c19NilNoErr{}, nil
	}
	return t, nil
}
func c19WrapT(t *ttemplate.Template, err error) (c19Tmpl, error) {
	if err != nil {
		return nil, err
	}
	if t == nil {
		return c19NilNoErr{}, nil
	}
	return t, nil
}
func (h c19H) Base() (c19Tmpl, error)            { return c19WrapH(h.p.Base()) }
func (h c19H) Layout(l string) (c19Tmpl, error)  { return c19WrapH(h.p.Layout(l)) }
func (h c19H) View(l, v string) (c19Tmpl, error) { return c19WrapH(h.p.View(l, v)) }
func (h c19T) Base() (c19Tmpl, error)            { return c19WrapT(h.p.Base()) }
func (h c19T) Layout(l string) (c19Tmpl, error)  { return c19WrapT(h.p.Layout(l)) }
func (h c19T) View(l, v string) (c19Tmpl, error) { return c19WrapT(h.p.View(l, v)) }

// c19NewProvider builds a provider over the file set laid out by d.mem(html): the documented
// default paths of its package, the extension and (for a file set with Funcs) the FuncMap.
func c19NewProvider(html bool, fs filesystem.Filespace, d *c19FS, cached bool) c19Provider {
	cf := c19ConfOf(html)
	if html {
		var fm htemplate.FuncMap
		if d.Funcs {
			fm = htemplate.FuncMap{"fn": c19Fn}
		}
		return c19H{ghprovider.NewProvider(fs, cf.helpers, cf.layouts, cf.views, d.Ext, fm, cached)}
	}
	var fm ttemplate.FuncMap
	if d.Funcs {
		fm = ttemplate.FuncMap{"fn": c19Fn}
	}
	return c19T{gtprovider.NewProvider(fs, cf.helpers, cf.layouts, cf.views, d.Ext, fm, cached)}
}

// the body as parsed, without the calls of "fn" (they render nothing; html/template rewrites them
// to "{{fn | _html_template_htmlescaper}}" when it escapes)
func c19TreeBody(tr *parse.Tree) (string, bool) {
	if tr == nil || tr.Root == nil || parse.IsEmptyTree(tr.Root) {
		return "", false
	}
	return c19FnCall.ReplaceAllString(tr.Root.String(), ""), true
}

// c19Defs reads the definitions off a template WITHOUT executing it (parsed bodies).
func c19Defs(t c19Tmpl) map[string]string {
	m := map[string]string{}
	switch x := t.(type) {
	case *htemplate.Template:
		for _, d := range x.Templates() {
			if b, ok := c19TreeBody(d.Tree); ok {
				m[d.Name()] = b
			}
		}
	case *ttemplate.Template:
		for _, d := range x.Templates() {
			if b, ok := c19TreeBody(d.Tree); ok {
				m[d.Name()] = b
			}
		}
	}
	return m
}

// c19Exec executes the template (what a caller does with it): the root first, then every
// defined name; returns name -> rendered text.
func c19Exec(t c19Tmpl) map[string]string {
	m := map[string]string{}
	names := c19Defs(t)
	switch x := t.(type) {
	case *htemplate.Template:
		x.Execute(io.Discard, nil)
		for n := range names {
			var b bytes.Buffer
			if err := x.ExecuteTemplate(&b, n, nil); err != nil {
				m[n] = "!error: " + err.Error()
			} else {
				m[n] = b.String()
			}
		}
	case *ttemplate.Template:
		x.Execute(io.Discard, nil)
		for n := range names {
			var b bytes.Buffer
			if err := x.ExecuteTemplate(&b, n, nil); err != nil {
				m[n] = "!error: " + err.Error()
			} else {
				m[n] = b.String()
			}
		}
	}
	return m
}

func c19Call(p c19Provider, q c19Req) (t c19Tmpl, o c19Obs) {
	defer func() {
		if r := recover(); r != nil {
			t, o = nil, c19Obs{Kind: "panic"}
		}
	}()
	var err error
	switch q.Op {
	case "base":
		t, err = p.Base()
	case "layout":
		t, err = p.Layout(q.L)
	case "view":
		t, err = p.View(q.L, q.V)
	}
	if err != nil {
		return nil, c19Obs{Kind: "err"}
	}
	if _, isNil := t.(c19NilNoErr); isNil {
		return nil, c19Obs{Kind: "nil"}
	}
	return t, c19Obs{Kind: "tmpl", Map: c19Defs(t)}
}

// c19CallRaw performs the provider call only (the stress loop looks at the templates afterwards).
func c19CallRaw(p c19Provider, q c19Req) (t c19Tmpl, class string) {
	defer func() {
		if r := recover(); r != nil {
			t, class = nil, "panic"
		}
	}()
	var err error
	switch q.Op {
	case "base":
		t, err = p.Base()
	case "layout":
		t, err = p.Layout(q.L)
	case "view":
		t, err = p.View(q.L, q.V)
	}
	if err != nil {
		return nil, "err"
	}
	if _, isNil := t.(c19NilNoErr); isNil {
		return nil, "nil"
	}
	return t, "tmpl"
}

// c19Render is what a caller does with a template it was handed, without looking inside: it
// executes the names it knows of; a name that is not defined (or has no body) reports an error
// and is left out.
func c19Render(t c19Tmpl) (m map[string]string) {
	defer func() {
		if r := recover(); r != nil {
			m = map[string]string{"!panic": fmt.Sprint(r)}
		}
	}()
	m = map[string]string{}
	for _, n := range c19DefPool {
		var b bytes.Buffer
		var err error
		switch x := t.(type) {
		case *htemplate.Template:
			err = x.ExecuteTemplate(&b, n, nil)
		case *ttemplate.Template:
			err = x.ExecuteTemplate(&b, n, nil)
		}
		if err == nil {
			m[n] = b.String()
		}
	}
	return m
}

// c19Hangs counts the sequences that did not return. Each costs its whole timeout, so the run
// reports the first few and stops generating (a provider that blocks is reported, the harness
// does not run into its own time limit).
var c19Hangs int

type c19SeqResult struct {
	Obs     []c19Obs
	AbsFail string // rendered text differs from the parsed body somewhere
}

// run one request sequence on a fresh provider; a stuck provider is reported as "hang".
func c19RunSeq(html, cached bool, d *c19FS, reqs []c19Req) c19SeqResult {
	done := make(chan c19SeqResult, 1)
	go func() {
		var res c19SeqResult
		p := c19NewProvider(html, d.mem(html), d, cached)
		tm := make([]c19Tmpl, 0, len(reqs))
		checkExec := func(t c19Tmpl, where string) (o c19Obs) {
			defer func() {
				if r := recover(); r != nil {
					o = c19Obs{Kind: "panic"}
				}
			}()
			parsed := c19Defs(t)
			rendered := c19Exec(t)
			for n, b := range parsed {
				if rendered[n] != b && res.AbsFail == "" {
					res.AbsFail = fmt.Sprintf("%s: definition %q parsed as %q renders %q", where, n, b, rendered[n])
				}
			}
			return c19Obs{Kind: "tmpl", Map: rendered}
		}
		for i, q := range reqs {
			if q.Op == "exec" {
				if q.R < len(tm) && tm[q.R] != nil {
					res.Obs = append(res.Obs, checkExec(tm[q.R], fmt.Sprintf("request %d", i)))
					tm = append(tm, tm[q.R])
				} else {
					res.Obs = append(res.Obs, c19Obs{Kind: "skip"})
					tm = append(tm, nil)
				}
				continue
			}
			t, o := c19Call(p, q)
			tm = append(tm, t)
			res.Obs = append(res.Obs, o)
		}
		// after the sequence: every handed-out template is executed for real (nothing follows,
		// so this cannot influence an answer); rendered text must equal the parsed bodies.
		for i, t := range tm {
			if t != nil {
				if o := checkExec(t, fmt.Sprintf("final execution of result %d", i)); o.Kind == "panic" && res.AbsFail == "" {
					res.AbsFail = fmt.Sprintf("executing result %d panicked", i)
				}
			}
		}
		done <- res
	}()
	select {
	case r := <-done:
		return r
	case <-time.After(15 * time.Second):
		obs := make([]c19Obs, len(reqs))
		for i := range obs {
			obs[i] = c19Obs{Kind: "hang"}
		}
		return c19SeqResult{Obs: obs}
	}
}

// ---------------------------------------------------------------- reference built with the standard library

type c19RefT interface {
	parse(text string) error
	clone() (c19RefT, error)
	tmpl() c19Tmpl
}
type c19RefH struct{ t *htemplate.Template }
type c19RefX struct{ t *ttemplate.Template }

func (r c19RefH) parse(s string) error { _, err := r.t.Parse(s); return err }
func (r c19RefH) clone() (c19RefT, error) {
	c, err := r.t.Clone()
	return c19RefH{c}, err
}
func (r c19RefH) tmpl() c19Tmpl        { return r.t }
func (r c19RefX) parse(s string) error { _, err := r.t.Parse(s); return err }
func (r c19RefX) clone() (c19RefT, error) {
	c, err := r.t.Clone()
	return c19RefX{c}, err
}
func (r c19RefX) tmpl() c19Tmpl { return r.t }

func c19RefLoad(t c19RefT, ext string, dir *c19Dir) error {
	for _, f := range c19WalkTop(ext, dir) {
		if f.Bad == "unreadable" || f.Bad == "unlistable" {
			return errC19Injected
		}
		s := f.content()
		if s == "" {
			return fmt.Errorf("empty file")
		}
		if err := t.parse(s); err != nil {
			return err
		}
	}
	return nil
}

// c19Ref answers a non-exec request from scratch: parse helpers, clone, parse layout, clone, parse view.
func c19Ref(html bool, d *c19FS, q c19Req) c19Obs {
	var t c19RefT
	if html {
		r := htemplate.New(c19Root)
		if d.Funcs {
			r.Funcs(htemplate.FuncMap{"fn": c19Fn})
		}
		t = c19RefH{r}
	} else {
		r := ttemplate.New(c19Root)
		if d.Funcs {
			r.Funcs(ttemplate.FuncMap{"fn": c19Fn})
		}
		t = c19RefX{r}
	}
	errObs := c19Obs{Kind: "err"}
	if err := c19RefLoad(t, d.Ext, d.Helpers); err != nil {
		return errObs
	}
	if q.Op != "base" {
		l := q.L
		if l == "" {
			l = c19ConfOf(html).deflt // "" stands for the package's default layout
		}
		if q.Op == "view" && q.V == "" {
			return errObs
		}
		var err error
		if t, err = t.clone(); err != nil {
			return errObs
		}
		if err = c19RefLoad(t, d.Ext, d.dir(d.Layouts, l)); err != nil {
			return errObs
		}
		if q.Op == "view" {
			if t, err = t.clone(); err != nil {
				return errObs
			}
			if err = c19RefLoad(t, d.Ext, d.dir(d.Views, q.V)); err != nil {
				return errObs
			}
		}
	}
	return c19Obs{Kind: "tmpl", Map: c19Exec(t.tmpl())}
}

// names that occur (textually, in files with the extension) only below views/<v>
func (d *c19FS) onlyIn() map[string]map[string]bool {
	where := map[string]map[string]bool{}
	add := func(tag string, dir *c19Dir) {
		for _, f := range c19WalkTop(d.Ext, dir) {
			for _, df := range f.Defs {
				if where[df.Name] == nil {
					where[df.Name] = map[string]bool{}
				}
				where[df.Name][tag] = true
			}
		}
	}
	add("H", d.Helpers)
	for i := range d.Layouts {
		add("L:"+d.Layouts[i].Name, &d.Layouts[i])
	}
	for i := range d.Views {
		add("V:"+d.Views[i].Name, &d.Views[i])
	}
	out := map[string]map[string]bool{}
	for n, w := range where {
		if len(w) == 1 {
			for tag := range w {
				if strings.HasPrefix(tag, "V:") {
					v := tag[2:]
					if out[v] == nil {
						out[v] = map[string]bool{}
					}
					out[v][n] = true
				}
			}
		}
	}
	return out
}

// ---------------------------------------------------------------- request sequences

func c19GenReq(rng *RNG, n int) c19Req {
	switch r := rng.Intn(100); {
	case r < 14:
		return c19Req{Op: "base"}
	case r < 38:
		return c19Req{Op: "layout", L: c19ReqLayouts[rng.Intn(len(c19ReqLayouts))]}
	case r < 78 || n == 0:
		v := c19ReqViews[rng.Intn(len(c19ReqViews))]
		if rng.Chance(3) {
			v = ""
		}
		return c19Req{Op: "view", L: c19ReqLayouts[rng.Intn(len(c19ReqLayouts))], V: v}
	default:
		k := rng.Intn(n)
		if rng.Chance(5) {
			k = n + rng.Intn(2) // not an earlier result
		}
		return c19Req{Op: "exec", R: k}
	}
}

func c19GenSeq(rng *RNG) []c19Req {
	l := c19ReqLayouts[rng.Intn(len(c19ReqLayouts))]
	v := c19ReqViews[rng.Intn(len(c19ReqViews))]
	switch rng.Intn(14) {
	case 7: // a result of the SECOND (answered from the cache) request is rendered, then a view is built on that layout
		v2 := c19ReqViews[rng.Intn(len(c19ReqViews))]
		return []c19Req{{Op: "layout", L: l}, {Op: "layout", L: l}, {Op: "exec", R: 1}, {Op: "view", L: l, V: v}, {Op: "view", L: l, V: v2}, {Op: "layout", L: l}}
	case 8: // the same for the base: second answer rendered, then a layout and a view on top of it
		return []c19Req{{Op: "base"}, {Op: "base"}, {Op: "exec", R: 1}, {Op: "layout", L: l}, {Op: "view", L: l, V: v}, {Op: "base"}}
	case 9: // a view answered from the cache is rendered; its layout, another view of it and the base follow
		v2 := c19ReqViews[rng.Intn(len(c19ReqViews))]
		return []c19Req{{Op: "view", L: l, V: v}, {Op: "view", L: l, V: v}, {Op: "exec", R: 1}, {Op: "layout", L: l}, {Op: "exec", R: 3}, {Op: "view", L: l, V: v2}, {Op: "base"}}
	case 5: // the same view three times (the answers must agree, errors included), then its layout twice
		return []c19Req{{Op: "view", L: l, V: v}, {Op: "view", L: l, V: v}, {Op: "view", L: l, V: v}, {Op: "layout", L: l}, {Op: "layout", L: l}}
	case 6:
		return []c19Req{{Op: "layout", L: l}, {Op: "layout", L: l}, {Op: "base"}, {Op: "base"}, {Op: "view", L: l, V: v}}
	case 4: // two (layout, view) pairs whose concatenation with ':' coincides
		if rng.Bool() {
			return []c19Req{{Op: "view", L: "a:b", V: "c"}, {Op: "view", L: "a", V: "b:c"}, {Op: "exec", R: 0}, {Op: "view", L: "a:b", V: "c"}}
		}
		return []c19Req{{Op: "view", L: "a", V: "b:c"}, {Op: "view", L: "a:b", V: "c"}, {Op: "view", L: l, V: v}}
	case 0: // the caller renders the layout, then asks for a view of it
		return []c19Req{{Op: "layout", L: l}, {Op: "exec", R: 0}, {Op: "view", L: l, V: v}, {Op: "layout", L: l}}
	case 1:
		return []c19Req{{Op: "base"}, {Op: "exec", R: 0}, {Op: "layout", L: l}, {Op: "exec", R: 2}, {Op: "view", L: l, V: v}}
	case 2: // two views of one layout, then the first again
		v2 := c19ReqViews[rng.Intn(len(c19ReqViews))]
		return []c19Req{{Op: "view", L: l, V: v}, {Op: "exec", R: 0}, {Op: "view", L: l, V: v2}, {Op: "view", L: l, V: v}, {Op: "layout", L: l}}
	case 3: // one view under two layouts
		l2 := c19ReqLayouts[rng.Intn(len(c19ReqLayouts))]
		return []c19Req{{Op: "view", L: l, V: v}, {Op: "view", L: l2, V: v}, {Op: "exec", R: 1}, {Op: "view", L: l, V: v}}
	}
	n := 1 + rng.Intn(5)
	seq := make([]c19Req, 0, n)
	for i := 0; i < n; i++ {
		if i > 0 && rng.Chance(35) { // ask again (also after an error)
			if prev := seq[rng.Intn(i)]; prev.Op != "exec" {
				seq = append(seq, prev)
				continue
			}
		}
		seq = append(seq, c19GenReq(rng, i))
	}
	return seq
}

func c19ReqsCoq(reqs []c19Req) string {
	items := make([]string, len(reqs))
	for i, q := range reqs {
		items[i] = q.coq()
	}
	return coqList(items)
}

func c19ObsCoq(obs []c19Obs) (string, bool) {
	items := make([]string, len(obs))
	ok := true
	for i, a := range obs {
		var g bool
		items[i], g = a.coq()
		ok = ok && g
	}
	return coqList(items), ok
}

func c19KindName(html bool) string {
	if html {
		return "html"
	}
	return "text"
}

// evaluate one sequence on one provider kind: both caching modes, all oracles; returns the Coq runs
func c19EvalSeq(o *Out, d *c19FS, html bool, reqs []c19Req, only map[string]map[string]bool) (runs []string, sawDefs bool) {
	desc := func(extra string) map[string]interface{} {
		return map[string]interface{}{"op": "seq", "provider": c19KindName(html), "fs": d, "reqs": reqs, "note": extra}
	}
	var res [2]c19SeqResult
	for ci, cached := range []bool{false, true} {
		r := c19RunSeq(html, cached, d, reqs)
		res[ci] = r
		mode := "uncached"
		if cached {
			mode = "cached"
		}
		if r.AbsFail != "" {
			o.Fail("abstraction", mode+" "+c19KindName(html)+": "+r.AbsFail, "abstraction", desc(mode))
		}
		// reference + isolation + twice
		ref := make([]c19Obs, len(reqs))
		for i, q := range reqs {
			ob := r.Obs[i]
			o.Stat("req_" + q.Op)
			o.Stat("res_" + ob.Kind)
			switch ob.Kind {
			case "panic":
				o.Fail("no_panic", fmt.Sprintf("%s %s provider: request %d %+v panicked", mode, c19KindName(html), i, q), "panic", desc(mode))
			case "nil":
				o.Fail("no_nil_template", fmt.Sprintf("%s %s provider: request %d %+v returned (nil, nil): a nil template without an error", mode, c19KindName(html), i, q), "nil", desc(mode))
			case "hang":
				if i == 0 {
					c19Hangs++
					o.Fail("no_hang", fmt.Sprintf("%s %s provider: sequence did not return", mode, c19KindName(html)), "hang", desc(mode))
				}
			}
			if q.Op == "exec" {
				if q.R < i && ref[q.R].Kind == "tmpl" {
					ref[i] = ref[q.R]
				} else {
					ref[i] = c19Obs{Kind: "skip"}
				}
			} else {
				ref[i] = c19Ref(html, d, q)
			}
			if !ob.equal(ref[i]) {
				o.Fail("layers_reference", fmt.Sprintf("%s %s provider, request %d %+v: got %s %v, the reference built with the standard library gives %s %v",
					mode, c19KindName(html), i, q, ob.Kind, ob.Map, ref[i].Kind, ref[i].Map), "reference", desc(mode))
			}
			if ob.Kind == "tmpl" && len(ob.Map) > 0 {
				sawDefs = true
			}
			if ob.Kind == "tmpl" && q.Op != "exec" {
				self := ""
				if q.Op == "view" {
					self = q.V
				}
				for v1, names := range only {
					if v1 == self {
						continue
					}
					for n := range names {
						if _, there := ob.Map[n]; there {
							o.Fail("isolation", fmt.Sprintf("%s %s provider, request %d %+v: definition %q occurs only in views/%s but is visible",
								mode, c19KindName(html), i, q, n, v1), "isolation", desc(mode))
						}
					}
				}
			}
			for j := 0; j < i; j++ {
				if reqs[j].Op != "exec" && reqs[j] == q && !r.Obs[j].equal(ob) {
					o.Fail("twice", fmt.Sprintf("%s %s provider: requests %d and %d are both %+v but the answers differ: %s %v / %s %v",
						mode, c19KindName(html), j, i, q, r.Obs[j].Kind, r.Obs[j].Map, ob.Kind, ob.Map), "twice", desc(mode))
				}
			}
		}
		term, ok := c19ObsCoq(r.Obs)
		if !ok {
			o.Fail("abstraction", "a body is not a generated marker", "abstraction", desc(mode))
		}
		runs = append(runs, fmt.Sprintf("(%s, %s, %s, %s)", coqBool(html), coqBool(cached), c19ReqsCoq(reqs), term))
	}
	for i := range reqs {
		if !res[0].Obs[i].equal(res[1].Obs[i]) {
			o.Fail("cache_transparent", fmt.Sprintf("%s provider, request %d %+v: uncached %s %v, cached %s %v", c19KindName(html), i, reqs[i],
				res[0].Obs[i].Kind, res[0].Obs[i].Map, res[1].Obs[i].Kind, res[1].Obs[i].Map), "cache", desc("cached vs uncached"))
			break
		}
	}
	return runs, sawDefs
}

func (d *c19FS) stats(o *Out) {
	if d.Helpers == nil {
		o.Stat("fs_helpers_missing")
	}
	if len(d.Layouts) < len(c19LayoutDirs) {
		o.Stat("fs_some_layout_missing")
	}
	if len(d.Views) < len(c19ViewDirs) {
		o.Stat("fs_some_view_missing")
	}
	nested, bad, nonext, dup := false, false, false, false
	o.Stat("fs_ext_" + d.Ext)
	if d.Funcs {
		o.Stat("fs_funcs")
	}
	deep, unreadable, unlistable, hidden, fncall, big := false, false, false, false, false, false
	for _, t := range append(append([]c19Dir{}, d.Layouts...), d.Views...) {
		unlistable = unlistable || t.Bad != ""
	}
	if d.Helpers != nil && d.Helpers.Bad != "" {
		unlistable = true
	}
	var rec func(ch []*c19Node, depth int)
	rec = func(ch []*c19Node, depth int) {
		for _, n := range ch {
			if n.IsDir {
				unlistable = unlistable || n.Bad != ""
				hidden = hidden || strings.HasPrefix(n.Name, ".")
				rec(n.Children, depth+1)
				continue
			}
			if depth > 0 {
				nested = true
			}
			deep = deep || depth > 2
			big = big || n.Pad > 0
			if n.Bad == "unreadable" {
				unreadable = true
			} else if n.Bad != "" {
				bad = true
			}
			for _, df := range n.Defs {
				fncall = fncall || df.Fn
			}
			if !strings.HasSuffix(n.Name, d.Ext) {
				nonext = true
			}
			seen := map[string]bool{}
			for _, df := range n.Defs {
				if seen[df.Name] {
					dup = true
				}
				seen[df.Name] = true
			}
		}
	}
	if d.Helpers != nil {
		rec(d.Helpers.Children, 0)
	}
	for _, l := range d.Layouts {
		rec(l.Children, 0)
	}
	for _, v := range d.Views {
		rec(v.Children, 0)
	}
	if nested {
		o.Stat("fs_nested_file")
	}
	if bad {
		o.Stat("fs_bad_file")
	}
	if nonext {
		o.Stat("fs_other_extension")
	}
	if dup {
		o.Stat("fs_duplicate_in_file")
	}
	for k, v := range map[string]bool{"fs_depth_3plus": deep, "fs_unreadable_file": unreadable, "fs_unlistable_dir": unlistable,
		"fs_hidden_dir": hidden, "fs_body_calls_func": fncall, "fs_large_file": big} {
		if v {
			o.Stat(k)
		}
	}
}

// ---------------------------------------------------------------- main runner

func runC19(o *Out, rng *RNG, tier string, replay string) {
	o.Imports = "From GC Require Import Common.Base Model.Tmpl Corr.C19."
	o.CaseType = "case"
	o.CheckFn = "check"
	o.ShardSize = 60
	o.Rule = "file sets laid out on a memfs by the packages' default path patterns (goathtml/goattext HelpersPath, LayoutPath, ViewPath): " +
		"helpers, layouts {default,main,alt,a,a:b}, views {v,w,u,c,b:c} with 0-3 entries per directory (files with and without the " +
		"extension and look-alikes of it: in the middle, without its first character, other case, one character more; nested directories " +
		"up to depth 2, in 12% of the sets up to 4, hidden ones included; definition names from a pool of 8 so that layers overlap; a missing " +
		"directory with probability 12-28%); extension from {.gohtml,.gotext,.t} (72%) or {.tpl.html, html, _t, .T, \"\"}; 25% of the sets " +
		"with a FuncMap whose function the bodies call; 1% large files (70 kB); empty/malformed/duplicate-definition/unreadable files and " +
		"directories that can not be listed (1% of files, 12% in every third file set); every body a unique marker; per file set 5 request " +
		"sequences (<= 7 requests over Base/Layout/View/Execute of an earlier result; the same request repeated 2-3 times, also after an " +
		"error; an answer from the cache rendered before a dependent template is built; layout/view names include \"\", missing ones) " +
		"x {html,text} x {uncached,cached}; plus all pairs of 23 x 19 look-alike layout/view names, twice; plus concurrent first use " +
		"(child process, 16 goroutines per round, 30% of the answers rendered on the spot). Non-trivial: some answer is a template with at " +
		"least one definition; distinct by file set."

	if replay != "" {
		c19Replay(o, replay)
		return
	}

	nSets, nSeq, rounds := 400, 5, 600
	coqSets := nSets
	if tier == "thorough" {
		nSets, rounds = 10000, 3000
		coqSets = 6000
	}
	for s := 0; s < nSets && c19Hangs < 3; s++ {
		errPct := 1
		if s%3 == 2 {
			errPct = 12 // the malformed stream: empty files, broken syntax, duplicate definitions
		}
		d := c19GenFS(rng, errPct)
		d.stats(o)
		only := d.onlyIn()
		if len(only) > 0 {
			o.Stat("fs_has_view_only_name")
		}
		var runs []string
		var seqs [][]c19Req
		saw := false
		for k := 0; k < nSeq; k++ {
			reqs := c19GenSeq(rng)
			seqs = append(seqs, reqs)
			for _, html := range []bool{true, false} {
				if c19Hangs >= 3 {
					break
				}
				r, sd := c19EvalSeq(o, d, html, reqs, only)
				runs = append(runs, r...)
				saw = saw || sd
			}
		}
		fsTerm := d.coq()
		desc := map[string]interface{}{"op": "set", "fs": d, "seqs": seqs}
		if s < coqSets {
			o.AddCase(fmt.Sprintf("CSet %s %s", fsTerm, coqList(runs)), desc, fsTerm, saw)
		} else {
			o.CountEval(fsTerm, saw)
		}
	}
	o.Extra["file_sets"] = nSets
	o.Extra["file_sets_evaluated_in_coq"] = coqSets
	o.Extra["runs_per_file_set"] = nSeq * 4
	if c19Hangs > 0 {
		return // reported; the remaining stages would only wait for the same provider again
	}

	// the key collision of the views cache repaired in 7035bfe (C19_keycollision_refuted is the
	// machine-checked witness for the old key), deterministically
	c19KeyCollision(o)

	// look-alike layout and view names, all pairs
	c19NameProbe(o, rng)

	// concurrent first use in a child process (a Go "concurrent map read and map write" is fatal)
	c19Concurrent(o, rng.Next()%1000000, rounds)
}

// the pair of requests whose old cache keys (layout + ":" + view) coincide, on a fixed file set
func c19KeyCollision(o *Out) {
	d := &c19FS{Ext: ".t", Views: []c19Dir{
		{Name: "c", Children: []*c19Node{{Name: "f.t", Defs: []c19Def{{Name: "a", ID: 1}}}}},
		{Name: "b:c", Children: []*c19Node{{Name: "f.t", Defs: []c19Def{{Name: "a", ID: 2}}}}},
	}}
	reqs := []c19Req{{Op: "view", L: "a:b", V: "c"}, {Op: "view", L: "a", V: "b:c"}}
	var runs []string
	for _, html := range []bool{true, false} {
		r, _ := c19EvalSeq(o, d, html, reqs, d.onlyIn())
		runs = append(runs, r...)
	}
	t := d.coq()
	o.AddCase(fmt.Sprintf("CSet %s %s", t, coqList(runs)), map[string]interface{}{"op": "set", "fs": d, "seqs": [][]c19Req{reqs}}, "keycollision:"+t, true)
}

// Names that a careless cache key or path construction folds onto one another: other case,
// blanks and dots at either end, ':' at every position, digits and a ten-byte name (a key made of
// the length and the names without separators), the pattern's own placeholder, a NUL, bytes that
// are not UTF-8. All are single path segments.
var c19ProbeLayouts = []string{"a", "A", "a ", " a", "a.", ".a", "a:b", "a:", ":", "0", "1", "10", ":aaaaaaaaa",
	"default", "Default", "default ", "{name}", "a\x00b", "\xc3\xa4", "\xff\xfe", "a\tb"}
var c19ProbeViews = []string{"c", "C", "c ", " c", "c.", ".c", "b:c", ":c", "aaaaaaaaa:c", ":aaaaaaaaac", "0",
	"{name}", "a", "default", "c\x00", "\xc3\xa9", "\xfe"}

func init() {
	// two long names that differ in their last byte only
	long := strings.Repeat("n", 300)
	c19ProbeLayouts = append(c19ProbeLayouts, long+"1", long+"2")
	c19ProbeViews = append(c19ProbeViews, long+"1", long+"2")
}

// c19NameProbe: every layout and every view has its own directory with definitions of its own
// (and one name, "x", that every layer overrides). Every (layout, view) pair is requested, then
// every layout, then every pair again in another order; two different pairs that a provider
// confuses (in a cache key, in a path) answer with the other one's definitions.
func c19NameProbe(o *Out, rng *RNG) {
	id := 0
	file := func(tag string) []*c19Node {
		id += 2
		return []*c19Node{{Name: "f.t", Defs: []c19Def{{Name: "x", ID: id - 1}, {Name: tag, ID: id}}}}
	}
	d := &c19FS{Ext: ".t", Helpers: &c19Dir{Name: "helpers", Children: file("H")}}
	for _, l := range c19ProbeLayouts {
		d.Layouts = append(d.Layouts, c19Dir{Name: l, Children: file("L")})
	}
	for _, v := range c19ProbeViews {
		d.Views = append(d.Views, c19Dir{Name: v, Children: file("V")})
	}
	var pairs []c19Req
	for _, l := range append([]string{""}, c19ProbeLayouts...) {
		for _, v := range c19ProbeViews {
			pairs = append(pairs, c19Req{Op: "view", L: l, V: v})
		}
	}
	shuffled := func() []c19Req {
		out := append([]c19Req{}, pairs...)
		for i := len(out) - 1; i > 0; i-- {
			j := rng.Intn(i + 1)
			out[i], out[j] = out[j], out[i]
		}
		return out
	}
	reqs := shuffled()
	for _, l := range c19ProbeLayouts {
		reqs = append(reqs, c19Req{Op: "layout", L: l})
	}
	reqs = append(reqs, shuffled()...)
	only := d.onlyIn()
	t := d.coq()
	// the oracles on the whole sequence first (one provider answers all of it); then the sequence in
	// pieces, each on providers of its own, for the comparison with the model
	for _, html := range []bool{true, false} {
		c19EvalSeq(o, d, html, reqs, only)
	}
	const piece = 60
	for at := 0; at < len(reqs); at += piece {
		end := at + piece
		if end > len(reqs) {
			end = len(reqs)
		}
		var runs []string
		for _, html := range []bool{true, false} {
			r, _ := c19EvalSeq(o, d, html, reqs[at:end], only)
			runs = append(runs, r...)
		}
		o.AddCase(fmt.Sprintf("CSet %s %s", t, coqList(runs)), map[string]interface{}{"op": "set", "fs": d, "seqs": [][]c19Req{reqs[at:end]}},
			fmt.Sprintf("names:%d", at), true)
	}
	o.Extra["name_probe_requests"] = len(reqs)
}

type c19ChildReport struct {
	Rounds   int            `json:"rounds"`
	Calls    int            `json:"calls"`
	Failures []Failure      `json:"failures"`
	Cases    []string       `json:"cases"`
	Descs    []interface{}  `json:"descs"`
	Stats    map[string]int `json:"stats"`
}

func c19Concurrent(o *Out, seed uint64, rounds int) {
	exe, err := os.Executable()
	must(err)
	tmp, err := os.MkdirTemp("", "c19child")
	must(err)
	defer os.RemoveAll(tmp)
	cmd := exec.Command(exe, "C19child", "-seed", strconv.FormatUint(seed, 10), "-tier", strconv.Itoa(rounds), "-out", tmp)
	var stdout, stderr bytes.Buffer
	cmd.Stdout, cmd.Stderr = &stdout, &stderr
	desc := map[string]interface{}{"op": "concurrent", "child_seed": seed, "rounds": rounds,
		"replay": fmt.Sprintf("harness C19child -seed %d -tier %d -out <tmpdir>", seed, rounds)}
	must(cmd.Start())
	done := make(chan error, 1)
	go func() { done <- cmd.Wait() }()
	var werr error
	select {
	case werr = <-done:
	case <-time.After(10 * time.Minute):
		cmd.Process.Kill()
		o.Fail("no_hang", "concurrent first use: the child process did not finish", "hang", desc)
		return
	}
	o.Extra["concurrent_rounds"] = rounds
	if werr != nil {
		tail := stderr.String()
		if i := strings.Index(tail, "fatal error"); i >= 0 {
			tail = tail[i:]
		}
		if len(tail) > 300 {
			tail = tail[:300]
		}
		o.Stat("concurrent_child_crashed")
		o.Fail("no_crash", fmt.Sprintf("concurrent first use of a cached provider crashed the process (%v): %s", werr, tail), "crash", desc)
		return
	}
	var rep c19ChildReport
	line := ""
	for _, l := range strings.Split(stdout.String(), "\n") {
		if strings.HasPrefix(l, "C19CHILD ") {
			line = l[len("C19CHILD "):]
		}
	}
	if line == "" || json.Unmarshal([]byte(line), &rep) != nil {
		fmt.Fprintln(os.Stderr, "C19: child produced no report:", stdout.String(), stderr.String())
		os.Exit(3)
	}
	for k, v := range rep.Stats {
		o.Stats["conc_"+k] += v
	}
	o.Extra["concurrent_calls"] = rep.Calls
	for _, f := range rep.Failures {
		o.Fail(f.Oracle, f.What, f.Sig, f.Case)
	}
	for i, c := range rep.Cases {
		o.AddCase(c, rep.Descs[i], "conc:"+c, true)
	}
	for i := len(rep.Cases); i < rep.Rounds; i++ {
		o.CountEval(fmt.Sprintf("conc-round-%d-%d", seed, i), true)
	}
}

// ---------------------------------------------------------------- child: concurrent first use

func runC19Child(o *Out, rng *RNG, tier string, replay string) {
	rounds, err := strconv.Atoi(tier)
	if err != nil {
		rounds = 300
	}
	const G = 16
	rep := c19ChildReport{Rounds: rounds, Stats: map[string]int{}}
	for r := 0; r < rounds; r++ {
		d := c19GenFS(rng, 1)
		html := r%2 == 0
		cached := r%6 != 5
		mfs := d.mem(html)
		p := c19NewProvider(html, mfs, d, cached)
		// every goroutine asks for many keys in its own order: early calls miss and build (cache
		// writes), later ones hit the fast path (cache reads) while other goroutines still build
		per := 8 + rng.Intn(24)
		// The FIRST request of every goroutine (released together by the start barrier) is a storm
		// on the slow paths: Base, Layout(l) for one or two existing layout names (6 + 4
		// goroutines reach layout() at the same time, for the same and for different names) and
		// View(l, v) for both names.
		var lnames []string
		for _, l := range d.Layouts {
			lnames = append(lnames, l.Name)
		}
		if len(lnames) == 0 {
			lnames = []string{"default", "ghost"}
		}
		n1, n2 := lnames[rng.Intn(len(lnames))], lnames[rng.Intn(len(lnames))]
		if n1 == "default" && rng.Bool() {
			n1 = ""
		}
		v1, v2 := c19ReqViews[rng.Intn(len(c19ReqViews))], c19ReqViews[rng.Intn(len(c19ReqViews))]
		storm := []c19Req{{Op: "layout", L: n1}, {Op: "layout", L: n2}, {Op: "layout", L: n1}, {Op: "base"},
			{Op: "layout", L: n2}, {Op: "layout", L: n1}, {Op: "view", L: n1, V: v1}, {Op: "view", L: n2, V: v2}}
		reqs := make([][]c19Req, G)
		// render[g][k]: the goroutine executes what request k gave it before it goes on (callers
		// render while other callers still make their first requests)
		render := make([][]bool, G)
		for g := range reqs {
			reqs[g] = append(reqs[g], storm[g%len(storm)])
			render[g] = append(render[g], rng.Chance(30))
			for k := 0; k < per; k++ {
				q := c19GenReq(rng, 0)
				if q.Op == "view" && q.V == "" {
					q.V = "v"
				}
				reqs[g] = append(reqs[g], q)
				render[g] = append(render[g], rng.Chance(30))
			}
		}
		type c19Got struct {
			t     c19Tmpl
			class string
			rend  map[string]string
		}
		got := make([][]c19Got, G)
		start := make(chan struct{})
		fin := make(chan int, G)
		for g := 0; g < G; g++ {
			go func(g int) {
				res := make([]c19Got, 0, len(reqs[g]))
				<-start
				for k, q := range reqs[g] {
					t, class := c19CallRaw(p, q)
					var rend map[string]string
					if class == "tmpl" && render[g][k] {
						rend = c19Render(t)
					}
					res = append(res, c19Got{t, class, rend})
				}
				got[g] = res
				fin <- g
			}(g)
		}
		close(start)
		timeout := time.After(30 * time.Second)
		hung := false
		for g := 0; g < G && !hung; g++ {
			select {
			case <-fin:
			case <-timeout:
				hung = true
			}
		}
		obs := make([][]c19Obs, G)
		if !hung {
			for g := 0; g < G; g++ {
				for _, x := range got[g] {
					ob := c19Obs{Kind: x.class}
					if x.class == "tmpl" {
						ob.Map = c19Defs(x.t)
					}
					obs[g] = append(obs[g], ob)
				}
			}
		}
		desc := map[string]interface{}{"op": "concurrent-round", "provider": c19KindName(html), "cached": cached, "fs": d, "reqs": reqs, "round": r}
		if hung {
			rep.Failures = append(rep.Failures, Failure{Oracle: "no_hang", What: "concurrent first use: goroutines did not return (deadlock?)", Sig: "hang", Case: desc})
			break
		}
		refs := map[string]c19Obs{}
		var flatQ []string
		var flatO []string
		okCoq := true
		for g := 0; g < G; g++ {
			for k, q := range reqs[g] {
				rep.Calls++
				ob := obs[g][k]
				rep.Stats["res_"+ob.Kind]++
				rf, have := refs[q.key()]
				if !have {
					rf = c19Ref(html, d, q)
					refs[q.key()] = rf
				}
				if ob.Kind == "panic" && len(rep.Failures) < 20 {
					rep.Failures = append(rep.Failures, Failure{Oracle: "no_panic", What: fmt.Sprintf("goroutine %d request %+v panicked", g, q), Sig: "panic", Case: desc})
				} else if !ob.equal(rf) && len(rep.Failures) < 20 {
					rep.Failures = append(rep.Failures, Failure{Oracle: "concurrent_equal", What: fmt.Sprintf("goroutine %d request %+v got %s %v; a single caller gets %s %v",
						g, q, ob.Kind, ob.Map, rf.Kind, rf.Map), Sig: "concurrent", Case: desc})
				} else if rend := got[g][k].rend; rend != nil && rf.Kind == "tmpl" && len(rep.Failures) < 20 {
					// what the goroutine rendered on the spot = what a single caller renders
					rep.Stats["rendered_in_goroutine"]++
					// (a name without a body may render as nothing or report an error: left open)
					same := true
					for n, v := range rf.Map {
						same = same && rend[n] == v
					}
					for n, v := range rend {
						if _, defined := rf.Map[n]; !defined && strings.TrimSpace(v) != "" {
							same = false
						}
					}
					if !same {
						rep.Failures = append(rep.Failures, Failure{Oracle: "concurrent_equal", What: fmt.Sprintf("goroutine %d request %+v: the template rendered %v right after the call; a single caller renders %v",
							g, q, rend, rf.Map), Sig: "concurrent", Case: desc})
					}
				}
				flatQ = append(flatQ, q.ccoq())
				t, good := ob.coq()
				okCoq = okCoq && good
				flatO = append(flatO, t)
			}
		}
		if cached && len(rep.Cases) < 6 && okCoq {
			rep.Cases = append(rep.Cases, fmt.Sprintf("CConc %s %s %s %s", coqBool(html), d.coq(), coqList(flatQ), coqList(flatO)))
			rep.Descs = append(rep.Descs, desc)
		}
	}
	b, err := json.Marshal(rep)
	must(err)
	fmt.Println("C19CHILD " + string(b))
}

// ---------------------------------------------------------------- replay of a recorded failure

func c19Replay(o *Out, path string) {
	raw, err := os.ReadFile(path)
	must(err)
	var rp struct {
		Case struct {
			Op        string   `json:"op"`
			Provider  string   `json:"provider"`
			FS        *c19FS   `json:"fs"`
			Reqs      []c19Req `json:"reqs"`
			ChildSeed uint64   `json:"child_seed"`
			Rounds    int      `json:"rounds"`
		} `json:"case"`
	}
	must(json.Unmarshal(raw, &rp))
	switch rp.Case.Op {
	case "seq":
		runs, saw := c19EvalSeq(o, rp.Case.FS, rp.Case.Provider == "html", rp.Case.Reqs, rp.Case.FS.onlyIn())
		t := rp.Case.FS.coq()
		o.AddCase(fmt.Sprintf("CSet %s %s", t, coqList(runs)), map[string]interface{}{"op": "set", "fs": rp.Case.FS}, t, saw)
	case "concurrent":
		c19Concurrent(o, rp.Case.ChildSeed, rp.Case.Rounds)
	default:
		fmt.Fprintln(os.Stderr, "C19: this replay file has no replayable case (op =", rp.Case.Op, ")")
	}
}
