package main

// C10, application level (anchor app/goatapp/app.go): the application object registers ITSELF in
// its dependency provider under app.AppService.  That registration must be a DEFAULT one, so that
// "an explicit definition always wins over a default one regardless of registration order" also
// holds for the one definition the library makes itself: an explicit "App" given before the app
// is built (Params.DP) or after it (and before the first resolution), as an instance or as a
// factory, is what Get and injection return; without one, the app itself.

import (
	"fmt"

	"github.com/goatcms/goatcore/app"
	"github.com/goatcms/goatcore/app/dependency"
	"github.com/goatcms/goatcore/app/goatapp"
)

type c10Marker struct{ app.App }

func c10GoatAppProbe(o *Out) {
	type variant struct {
		name     string
		when     string // none | before | after
		factory  bool
		wantSelf bool
		ownDP    bool // Params.DP left nil: the application makes its provider itself
	}
	variants := []variant{
		{"no explicit definition", "none", false, true, false},
		{"explicit instance before NewGoatApp", "before", false, false, false},
		{"explicit factory before NewGoatApp", "before", true, false, false},
		{"explicit instance after NewGoatApp", "after", false, false, false},
		{"explicit factory after NewGoatApp", "after", true, false, false},
		{"no explicit definition, provider made by the application", "none", false, true, true},
		{"explicit instance after NewGoatApp, provider made by the application", "after", false, false, true},
		{"explicit factory after NewGoatApp, provider made by the application", "after", true, false, true},
	}
	for _, v := range variants {
		desc := map[string]interface{}{"op": "goatapp-self-registration", "variant": v.name}
		func() {
			defer func() {
				if r := recover(); r != nil {
					o.Fail("no_panic", fmt.Sprintf("%s: panic %v", v.name, r), "app-panic", desc)
				}
			}()
			marker := &c10Marker{}
			runs := 0
			define := func(dp app.DependencyProvider) error {
				if v.factory {
					return dp.AddFactory(app.AppService, func(app.DependencyProvider) (interface{}, error) {
						runs++
						return app.App(marker), nil
					})
				}
				return dp.Set(app.AppService, app.App(marker))
			}
			dp := dependency.NewProvider(app.DependencyTagName)
			if v.when == "before" {
				if err := define(dp); err != nil {
					o.Fail("precedence", v.name+": the explicit definition was refused: "+err.Error(), "app-explicit-refused", desc)
					return
				}
			}
			params := goatapp.Params{DP: dp}
			if v.ownDP {
				params = goatapp.Params{}
			}
			a, err := goatapp.NewMockupApp(params)
			if err != nil {
				o.Fail("precedence", v.name+": NewGoatApp failed: "+err.Error(), "app-new", desc)
				return
			}
			if v.when == "after" {
				if err := define(a.DependencyProvider()); err != nil {
					o.Fail("precedence", v.name+": an explicit definition of "+app.AppService+" made after the application was built (before any resolution) was refused: "+err.Error(), "app-explicit-refused", desc)
					return
				}
			}
			got, err := a.DependencyProvider().Get(app.AppService)
			if err != nil {
				o.Fail("precedence", v.name+": Get failed: "+err.Error(), "app-get", desc)
				return
			}
			var deps struct {
				App app.App `dependency:"App"`
			}
			if err := a.DependencyProvider().InjectTo(&deps); err != nil {
				o.Fail("precedence", v.name+": InjectTo failed: "+err.Error(), "app-inject", desc)
				return
			}
			again, _ := a.DependencyProvider().Get(app.AppService)
			isMarker := func(x interface{}) bool { m, ok := x.(*c10Marker); return ok && m == marker }
			isApp := func(x interface{}) bool { _, ok := x.(*goatapp.GoatApp); return ok }
			okv := isMarker
			if v.wantSelf {
				okv = isApp
			}
			if !okv(got) || !okv(deps.App) || !okv(again) || got != again {
				o.Fail("precedence", fmt.Sprintf("%s: Get/InjectTo returned %T/%T, expected the %s", v.name, got, deps.App,
					map[bool]string{true: "application itself", false: "explicit definition"}[v.wantSelf]), "app-precedence", desc)
			}
			if v.factory && runs != 1 {
				o.Fail("once_same_instance", fmt.Sprintf("%s: the explicit factory ran %d times", v.name, runs), "app-factory-runs", desc)
			}
		}()
		o.Stat("goatapp_probe")
		o.CountEval("app:"+v.name, true)
	}
}
