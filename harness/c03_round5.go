package main

// C03, fifth round of seeded changes: two dimensions of the property's quantifier that the sweep of
// c03.go and the audit of c03_audit.go held constant.
//
//   - backend x history. Histories in which a view lives across operations of a wider view were run
//     on the memory backend only; every disk case was ONE operation on a pristine host tree, and no
//     stack other than diskfs child views was ever put on a disk filespace. Whatever couples a node
//     inside a view's root with a node outside of it as the result of an EARLIER operation (a copy
//     that shares storage with its source, a link, a directory pruned because an earlier removal
//     left it empty) is invisible to single operations. Here: the crossing histories, alias
//     histories (every copy operation across the boundary in both directions, then overwrite /
//     truncate / copy-over / remove on the view's side and on the parent's side) and random
//     histories run through EVERY rooted stack on a disk filespace as well; after every operation
//     of the view the whole host tree outside its root is compared (walked with package os, not
//     with the library); after every operation of the parent whose arguments all lie outside the
//     view's root, what the view answers (listing and contents, recursively) is compared (READ
//     half along histories).
//
//   - ambient process state between creation and use. The root of a disk view is fixed when the
//     view is created. Every disk view of the sweep had an absolute root and the working directory
//     never changed. Here (in a child process, os.Chdir is process-global): filespaces created from
//     RELATIVE roots (every spelling of the same directory from three working directories), child
//     views and stacks built before or after the process moves to another working directory
//     (one in which the same relative path names a decoy tree, one in which it names nothing), a
//     stale $PWD; all 16 operations; judged by (a) the host tree outside the root unchanged, (b)
//     the same answer and the same subtree afterwards as a view created from the absolute root on
//     an identical tree.

import (
	"bytes"
	"encoding/json"
	"fmt"
	"os"
	"os/exec"
	"path/filepath"
	"sort"
	"strings"
	"time"

	"github.com/goatcms/goatcore/filesystem"
	"github.com/goatcms/goatcore/filesystem/filespace/diskfs"
	"github.com/goatcms/goatcore/filesystem/filespace/memfs"
)

// hostWalk: the tree below base as the operating system shows it (package os only: the judge does
// not look through the library under test). A symbolic link is a leaf whose content is its target.
func hostWalk(base string) (ents []WalkEnt, err error) {
	var rec func(dir string, prefix []string) error
	rec = func(dir string, prefix []string) error {
		des, err := os.ReadDir(dir)
		if err != nil {
			return err
		}
		for _, de := range des {
			p := append(append([]string{}, prefix...), de.Name())
			full := filepath.Join(dir, de.Name())
			info, err := os.Lstat(full)
			if err != nil {
				return err
			}
			switch {
			case info.Mode()&os.ModeSymlink != 0:
				t, _ := os.Readlink(full)
				ents = append(ents, WalkEnt{Path: p, Data: []byte("SYMLINK -> " + t)})
			case info.IsDir():
				ents = append(ents, WalkEnt{Path: p, IsDir: true})
				if err := rec(full, p); err != nil {
					return err
				}
			default:
				d, err := os.ReadFile(full)
				if err != nil {
					return err
				}
				ents = append(ents, WalkEnt{Path: p, Data: d})
			}
		}
		return nil
	}
	err = rec(base, nil)
	return
}

// viewSig: everything the view answers about its own tree (listings, kinds, contents), recursively;
// a read that fails is part of the signature, not a stop (encrypted views over plain files).
func viewSig(view filesystem.Filespace) string {
	var sb strings.Builder
	budget := 4000
	var rec func(prefix string)
	rec = func(prefix string) {
		infos, err := view.ReadDir(prefix)
		if err != nil {
			sb.WriteString(prefix + ":ls-err;")
			return
		}
		l := make([]string, 0, len(infos))
		dirs := map[string]bool{}
		for _, i := range infos {
			l = append(l, i.Name())
			dirs[i.Name()] = i.IsDir()
		}
		sort.Strings(l)
		for _, n := range l {
			budget--
			if budget < 0 || n == "" || n == "." || n == ".." || strings.Contains(n, "/") {
				sb.WriteString(prefix + "/" + n + ":odd;")
				continue
			}
			p := n
			if prefix != "" {
				p = prefix + "/" + n
			}
			if dirs[n] {
				sb.WriteString(p + "/;")
				rec(p)
			} else if d, err := view.ReadFile(p); err != nil {
				sb.WriteString(p + "=err;")
			} else {
				fmt.Fprintf(&sb, "%s=%q;", p, d)
			}
		}
	}
	o := withTimeout(20*time.Second, func() FsOut { rec(""); return FsOut{Kind: "unit"} })
	if o.Kind != "unit" {
		return "view walk: " + o.Kind + " " + o.Msg
	}
	return sb.String()
}

// outsideOnly: every path argument of the operation names something that is neither the view's
// root, nor below it, nor one of the directories leading to it (a rejected argument names nothing)
func outsideOnly(op FsOp, vroot []string) bool {
	args := []string{op.P}
	if op.Kind == "Copy" || op.Kind == "CopyDir" || op.Kind == "CopyFile" {
		args = append(args, op.Q)
	}
	for _, a := range args {
		c, climbs := refNorm(a)
		if climbs {
			continue
		}
		if isPrefixComps(c, vroot) || isPrefixComps(vroot, c) {
			return false
		}
	}
	return true
}

// c03Hist runs histories over two views of ONE backend: the backend root ("parent") and a stack
// built on it ("view").
type c03Hist struct {
	o   *Out
	tmp string
	n   int
}

// hostExtra: what lies on the host beside the disk filespace's root directory
var hostExtra = []seedEnt{{"canary", "host canary", false}, {"root2", "", true}, {"root2/r", "sibling-of-root", false}}

func (h *c03Hist) run(disk bool, ks []Ctor, steps []histStep, tag string) {
	o := h.o
	h.n++
	ents := c03SeedEnts(true)
	var parent filesystem.Filespace
	var walk func() ([]WalkEnt, bool, string)
	vroot, hasRoot := viewRoot(ks)
	judged := vroot // the view's root in the coordinates of the walk
	backend := "mem"
	if disk {
		backend = "disk"
		base := fmt.Sprintf("%s/hist%d", h.tmp, h.n)
		var host []seedEnt
		for _, e := range ents {
			host = append(host, seedEnt{"root/" + e.p, e.data, e.dir})
		}
		writeHost(base, append(host, hostExtra...))
		defer os.RemoveAll(base)
		parent = mustDisk(base + "/root")
		walk = func() ([]WalkEnt, bool, string) {
			w, err := hostWalk(base)
			if err != nil {
				return w, false, err.Error()
			}
			return w, true, ""
		}
		judged = append([]string{"root"}, vroot...)
	} else {
		parent, _ = memfs.NewFilespace()
		populateEnts(parent, ents)
		walk = func() ([]WalkEnt, bool, string) { return walkFs(parent) }
	}
	view, caches, ok := buildView(parent, ks)
	if !ok || !hasRoot {
		return
	}
	o.Stat("history_" + backend + "_" + tag)
	var last []WalkEnt // the walk after the previous step, when that step was one of the view
	for i, st := range steps {
		desc := map[string]interface{}{"stack": ks, "history": steps[:i+1], "op": st.Op, "hist_backend": backend}
		if st.On == "parent" {
			last = nil
			judge := outsideOnly(st.Op, vroot)
			sig := ""
			if judge {
				sig = viewSig(view)
			}
			out := withTimeout(20*time.Second, func() FsOut { return execOn(parent, st.Op) })
			if out.Kind == "panic" || out.Kind == "hang" {
				desc["out"] = out.Kind
				o.Fail("no_panic", "operation of the parent "+out.Kind+" in a history: "+out.Msg, "panic", desc)
				return
			}
			if judge {
				o.Stat("history_" + backend + "_parent_outside_op")
				if sig2 := viewSig(view); sig2 != sig {
					desc["out"] = out.Kind
					o.Fail("confined_reads", fmt.Sprintf("step %d of a history on the %s backend: an operation of the parent whose arguments all lie outside the view root %q changed what the view answers: %s vs %s", i, backend, vroot, clip(sig, 300), clip(sig2, 300)), "noninterf-history:"+st.Op.Kind, desc)
					return
				}
				o.CountEval(fmt.Sprintf("hist5r|%s|%v|%s|%d|%s|%s|%s", backend, ks, tag, i, st.Op.Kind, st.Op.P, st.Op.Q), out.Kind != "err")
			}
			continue
		}
		before, bok, why := last, true, ""
		if before == nil {
			before, bok, why = walk()
		}
		out := withTimeout(20*time.Second, func() FsOut { return execOn(view, st.Op) })
		commitAll(caches)
		after, wok, why2 := walk()
		desc["out"] = out.Kind
		o.Stat("history_" + backend + "_view_op")
		if out.Kind == "panic" || out.Kind == "hang" {
			o.Fail("no_panic", "operation "+out.Kind+" in a history: "+out.Msg, "panic", desc)
			return
		}
		if !bok || !wok {
			o.Fail("walk", "walk of the "+backend+" backend failed in a history: "+why+why2, "walk", desc)
			return
		}
		if msg := outsideUnchanged(before, after, judged, true); msg != "" {
			o.Fail("confined_writes", fmt.Sprintf("step %d of a history on the %s backend (the view lives across operations of its parent): %s", i, backend, msg), "confine-history-"+backend+":"+st.Op.Kind, desc)
			return
		}
		last = after
		o.CountEval(fmt.Sprintf("hist5|%s|%v|%s|%d|%s|%s|%s", backend, ks, tag, i, st.Op.Kind, st.Op.P, st.Op.Q), out.Kind != "err" && !(out.Kind == "bool" && !out.B))
	}
}

func clip(s string, n int) string {
	if len(s) > n {
		return s[:n] + "..."
	}
	return s
}

// aliasHistories: a copy across the boundary of the view (every copy operation, both directions,
// file and directory), then each side overwrites, truncates, copies over and removes ITS node while
// the other side's node is watched: the view's operations by the confinement oracle, the parent's
// (all arguments outside the root) by the read oracle.
func aliasHistories(ents []seedEnt, vroot []string, mk func(kind, p, q string) FsOp) [][]histStep {
	in := strings.Join(vroot, "/")
	file, dir := existingIn(ents, vroot, true)
	var out [][]histStep
	v := func(kind, p, q string) histStep { return histStep{"view", mk(kind, p, q)} }
	p := func(kind, p, q string) histStep { return histStep{"parent", mk(kind, p, q)} }
	// copy IN: the source lies outside the root ("secret" a file, "c" a directory with the file h and
	// the empty directory m), the destination does not exist yet
	for _, k := range []string{"CopyFile", "Copy"} {
		out = append(out, []histStep{p(k, "secret", in+"/zin"),
			v("ReadFile", "zin", ""), v("WriteFile", "zin", ""), p("WriteFile", "secret", ""), v("Writer", "zin", ""), p("Writer", "secret", ""),
			v("CopyFile", file, "zin"), v("Copy", file, "zin"), v("Remove", "zin", ""), v("WriteFile", "zin", ""), p("Remove", "secret", ""), v("ReadFile", "zin", "")})
		out = append(out, []histStep{p(k, "secret", in+"/zin"), v("Writer", "zin", ""), v("CopyFile", "zin", "zin2"), v("WriteFile", "zin2", ""),
			p("RemoveAll", "secret", ""), v("Reader", "zin", ""), v("RemoveAll", "zin", "")})
	}
	for _, k := range []string{"CopyDir", "Copy"} {
		out = append(out, []histStep{p(k, "c", in+"/zin"),
			v("ReadDir", "zin", ""), v("WriteFile", "zin/h", ""), p("WriteFile", "c/h", ""), v("Writer", "zin/h", ""), p("Writer", "c/h", ""),
			v("WriteFile", "zin/m/new", ""), p("WriteFile", "c/m/pnew", ""), v("MkdirAll", "zin/m/d", ""), v("CopyFile", file, "zin/h"),
			v("CopyDir", "zin", "zin2"), v("WriteFile", "zin2/h", ""), v("Remove", "zin/h", ""), p("RemoveAll", "c/m", ""), v("ReadDir", "zin/m", ""),
			v("RemoveAll", "zin/m", ""), p("RemoveAll", "c", ""), v("RemoveAll", "zin", "")})
	}
	// copy OUT: the source is a file / a directory of the view, the destination lies outside
	for _, k := range []string{"CopyFile", "Copy"} {
		out = append(out, []histStep{p(k, in+"/"+file, "zout"),
			v("WriteFile", file, ""), p("WriteFile", "zout", ""), v("Writer", file, ""), p("Writer", "zout", ""), v("ReadFile", file, ""),
			v("CopyFile", file, "zcp"), v("Remove", file, ""), p("Remove", "zout", ""), v("WriteFile", file, "")})
	}
	for _, k := range []string{"CopyDir", "Copy"} {
		h := []histStep{p(k, in, "zout")}
		for _, e := range ents {
			c := strings.Split(e.p, "/")
			if e.dir || len(c) <= len(vroot) || !isPrefixComps(vroot, c) {
				continue
			}
			rel := strings.Join(c[len(vroot):], "/")
			h = append(h, v("WriteFile", rel, ""), p("WriteFile", "zout/"+rel, ""), v("Writer", rel, ""), p("Writer", "zout/"+rel, ""), v("Remove", rel, ""), p("Remove", "zout/"+rel, ""))
		}
		h = append(h, v("MkdirAll", dir+"/zd", ""), p("RemoveAll", "zout", ""), v("ReadDir", "", ""))
		out = append(out, h)
	}
	return out
}

// lonelyHistories: the parent removes every sibling of the view's root and of each directory leading
// to it; the view then empties itself, node by node and at once (whatever an operation does to the
// directory that its removal left empty must stop at the root), and fills itself again.
func lonelyHistories(ents []seedEnt, vroot []string, mk func(kind, p, q string) FsOp) [][]histStep {
	var prep, empty []histStep
	seen := map[string]bool{}
	var top []string // the nodes directly in the view's root
	for _, e := range ents {
		c := strings.Split(e.p, "/")
		if isPrefixComps(vroot, c) {
			if len(c) > len(vroot) && !seen["v:"+c[len(vroot)]] {
				seen["v:"+c[len(vroot)]] = true
				top = append(top, c[len(vroot)])
			}
			continue
		}
		// the first component at which e leaves the chain of the root's ancestors
		i := 0
		for i < len(c) && i < len(vroot) && c[i] == vroot[i] {
			i++
		}
		if i >= len(c) {
			continue // a directory leading to the root
		}
		sib := strings.Join(c[:i+1], "/")
		if !seen[sib] {
			seen[sib] = true
			prep = append(prep, histStep{"parent", mk("RemoveAll", sib, "")})
		}
	}
	for _, n := range top {
		empty = append(empty, histStep{"view", mk("Remove", n+"/g", "")}, histStep{"view", mk("Remove", n+"/e", "")}, histStep{"view", mk("Remove", n, "")}, histStep{"view", mk("RemoveAll", n, "")})
	}
	refill := []histStep{{"view", mk("WriteFile", "again/x", "")}, {"view", mk("Remove", "again/x", "")}, {"view", mk("Remove", "again", "")}, {"view", mk("MkdirAll", "d1/d2", "")}, {"view", mk("RemoveAll", "d1/d2", "")}, {"view", mk("RemoveAll", "d1", "")}}
	h1 := append(append(append([]histStep{}, prep...), empty...), refill...)
	h2 := append(append([]histStep{}, prep...), histStep{"view", mk("RemoveAll", "", "")}, histStep{"view", mk("WriteFile", "again/x", "")}, histStep{"view", mk("RemoveAll", "again", "")}, histStep{"view", mk("RemoveAll", ".", "")})
	return [][]histStep{h1, h2}
}

// ---------------------------------------------------------------- relative roots, other working directory

// the world of one relative-root case: <W>/p/q/{w1,w2,w3}; w1/root is the filespace root, w2 holds a
// decoy with the same names and other contents, w3/x/y/z is a directory in which the relative paths
// name nothing. All working directories lie at least three levels below <W>/p/q and no spelling
// climbs more than two, so that even a view that resolves its root anew stays inside <W>.
var relTree = []seedEnt{
	{"secret", "TOP", false}, {"a/f", "fa", false}, {"a/b/g", "deep", false}, {"a/b/e", "", true},
	{"ab/s", "sibling-of-a", false}, {"a/b2/t", "sibling-of-b", false},
}

func relWorldEnts() (l []seedEnt) {
	for _, e := range relTree {
		l = append(l, seedEnt{"p/q/w1/root/" + e.p, e.data, e.dir})
		d := e.data
		if !e.dir {
			d = "DECOY:" + e.data
		}
		l = append(l, seedEnt{"p/q/w2/root/" + e.p, d, e.dir})
	}
	return append(l, seedEnt{"p/q/w1/canary", "host canary", false}, seedEnt{"p/q/w2/canary", "decoy canary", false},
		seedEnt{"p/q/w2/root/a/b/only-in-decoy", "DECOY", false}, seedEnt{"p/q/w2/root/a/only-in-decoy", "", true},
		seedEnt{"p/q/w3/x/y/z", "", true}, seedEnt{"p/q/w1/root2/r", "sibling-of-root", false})
}

type relCfg struct {
	Cwd0   string `json:"cwd_at_creation"` // relative to <W>/p/q/w1
	Rel    string `json:"root_as_given"`   // names <W>/p/q/w1/root from Cwd0; "ABS": the absolute path
	Stack  []Ctor `json:"stack"`
	Before bool   `json:"stack_built_before_chdir"`
	Cwd1   string `json:"cwd_at_use"` // "decoy": the same place below w2; "nowhere": w3/x/y/z; "same": no move
}

var relSpellings = []struct{ cwd0, rel string }{
	{"", "root"}, {"", "./root"}, {"", "root/"}, {"", "./root/."}, {"", "../w1/root"}, {"", "root/a/.."}, {"", "root//"},
	{"root", "."}, {"root", "./"}, {"root", ""}, {"root", "../root"}, {"root", "a/.."},
	{"root/a", ".."}, {"root/a", "../"}, {"root/a", "../../root"}, {"root/a", "b/../.."},
	{"", "ABS"},
}

var relStacks = [][]Ctor{
	{}, {{"child", "a"}}, {{"child", "a"}, {"child", "b"}}, {{"child", "a/b"}},
	{{"newsub", "a"}}, {{"ro", ""}, {"child", "a"}}, {{"cache", ""}, {"child", "a"}}, {{"child", "a"}, {"enc", ""}}, {{"newsub", "a"}, {"child", "b"}},
}

// relConfigs: stack x built before / after the move x where the process moves to; the spelling of the
// root is chosen per case (rotating), so that every operation meets every stack and every move
func relConfigs() (l []relCfg) {
	for _, ks := range relStacks {
		for _, before := range []bool{true, false} {
			for _, cwd1 := range []string{"decoy", "nowhere"} {
				l = append(l, relCfg{"", "", ks, before, cwd1})
			}
		}
	}
	// no move at all: relative roots as such
	return append(l, relCfg{"", "", []Ctor{{"child", "a"}}, true, "same"})
}

// relOps: every operation with the arguments of the view at the given depth: an existing file, an
// existing directory, the root, new names, climbing arguments. all=false: two arguments per
// operation chosen in rotation (one that succeeds on the real tree, the others from the rest).
func relOps(depth int, mk func(kind, p, q string) FsOp, all bool, per int, rot uint64) (l []FsOp) {
	file := []string{"secret", "f", "g"}[depth]
	dir := []string{"a", "b", "e"}[depth]
	for ki, kind := range fsOpKinds {
		var c []FsOp
		switch kind {
		case "Copy":
			c = []FsOp{mk(kind, file, "cp"), mk(kind, dir, "cpd/x"), mk(kind, "../canary", "up"), mk(kind, file, "../up")}
		case "CopyFile":
			c = []FsOp{mk(kind, file, "cp"), mk(kind, file, dir+"/cp2"), mk(kind, file, "../../up")}
		case "CopyDir":
			c = []FsOp{mk(kind, dir, "cpd"), mk(kind, dir, dir+"2/y"), mk(kind, "", "../up")}
		default:
			for _, p := range []string{file, dir, "", "new/n", dir + "/../" + file, "only-in-decoy", "..", "../" + file, "."} {
				c = append(c, mk(kind, p, ""))
			}
		}
		if all {
			l = append(l, c...)
			continue
		}
		// the first arguments of each list are the ones that succeed on the real tree: always one of
		// them, then others in rotation
		l = append(l, c[(rot+uint64(ki))%2])
		for j := 1; j < per; j++ {
			l = append(l, c[2+(rot+uint64(ki)+uint64(j))%uint64(len(c)-2)])
		}
	}
	return
}

func c03MkOp(kind, p, q string) FsOp {
	op := FsOp{Kind: kind, P: p, Q: q}
	switch kind {
	case "WriteFile":
		op.Data = []byte("W")
	case "Writer":
		op.Chunks = [][]byte{[]byte("w1"), []byte("w2")}
	case "Reader":
		op.Bufs = []int{3, 1000}
	}
	op.fillJSON()
	return op
}

type relOnly struct {
	Cfg, Sp    int
	Kind, P, Q string
}

type relWorld struct {
	dir  string
	walk []WalkEnt
}

// c03RelRootChild: the body of the probe; runs in a process of its own (it changes the working
// directory and $PWD). Results go to stdout as one JSON document.
func c03RelRootChild(o *Out, tier string) {
	tmp := os.Getenv("C03_CHILD_TMP")
	var rot uint64
	fmt.Sscan(os.Getenv("C03_CHILD_ROT"), &rot)
	var only *relOnly // replay: one configuration, one spelling, one operation
	if s := os.Getenv("C03_CHILD_ONLY"); s != "" {
		only = &relOnly{}
		must(json.Unmarshal([]byte(s), only))
	}
	if tmp == "" || !filepath.IsAbs(tmp) {
		must(fmt.Errorf("C03 child: no scratch directory"))
	}
	nWorld := 0
	newWorld := func() *relWorld {
		nWorld++
		d := fmt.Sprintf("%s/w%d", tmp, nWorld)
		writeHost(d, relWorldEnts())
		w, err := hostWalk(d)
		must(err)
		return &relWorld{d, w}
	}
	var wa, wb *relWorld
	cfgs := relConfigs()
	for ci, cfg := range cfgs {
		if only != nil && ci != only.Cfg {
			continue
		}
		vroot, hasRoot := viewRoot(cfg.Stack)
		if !hasRoot {
			continue
		}
		per := 3
		if len(cfg.Stack) > 0 && (cfg.Stack[len(cfg.Stack)-1].Kind != "child" || cfg.Stack[0].Kind != "child") {
			per = 2 // a wrapper on a disk view
		}
		ops := relOps(len(vroot), c03MkOp, tier == "thorough", per, rot+uint64(ci))
		if only != nil {
			ops = []FsOp{c03MkOp(only.Kind, only.P, only.Q)}
		}
		hasEnc := false
		for _, k := range cfg.Stack {
			hasEnc = hasEnc || k.Kind == "enc"
		}
		for oi, op := range ops {
			spi := int((rot + uint64(ci)*7 + uint64(oi)) % uint64(len(relSpellings)))
			if only != nil {
				spi = only.Sp % len(relSpellings)
			}
			cfg.Cwd0, cfg.Rel = relSpellings[spi].cwd0, relSpellings[spi].rel
			mut := isMutating(op.Kind)
			if wa == nil {
				wa = newWorld()
			}
			if wb == nil && mut {
				wb = newWorld()
			}
			T := wa.dir + "/p/q"
			desc := map[string]interface{}{"probe": "relative-root", "config": cfg, "op": op, "cfg_index": ci, "sp_index": spi}
			at := func(w, sub string) string { return filepath.Join(T, w, sub) }
			cwd1 := at("w1", cfg.Cwd0)
			switch cfg.Cwd1 {
			case "decoy":
				cwd1 = at("w2", cfg.Cwd0)
			case "nowhere":
				cwd1 = at("w3", "x/y/z")
			}
			// a process that has moved: $PWD still names the directory it came from
			os.Setenv("PWD", at("w2", cfg.Cwd0))
			must(os.Chdir(at("w1", cfg.Cwd0)))
			rel := cfg.Rel
			if rel == "ABS" {
				rel = at("w1", "root")
			}
			var view filesystem.Filespace
			var caches = commitNone
			ok := true
			fsroot, err := diskfs.NewFilespace(rel)
			if err != nil {
				o.Fail("setup", fmt.Sprintf("NewFilespace(%q) failed in an existing working directory: %v", rel, err), "relroot-new", desc)
				continue
			}
			if cfg.Before {
				v, cs, k := buildView(fsroot, cfg.Stack)
				view, ok = v, k
				caches = func() { commitAll(cs) }
			}
			must(os.Chdir(cwd1))
			if !cfg.Before {
				v, cs, k := buildView(fsroot, cfg.Stack)
				view, ok = v, k
				caches = func() { commitAll(cs) }
			}
			// reference: the same stack from the absolute root, built here; an operation that can change
			// something runs on an identical second tree
			refDir := wa.dir
			if mut {
				refDir = wb.dir
			}
			ref, rcs, rok := buildView(mustDisk(refDir+"/p/q/w1/root"), cfg.Stack)
			o.Stat("relroot_case")
			key := fmt.Sprintf("relroot|%d|%s|%s|%s", ci, op.Kind, op.P, op.Q)
			if ok != rok {
				o.Fail("confined_reads", fmt.Sprintf("a view whose root was given as %q (working directory then: w1/%s, now: %s) can be built: %v; the same view from the absolute root: %v", cfg.Rel, cfg.Cwd0, cfg.Cwd1, ok, rok), "relroot-build", desc)
				continue
			}
			if !ok {
				o.CountEval(key, false)
				continue
			}
			out := withTimeout(20*time.Second, func() FsOut { return execOn(view, op) })
			caches()
			out2 := withTimeout(20*time.Second, func() FsOut { return execOn(ref, op) })
			commitAll(rcs)
			desc["out"] = out.Kind
			afterA, errA := hostWalk(wa.dir)
			var afterB []WalkEnt
			var errB error
			if mut {
				afterB, errB = hostWalk(wb.dir)
			}
			hroot := append([]string{"p", "q", "w1", "root"}, vroot...)
			bad := false
			if out.Kind == "panic" || out.Kind == "hang" {
				o.Fail("no_panic", "operation "+out.Kind+": "+out.Msg, "panic", desc)
				bad = true
			}
			if errA != nil || errB != nil {
				o.Fail("walk", fmt.Sprintf("host walk failed: %v %v", errA, errB), "walk", desc)
				bad = true
			} else {
				if msg := outsideUnchanged(wa.walk, afterA, hroot, true); msg != "" {
					o.Fail("confined_writes", fmt.Sprintf("root given as %q in the working directory w1/%s, used from %s: %s", cfg.Rel, cfg.Cwd0, cfg.Cwd1, msg), "confine-relroot:"+op.Kind, desc)
					bad = true
				}
				if outSig(out) != outSig(out2) {
					o.Fail("confined_reads", fmt.Sprintf("root given as %q in the working directory w1/%s, used from %s: the answer is not the one of the same view created from the absolute root on an identical tree: %s vs %s", cfg.Rel, cfg.Cwd0, cfg.Cwd1, clip(outSig(out), 200), clip(outSig(out2), 200)), "noninterf-relroot:"+op.Kind, desc)
					bad = true
				}
				sa, sb := subWalk(afterA, hroot, hasEnc), subWalk(afterB, hroot, hasEnc)
				if same, why := walkEqual(sa, sb); mut && !same {
					o.Fail("confined_writes", fmt.Sprintf("root given as %q in the working directory w1/%s, used from %s: the tree below the view's root is not the one that the same view created from the absolute root leaves (%s)", cfg.Rel, cfg.Cwd0, cfg.Cwd1, why), "subtree-relroot:"+op.Kind, desc)
					bad = true
				}
			}
			o.CountEval(key, out.Kind != "err" && !(out.Kind == "bool" && !out.B))
			// worlds that the case left byte-identical serve the next one
			if s1, _ := walkEqual(wa.walk, afterA); bad || errA != nil || !s1 {
				os.RemoveAll(wa.dir)
				wa = nil
			}
			if mut {
				if s2, _ := walkEqual(wb.walk, afterB); bad || errB != nil || !s2 {
					os.RemoveAll(wb.dir)
					wb = nil
				}
			}
		}
	}
	must(os.Chdir(tmp))
	keys := make([]string, 0, len(o.distinct))
	for k := range o.distinct {
		keys = append(keys, k)
	}
	b, err := json.Marshal(map[string]interface{}{"failures": o.Failures, "stats": o.Stats, "evaluations": o.Evaluations, "distinct": keys})
	must(err)
	os.Stdout.Write(b)
	os.Exit(0)
}

func commitNone() {}

// subWalk: the nodes at and below root, paths relative to it; namesOnly drops the contents (an
// encrypted layer stores other bytes on every write)
func subWalk(w []WalkEnt, root []string, namesOnly bool) (l []WalkEnt) {
	for _, e := range w {
		if len(e.Path) >= len(root) && isPrefixComps(root, e.Path) {
			n := WalkEnt{Path: append([]string{"."}, e.Path[len(root):]...), IsDir: e.IsDir, Data: e.Data}
			if namesOnly {
				n.Data = nil
			}
			l = append(l, n)
		}
	}
	return
}

// c03Scratch: where the host trees of the histories and of the relative-root probe live: a memory
// file system when the machine has one (thousands of small trees are built and walked), else tmp
func c03Scratch(tmp string) string {
	if d, err := os.MkdirTemp("/dev/shm", "verif-c03-"); err == nil {
		return d
	}
	d := filepath.Join(tmp, "scratch5")
	must(os.MkdirAll(d, 0o755))
	return d
}

// c03RelRoot: starts the child process and merges what it reports
func c03RelRoot(o *Out, rot uint64, tier, tmp, only string) {
	dir := filepath.Join(tmp, "relroot")
	must(os.MkdirAll(filepath.Join(dir, "start/p/q/r"), 0o755))
	defer os.RemoveAll(dir)
	cmd := exec.Command(os.Args[0], "C03", "-tier", tier)
	cmd.Dir = filepath.Join(dir, "start/p/q/r")
	cmd.Env = append(os.Environ(), "C03_CHILD=relroot", "C03_CHILD_TMP="+dir, fmt.Sprintf("C03_CHILD_ROT=%d", rot), "C03_CHILD_ONLY="+only, "PWD="+cmd.Dir)
	var out, errb bytes.Buffer
	cmd.Stdout, cmd.Stderr = &out, &errb
	must(cmd.Start())
	done := make(chan error, 1)
	go func() { done <- cmd.Wait() }()
	var err error
	select {
	case err = <-done:
	case <-time.After(20 * time.Minute):
		cmd.Process.Kill()
		o.Fail("no_panic", "the relative-root probe did not finish within 20 minutes", "hang", map[string]interface{}{"probe": "relative-root"})
		return
	}
	var res struct {
		Failures    []Failure      `json:"failures"`
		Stats       map[string]int `json:"stats"`
		Evaluations int            `json:"evaluations"`
		Distinct    []string       `json:"distinct"`
	}
	if err != nil {
		os.RemoveAll(tmp) // the scratch directory of this run: the deferred removals do not run on os.Exit
		if ee, isExit := err.(*exec.ExitError); isExit && ee.ExitCode() == 3 { // the child's own must(): machinery, not behaviour
			must(fmt.Errorf("C03 relative-root child: %s", clip(errb.String(), 400)))
		}
		// the process died: a Go panic / fatal error; the trace goes to our stderr, where the
		// orchestrator decides whether its first frame lies in the repository under test
		os.Stderr.Write(errb.Bytes())
		os.Exit(2)
	}
	must(json.Unmarshal(out.Bytes(), &res))
	for _, f := range res.Failures {
		o.Fail(f.Oracle, f.What, f.Sig, f.Case)
	}
	if n := res.Stats["l2_failures"]; n > len(res.Failures) {
		o.Stats["l2_failures"] += n - len(res.Failures)
	}
	for k, v := range res.Stats {
		if k != "l2_failures" {
			o.Stats[k] += v
		}
	}
	for _, k := range res.Distinct {
		o.distinct[k] = true
	}
	o.Evaluations += res.Evaluations
	o.Extra["relative_root_cases"] = res.Stats["relroot_case"]
}
