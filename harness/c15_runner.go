package main

// C15, runner level: "the runner takes the task's lock map around the body".  The body of a task
// is what its sandbox runs PLUS whatever that run leaves registered on the task's scope
// (AddTasks/DoneTask) - runGo waits for the scope before the task is finished, and the named
// locks must be held until then.  The real pipeline application is built as the repository's own
// tests build it; a sandbox `probe:<id>` is added whose Run registers asynchronous work on the
// task scope and returns at once (or, for odd ids, does the work synchronously).  Tasks with random
// lock maps are submitted through Runner.Run; every piece of work logs begin/end in one global
// sequence and the recorded intervals must respect the lock maps.

import (
	"fmt"
	"strconv"
	"strings"
	"sync"
	"time"

	"github.com/goatcms/goatcore/app"
	"github.com/goatcms/goatcore/app/bootstrap"
	"github.com/goatcms/goatcore/app/gio"
	"github.com/goatcms/goatcore/app/goatapp"
	"github.com/goatcms/goatcore/app/modules/commonm"
	"github.com/goatcms/goatcore/app/modules/commonm/commservices"
	"github.com/goatcms/goatcore/app/modules/ocm"
	"github.com/goatcms/goatcore/app/modules/pipelinem"
	"github.com/goatcms/goatcore/app/modules/pipelinem/pipservices"
	"github.com/goatcms/goatcore/app/modules/pipelinem/pipservices/namespaces"
	"github.com/goatcms/goatcore/app/modules/terminalm"
	"github.com/goatcms/goatcore/app/scope"
	"github.com/goatcms/goatcore/filesystem/filespace/memfs"
	"github.com/goatcms/goatcore/varutil/goaterr"
)

type c15RunLog struct {
	mu sync.Mutex
	ev []c15Event
}

func (l *c15RunLog) add(i int, acq bool) {
	l.mu.Lock()
	l.ev = append(l.ev, c15Event{I: i, Acq: acq})
	l.mu.Unlock()
}

type c15ProbeBuilder struct {
	log  *c15RunLog
	hold func(i int) time.Duration
}

func (b *c15ProbeBuilder) Is(name string) bool { return strings.HasPrefix(name, "probe:") }
func (b *c15ProbeBuilder) Build(name string) (pipservices.Sandbox, error) {
	i, err := strconv.Atoi(strings.TrimPrefix(name, "probe:"))
	if err != nil {
		return nil, err
	}
	return &c15ProbeSandbox{b: b, i: i}, nil
}

type c15ProbeSandbox struct {
	b *c15ProbeBuilder
	i int
}

func (s *c15ProbeSandbox) Run(ctx app.IOContext) error {
	work := func() {
		s.b.log.add(s.i, true)
		time.Sleep(s.b.hold(s.i))
		s.b.log.add(s.i, false)
	}
	if s.i%3 == 1 { // synchronous body
		work()
		return nil
	}
	// asynchronous body: registered on the task scope, Run returns at once
	if err := ctx.Scope().AddTasks(1); err != nil {
		return err
	}
	go func() {
		defer ctx.Scope().DoneTask()
		work()
	}()
	return nil
}

func c15RunnerProbe(o *Out, rng *RNG, rounds int) {
	mapp, err := goatapp.NewMockupApp(goatapp.Params{})
	must(err)
	bootstraper := bootstrap.NewBootstrap(mapp)
	must(goaterr.ToError(goaterr.AppendError(nil,
		bootstraper.Register(terminalm.NewModule()),
		bootstraper.Register(commonm.NewModule()),
		bootstraper.Register(ocm.NewModule()),
		bootstraper.Register(pipelinem.NewModule()),
	)))
	must(bootstraper.Init())
	var deps struct {
		Runner    pipservices.Runner           `dependency:"PipRunner"`
		TasksUnit pipservices.TasksUnit        `dependency:"PipTasksUnit"`
		Manager   pipservices.SandboxesManager `dependency:"PipSandboxesManager"`
		Mutex     commservices.SharedMutex     `dependency:"CommonSharedMutex"`
	}
	must(mapp.DependencyProvider().InjectTo(&deps))
	log := &c15RunLog{}
	holds := map[int]time.Duration{}
	var holdMu sync.Mutex
	deps.Manager.Add(&c15ProbeBuilder{log: log, hold: func(i int) time.Duration {
		holdMu.Lock()
		defer holdMu.Unlock()
		return holds[i]
	}})
	cwd, err := memfs.NewFilespace()
	must(err)
	names := []string{"a", "b", "c"}
	for round := 0; round < rounds; round++ {
		n := 2 + rng.Intn(5)
		maps := make([]commservices.LockMap, n)
		holdMu.Lock()
		for i := range maps {
			maps[i] = c15RandMap(rng, names, 2, 70)
			holds[i] = time.Duration(200+rng.Intn(3000)) * time.Microsecond
		}
		holdMu.Unlock()
		log.mu.Lock()
		log.ev = nil
		log.mu.Unlock()
		root := scope.New(scope.Params{})
		mgr, err := deps.TasksUnit.FromScope(root)
		must(err)
		ns := namespaces.NewNamespaces(pipservices.NamasepacesParams{})
		mapsDesc := make([]interface{}, n)
		for i := range maps {
			mapsDesc[i] = descRows(c15Rows(maps[i]))
		}
		desc := map[string]interface{}{"op": "runner-locks", "maps": mapsDesc}
		subErr := ""
		// wait lists: a task may wait for earlier tasks (waiting happens BEFORE the locks are taken:
		// a task that held its locks while waiting for another one that needs them would never run).
		// Every third round forces the critical order: an outside holder keeps "0" while t0 (which
		// names "0" and x) and t1 (x, waits for t0) are submitted, and lets go afterwards.
		waits := make([][]string, n)
		var outside commservices.UnlockHandler
		if round%3 == 0 {
			outside = deps.Mutex.Lock(commservices.LockMap{"0": commservices.LockRW})
			maps[0] = commservices.LockMap{"0": commservices.LockRW, "a": commservices.LockRW}
			maps[1] = commservices.LockMap{"a": commservices.LockRW}
			waits[1] = []string{"t0"}
			mapsDesc[0], mapsDesc[1] = descRows(c15Rows(maps[0])), descRows(c15Rows(maps[1]))
		}
		for i := 1; i < n; i++ {
			for j := 0; j < i; j++ {
				if rng.Chance(25) {
					waits[i] = append(waits[i], fmt.Sprintf("t%d", j))
				}
			}
		}
		desc["waits"] = waits
		for i := range maps {
			if err := deps.Runner.Run(pipservices.Pip{
				Context: pipservices.PipContext{In: gio.NewInput(strings.NewReader("")), Out: gio.NewNilOutput(), Err: gio.NewNilOutput(), CWD: cwd, Scope: root},
				Name:    fmt.Sprintf("t%d", i), Namespaces: ns, Sandbox: fmt.Sprintf("probe:%d", i), Lock: maps[i], Wait: waits[i],
			}); err != nil {
				subErr = err.Error()
			}
		}
		if outside != nil {
			time.Sleep(2 * time.Millisecond) // let both goroutines reach their first blocking point
			outside.Unlock()
		}
		done := make(chan error, 1)
		go func() { done <- mgr.Wait() }()
		select {
		case <-done:
		case <-time.After(15 * time.Second):
			o.Fail("no_deadlock", "tasks submitted through the pipeline runner with lock maps and wait lists did not all finish within 15 s", "runner-hang", desc)
			o.CountEval(fmt.Sprintf("rl:%d", round), true)
			return
		}
		if subErr != "" {
			o.Stat("runner_submit_error")
		}
		log.mu.Lock()
		tr := append([]c15Event{}, log.ev...)
		log.mu.Unlock()
		desc["trace"] = c15EventsDesc(tr)
		active := map[int]bool{}
		bad := ""
		for _, e := range tr {
			if e.Acq {
				for j := range active {
					if !c15Compatible(maps[e.I], maps[j]) && bad == "" {
						bad = fmt.Sprintf("the bodies of tasks %d and %d ran at the same time although their lock maps conflict (the runner must hold a task's locks until its scope has finished)", j, e.I)
					}
				}
				active[e.I] = true
			} else {
				delete(active, e.I)
			}
		}
		if bad == "" && subErr == "" && (len(tr) != 2*n || len(active) != 0) {
			bad = fmt.Sprintf("trace incomplete: %d events for %d tasks", len(tr), n)
		}
		if bad != "" {
			o.Fail("exclusion", bad, "runner-exclusion", desc)
		}
		contended := false
		for i := 0; i < n; i++ {
			for j := i + 1; j < n; j++ {
				if !c15Compatible(maps[i], maps[j]) {
					contended = true
				}
			}
		}
		o.Stat("runner_lock_rounds")
		o.CountEval(fmt.Sprintf("rl:%d:%v", round, mapsDesc), contended)
	}
}
