package main

// C15, runner level: "the runner takes the task's lock map around the body".  The body of a task
// is what its sandbox runs PLUS whatever that run leaves registered on the task's scope
// (AddTasks/DoneTask) - runGo waits for the scope before the task is finished, and the named
// locks must be held until then.  The real pipeline application is built as the repository's own
// tests build it; a sandbox `probe:<id>` is added whose Run registers asynchronous work on the
// task scope and returns at once (or, for odd ids, does the work synchronously).  Tasks with random
// lock maps are submitted through Runner.Run; every piece of work logs begin/end in one global
// sequence and the recorded intervals must respect the lock maps.
//
// Coverage audit additions: (1) the outside holder of the forced rounds is a holder like any
// other (a direct user of the CommonSharedMutex service and a task naming the same resource
// exclude each other) and a bystander task with a private resource must finish while t0 is
// parked on the outside holder's resource; (2) rounds of pairwise compatible tasks whose bodies
// must all be running at the same time; (3) rounds in which bodies FAIL (Run returns an error /
// the work left on the task scope reports one), every task in a scope of its own: the locks of
// a failed task must be given back, the others get their turn.

import (
	"errors"
	"fmt"
	"strconv"
	"strings"
	"sync"
	"sync/atomic"
	"time"

	"github.com/goatcms/goatcore/app"
	"github.com/goatcms/goatcore/app/bootstrap"
	"github.com/goatcms/goatcore/app/gio"
	"github.com/goatcms/goatcore/app/goatapp"
	"github.com/goatcms/goatcore/app/modules/commonm"
	"github.com/goatcms/goatcore/app/modules/commonm/commservices"
	"github.com/goatcms/goatcore/app/modules/ocm"
	"github.com/goatcms/goatcore/app/modules/pipelinem"
	"github.com/goatcms/goatcore/app/modules/pipelinem/pipservices"
	"github.com/goatcms/goatcore/app/modules/pipelinem/pipservices/namespaces"
	"github.com/goatcms/goatcore/app/modules/terminalm"
	"github.com/goatcms/goatcore/app/scope"
	"github.com/goatcms/goatcore/filesystem/filespace/memfs"
	"github.com/goatcms/goatcore/varutil/goaterr"
)

type c15RunLog struct {
	mu sync.Mutex
	ev []c15Event
}

func (l *c15RunLog) add(i int, acq bool) {
	l.mu.Lock()
	l.ev = append(l.ev, c15Event{I: i, Acq: acq})
	l.mu.Unlock()
}

func (l *c15RunLog) ended(i int) bool {
	l.mu.Lock()
	defer l.mu.Unlock()
	for _, e := range l.ev {
		if e.I == i && !e.Acq {
			return true
		}
	}
	return false
}

type c15ProbeBuilder struct {
	log  *c15RunLog
	hold func(i int) time.Duration
	// fail: 0 the body succeeds, 1 Run returns an error after the work, 2 the work reports an
	// error to the task scope (Scope().Wait() of the runner returns it)
	fail func(i int) int
	// meet is called inside the body, between its begin and end events (may be nil)
	meet func(i int)
}

func (b *c15ProbeBuilder) Is(name string) bool { return strings.HasPrefix(name, "probe:") }
func (b *c15ProbeBuilder) Build(name string) (pipservices.Sandbox, error) {
	i, err := strconv.Atoi(strings.TrimPrefix(name, "probe:"))
	if err != nil {
		return nil, err
	}
	return &c15ProbeSandbox{b: b, i: i}, nil
}

type c15ProbeSandbox struct {
	b *c15ProbeBuilder
	i int
}

func (s *c15ProbeSandbox) Run(ctx app.IOContext) error {
	mode := s.b.fail(s.i)
	work := func() {
		s.b.log.add(s.i, true)
		s.b.meet(s.i)
		time.Sleep(s.b.hold(s.i))
		s.b.log.add(s.i, false)
		if mode == 2 {
			ctx.Scope().AppendError(errors.New("c15 probe: the work of this body fails"))
		}
	}
	if s.i%3 == 1 || mode == 1 { // synchronous body
		work()
		if mode == 1 {
			return errors.New("c15 probe: this body fails")
		}
		return nil
	}
	// asynchronous body: registered on the task scope, Run returns at once
	if err := ctx.Scope().AddTasks(1); err != nil {
		return err
	}
	go func() {
		defer ctx.Scope().DoneTask()
		work()
	}()
	return nil
}

// c15Exclusion: the recorded begin/end events respect the lock maps.
func c15Exclusion(tr []c15Event, maps []commservices.LockMap) (bad string) {
	active := map[int]bool{}
	for _, e := range tr {
		if e.Acq {
			for j := range active {
				if !c15Compatible(maps[e.I], maps[j]) && bad == "" {
					bad = fmt.Sprintf("holders %d and %d were inside at the same time although their lock maps conflict", j, e.I)
				}
			}
			active[e.I] = true
		} else {
			delete(active, e.I)
		}
	}
	return bad
}

func c15RunnerProbe(o *Out, rng *RNG, rounds int) {
	mapp, err := goatapp.NewMockupApp(goatapp.Params{})
	must(err)
	bootstraper := bootstrap.NewBootstrap(mapp)
	must(goaterr.ToError(goaterr.AppendError(nil,
		bootstraper.Register(terminalm.NewModule()),
		bootstraper.Register(commonm.NewModule()),
		bootstraper.Register(ocm.NewModule()),
		bootstraper.Register(pipelinem.NewModule()),
	)))
	must(bootstraper.Init())
	var deps struct {
		Runner    pipservices.Runner           `dependency:"PipRunner"`
		TasksUnit pipservices.TasksUnit        `dependency:"PipTasksUnit"`
		Manager   pipservices.SandboxesManager `dependency:"PipSandboxesManager"`
		Mutex     commservices.SharedMutex     `dependency:"CommonSharedMutex"`
	}
	must(mapp.DependencyProvider().InjectTo(&deps))
	log := &c15RunLog{}
	holds := map[int]time.Duration{}
	fails := map[int]int{}
	var meet func(i int)
	var holdMu sync.Mutex
	deps.Manager.Add(&c15ProbeBuilder{log: log, hold: func(i int) time.Duration {
		holdMu.Lock()
		defer holdMu.Unlock()
		return holds[i]
	}, fail: func(i int) int {
		holdMu.Lock()
		defer holdMu.Unlock()
		return fails[i]
	}, meet: func(i int) {
		holdMu.Lock()
		f := meet
		holdMu.Unlock()
		if f != nil {
			f(i)
		}
	}})
	cwd, err := memfs.NewFilespace()
	must(err)
	names := []string{"a", "b", "c"}
	for round := 0; round < rounds; round++ {
		n := 2 + rng.Intn(5)
		if round%3 == 0 && n < 3 {
			n = 3
		}
		maps := make([]commservices.LockMap, n)
		holdMu.Lock()
		for i := range maps {
			maps[i] = c15RandMap(rng, names, 2, 70)
			holds[i] = time.Duration(200+rng.Intn(3000)) * time.Microsecond
		}
		holdMu.Unlock()
		log.mu.Lock()
		log.ev = nil
		log.mu.Unlock()
		root := scope.New(scope.Params{})
		mgr, err := deps.TasksUnit.FromScope(root)
		must(err)
		ns := namespaces.NewNamespaces(pipservices.NamasepacesParams{})
		mapsDesc := make([]interface{}, n)
		for i := range maps {
			mapsDesc[i] = descRows(c15Rows(maps[i]))
		}
		desc := map[string]interface{}{"op": "runner-locks", "maps": mapsDesc}
		subErr := ""
		// wait lists: a task may wait for earlier tasks (waiting happens BEFORE the locks are taken:
		// a task that held its locks while waiting for another one that needs them would never run).
		// Every third round forces the critical order: an outside holder keeps "0" while t0 (which
		// names "0" and x) and t1 (x, waits for t0) are submitted, and lets go afterwards.
		waits := make([][]string, n)
		var outside commservices.UnlockHandler
		// The outside holder is holder n of the round (a direct user of the shared mutex service
		// excludes a task that names the same resource), and t2 is a bystander: its only resource
		// is its own, it waits for nobody, so it must finish while t0 is still parked on "0".
		if round%3 == 0 {
			outside = deps.Mutex.Lock(commservices.LockMap{"0": commservices.LockRW})
			log.add(n, true)
			maps[0] = commservices.LockMap{"0": commservices.LockRW, "a": commservices.LockRW}
			maps[1] = commservices.LockMap{"a": commservices.LockRW}
			maps[2] = commservices.LockMap{"bys": commservices.LockRW}
			waits[1] = []string{"t0"}
			mapsDesc[0], mapsDesc[1], mapsDesc[2] = descRows(c15Rows(maps[0])), descRows(c15Rows(maps[1])), descRows(c15Rows(maps[2]))
			desc["outside"] = fmt.Sprintf("holder %d = a direct holder of {\"0\": W}, from before the submissions until t2 has finished (3 s at most)", n)
		}
		for i := 1; i < n; i++ {
			if outside != nil && i == 2 {
				continue
			}
			for j := 0; j < i; j++ {
				if rng.Chance(25) {
					waits[i] = append(waits[i], fmt.Sprintf("t%d", j))
				}
			}
		}
		desc["waits"] = waits
		for i := range maps {
			if err := deps.Runner.Run(pipservices.Pip{
				Context: pipservices.PipContext{In: gio.NewInput(strings.NewReader("")), Out: gio.NewNilOutput(), Err: gio.NewNilOutput(), CWD: cwd, Scope: root},
				Name:    fmt.Sprintf("t%d", i), Namespaces: ns, Sandbox: fmt.Sprintf("probe:%d", i), Lock: maps[i], Wait: waits[i],
			}); err != nil {
				subErr = err.Error()
			}
			if outside != nil && i == 0 {
				time.Sleep(time.Millisecond) // t0 reaches "wait for resources" first
			}
		}
		if outside != nil {
			time.Sleep(2 * time.Millisecond) // let both goroutines reach their first blocking point
			deadline := time.Now().Add(3 * time.Second)
			for !log.ended(2) && time.Now().Before(deadline) && subErr == "" {
				time.Sleep(200 * time.Microsecond)
			}
			if !log.ended(2) && subErr == "" {
				o.Stat("runner_bystander_blocked")
				o.Fail("no_serialisation", "task t2, whose only resource is its own and which waits for nobody, did not run within 3 s while task t0 was waiting for a resource held elsewhere: "+
					"the runner serialises tasks with disjoint lock maps", "runner-bystander", desc)
			}
			log.add(n, false)
			outside.Unlock()
		}
		done := make(chan error, 1)
		go func() { done <- mgr.Wait() }()
		select {
		case <-done:
		case <-time.After(15 * time.Second):
			o.Fail("no_deadlock", "tasks submitted through the pipeline runner with lock maps and wait lists did not all finish within 15 s", "runner-hang", desc)
			o.CountEval(fmt.Sprintf("rl:%d", round), true)
			return
		}
		if subErr != "" {
			o.Stat("runner_submit_error")
		}
		log.mu.Lock()
		tr := append([]c15Event{}, log.ev...)
		log.mu.Unlock()
		desc["trace"] = c15EventsDesc(tr)
		holders := n
		allMaps := maps
		if outside != nil {
			holders = n + 1
			allMaps = append(append([]commservices.LockMap{}, maps...), commservices.LockMap{"0": commservices.LockRW})
		}
		bad := c15Exclusion(tr, allMaps)
		if bad != "" {
			bad = "the bodies of two tasks (or a task's body and the section of a direct holder of the shared mutex) overlapped: " + bad +
				" (the runner must hold a task's locks, under the names the task gave, until its scope has finished)"
		}
		if bad == "" && subErr == "" && len(tr) != 2*holders {
			bad = fmt.Sprintf("trace incomplete: %d events for %d holders", len(tr), holders)
		}
		if bad != "" {
			o.Fail("exclusion", bad, "runner-exclusion", desc)
		}
		contended := false
		for i := 0; i < n; i++ {
			for j := i + 1; j < n; j++ {
				if !c15Compatible(maps[i], maps[j]) {
					contended = true
				}
			}
		}
		o.Stat("runner_lock_rounds")
		o.CountEval(fmt.Sprintf("rl:%d:%v", round, mapsDesc), contended)
	}
	env := &c15RunnerEnv{runner: deps.Runner, unit: deps.TasksUnit, log: log, cfg: &holdMu, holds: holds, fails: fails,
		setMeet: func(f func(int)) {
			holdMu.Lock()
			meet = f
			holdMu.Unlock()
		}}
	c15RunnerExtra(o, rng, env, (rounds+2)/3)
}

// c15RunnerExtra: rounds (2) and (3) of the header comment.  Returns true after a hang.
type c15RunnerEnv struct {
	runner  pipservices.Runner
	unit    pipservices.TasksUnit
	log     *c15RunLog
	cfg     *sync.Mutex
	holds   map[int]time.Duration
	fails   map[int]int
	setMeet func(func(i int))
}

func (env *c15RunnerEnv) submit(root app.Scope, i int, m commservices.LockMap) error {
	cwd, err := memfs.NewFilespace()
	must(err)
	return env.runner.Run(pipservices.Pip{
		Context: pipservices.PipContext{In: gio.NewInput(strings.NewReader("")), Out: gio.NewNilOutput(), Err: gio.NewNilOutput(), CWD: cwd, Scope: root},
		Name:    fmt.Sprintf("t%d", i), Namespaces: namespaces.NewNamespaces(pipservices.NamasepacesParams{}), Sandbox: fmt.Sprintf("probe:%d", i), Lock: m,
	})
}

func c15RunnerExtra(o *Out, rng *RNG, env *c15RunnerEnv, rounds int) (hung bool) {
	waitAll := func(mgrs []pipservices.TasksManager, d time.Duration) bool {
		done := make(chan struct{})
		go func() {
			for _, m := range mgrs {
				m.Wait()
			}
			close(done)
		}()
		select {
		case <-done:
			return true
		case <-time.After(d):
			return false
		}
	}
	reset := func(n int, fail func(i int) int) {
		env.cfg.Lock()
		for i := 0; i < n; i++ {
			env.holds[i] = time.Duration(200+rng.Intn(1500)) * time.Microsecond
			env.fails[i] = fail(i)
		}
		env.cfg.Unlock()
		env.log.mu.Lock()
		env.log.ev = nil
		env.log.mu.Unlock()
	}
	defer func() {
		env.setMeet(nil)
		reset(8, func(int) int { return 0 })
	}()
	serialised := 0
	for round := 0; round < rounds; round++ {
		// ---- (2) pairwise compatible tasks: all bodies running at the same time
		if serialised < 2 {
			k := 2 + rng.Intn(4)
			maps := make([]commservices.LockMap, k)
			for i := range maps {
				maps[i] = commservices.LockMap{}
			}
			for _, nm := range []string{"a", "b", "c", "d", "ns:a", "ns:ab"} {
				switch rng.Intn(3) {
				case 0:
					for i := range maps {
						if rng.Chance(60) {
							maps[i][nm] = commservices.LockR
						}
					}
				case 1:
					maps[rng.Intn(k)][nm] = rng.Chance(70)
				}
			}
			reset(k, func(int) int { return 0 })
			var inside int32
			all := make(chan struct{})
			giveup := make(chan struct{})
			env.setMeet(func(i int) {
				if int(atomic.AddInt32(&inside, 1)) == k {
					close(all)
				}
				select {
				case <-all:
				case <-giveup:
				}
			})
			root := scope.New(scope.Params{})
			mgr, err := env.unit.FromScope(root)
			must(err)
			desc := map[string]interface{}{"op": "runner-all-inside", "maps": c15MapsDesc(maps)}
			for i := range maps {
				must(env.submit(root, i, maps[i]))
			}
			select {
			case <-all:
				o.Stat("runner_all_inside_ok")
			case <-time.After(3 * time.Second):
				close(giveup)
				serialised++
				o.Stat("runner_all_inside_timeout")
				o.Fail("no_serialisation", fmt.Sprintf("the bodies of %d tasks with pairwise compatible lock maps were not all running at the same time within 3 s (only %d were started)", k, atomic.LoadInt32(&inside)),
					"runner-serialised", desc)
			}
			ok := waitAll([]pipservices.TasksManager{mgr}, 15*time.Second)
			env.setMeet(nil)
			o.CountEval(fmt.Sprintf("rai:%v", desc["maps"]), true)
			if !ok {
				o.Fail("no_deadlock", "tasks with pairwise compatible lock maps did not all finish within 15 s", "runner-hang", desc)
				return true
			}
		}
		// ---- (3) failing bodies, one scope (and tasks manager) per task
		{
			n := 2 + rng.Intn(3)
			names := []string{"a", "b", "c"}
			maps := make([]commservices.LockMap, n)
			for i := range maps {
				maps[i] = c15RandMap(rng, names, 2, 75)
			}
			// t0 fails and t1 wants one of its names
			if len(maps[0]) == 0 {
				maps[0]["a"] = commservices.LockRW
			}
			k0 := c15SortedKeys(maps[0])
			shared := k0[rng.Intn(len(k0))]
			maps[1][shared] = maps[0][shared] || rng.Chance(60)
			if !maps[1][shared] {
				maps[0][shared] = commservices.LockRW
			}
			modes := make([]int, n)
			for i := range modes {
				if i == 0 {
					modes[i] = 1 + rng.Intn(2)
				} else if rng.Chance(40) {
					modes[i] = 1 + rng.Intn(2)
				}
			}
			reset(n, func(i int) int { return modes[i] })
			env.setMeet(nil)
			desc := map[string]interface{}{"op": "runner-failing-bodies", "maps": c15MapsDesc(maps), "fail_modes": modes,
				"note": "one scope per task; mode 1: the sandbox's Run returns an error, mode 2: the work left on the task scope reports an error"}
			mgrs := make([]pipservices.TasksManager, n)
			for i := range maps {
				root := scope.New(scope.Params{})
				mgr, err := env.unit.FromScope(root)
				must(err)
				mgrs[i] = mgr
				must(env.submit(root, i, maps[i]))
			}
			ok := waitAll(mgrs, 15*time.Second)
			env.log.mu.Lock()
			tr := append([]c15Event{}, env.log.ev...)
			env.log.mu.Unlock()
			desc["trace"] = c15EventsDesc(tr)
			o.CountEval(fmt.Sprintf("rfb:%v:%v", desc["maps"], modes), true)
			if !ok {
				o.Stat("runner_failing_hang")
				o.Fail("no_deadlock", "tasks naming the resources of a task whose body FAILED did not get their turn within 15 s: the runner kept the named locks of the failed task", "runner-failed-body-hang", desc)
				return true
			}
			bad := c15Exclusion(tr, maps)
			if bad == "" && len(tr) != 2*n {
				bad = fmt.Sprintf("trace incomplete: %d events for %d tasks", len(tr), n)
			}
			if bad != "" {
				o.Fail("exclusion", "failing bodies: "+bad, "runner-exclusion", desc)
			}
			// a body that failed - by the sandbox's Run returning an error (what the container and ssh
			// sandboxes do) or by work left on the task scope - makes its task a failed one: waiting on
			// its manager reports an error, and only then
			for i := range mgrs {
				werr := mgrs[i].Wait()
				if (werr != nil) != (modes[i] != 0) {
					o.Fail("manager_wait", fmt.Sprintf("task %d: its body %s but waiting on the task manager returned %v",
						i, map[bool]string{true: "failed (mode " + fmt.Sprint(modes[i]) + ")", false: "succeeded"}[modes[i] != 0], werr), "runner-failed-body-unreported", desc)
					break
				}
			}
			o.Stat("runner_failing_rounds")
		}
	}
	return false
}
