package main

// C18 — Environment values reach sandbox shells verbatim.
//
// goatcore emits every value as a single-quoted assignment word  K='..'  (' written '\\'').
// Three comparisons per generated environment:
//   L1  bytes of the script produced by goatcore (dcmd.InitSequence / sshsb initSequence)
//       vs the Coq builders (CSsh / CDcmd cases; order of the map iteration and, for dcmd's
//       certificate block, the random tag are parsed out of the produced script and handed to the model; the WHOLE script is compared)
//   L2  the script is fed to the real /bin/sh; every variable printed with printf %s must equal the
//       configured value EXACTLY (trailing newlines included), under /bin/sh and bash; no unexpected file, HOME / SENTINEL untouched
//   MV  model validation: what /bin/sh did vs what the mini-sh of Model/Shell.v does on the same
//       bytes; plus the harness' own HERE-DOCUMENT scripts (the shapes goatcore used before: unquoted
//       delimiter, value line equal to the tag) for the here-document part of the mini-sh.

import (
	"bytes"
	"context"
	"encoding/json"
	"fmt"
	"io"
	"os"
	"os/exec"
	"path/filepath"
	"sort"
	"strings"
	"time"

	"github.com/goatcms/goatcore/app/modules/commonm/commservices"
	"github.com/goatcms/goatcore/app/modules/commonm/commservices/envs"
	"github.com/goatcms/goatcore/app/modules/ocm/ocservices/dcmd"
	"github.com/goatcms/goatcore/app/modules/pipelinem/pipservices/sandboxes/sshsb"
)

func init() { runners["C18"] = runC18 }

const c18Header = "\nset -e\nset +x\n"
const c18DummyTag = "EOFAAAAAAAAAA"

const c18Pub, c18Sec = "ssh-rsa AAAAB3Nza+/= verif@host", "-----BEGIN KEY-----\nb3BlbnNzaC1rZXk\n-----END KEY-----"

var c18Alphabet = []byte{'$', '`', '"', '\'', '\\', '\n', 'E', 'O', 'F', '(', ')', 'a', 'H'}

// ---------- the real shell

type shEnv struct {
	dir, bin, work, home string
	shIsBash             bool
	bash                 string // path of bash when it exists and is not /bin/sh
}

func newShEnv() *shEnv {
	d, err := os.MkdirTemp("", "c18-")
	must(err)
	e := &shEnv{dir: d, bin: filepath.Join(d, "bin"), work: filepath.Join(d, "w"), home: filepath.Join(d, "verif-home")}
	must(os.MkdirAll(e.bin, 0o755))
	must(os.MkdirAll(e.home, 0o755))
	cat, err := exec.LookPath("cat")
	must(err)
	must(os.Symlink(cat, filepath.Join(e.bin, "cat")))
	for _, tool := range []string{"mkdir", "chmod"} { // used by the SSH-certificate block of dcmd only
		if p, err := exec.LookPath(tool); err == nil {
			must(os.Symlink(p, filepath.Join(e.bin, tool)))
		}
	}
	if t, err := filepath.EvalSymlinks("/bin/sh"); err == nil && strings.Contains(filepath.Base(t), "bash") {
		e.shIsBash = true
	}
	if p, err := exec.LookPath("bash"); err == nil {
		e.bash = p
	}
	return e
}
func (e *shEnv) close() { os.RemoveAll(e.dir) }

func (e *shEnv) initStore() [][2]string {
	return [][2]string{{"HOME", e.home}, {"PATH", e.bin}, {"SENTINEL", "sentinel-value"}}
}

type shResult struct {
	Kind     string // ran | hang
	Complete bool
	Values   [][]byte
	Home     string
	Sentinel string
	Exports  string
	Extra    []string // unexpected files in the working directory
	Canary   bool
}

// probes appended after the start-up script (for sshsb they ARE the entrypoint)
func probeScript(keys []string) string {
	var sb strings.Builder
	for i, k := range keys {
		fmt.Fprintf(&sb, "printf '%%s' \"$%s\" > out_%d\n", k, i)
	}
	sb.WriteString("printf '%s' \"$HOME\" > out_home\n")
	sb.WriteString("printf '%s' \"$SENTINEL\" > out_sentinel\n")
	sb.WriteString("export -p > out_exports\n")
	sb.WriteString(": > out_done")
	return sb.String()
}

func (e *shEnv) run(script []byte, nprobes int) shResult {
	return e.runWith("/bin/sh", script, nprobes)
}

func (e *shEnv) prepare() {
	os.RemoveAll(e.work)
	os.RemoveAll(filepath.Join(e.home, ".ssh"))
	must(os.MkdirAll(e.work, 0o755))
}

func (e *shEnv) runWith(shell string, script []byte, nprobes int) shResult {
	e.prepare()
	ctx, cancel := context.WithTimeout(context.Background(), 20*time.Second)
	defer cancel()
	cmd := exec.CommandContext(ctx, shell)
	cmd.Dir = e.work
	cmd.Env = []string{"HOME=" + e.home, "PATH=" + e.bin, "SENTINEL=sentinel-value"}
	cmd.Stdin = bytes.NewReader(script)
	cmd.Stdout = io.Discard
	cmd.Stderr = io.Discard
	_ = cmd.Run()
	if ctx.Err() != nil {
		return shResult{Kind: "hang"}
	}
	return e.collect(nprobes)
}

// collect reads what the probes wrote into the working directory
func (e *shEnv) collect(nprobes int) shResult {
	r := shResult{Kind: "ran", Values: make([][]byte, nprobes)}
	expected := map[string]bool{"out_home": true, "out_sentinel": true, "out_exports": true, "out_done": true}
	for i := 0; i < nprobes; i++ {
		n := fmt.Sprintf("out_%d", i)
		expected[n] = true
		r.Values[i], _ = os.ReadFile(filepath.Join(e.work, n))
	}
	b, _ := os.ReadFile(filepath.Join(e.work, "out_home"))
	r.Home = string(b)
	b, _ = os.ReadFile(filepath.Join(e.work, "out_sentinel"))
	r.Sentinel = string(b)
	b, _ = os.ReadFile(filepath.Join(e.work, "out_exports"))
	r.Exports = string(b)
	if _, err := os.Stat(filepath.Join(e.work, "out_done")); err == nil {
		r.Complete = true
	}
	ents, _ := os.ReadDir(e.work)
	for _, en := range ents {
		if !expected[en.Name()] {
			r.Extra = append(r.Extra, en.Name())
			if en.Name() == "canary" {
				r.Canary = true
			}
		}
	}
	sort.Strings(r.Extra)
	return r
}

// ---------- goatcore side

type kv struct{ K, V string }

func newEnvs(m map[string]string, pub, sec string) (commservices.Environments, error) {
	e := envs.NewEnvironments()
	if err := e.SetAll(m); err != nil {
		return nil, err
	}
	if pub != "" || sec != "" {
		e.SetSSHCert(commservices.SSHCert{Public: pub, Secret: sec})
	}
	return e, nil
}

type buildObs struct {
	Kind   string // ok | err | panic
	Script string
}

func buildSsh(e commservices.Environments, entry string) (o buildObs) {
	defer func() {
		if recover() != nil {
			o = buildObs{Kind: "panic"}
		}
	}()
	s, err := sshsb.VerifInitSequence(e, entry)
	if err != nil {
		return buildObs{Kind: "err"}
	}
	return buildObs{Kind: "ok", Script: s}
}

func buildDcmd(e commservices.Environments) (o buildObs) {
	defer func() {
		if recover() != nil {
			o = buildObs{Kind: "panic"}
		}
	}()
	rd, err := dcmd.InitSequence(e)
	if err != nil {
		return buildObs{Kind: "err"}
	}
	b, err := io.ReadAll(rd)
	if err != nil {
		return buildObs{Kind: "err"}
	}
	return buildObs{Kind: "ok", Script: string(b)}
}

// parseScript recovers the iteration order of the map from a produced script
// (shape: header, then per variable  K='<value, ' as '\”>'  newline  export K  newline).
func parseScript(script string, env map[string]string) (order []string, rest string, ok bool) {
	if !strings.HasPrefix(script, c18Header) {
		return nil, "", false
	}
	pos := len(c18Header)
	remaining := map[string]bool{}
	for k := range env {
		remaining[k] = true
	}
	for len(remaining) > 0 {
		found := ""
		for k := range remaining {
			if strings.HasPrefix(script[pos:], k+"=") {
				found = k
				break
			}
		}
		if found == "" {
			return order, script[pos:], false
		}
		block := found + "='" + strings.ReplaceAll(env[found], "'", "'\\''") + "'\nexport " + found + "\n"
		if !strings.HasPrefix(script[pos:], block) {
			return order, script[pos:], false
		}
		pos += len(block)
		order = append(order, found)
		delete(remaining, found)
	}
	return order, script[pos:], true
}

// the harness' own here-document builder (the shape goatcore used before; model validation of the
// here-document part of the mini-sh only: unquoted delimiter and tag-collision scripts)
func ownScript(list []kv, tag string, quoted bool, tail string) string {
	var sb strings.Builder
	sb.WriteString(c18Header)
	w := tag
	if quoted {
		w = "'" + tag + "'"
	}
	for _, e := range list {
		sb.WriteString(e.K + "=$(cat <<" + w + "\n" + e.V + "\n" + tag + "\n)\nexport " + e.K + "\n")
	}
	sb.WriteString(tail)
	return sb.String()
}

// ---------- Coq emitters

func coqEnv(list []kv) string {
	items := make([]string, len(list))
	for i, e := range list {
		items[i] = "(" + coqStr(e.K) + ", " + coqStr(e.V) + ")"
	}
	return coqList(items)
}
func coqPairs(l [][2]string) string {
	items := make([]string, len(l))
	for i, e := range l {
		items[i] = "(" + coqStr(e[0]) + ", " + coqStr(e[1]) + ")"
	}
	return coqList(items)
}
func descEnv(list []kv) [][2][]int {
	r := make([][2][]int, len(list))
	for i, e := range list {
		r[i] = [2][]int{byteList([]byte(e.K)), byteList([]byte(e.V))}
	}
	return r
}

// ---------- the Go port of the mini-sh's "is this unquoted body modelled" (statistics + the
// [supported] flag of CSh cases, which the Coq check compares with the mini-sh's own answer)

func c18LetterUs(c byte) bool {
	return c >= 'A' && c <= 'Z' || c >= 'a' && c <= 'z' || c == '_'
}
func c18NameChar(c byte) bool { return c18LetterUs(c) || c >= '0' && c <= '9' }
func c18TakeName(b []byte) []byte {
	i := 0
	for i < len(b) && c18NameChar(b[i]) {
		i++
	}
	return b[:i]
}
func c18WordOK(w []byte) bool {
	if len(w) == 0 {
		return false
	}
	for _, c := range w {
		if !c18NameChar(c) {
			return false
		}
	}
	return true
}
func c18CmdOK(body []byte) bool {
	if len(body) == 0 {
		return true
	}
	if bytes.HasPrefix(body, []byte("echo ")) {
		return c18WordOK(body[5:])
	}
	if bytes.HasPrefix(body, []byte(": > ")) {
		return c18WordOK(body[4:])
	}
	if !c18WordOK(body) {
		return false
	}
	upper, allA := false, true
	for _, c := range body {
		if c >= 'A' && c <= 'Z' {
			upper = true
		}
		if c != 'a' {
			allA = false
		}
	}
	return upper || allA
}
func c18LineSupported(l []byte) bool {
	i := 0
	for i < len(l) {
		c := l[i]
		switch {
		case c == '\\':
			if i+1 >= len(l) {
				return false
			}
			i += 2
		case c == '`':
			j := bytes.IndexByte(l[i+1:], '`')
			if j < 0 || !c18CmdOK(l[i+1:i+1+j]) {
				return false
			}
			i += j + 2
		case c == '$':
			if i+1 >= len(l) {
				i++
				continue
			}
			d := l[i+1]
			switch {
			case d == '(':
				j := bytes.IndexByte(l[i+2:], ')')
				if j < 0 || !c18CmdOK(l[i+2:i+2+j]) {
					return false
				}
				i += j + 3
			case d == '{':
				n := c18TakeName(l[i+2:])
				k := i + 2 + len(n)
				if k >= len(l) || l[k] != '}' || len(n) == 0 || !c18LetterUs(n[0]) {
					return false
				}
				i = k + 1
			case c18LetterUs(d):
				i += 1 + len(c18TakeName(l[i+1:]))
			case d >= '0' && d <= '9' || strings.IndexByte("*@#?-$!", d) >= 0:
				return false
			default:
				i++
			}
		default:
			i++
		}
	}
	return true
}

// an unquoted script with these values is modelled iff every body line is, and no line equals the tag
func c18UnquotedSupported(list []kv, tag string) bool {
	for _, e := range list {
		for _, l := range strings.Split(e.V, "\n") {
			if l == tag || !c18LineSupported([]byte(l)) {
				return false
			}
		}
	}
	return true
}

func c18ValueClass(v string) string {
	switch {
	case v == "":
		return "empty"
	case strings.ContainsAny(v, "$`\\") && strings.Contains(v, "\n"):
		return "special+multiline"
	case strings.ContainsAny(v, "$`\\"):
		return "special"
	case strings.Contains(v, "\n"):
		return "multiline"
	case strings.ContainsAny(v, "'\"()"):
		return "quotes/parens"
	}
	return "plain"
}

func c18VarName(i int) string {
	s := ""
	for {
		s = string(rune('A'+i%26)) + s
		i = i/26 - 1
		if i < 0 {
			break
		}
	}
	if len(s)%2 == 0 {
		return "V_" + s
	}
	return "v" + s
}

// dash (0.5.12) drops a byte >= 0x80 that directly follows a non-empty prefix of the here-document
// delimiter at the start of a body line (quoted or unquoted delimiter alike; bash is exact).  Both
// builders' tags start with "EOF".  Such values are kept out of the general streams (like the bash
// 0x01/0x7f quirk) and exercised by a dedicated probe that reports what the shell does.
func c18DashQuirk(v string) bool {
	for _, l := range strings.Split(v, "\n") {
		i := 0
		for i < len(l) && i < 3 && l[i] == "EOF"[i] {
			i++
		}
		if i == 3 {
			for i < len(l) && l[i] >= 'A' && l[i] <= 'Z' {
				i++
			}
		}
		if i > 0 && i < len(l) && l[i] >= 0x80 {
			return true
		}
	}
	return false
}

func trimNL(s string) string { return strings.TrimRight(s, "\n") }

// ---------- runner

type c18 struct {
	o   *Out
	rng *RNG
	sh  *shEnv
	nsh int
	// plain names that were never configured on the object a history builds from (the caller wrote them into
	// its OWN maps only): runBuilt probes them after the configured ones; they must be unset in the shell
	ghosts []string
}

func (c *c18) shCase(script string, list []kv, supported bool, res shResult) {
	probes := make([][2]string, 0, len(list)+2)
	for i, e := range list {
		probes = append(probes, [2]string{e.K, string(res.Values[i])})
	}
	probes = append(probes, [2]string{"HOME", res.Home}, [2]string{"SENTINEL", res.Sentinel})
	term := fmt.Sprintf("CSh %s %s %s %s %s %s", coqPairs(c.sh.initStore()), coqStr(script), coqBool(supported),
		coqBool(res.Complete), coqPairs(probes), coqBool(res.Canary))
	c.o.AddCase(term, map[string]interface{}{"op": "sh", "script": byteList([]byte(script)), "supported": supported,
		"complete": res.Complete, "canary": res.Canary, "env": descEnv(list)}, "sh:"+script, true)
}

// L2 oracles on what the real shell did with a goatcore-generated script
func (c *c18) oracle(kind string, list []kv, res shResult, desc map[string]interface{}) bool {
	o := c.o
	ok := true
	if res.Kind == "hang" {
		o.Fail("sh_terminates", "the shell did not finish the start-up script within 20 s", "hang", desc)
		return false
	}
	if !res.Complete {
		o.Fail("verbatim", kind+": the shell stopped before the end of the start-up script (probes did not run)", "verbatim", desc)
		return false
	}
	for i, e := range list {
		if string(res.Values[i]) != e.V && trimNL(string(res.Values[i])) == trimNL(e.V) {
			// the property promises the value "up to trailing newlines"; exactness (which the current
			// builders have and the theorems state) is compared by L1 through the Ran term
			o.Stat("value_differs_in_trailing_newlines_only")
		} else if string(res.Values[i]) != e.V {
			o.Fail("verbatim", fmt.Sprintf("%s: variable %s configured as %q reached the shell as %q", kind, e.K, e.V, res.Values[i]), "verbatim", desc)
			ok = false
			break
		}
		if !strings.Contains("\n"+res.Exports, "\nexport "+e.K+"=") && !strings.Contains("\n"+res.Exports, "\ndeclare -x "+e.K+"=") {
			o.Fail("exported", fmt.Sprintf("%s: variable %s is not exported", kind, e.K), "exported", desc)
			ok = false
			break
		}
	}
	if len(res.Extra) > 0 || res.Home != c.sh.home || res.Sentinel != "sentinel-value" {
		o.Fail("no_side_effect", fmt.Sprintf("%s: a value had an effect: unexpected files %q, HOME=%q SENTINEL=%q", kind, res.Extra, res.Home, res.Sentinel), "side_effect", desc)
		ok = false
	}
	return ok
}

// one environment through one builder: L1 case, real shell, L2, model-validation case
func (c *c18) runEnv(kind string, m map[string]string, pub, sec string) {
	c.runEnvL(kind, m, pub, sec, true)
}

func (c *c18) runEnvL(kind string, m map[string]string, pub, sec string, l1 bool) {
	o := c.o
	desc := map[string]interface{}{"op": "env", "kind": kind, "pub": byteList([]byte(pub)), "sec": byteList([]byte(sec))}
	keys := make([]string, 0, len(m))
	for k := range m {
		keys = append(keys, k)
	}
	sort.Strings(keys)
	sorted := make([]kv, len(keys))
	for i, k := range keys {
		sorted[i] = kv{k, m[k]}
	}
	desc["env"] = descEnv(sorted)
	e, err := newEnvs(m, pub, sec)
	if err != nil {
		o.Fail("names", "SetAll rejected a map of valid keys", "names", desc)
		return
	}
	c.runBuilt(kind, e, m, pub, sec, desc, l1)
}

// runBuilt: the Environments object [e] is expected to hold exactly [m] (and the certificate): build the
// start-up script of [kind] from it, L1 case (when l1; very long scripts are judged by L2 only), real shell, L2
func (c *c18) runBuilt(kind string, e commservices.Environments, m map[string]string, pub, sec string, desc map[string]interface{}, l1 bool) bool {
	o := c.o
	keys := make([]string, 0, len(m))
	for k := range m {
		keys = append(keys, k)
	}
	sort.Strings(keys)
	sorted := make([]kv, len(keys))
	for i, k := range keys {
		sorted[i] = kv{k, m[k]}
	}
	var b buildObs
	entry := ""
	probeKeys := keys // the probes print the variables in sorted order (for sshsb they are the entrypoint)
	if len(c.ghosts) > 0 {
		probeKeys = append(append([]string{}, keys...), c.ghosts...)
	}
	if kind == "ssh" {
		entry = probeScript(probeKeys)
		b = buildSsh(e, entry)
	} else {
		b = buildDcmd(e)
	}
	o.Stat("build_" + kind + "_" + b.Kind)
	certErr := (pub == "") != (sec == "")
	if b.Kind != "ok" {
		if kind == "dcmd" && certErr && b.Kind == "err" {
			o.AddCase(fmt.Sprintf("CDcmd %s %s %s %s false [] [] NotRun", coqEnv(sorted), coqStr(c18DummyTag), coqStr(pub), coqStr(sec)), desc, "dcmderr:"+pub+"|"+sec, true)
			return true
		}
		o.Fail("builder_total", kind+": the builder returned "+b.Kind, "builder", desc)
		return false
	}
	order, rest, ok := parseScript(b.Script, m)
	list := sorted
	if ok {
		list = make([]kv, len(order))
		for i, k := range order {
			list[i] = kv{k, m[k]}
		}
	} else {
		o.Stat("script_shape_unrecognised")
	}
	tag := ""
	if kind == "dcmd" { // the random tag survives only in the certificate block
		if i := strings.Index(rest, "cat <<"); i >= 0 {
			if j := strings.Index(rest[i:], " >> "); j >= 0 {
				tag = rest[i+6 : i+j]
			}
		}
		if tag == "" {
			tag = c18DummyTag // no certificate: the tag does not occur in the script
			o.Stat("tag_unobservable")
		}
	}
	key := kind + ":" + pub + "|" + sec
	for _, e := range sorted {
		key += "|" + e.K + "=" + e.V
	}
	nontrivial := len(m) > 0
	// real shell
	probes := ""
	full := b.Script
	if kind == "dcmd" {
		probes = probeScript(probeKeys) + "\n"
		full += probes
	}
	res := c.sh.run([]byte(full), len(probeKeys))
	c.nsh++
	for _, e := range sorted {
		o.Stat("value_" + c18ValueClass(e.V))
	}
	good := c.oracle(kind, sorted, res, desc)
	for j, g := range c.ghosts {
		if good && res.Kind == "ran" && len(res.Values[len(keys)+j]) > 0 {
			o.Fail("configured_only", fmt.Sprintf("%s: the start-up script sets %s=%q, a variable that was never configured on this Environments object (the caller wrote it into a map of its own only)", kind, g, res.Values[len(keys)+j]), "aliasing", desc)
			good = false
		}
	}
	if c.sh.bash != "" && !c.sh.shIsBash { // the same script through bash as well (L2 only)
		bres := c.sh.runWith(c.sh.bash, []byte(full), len(probeKeys))
		c.nsh++
		o.Stat("bash_runs")
		good = c.oracle(kind+"(bash)", sorted, bres, desc) && good
	}
	if !l1 {
		o.CountEval("b:"+key, nontrivial)
		o.Stat("l2_only_long_script")
		return good
	}
	ran := c.shresTerm(sorted, res)
	if kind == "ssh" {
		o.AddCase(fmt.Sprintf("CSsh %s %s %s %s", coqEnv(list), coqStr(entry), coqStr(b.Script), ran), desc, "b:"+key, nontrivial)
	} else {
		o.AddCase(fmt.Sprintf("CDcmd %s %s %s %s true %s %s %s", coqEnv(list), coqStr(tag), coqStr(pub), coqStr(sec), coqStr(b.Script), coqStr(probes), ran), desc, "b:"+key, nontrivial)
	}
	return good
}

func (c *c18) shresTerm(list []kv, res shResult) string {
	if res.Kind != "ran" {
		return "NotRun"
	}
	probes := make([][2]string, 0, len(list)+2)
	for i, e := range list {
		probes = append(probes, [2]string{e.K, string(res.Values[i])})
	}
	probes = append(probes, [2]string{"HOME", res.Home}, [2]string{"SENTINEL", res.Sentinel})
	return fmt.Sprintf("(Ran %s %s %s %s)", coqPairs(c.sh.initStore()), coqBool(res.Complete), coqPairs(probes), coqBool(res.Canary))
}

// model validation on a script built by the harness (unquoted delimiter and what-if scripts)
func (c *c18) runOwn(list []kv, tag string, quoted bool, label string) shResult {
	keys := make([]string, len(list))
	for i, e := range list {
		keys[i] = e.K
	}
	script := ownScript(list, tag, quoted, probeScript(keys)+"\n")
	res := c.sh.run([]byte(script), len(keys))
	c.nsh++
	if res.Kind != "ran" {
		c.o.Stat("mv_" + label + "_hang")
		return res
	}
	supported := quoted || c18UnquotedSupported(list, tag)
	if supported {
		c.o.Stat("mv_" + label + "_modelled")
	} else {
		c.o.Stat("mv_" + label + "_not_modelled")
	}
	if !quoted {
		expanded := false
		for i, e := range list {
			if !res.Complete || string(res.Values[i]) != trimNL(e.V) {
				expanded = true
			}
		}
		if expanded || len(res.Extra) > 0 {
			c.o.Stat("mv_" + label + "_value_was_interpreted")
		}
	}
	tagLine := false
	for _, e := range list {
		for _, l := range strings.Split(e.V, "\n") {
			if l == tag {
				tagLine = true
			}
		}
	}
	if tagLine { // break-out: the shell usually stops with "not found" under set -e; compare the canary only
		c.o.Stat("mv_" + label + "_tag_line")
		c.o.AddCase(fmt.Sprintf("CShCanary %s %s %s", coqPairs(c.sh.initStore()), coqStr(script), coqBool(res.Canary)),
			map[string]interface{}{"op": "sh_canary", "script": byteList([]byte(script))}, "shc:"+script, true)
		return res
	}
	c.shCase(script, list, supported, res)
	return res
}

// values for the harness' own HERE-DOCUMENT scripts (validation of the here-document part of the
// mini-sh against /bin/sh): the dash defect described at c18DashQuirk is kept out of these
func (c *c18) randomHeredocValue() string {
	for {
		if v := c.randomValue(); !c18DashQuirk(v) {
			return v
		}
		c.o.Stat("heredoc_mv_skipped_dash_highbyte_pattern")
	}
}

// values for goatcore's own scripts: randomValue plus references to sibling variables of the same
// environment, CR LF, backslash-newline (kept out of the here-document validation stream)
func (c *c18) randomEnvValue() string {
	v := c.randomValue()
	if c.rng.Chance(30) {
		extra := []string{"$A", "${a}", "$B$k", "\r\n", "\\\n", "'\\''", "$'\\x41'", "\r", " ", "\t"}
		x := extra[c.rng.Intn(len(extra))]
		switch c.rng.Intn(3) {
		case 0:
			v = x + v
		case 1:
			v += x
		default:
			i := c.rng.Intn(len(v) + 1)
			v = v[:i] + x + v[i:]
		}
	}
	return v
}

func (c *c18) randomValue() string {
	rng := c.rng
	toks := []string{"$HOME", "${HOME}", "$(echo pwn)", "`echo pwn`", "$(: > canary)", "`: > canary`", "\\", "\\\\", "\\$", "\\`", "\n", "\n", "EOF", "EOF\n", "\nEOF\n",
		"'", "\"", "$", "a", " ", "x y", "$SENTINEL", "$UNSET", "${UNSET}", ";", "&", "|", ">", "#", "~", "*", "\r", "\t", ")", "(", "$((1+1))", "${HOME:-x}", "$1", "$$", "\n)\n",
		c18DummyTag, "=", "%s", "\\n", "-e", "é", "\xff", "\x80", "$(", "`", "${", "EOFA", "export X=1", "HOME=/x", "\nHOME=/x\n", "\n: > canary\n"}
	toks = append(toks, "\x01", "\x7f", "\x01\x01", "\x01\x7f")
	var sb strings.Builder
	n := 1 + rng.Intn(8)
	for i := 0; i < n && sb.Len() < 60; i++ {
		if rng.Chance(15) {
			sb.WriteByte(byte(1 + rng.Intn(255)))
		} else {
			sb.WriteString(toks[rng.Intn(len(toks))])
		}
	}
	s := sb.String()
	if len(s) > 60 {
		s = s[:60]
	}
	if rng.Chance(10) {
		s += "\\"
	}
	if rng.Chance(10) {
		s += "\n\n"
	}
	return s
}

func runC18(o *Out, rng *RNG, tier string, replay string) {
	o.Imports = "From GC Require Import Common.Base Model.Shell Proofs.C18More Corr.C18."
	o.CaseType = "case"
	o.CheckFn = "check"
	o.ShardSize = 20
	thorough := tier == "thorough"
	maxLen := 3
	if thorough {
		maxLen = 4
	}
	o.Rule = "environments: (1) every value over {$,`,\",',\\,NL,E,O,F,(,),a,H} up to the tier's length (exhaustive), many variables per script, both builders; " +
		"(2) 1-5 variables with random values up to 60 bytes (shell tokens, multi-line, EOF lines, trailing backslash, bytes 0x01-0xff), both builders, " +
		"dcmd also with SSH certificates and the certificate error cases; every generated script is fed to the real /bin/sh and the variables printed. " +
		"each also through bash when present (L2). (3) model validation of the mini-sh: the same scripts, plus the harness' own HERE-DOCUMENT scripts (the shapes goatcore used before: unquoted delimiter, tag collision), real /bin/sh vs mini-sh. " +
		"(4) names: every key over {A,a,_,1,-,SP,=,NL} up to length 3 through Set, random maps through SetAll; for EVERY byte b the names b, Ab, bA, AbA, A_b, b_A and letters beyond ASCII that fold onto ASCII letters, through Set and through SetAll. " +
		"(5) second exhaustive family: every single byte 1-255 and every word over {~ : = # ; & | < > * ? [ ] { } ! , SP TAB CR . / - + % @ ^ 0 a A} up to length 2 (quick) / 3 as values. " +
		"(6) histories on ONE Environments object (directly and through EnvironmentsUnit.Envs(scope)): Set with shell-significant values, overwrite, refused Set/SetAll in between, build - change - build again; every build judged against the harness' reference map. " +
		"(7) long values (2^k and 2^k+1 bytes for 256..65536, 100 000: position-coded, quotes only, first quote + command after n quote-free bytes, random bytes) and 700 variables in one environment (scripts over 1500 bytes: real shells only). " +
		"(8) dcmd.Engine.Run with a stand-in container program that is /bin/sh: the start-up script as the engine feeds it, followed by the task's input. " +
		"(9) names the shell reserves (OPTIND, RANDOM, UID ...): recorded only (extra.reserved_names). " +
		"(10) the maps that cross the API are the caller's: histories in which the harness KEEPS every map it passed to SetAll and every map All() returned and writes to them later (every value changed to a command-running one, entries deleted, a plain name added, a refused name that is a command added), passes one map to two objects and writes to each object on its own - SetAll on a fresh object, on one holding fewer / more variables than the map, after a refused call, with an empty map, the same map twice; All() once and twice; maps of 0..40 variables; directly and through EnvironmentsUnit.Envs(scope); after every step All() must equal what the accepted calls on that object configured (L2 configured_only, L1 CHist vs env_run), every build is run by the real shells against that reference and the names the caller wrote into its own maps only must be unset in the shell. " +
		"Non-trivial: at least one variable / a key that is not empty; distinct by builder + map + certificate, by script bytes, by key."
	c := &c18{o: o, rng: rng, sh: newShEnv()}
	defer c.sh.close()
	o.Extra["bin_sh"] = func() string { t, _ := filepath.EvalSymlinks("/bin/sh"); return t }()

	if replay != "" {
		c.replay(replay)
		return
	}

	// (4) names
	c.names(thorough)

	// (1) exhaustive values, batched
	var values []string
	var rec func(prefix []byte)
	rec = func(prefix []byte) {
		values = append(values, string(prefix))
		if len(prefix) == maxLen {
			return
		}
		for _, ch := range c18Alphabet {
			rec(append(append([]byte{}, prefix...), ch))
		}
	}
	rec(nil)
	o.Extra["exhaustive_alphabet"] = byteList(c18Alphabet)
	o.Extra["exhaustive_max_len"] = maxLen
	o.Extra["exhaustive_values"] = len(values)
	batch := 80
	if thorough {
		batch = 200
	}
	for lo := 0; lo < len(values); lo += batch {
		hi := lo + batch
		if hi > len(values) {
			hi = len(values)
		}
		m := map[string]string{}
		for i := lo; i < hi; i++ {
			m[c18VarName(i-lo)] = values[i]
		}
		c.runEnv("ssh", m, "", "")
		c.runEnv("dcmd", m, "", "")
		if (lo/batch)%4 == 1 { // the same values next to an SSH certificate (the block that follows the variables)
			c.runEnvL("dcmd", m, c18Pub, c18Sec, thorough || (lo/batch)%16 == 1)
		}
	}

	// (1b) line endings inside values, with and without the SSH-certificate block (a normalisation of
	// the certificate text must not reach the values)
	{
		m := map[string]string{}
		for i, v := range []string{"a\r\nb", "\r\n", "x\r", "\rx", "HTTP/1.1 200 OK\r\nHost: x\r\n\r\nbody", "a\n\rb", "a\r\r\nb", "tab\there", "\r\n\r\nz", "form\ffeed\vvt", "a\r\n", "'\r\n'", "\"\r\n\"", "$X\r\n`id`"} {
			m[c18VarName(i)] = v
		}
		c.runEnv("ssh", m, "", "")
		c.runEnv("dcmd", m, "", "")
		c.runEnvL("dcmd", m, c18Pub, c18Sec, true)
	}

	// (2) random environments
	nRandom := 55
	if thorough {
		nRandom = 1500
	}
	names := []string{"A", "a", "HOME_DIR", "Path", "X_", "A__B", "SOME_KEY", "k", "EOF", "set", "export", "cat", "PS", "IFS_", "B", "IFS", "LANG", "LC_ALL", "ENV", "CDPATH"}
	for i := 0; i < nRandom; i++ {
		for _, kind := range []string{"ssh", "dcmd"} {
			nv := 1 + rng.Intn(5)
			if rng.Chance(4) {
				nv = 0
			}
			m := map[string]string{}
			for len(m) < nv {
				m[names[rng.Intn(len(names))]] = c.randomEnvValue()
			}
			pub, sec := "", ""
			if kind == "dcmd" && rng.Chance(25) {
				pub, sec = c18Pub, c18Sec
				switch rng.Intn(6) {
				case 0:
					pub = ""
				case 1:
					sec = ""
				}
			}
			c.runEnv(kind, m, pub, sec)
		}
	}
	// histories on one Environments object, long values / many variables, the engine that feeds the script
	c.secondAlphabet(thorough)
	c.histories(thorough)
	c.longValues(thorough)
	c.engineProbe(thorough)
	c.reservedNames()
	// InitSequence(nil)
	if b := buildDcmd(nil); b.Kind == "ok" {
		o.AddCase("CDcmdNil "+coqStr(b.Script), map[string]interface{}{"op": "dcmd_nil"}, "nil", true)
	} else {
		o.Fail("builder_total", "dcmd.InitSequence(nil) returned "+b.Kind, "builder", map[string]interface{}{"op": "dcmd_nil"})
	}

	// (3) model validation with the unquoted delimiter: one value per shell run when it contains $ ` \
	uqLen := 2
	nUqRandom := 110
	if thorough {
		uqLen = 3
		nUqRandom = 3000
	}
	var plain []kv
	for _, v := range values {
		if len(v) > uqLen {
			continue
		}
		if strings.ContainsAny(v, "$`\\") {
			c.runOwn([]kv{{"K", v}}, c18DummyTag, false, "unquoted")
		} else {
			plain = append(plain, kv{c18VarName(len(plain)), v})
		}
	}
	for lo := 0; lo < len(plain); lo += 120 {
		hi := lo + 120
		if hi > len(plain) {
			hi = len(plain)
		}
		c.runOwn(plain[lo:hi], c18DummyTag, false, "unquoted")
	}
	for i := 0; i < nUqRandom; i++ {
		var v string
		if rng.Chance(50) {
			n := uqLen + 1 + rng.Intn(2)
			b := make([]byte, n)
			for j := range b {
				b[j] = c18Alphabet[rng.Intn(len(c18Alphabet))]
			}
			v = string(b)
		} else {
			v = c.randomHeredocValue()
		}
		list := []kv{{"P", "plain"}, {"K", v}}
		if rng.Chance(30) {
			list = append(list, kv{"Q", "$P$K"})
		}
		c.runOwn(list, c18DummyTag, false, "unquoted")
	}
	// the two witnesses of Props/C18.v on the real shell
	r := c.runOwn([]kv{{"A", "$HOME"}, {"B", "$(: > canary)"}}, c18DummyTag, false, "unquoted")
	if r.Kind == "ran" && (string(r.Values[0]) != c.sh.home || !r.Canary) {
		o.Stat("witness_unquoted_NOT_reproduced")
	} else {
		o.Stat("witness_unquoted_reproduced_on_bin_sh")
	}

	// the values that broke the here-document builders, as ordinary cases (both builders, L1 + L2 + MV)
	for _, m := range []map[string]string{
		{"A": "E\xc3\xa9"},
		{"A": "E\xc3\xa9\n\n", "B": "'", "C": "EOF\nEOF", "D": "\x01\x01\x7f\x01\x7f", "E": "x\nEOF\xff y\n"},
		{"A": c18DummyTag + "\n: > canary\ncat <<'" + c18DummyTag + "'", "B": "'\n: > canary\n'", "C": "\\'; : > canary; '"},
		{"A": "\n", "B": "\n\n\n", "C": "a\n", "D": ""},
	} {
		c.runEnv("ssh", m, "", "")
		c.runEnv("dcmd", m, "", "")
	}

	// here-document tag collision (why dcmd no longer uses here-documents): mini-sh vs /bin/sh on the
	// harness' own quoted here-document scripts whose value contains a line equal to the tag
	for _, v := range []string{c18DummyTag + "\n: > canary\ncat <<'" + c18DummyTag + "'", c18DummyTag + "\n: > canary", "x\n" + c18DummyTag + "\n: > canary\ncat <<'" + c18DummyTag + "'\ny"} {
		res := c.runOwn([]kv{{"A", v}}, c18DummyTag, true, "heredoc_collision")
		if res.Kind == "ran" && res.Canary {
			o.Stat("heredoc_collision_breakout_confirmed_on_bin_sh")
		} else {
			o.Stat("heredoc_collision_NO_breakout")
		}
	}
	o.Extra["sh_invocations"] = c.nsh
}

// independent statement of "plain identifier": ASCII letters and underscores, starting with a letter
func c18PlainIdent(k string) bool {
	if k == "" {
		return false
	}
	for i := 0; i < len(k); i++ {
		ch := k[i]
		letter := ch >= 'A' && ch <= 'Z' || ch >= 'a' && ch <= 'z'
		if !(letter || (i > 0 && ch == '_')) {
			return false
		}
	}
	return true
}

// names: Set on every key over a small alphabet, SetAll on random maps
func (c *c18) names(thorough bool) {
	o, rng := c.o, c.rng
	plainIdent := c18PlainIdent
	var (
		sweeping  bool
		group     []string
		groupKeys [][]int
	)
	flush := func() {
		if len(group) > 0 {
			o.AddCase("CKeys "+coqList(group), map[string]interface{}{"op": "set_sweep", "keys": groupKeys}, fmt.Sprint("ks:", len(o.cases)), false)
			o.Evaluations-- // counted key by key above
		}
		group, groupKeys = nil, nil
	}
	setOne := func(k string) {
		e := envs.NewEnvironments()
		var accepted, panicked bool
		func() {
			defer func() {
				if recover() != nil {
					panicked = true
				}
			}()
			accepted = e.Set(k, "x") == nil
		}()
		desc := map[string]interface{}{"op": "set", "key": byteList([]byte(k))}
		if panicked {
			o.Fail("names", "Set panicked", "names", desc)
			return
		}
		all := e.All()
		val, stored := all[k]
		if accepted != plainIdent(k) || stored != accepted || (accepted && (len(all) != 1 || val != "x")) || (!accepted && len(all) != 0) {
			o.Fail("names", fmt.Sprintf("Set(%q): accepted=%v stored=%v, plain identifier=%v", k, accepted, stored, plainIdent(k)), "names", desc)
		}
		if accepted {
			o.Stat("key_accepted")
		} else {
			o.Stat("key_rejected")
		}
		if sweeping { // the sweep's observations go to the model in groups of 100 (one CKeys case)
			o.CountEval("k:"+k, k != "")
			group = append(group, "("+coqStr(k)+", "+coqBool(accepted)+")")
			groupKeys = append(groupKeys, byteList([]byte(k)))
			if len(group) == 100 {
				flush()
			}
			return
		}
		o.AddCase(fmt.Sprintf("CKey %s %s", coqStr(k), coqBool(accepted)), desc, "k:"+k, k != "")
	}
	alpha := []byte{'A', 'a', '_', '1', '-', ' ', '=', '\n'}
	var rec func(prefix []byte)
	rec = func(prefix []byte) {
		setOne(string(prefix))
		if len(prefix) == 3 {
			return
		}
		for _, ch := range alpha {
			rec(append(append([]byte{}, prefix...), ch))
		}
	}
	rec(nil)
	// every byte value at every position of short names (the bytes between 'Z' and 'a', '@', '{', DEL,
	// every digit, every high byte), and look-alikes of letters beyond ASCII - singly, not sampled
	sweep := c18NameSweep()
	sweeping = true
	for _, k := range sweep {
		setOne(k)
	}
	flush()
	sweeping = false
	pool := []string{"A", "a", "SOME_KEY", "A_", "A__B", "zZ", "", "_A", "_", "A1", "1A", "A-B", "A B", "A=B", "A.B", "A\n", "É", "A\x00", "$A", "A$", "A;B", "a_b_c", "PATH", "x\ty", "Aé", "A\r"}
	nRnd := 300
	if thorough {
		nRnd = 5000
	}
	for i := 0; i < nRnd; i++ {
		if rng.Chance(50) {
			setOne(pool[rng.Intn(len(pool))] + pool[rng.Intn(len(pool))])
		} else {
			b := make([]byte, 1+rng.Intn(6))
			for j := range b {
				if rng.Chance(85) {
					b[j] = "ABab_zZ"[rng.Intn(7)]
				} else {
					b[j] = byte(rng.Intn(256))
				}
			}
			setOne(string(b))
		}
	}
	// SetAll: all-or-nothing
	nAll := 300
	if thorough {
		nAll = 5000
	}
	good := []string{"A", "B", "c", "SOME_KEY", "A_", "k_k"}
	setAllOne := func(preWant []kv, m map[string]string, l1 bool) {
		e := envs.NewEnvironments()
		var pre []kv
		for _, p := range preWant {
			if e.Set(p.K, p.V) == nil {
				pre = append(pre, p)
			}
		}
		before := e.All()
		anyBad := false
		var list []kv
		for k, v := range m {
			list = append(list, kv{k, v})
			if !plainIdent(k) {
				anyBad = true
			}
		}
		sort.Slice(list, func(a, b int) bool { return list[a].K < list[b].K })
		ok := e.SetAll(m) == nil
		after := e.All()
		desc := map[string]interface{}{"op": "setall", "pre": descEnv(pre), "map": descEnv(list)}
		expect := map[string]string{}
		for k, v := range before {
			expect[k] = v
		}
		if !anyBad {
			for k, v := range m {
				expect[k] = v
			}
		}
		same := len(expect) == len(after)
		for k, v := range expect {
			if w, has := after[k]; !has || w != v {
				same = false
			}
		}
		if ok == anyBad || !same {
			o.Fail("setall_all_or_nothing", fmt.Sprintf("SetAll(%q) on %q: ok=%v, store afterwards %q", m, before, ok, after), "setall", desc)
		}
		if ok {
			o.Stat("setall_ok")
		} else {
			o.Stat("setall_rejected")
		}
		var all []kv
		for k, v := range after {
			all = append(all, kv{k, v})
		}
		sort.Slice(all, func(a, b int) bool { return all[a].K < all[b].K })
		if !l1 {
			o.CountEval(fmt.Sprintf("sa:%v|%v", pre, list), len(list) > 0)
			return
		}
		o.AddCase(fmt.Sprintf("CSetAll %s %s %s %s", coqEnv(pre), coqEnv(list), coqBool(ok), coqEnv(all)), desc, fmt.Sprintf("sa:%v|%v", pre, list), len(list) > 0)
	}
	for i := 0; i < nAll; i++ {
		var pre []kv
		for j := rng.Intn(3); j > 0; j-- {
			pre = append(pre, kv{good[rng.Intn(len(good))], fmt.Sprintf("p%d", rng.Intn(100))})
		}
		m := map[string]string{}
		for j := rng.Intn(5); j > 0; j-- {
			var k string
			if rng.Chance(80) {
				k = good[rng.Intn(len(good))]
			} else {
				k = pool[rng.Intn(len(pool))]
			}
			m[k] = fmt.Sprintf("v%d", rng.Intn(100))
		}
		setAllOne(pre, m, true)
	}
	// the same name sweep through SetAll (its validation is a code path of its own): one odd name next
	// to two plain ones, on a store that already holds one of them
	for i, k := range append(append([]string{}, pool...), sweep...) {
		if !thorough && i%3 != 0 && plainIdent(k) {
			continue
		}
		setAllOne([]kv{{"A", "p"}}, map[string]string{"A": "v1", "SOME_KEY": "v2", k: "v3"}, thorough || i%8 == 0) // L2 on all, the model on one in eight
		if !plainIdent(k) {
			setAllOne(nil, map[string]string{k: "v"}, thorough) // alone in the map, on an empty store
		}
	}
}

// c18NameSweep: for every byte b the names b, Ab, bA, AbA, A_b, b_A; letters outside ASCII that
// case folding / Unicode classes map onto ASCII letters; invisible characters; long plain names
func c18NameSweep() []string {
	var l []string
	for b := 0; b < 256; b++ {
		s := string([]byte{byte(b)})
		l = append(l, s, "A"+s, s+"A", "A"+s+"A", "A_"+s, s+"_A")
	}
	l = append(l, "\u212a", "A\u212a", "\u017f", "\u017fA", "A_\u017f", "\uff21", "\u0410", "\u0391", "A\u0131", "\u0130", "A\u00aa", "A\u0301", "A\u200b", "\ufeffA", "A\u00a0",
		"A\u2028B", "A\xc0\x80", "\xc1\x81", "A\xed\xa0\x80", strings.Repeat("A", 300), strings.Repeat("a_", 400), strings.Repeat("A", 300)+"-", "-"+strings.Repeat("A", 300))
	return l
}

// replay of a failure written by bin/verif (case description of an "env" operation)
func (c *c18) replay(path string) {
	raw, err := os.ReadFile(path)
	must(err)
	if c.replayAudit(raw) {
		return
	}
	var doc struct {
		Case struct {
			Op   string     `json:"op"`
			Kind string     `json:"kind"`
			Env  [][2][]int `json:"env"`
			Pub  []int      `json:"pub"`
			Sec  []int      `json:"sec"`
			Key  []int      `json:"key"`
		} `json:"case"`
	}
	must(json.Unmarshal(raw, &doc))
	toS := func(l []int) string {
		b := make([]byte, len(l))
		for i, x := range l {
			b[i] = byte(x)
		}
		return string(b)
	}
	switch doc.Case.Op {
	case "env":
		m := map[string]string{}
		for _, e := range doc.Case.Env {
			m[toS(e[0])] = toS(e[1])
		}
		c.runEnv(doc.Case.Kind, m, toS(doc.Case.Pub), toS(doc.Case.Sec))
	default:
		c.names(false)
	}
}
