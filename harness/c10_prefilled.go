package main

// C10, injection into an object whose tagged fields already hold something (a constructor's
// fallback value, an object reused across providers): "every later request (direct or by injection
// into tagged fields) yields that same instance" - the field must hold the provider's instance
// afterwards, and the injection counts as a resolution (later definitions are refused).

import (
	"fmt"

	"github.com/goatcms/goatcore/app"
	"github.com/goatcms/goatcore/app/dependency"
)

type c10Thing struct{ id int }

func c10PrefilledProbe(o *Out) {
	for _, allFilled := range []bool{true, false} {
		desc := map[string]interface{}{"op": "inject-prefilled", "all_fields_prefilled": allFilled}
		func() {
			defer func() {
				if r := recover(); r != nil {
					o.Fail("no_panic", fmt.Sprintf("inject into a pre-filled object: panic %v", r), "prefilled-panic", desc)
				}
			}()
			dp := dependency.NewProvider(app.DependencyTagName)
			inst := &c10Thing{1}
			runs := 0
			must(dp.Set("a", inst))
			must(dp.AddFactory("b", func(app.DependencyProvider) (interface{}, error) {
				runs++
				return &c10Thing{2}, nil
			}))
			var target struct {
				A *c10Thing `dependency:"a"`
				B *c10Thing `dependency:"b"`
			}
			target.A = &c10Thing{100} // what the object held before
			if allFilled {
				target.B = &c10Thing{200}
			}
			if err := dp.InjectTo(&target); err != nil {
				o.Fail("inject", "InjectTo on a pre-filled object failed: "+err.Error(), "prefilled-err", desc)
				return
			}
			ga, _ := dp.Get("a")
			gb, _ := dp.Get("b")
			if target.A != inst || ga != interface{}(inst) {
				o.Fail("once_same_instance", fmt.Sprintf("after InjectTo the tagged field a holds %+v, Get(a) gives %+v: not the one instance that was Set", target.A, ga), "prefilled-a", desc)
			}
			if gbT, _ := gb.(*c10Thing); target.B != gbT || gbT == nil || gbT.id != 2 {
				o.Fail("once_same_instance", fmt.Sprintf("after InjectTo the tagged field b holds %+v, Get(b) gives %+v: injection and Get must yield the same instance", target.B, gb), "prefilled-b", desc)
			}
			if runs != 1 {
				o.Fail("once", fmt.Sprintf("the factory of b ran %d times", runs), "prefilled-runs", desc)
			}
			// a second provider must not inherit what the first one put into the object
			dp2 := dependency.NewProvider(app.DependencyTagName)
			other := &c10Thing{3}
			must(dp2.Set("a", other))
			must(dp2.Set("b", other))
			if err := dp2.InjectTo(&target); err != nil || target.A != other || target.B != other {
				o.Fail("once_same_instance", fmt.Sprintf("an object injected by one provider and then by another keeps the first provider's instances (err=%v)", err), "prefilled-reuse", desc)
			}
			// injection is a resolution: the provider is frozen afterwards
			dp3 := dependency.NewProvider(app.DependencyTagName)
			must(dp3.Set("a", inst))
			var t3 struct {
				A *c10Thing `dependency:"a"`
			}
			t3.A = &c10Thing{100}
			_ = dp3.InjectTo(&t3)
			if err := dp3.Set("late", inst); err == nil {
				o.Fail("frozen", "a definition made after an InjectTo (into a pre-filled object) was accepted", "prefilled-frozen", desc)
			}
		}()
		o.Stat("prefilled_probe")
		o.CountEval(fmt.Sprintf("prefilled:%v", allFilled), true)
	}
}
