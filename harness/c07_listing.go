package main

// C07, the "list" clause at full strength: what the ENTRIES of a listing through the cache SAY.
//
// The shared filespace machinery (fsops.go) keeps of a listing only (name, is-dir) per entry. An
// os.FileInfo returned by ReadDir also describes its node: Size() is what Lstat answers and the
// length of what a read returns. The property lists stat and list among the read-type operations
// that answer "as if the pending operations had already been applied": an entry of a file that
// was overwritten / created / re-created through the cache must carry the size of the PENDING
// content, on the cache and through its child views. Times and modes are never looked at.
//
//   - after every successful mutation and every Commit (where the history walks the view anyway)
//     every visible directory is listed on the cache itself and again through child views (one
//     view per top-level directory, a nested view per second-level directory); every entry is
//     judged against the Go plain tree (L2): visible, each name once, kind, size of a file =
//     length of the pending content;
//   - the child views of these walks are KEPT from the step that first saw their directory on
//     (c07Views): a view held across pending operations; every other read of the history that
//     goes through a child view uses such a kept view or a fresh one, alternately;
//   - every ReadDir the history itself issues (raw spellings, child views) is judged the same way;
//   - all of these listings are written into the Coq case (Corr/C07.v LDir / LRaw) and compared
//     with the model's described listing v_read_dir_info (Model/CacheList.v) as multisets (L1).

import (
	"fmt"
	"sort"
	"strings"

	"github.com/goatcms/goatcore/filesystem"
)

type listedEnt struct {
	Name  string `json:"name"`
	IsDir bool   `json:"dir"`
	Size  int64  `json:"size"`
}

// listObs: one successful listing. Dir = component path of the listed directory in the cache's
// tree (view base included); View = chain of child-view bases it was taken through; HasRaw: the
// history's own ReadDir(Raw) on the cache itself (compared in Coq through the model's cnorm).
type listObs struct {
	Dir    []string
	View   []string
	Raw    string
	HasRaw bool
	Ents   []listedEnt
	same   bool // a child-view listing equal (as a multiset) to the listing of the same directory taken on the cache in the same state: not repeated in the Coq case
}

// canon: the entries as a multiset.
func (ob listObs) canon() string {
	l := make([]string, len(ob.Ents))
	for i, e := range ob.Ents {
		sz := e.Size
		if e.IsDir {
			sz = -1
		}
		l[i] = fmt.Sprintf("%q:%d", e.Name, sz)
	}
	sort.Strings(l)
	return strings.Join(l, ",")
}

func (ob listObs) coq() string {
	items := make([]string, len(ob.Ents))
	for i, e := range ob.Ents {
		info := "None"
		if !e.IsDir {
			info = fmt.Sprintf("Some %d", e.Size)
			if e.Size < 0 {
				info = "Some 0" // never agrees with a judged listing: L2 has flagged it before
			}
		}
		items[i] = fmt.Sprintf("(%s, %s)", coqStr(e.Name), info)
	}
	if ob.HasRaw {
		return fmt.Sprintf("LRaw %s %s", coqStr(ob.Raw), coqList(items))
	}
	return fmt.Sprintf("LDir %s %s", coqStrList(ob.Dir), coqList(items))
}

func coqListObs(l []listObs) string {
	var items []string
	for _, ob := range l {
		if !ob.same {
			items = append(items, ob.coq())
		}
	}
	return coqList(items)
}

// c07List: ReadDir(arg) with what every entry says, read at once (an entry may be the live node).
func c07List(fs filesystem.Filespace, arg string) (ents []listedEnt, res FsOut) {
	var got []listedEnt
	res = withTimeout(10*1e9, func() FsOut {
		infos, err := fs.ReadDir(arg)
		if err != nil {
			return errOut(err)
		}
		for _, i := range infos {
			if i == nil {
				return FsOut{Kind: "err", Msg: "nil entry in a listing"}
			}
			got = append(got, listedEnt{Name: i.Name(), IsDir: i.IsDir(), Size: i.Size()})
		}
		return FsOut{Kind: "unit"}
	})
	if res.Kind != "unit" {
		return nil, res
	}
	return got, res
}

// c07Judge: the entries of a listing of the directory abs against the plain tree with the pending
// operations applied. fs/rel: where the listing was taken (for the cross answers in the message).
func c07Judge(ref *RefFS, abs []string, ents []listedEnt, fs filesystem.Filespace, rel []string) string {
	seen := map[string]bool{}
	for _, e := range ents {
		if e.Name == "" || e.Name == "." || e.Name == ".." || strings.Contains(e.Name, "/") {
			return fmt.Sprintf("entry with the name %q", e.Name)
		}
		if seen[e.Name] {
			return fmt.Sprintf("%q is listed twice", e.Name)
		}
		seen[e.Name] = true
		re, ok := ref.get(append(append([]string{}, abs...), e.Name))
		if !ok {
			return fmt.Sprintf("%q is listed but not visible (removed, or never created)", e.Name)
		}
		if re.dir != e.IsDir {
			return fmt.Sprintf("%q is listed with IsDir()=%v; with the pending operations applied it is dir=%v", e.Name, e.IsDir, re.dir)
		}
		if !re.dir && e.Size != int64(len(re.data)) {
			cross := ""
			p := strings.Join(append(append([]string{}, rel...), e.Name), "/")
			if info, err := fs.Lstat(p); err == nil && info != nil {
				cross += fmt.Sprintf("; Lstat(%q) through the same filespace says %d bytes", p, info.Size())
			}
			if d, err := fs.ReadFile(p); err == nil {
				cross += fmt.Sprintf(", ReadFile returns %d bytes", len(d))
			}
			return fmt.Sprintf("the entry of file %q says Size()=%d; its content with the pending operations applied has %d bytes%s", e.Name, e.Size, len(re.data), cross)
		}
	}
	if want := ref.childrenOf(abs); len(want) != len(ents) {
		return fmt.Sprintf("%d entries, the tree with the pending operations applied has %d", len(ents), len(want))
	}
	return ""
}

// c07Walk lists every directory below the root of fs (which sits at base in the cache's tree),
// judging every entry; "" when all is well.
func c07Walk(fs filesystem.Filespace, base, view []string, ref *RefFS) (obs []listObs, fail string) {
	var rec func(rel []string) bool
	rec = func(rel []string) bool {
		arg := strings.Join(rel, "/")
		ents, res := c07List(fs, arg)
		where := ""
		if len(view) > 0 {
			where = fmt.Sprintf(" through the child view %q", view)
		}
		if res.Kind != "unit" {
			fail = fmt.Sprintf("ReadDir(%q)%s of a visible directory: %s %s", arg, where, res.Kind, res.Msg)
			return false
		}
		abs := append(append([]string{}, base...), rel...)
		obs = append(obs, listObs{Dir: abs, View: view, Ents: ents}) // recorded before it is judged: Coq sees a failing listing too
		if msg := c07Judge(ref, abs, ents, fs, rel); msg != "" {
			fail = fmt.Sprintf("ReadDir(%q)%s: %s", arg, where, msg)
			return false
		}
		for _, e := range ents {
			if e.IsDir && !rec(append(append([]string{}, rel...), e.Name)) {
				return false
			}
		}
		return true
	}
	rec(nil)
	return obs, fail
}

// c07Views: the child views of one history's cache that the described walks go through. A view is
// created when its base directory is first seen and then KEPT across the following operations
// (the reads that the history itself issues through child views use a fresh view each time): a
// child view held while operations are pending must keep answering as the cache does. A view is
// given up as soon as its base is no longer a visible directory (what a view of a removed and
// re-created directory is bound to is left open).
type c07Views struct {
	held map[string]filesystem.Filespace // key: base components joined by "/"
}

func newC07Views() *c07Views { return &c07Views{held: map[string]filesystem.Filespace{}} }

// prune gives up the views whose base is not a visible directory (any more).
func (vs *c07Views) prune(ref *RefFS) {
	for k := range vs.held {
		if e, ok := ref.get(strings.Split(k, "/")); !ok || !e.dir {
			delete(vs.held, k)
		}
	}
}

// heldTop: the kept view of the top-level directory name, nil when there is none.
func (vs *c07Views) heldTop(name string) filesystem.Filespace { return vs.held[name] }

func (vs *c07Views) get(o *Out, k string, mk func() (filesystem.Filespace, error)) filesystem.Filespace {
	if v, ok := vs.held[k]; ok {
		o.Stat("listing_walks_through_view_held_since_earlier_step")
		return v
	}
	v, err := mk()
	if err != nil || v == nil {
		o.Stat("listing_child_view_not_created")
		return nil
	}
	vs.held[k] = v
	return v
}

// c07DescribedWalks: the whole view on the cache itself, then through a child view per top-level
// directory and a nested child view per second-level directory.
func c07DescribedWalks(o *Out, vs *c07Views, cache filesystem.Filespace, ref, committed *RefFS) (obs []listObs, fail string) {
	vs.prune(ref)
	obs, fail = c07Walk(cache, nil, nil, ref)
	if fail != "" {
		return obs, fail
	}
	c07CountShared(o, obs, ref, committed)
	direct := map[string]string{}
	for _, ob := range obs {
		direct[key(ob.Dir)] = ob.canon()
	}
	markSame := func(l []listObs) []listObs {
		for i := range l {
			if c, ok := direct[key(l[i].Dir)]; ok && c == l[i].canon() {
				l[i].same = true
			}
		}
		return l
	}
	for _, top := range ref.childrenOf(nil) {
		if !top.IsDir {
			continue
		}
		v := vs.get(o, top.Name, func() (filesystem.Filespace, error) { return cache.Filespace(top.Name) })
		if v == nil {
			continue
		}
		vobs, vfail := c07Walk(v, []string{top.Name}, []string{top.Name}, ref)
		obs = append(obs, markSame(vobs)...)
		if vfail != "" {
			return obs, vfail
		}
		o.Stat("listing_walks_through_child_view")
		for _, snd := range ref.childrenOf([]string{top.Name}) {
			if !snd.IsDir {
				continue
			}
			vv := vs.get(o, top.Name+"/"+snd.Name, func() (filesystem.Filespace, error) { return v.Filespace(snd.Name) })
			if vv == nil {
				continue
			}
			vobs, vfail := c07Walk(vv, []string{top.Name, snd.Name}, []string{top.Name, snd.Name}, ref)
			obs = append(obs, markSame(vobs)...)
			if vfail != "" {
				return obs, vfail
			}
			o.Stat("listing_walks_through_nested_child_view")
		}
	}
	return obs, ""
}

// c07CountShared: distribution - how many judged entries are of the kind that needs the buffer's
// description: a file that the remote (as of the last successful Commit) holds with another size,
// or holds as a directory / not at all.
func c07CountShared(o *Out, obs []listObs, ref, committed *RefFS) {
	for _, ob := range obs {
		for _, e := range ob.Ents {
			o.Stat("listing_entries_judged")
			if e.IsDir {
				continue
			}
			ce, ok := committed.get(append(append([]string{}, ob.Dir...), e.Name))
			switch {
			case !ok:
				o.Stat("listing_entries_file_pending_new")
			case ce.dir:
				o.Stat("listing_entries_file_pending_replaces_dir")
			case int64(len(ce.data)) != e.Size:
				o.Stat("listing_entries_file_pending_other_size_than_remote")
			}
		}
	}
}

// c07ListingOfOp: a ReadDir of the history that succeeded (already judged by name and kind) is
// taken once more for what its entries say. norm: the normalisation of the filespace it was
// issued on. ok=false: nothing recorded.
func c07ListingOfOp(target filesystem.Filespace, ref *RefFS, viewBase []string, op FsOp) (ob listObs, ok bool, fail string) {
	norm := cachePolicy.Norm
	if len(op.View) > 0 {
		norm = refNorm
	}
	rel, climbs := norm(op.P)
	if climbs {
		return ob, false, ""
	}
	ents, res := c07List(target, op.P)
	if res.Kind != "unit" {
		return ob, false, fmt.Sprintf("ReadDir(%q) view=%v succeeded, the same call repeated at once: %s %s", op.P, op.View, res.Kind, res.Msg)
	}
	abs := append(append([]string{}, viewBase...), rel...)
	ob = listObs{Dir: abs, View: op.View, Ents: ents}
	if len(op.View) == 0 {
		ob.Raw, ob.HasRaw = op.P, true
	}
	if msg := c07Judge(ref, abs, ents, target, rel); msg != "" {
		return ob, true, fmt.Sprintf("ReadDir(%q) view=%v: %s", op.P, op.View, msg)
	}
	return ob, true, ""
}
