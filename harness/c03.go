package main

import (
	"encoding/json"
	"fmt"
	"os"
	"path"
	"sort"
	"strings"
	"time"

	"github.com/goatcms/goatcore/filesystem"
	"github.com/goatcms/goatcore/filesystem/filespace/diskfs"
	"github.com/goatcms/goatcore/filesystem/filespace/encryptfs"
	"github.com/goatcms/goatcore/filesystem/filespace/encryptfs/cipherfs/extcfs"
	"github.com/goatcms/goatcore/filesystem/filespace/memfs"
	"github.com/goatcms/goatcore/filesystem/fscache"
	"github.com/goatcms/goatcore/filesystem/fshelper"
)

func init() { runners["C03"] = runC03 }

type Ctor struct {
	Kind string `json:"kind"` // child newsub ro enc cache
	Arg  string `json:"arg,omitempty"`
}

func (c Ctor) coq() string {
	switch c.Kind {
	case "child":
		return "KChild " + coqStr(c.Arg)
	case "newsub":
		return "KNewSub " + coqStr(c.Arg)
	case "ro":
		return "KRO"
	case "enc":
		return "KEnc"
	}
	return "KRO"
}

// ccoq: the constructor in the cache-aware model (Model/ViewsCache.v)
func (c Ctor) ccoq() string {
	if c.Kind == "cache" {
		return "CKCache"
	}
	return "CK (" + c.coq() + ")"
}

// changedFiles: the files of after that are new or differ from before
func changedFiles(before, after []WalkEnt) (res [][]string) {
	old := map[string]string{}
	for _, e := range before {
		if !e.IsDir {
			old[strings.Join(e.Path, "/")] = string(e.Data)
		}
	}
	for _, e := range after {
		if e.IsDir {
			continue
		}
		if d, ok := old[strings.Join(e.Path, "/")]; !ok || d != string(e.Data) {
			res = append(res, e.Path)
		}
	}
	return
}

func encSettings() encryptfs.Settings {
	return encryptfs.Settings{Salt: []byte("salt"), Secret: []byte("secret"), Cipher: extcfs.NewDefaultCipher()}
}

// buildView applies the constructors to root. caches collects the caches created on the way
// (so that the caller can Commit them). ok=false: some constructor returned an error.
func buildView(root filesystem.Filespace, ks []Ctor) (fs filesystem.Filespace, caches []*fscache.Cache, ok bool) {
	fs = root
	defer func() {
		if r := recover(); r != nil {
			fs, ok = nil, false
		}
	}()
	for _, k := range ks {
		switch k.Kind {
		case "child":
			child, err := fs.Filespace(k.Arg)
			if err != nil || child == nil {
				return nil, caches, false
			}
			fs = child
		case "newsub":
			fs = fshelper.NewSubFS(fs, k.Arg)
		case "ro":
			fs = fshelper.NewReadonlyFS(fs)
		case "enc":
			e, err := encryptfs.NewEncryptFS(fs, encSettings())
			if err != nil {
				return nil, caches, false
			}
			fs = e
		case "cache":
			c, err := fscache.NewMemCache(fs)
			if err != nil {
				return nil, caches, false
			}
			caches = append(caches, c)
			fs = c
		}
	}
	return fs, caches, true
}

// viewRoot: independent computation of where the view's root lies (components relative to the
// backend root); ok=false when the view has no root inside the backend (everything must be refused).
func viewRoot(ks []Ctor) (root []string, ok bool) {
	topIsCache := false
	for _, k := range ks {
		wasCache := topIsCache
		if k.Kind != "enc" { // an encrypted layer hands Filespace(p) to its base: a cache below it still decides
			topIsCache = k.Kind == "cache"
		}
		switch k.Kind {
		case "child":
			arg := k.Arg
			if wasCache { // Cache.Filespace(p) = NewSubFS(cache, p): the base is path.Clean'ed, not reduced
				arg = path.Clean(arg)
			}
			c, climbs := refNorm(arg)
			if climbs {
				return nil, false
			}
			root = append(root, c...)
		case "newsub":
			cl := path.Clean(k.Arg) // rooted paths are clamped by path.Clean
			c, climbs := refNorm(cl)
			if climbs {
				return nil, false
			}
			root = append(root, c...)
		}
	}
	return root, true
}

var c03Seed = []struct {
	p    string
	data string
	dir  bool
}{
	{"secret", "TOP-SECRET", false}, {"a", "", true}, {"a/f", "file-in-a", false}, {"a/b", "", true},
	{"a/b/g", "deep", false}, {"c", "", true}, {"c/h", "other", false}, {"a/b/e", "", true}, {"top", "x", false},
}

// segment strings: exhaustive path arguments built from {name, ".", "..", ""} segments
func segPaths(maxSeg int, names []string) []string {
	segs := append([]string{".", "..", ""}, names...)
	var out []string
	var rec func(prefix []string)
	rec = func(prefix []string) {
		if len(prefix) > 0 {
			j := strings.Join(prefix, "/")
			out = append(out, j, "/"+j)
		}
		if len(prefix) == maxSeg {
			return
		}
		for _, s := range segs {
			rec(append(append([]string{}, prefix...), s))
		}
	}
	rec(nil)
	out = append(out, "")
	return out
}

// cacheChildStack: a cache directly on the backend root, then only Filespace(..) calls
func cacheChildStack(ks []Ctor) bool {
	if len(ks) < 2 || ks[0].Kind != "cache" {
		return false
	}
	for _, k := range ks[1:] {
		if k.Kind != "child" {
			return false
		}
	}
	return true
}

func isUnder(root, p []string) bool { return isPrefixComps(root, p) }

// outsideUnchanged: the confinement oracle. before/after are walks of the BACKEND root.
func outsideUnchanged(before, after []WalkEnt, root []string, hasRoot bool) string {
	bm := map[string]WalkEnt{}
	for _, e := range before {
		bm[key(e.Path)] = e
	}
	am := map[string]WalkEnt{}
	for _, e := range after {
		am[key(e.Path)] = e
	}
	for k, b := range bm {
		if hasRoot && isUnder(root, b.Path) {
			continue
		}
		a, ok := am[k]
		if !ok {
			return fmt.Sprintf("node %q outside the view root %q was deleted", k, root)
		}
		if a.IsDir != b.IsDir || string(a.Data) != string(b.Data) {
			return fmt.Sprintf("node %q outside the view root %q was changed", k, root)
		}
	}
	for k, a := range am {
		if hasRoot && isUnder(root, a.Path) {
			continue
		}
		if _, ok := bm[k]; ok {
			continue
		}
		// new node outside: only a directory that is an ancestor of the view root is tolerated
		if hasRoot && a.IsDir && isPrefixComps(a.Path, root) {
			continue
		}
		return fmt.Sprintf("node %q was created outside the view root %q", k, root)
	}
	return ""
}

func outSig(o FsOut) string {
	switch o.Kind {
	case "bool":
		return fmt.Sprintf("bool:%v", o.B)
	case "data":
		return "data:" + string(o.Data)
	case "list":
		l := append([]Ent{}, o.List...)
		sort.Slice(l, func(i, j int) bool { return l[i].Name < l[j].Name })
		return fmt.Sprintf("list:%v", l)
	case "stat":
		return fmt.Sprintf("stat:%v:%d", o.IsDir, o.Size)
	case "chunks":
		var sb strings.Builder
		for _, c := range o.Chunks {
			sb.Write(c.Data)
		}
		return "chunks:" + sb.String()
	}
	return o.Kind
}

func runC03(o *Out, rng *RNG, tier string, replay string) {
	if os.Getenv("C03_CHILD") == "relroot" { // see c03RelRoot
		c03RelRootChild(o, tier)
	}
	o.Imports = "From GC Require Import Common.Base Model.Paths Model.Fs Model.Views Model.ViewsCache Corr.FsCorr Corr.C03."
	o.CaseType = "case"
	o.CheckFn = "check"
	o.ShardSize = 150
	o.Rule = "view stacks of depth 1-3 over a populated backend (kinds: memfs child view, fshelper.SubFS, read-only mask, encrypted, cache-backed, disk child) x path arguments built from {name,'.','..',''} segments (exhaustive up to the tier's segment bound, with and without leading '/') x the 16 operations (both arguments of the copies; the other argument is an existing file and, for Copy / CopyDirectory, an existing directory of the view). L2: backend tree outside the view root unchanged (only ancestors of the root may appear as directories); answers independent of what lies outside the root, for EVERY stack: the same operation on a twin parent that agrees at and below the root and has other names and contents elsewhere (memfs and disk); the view handed out by a successful Filespace(p) is used (listed, written, removed through) and judged by both oracles against the root of the view it came from; look-alike sweep: siblings whose names extend the root's name (a/ab, a/b/a/b2, host root/root2) and the climbing arguments and Filespace arguments that name them; histories: one view across operations of its parent (copies across the view's boundary in both directions, removal and re-creation of the root), every operation of the view judged; the same histories, alias histories (every copy operation across the boundary of the view in both directions, then each side overwrites / truncates / copies over / removes its node) and lonely-root histories (the parent removes every sibling of the root and of its ancestors, the view empties and refills itself) through every rooted stack on a DISK filespace and on memfs: host tree (walked with package os) outside the root unchanged after every operation of the view, answers of the view (recursive listing and contents) unchanged after every operation of the parent whose arguments all lie outside the root; relative roots (child process): disk filespaces created from 17 spellings of one root in three working directories, stacks built before / after the process moves to a directory where the same relative path names a decoy tree / nothing, stale $PWD, all 16 operations: host outside the root unchanged, same answer and same subtree as the view created from the absolute root on an identical tree; nothing created, changed or deleted on the host above a disk root. L1 (memfs-rooted stacks without cache): result + root tree vs the Coq chain model; L1 resolve probe (all memfs-rooted stacks, caches included): the one backend file a successful WriteFile changes is where the model's path transformer resolves the argument to; L1 cache child views (NewMemCache on the root, then Filespace(..) one or more times): the operation's result and the root tree after Commit vs the model's sub_cache_step on the cache state. Non-trivial: the operation was not rejected; distinct by (stack, op, arguments)."
	maxSeg := 3
	if tier == "thorough" {
		maxSeg = 4
	}
	paths := segPaths(maxSeg, []string{"a", "b"})
	o.Extra["exhaustive_segments"] = maxSeg
	o.Extra["exhaustive_paths"] = len(paths)
	stacks := [][]Ctor{
		{{"child", "a"}}, {{"child", "a/b"}}, {{"child", "./a//b/"}}, {{"child", "a"}, {"child", "b"}},
		{{"newsub", "a"}}, {{"newsub", "a/b"}}, {{"newsub", "/a/"}}, {{"newsub", "a/x/.."}},
		{{"ro", ""}, {"child", "a"}}, {{"ro", ""}, {"child", "a"}, {"child", "b"}},
		{{"enc", ""}, {"child", "a"}}, {{"child", "a"}, {"enc", ""}},
		{{"newsub", "a"}, {"child", "b"}}, {{"child", "a"}, {"newsub", "b"}}, {{"newsub", "a"}, {"ro", ""}, {"child", "b"}},
		{{"child", "nope"}}, {{"newsub", "nope/deep"}}, {{"newsub", "../x"}}, {{"newsub", "/../a"}}, {{"child", "a/f"}},
		{{"cache", ""}, {"child", "a"}}, {{"cache", ""}, {"child", "a"}, {"child", "b"}}, {{"child", "a"}, {"cache", ""}, {"child", "b"}},
		{{"cache", ""}, {"child", "../x"}}, {{"cache", ""}, {"child", "/a/../a/b"}},
		{{"cache", ""}, {"cache", ""}, {"child", "a"}}, {{"child", "a"}, {"cache", ""}, {"enc", ""}, {"cache", ""}, {"child", "/../b"}},
	}
	kinds := []string{"Copy", "CopyDir", "CopyFile", "ReadDir", "IsExist", "IsFile", "IsDir", "MkdirAll", "ReadFile", "WriteFile", "Filespace", "Reader", "Writer", "Remove", "RemoveAll", "Lstat"}
	nRandom := 1200
	if tier == "thorough" {
		nRandom = 60000
	}
	total := 0
	// budget: exhaustive paths x stacks x single-argument ops is large; sample the op per (stack,path) and
	// run ALL ops for the climbing-prone paths (those containing "..").
	type treeSlot struct {
		root filesystem.Filespace
		walk []WalkEnt
	}
	trees := map[bool]*treeSlot{}
	twins := map[string]filesystem.Filespace{}
	takeTree := func(look bool) (filesystem.Filespace, []WalkEnt, int) {
		if s := trees[look]; s != nil {
			delete(trees, look)
			o.Stat("backend_tree_reused")
			return s.root, s.walk, 0
		}
		root, _ := memfs.NewFilespace()
		refused := populateEnts(root, c03SeedEnts(look))
		before, _, _ := walkFs(root)
		return root, before, refused
	}
	giveTree := func(look bool, root filesystem.Filespace, walk []WalkEnt) {
		trees[look] = &treeSlot{root, walk}
	}
	// look: the backend also holds the look-alike siblings of the view roots (c03Look); such runs are
	// judged by the oracles only (no Coq case)
	only5 := os.Getenv("C03_PART") == "round5" && replay == "" // development aid: the probes of c03_round5.go only
	runOne := func(ks []Ctor, op FsOp, emitL1 bool, look bool) {
		if only5 {
			return
		}
		total++
		if look {
			emitL1 = false
		}
		hasCache, hasEnc := false, false
		for _, k := range ks {
			if k.Kind == "cache" {
				hasCache = true
			}
			if k.Kind == "enc" {
				hasEnc = true
			}
		}
		ents := c03SeedEnts(look)
		root, before, refused := takeTree(look)
		view, caches, ok := buildView(root, ks)
		vroot, hasRoot := viewRoot(ks)
		var out FsOut
		if !ok {
			out = FsOut{Kind: "err", Msg: "view creation failed"}
		} else {
			out = withTimeout(20*1e9, func() FsOut { return execOn(view, op) })
			commitAll(caches)
		}
		after, wok, why := walkFs(root)
		o.Stat("op_" + op.Kind)
		o.Stat("out_" + out.Kind)
		desc := map[string]interface{}{"stack": ks, "op": op, "out": out.Kind}
		if look {
			desc["look"] = true
		}
		keyStr := fmt.Sprintf("%v|%s|%s|%s", ks, op.Kind, op.P, op.Q)
		if look {
			keyStr = "look|" + keyStr
		}
		if refused > 0 || len(before) != len(ents) {
			o.Fail("setup", fmt.Sprintf("the memory backend refused %d of the %d nodes of the start tree (%d present)", refused, len(ents), len(before)), "setup", desc)
		}
		if out.Kind == "panic" || out.Kind == "hang" {
			o.Fail("no_panic", "operation "+out.Kind+": "+out.Msg, "panic", desc)
		}
		if !wok {
			o.Fail("walk", "backend walk failed after the operation: "+why, "walk", desc)
		} else if msg := outsideUnchanged(before, after, vroot, hasRoot && ok); msg != "" {
			o.Fail("confined_writes", msg, "confine:"+op.Kind, desc)
		}
		// non-interference: the same operation on a twin parent that agrees with this one at and below
		// the view root and has other names and other contents everywhere else (for a stack without a
		// root: everywhere)
		var view2 filesystem.Filespace
		if ok {
			twinKey := fmt.Sprintf("%v|%v|%q", look, hasRoot, vroot)
			root2 := twins[twinKey]
			if root2 == nil {
				root2, _ = memfs.NewFilespace()
				populateEnts(root2, twinEnts(ents, vroot, hasRoot))
			}
			if isMutating(op.Kind) || op.Kind == "Filespace" { // a twin is used again only after operations that change nothing
				delete(twins, twinKey)
			} else {
				twins[twinKey] = root2
			}
			v2, _, ok2 := buildView(root2, ks)
			if ok2 {
				view2 = v2
				out2 := withTimeout(20*1e9, func() FsOut { return execOn(view2, op) })
				if outSig(out) != outSig(out2) {
					o.Fail("confined_reads", fmt.Sprintf("answer depends on what lies outside the view root %q (has root: %v): %s vs %s", vroot, hasRoot, outSig(out), outSig(out2)), "noninterf:"+op.Kind, desc)
				}
				o.Stat("noninterference_checked")
			} else {
				o.Fail("confined_reads", fmt.Sprintf("the view can be built on one parent and not on its twin (they agree at and below the root %q)", vroot), "noninterf:build", desc)
			}
		}
		// the view handed out by a successful Filespace(p) is used: what it shows must not depend on
		// the outside of the root of the view that handed it out, what it does must stay under it
		probed := false
		if ok && wok && op.Kind == "Filespace" && out.Kind == "unit" {
			if child := getChild(view, op.P); child != nil {
				probed = true
				o.Stat("child_view_probed")
				if view2 != nil {
					if child2 := getChild(view2, op.P); child2 != nil {
						if s1, s2 := childReadSig(child), childReadSig(child2); s1 != s2 {
							o.Fail("confined_reads", fmt.Sprintf("the view returned by Filespace(%q) shows what lies outside the root %q of the view it came from: %s vs %s", op.P, vroot, s1, s2), "child-reads", desc)
						}
					}
				}
				if w := childWrites(child); w.Kind != "unit" {
					o.Fail("no_panic", "use of the view returned by Filespace: "+w.Kind+": "+w.Msg, "panic", desc)
				}
				commitAll(caches)
				after2, wok2, why2 := walkFs(root)
				if !wok2 {
					o.Fail("walk", "backend walk failed after the use of the view returned by Filespace: "+why2, "walk", desc)
				} else if msg := outsideUnchanged(after, after2, vroot, hasRoot); msg != "" {
					o.Fail("confined_writes", fmt.Sprintf("through the view returned by Filespace(%q): %s", op.P, msg), "confine:child", desc)
				}
			}
		}
		// a backend tree that is byte-identical after the run serves the next run (building one costs
		// more than the run: every missing node on the way is an error value with a stack trace)
		if wok && !probed && refused == 0 && out.Kind != "panic" && out.Kind != "hang" {
			if same, _ := walkEqual(before, after); same && len(before) == len(after) {
				giveTree(look, root, after)
			}
		}
		nontrivial := out.Kind != "err" && !(out.Kind == "bool" && !out.B)
		// resolve probe (all stacks, caches included): a successful WriteFile lands exactly where the
		// model's path transformer says the argument resolves to
		if emitL1 && wok && ok && op.Kind == "WriteFile" && out.Kind == "unit" {
			ch := changedFiles(before, after)
			if len(ch) == 1 {
				items := make([]string, len(ks))
				for i, k := range ks {
					items[i] = k.ccoq()
				}
				o.AddCase(fmt.Sprintf("CRes %s %s %s", coqList(items), coqStr(op.P), coqStrList(ch[0])), desc, "res|"+keyStr, true)
				o.Stat("resolve_probe")
				if hasCache {
					o.Stat("resolve_probe_cache_stack")
				}
			} else if len(ch) > 1 {
				o.Fail("confined_writes", fmt.Sprintf("one WriteFile changed %d files of the backend: %v", len(ch), ch), "multiwrite", desc)
			} else {
				o.Stat("resolve_probe_same_content")
			}
		}
		// child view of a cache (NewMemCache on the root, then Filespace(..) one or more times): the
		// operation's result and the root tree after the Commit vs the model's sub_cache_step
		if emitL1 && wok && ok && cacheChildStack(ks) {
			items := make([]string, len(ks))
			for i, k := range ks {
				items[i] = k.ccoq()
			}
			o.AddCase(fmt.Sprintf("CSub %s %s (%s) (%s) %s", coqWalk(before), coqList(items), op.coq(), out.coq(), coqWalk(after)), desc, "sub|"+keyStr, nontrivial)
			o.Stat("cache_child_view_case")
			return
		}
		if emitL1 && !hasCache && wok {
			contentOp := op.Kind == "ReadFile" || op.Kind == "WriteFile" || op.Kind == "Reader" || op.Kind == "Writer" || op.Kind == "Lstat"
			if !(hasEnc && contentOp) {
				items := make([]string, len(ks))
				for i, k := range ks {
					items[i] = k.coq()
				}
				o.AddCase(fmt.Sprintf("CView %s %s [(%s, %s)] %s", coqWalk(before), coqList(items), op.coq(), out.coq(), coqWalk(after)), desc, keyStr, nontrivial)
				return
			}
		}
		o.CountEval(keyStr, nontrivial)
	}
	mkOp := func(kind, p, q string) FsOp {
		op := FsOp{Kind: kind, P: p, Q: q}
		switch kind {
		case "WriteFile":
			op.Data = []byte("W")
		case "Writer":
			op.Chunks = [][]byte{[]byte("w1"), []byte("w2")}
		case "Reader":
			op.Bufs = []int{3, 1000}
		}
		op.fillJSON()
		return op
	}
	// histories: ONE view that lives across operations of its parent; every operation of the view is
	// judged by the confinement oracle (backend walk before / after), operations of the parent are not
	runHistory := func(ks []Ctor, steps []histStep, tag string) {
		if only5 {
			return
		}
		total++
		ents := c03SeedEnts(true)
		root, _ := memfs.NewFilespace()
		populateEnts(root, ents)
		view, caches, ok := buildView(root, ks)
		vroot, hasRoot := viewRoot(ks)
		if !ok {
			return
		}
		o.Stat("history_" + tag)
		for i, st := range steps {
			if st.On == "parent" {
				withTimeout(20*1e9, func() FsOut { return execOn(root, st.Op) })
				continue
			}
			before, bok, _ := walkFs(root)
			out := withTimeout(20*1e9, func() FsOut { return execOn(view, st.Op) })
			commitAll(caches)
			after, wok, why := walkFs(root)
			o.Stat("history_view_op")
			desc := map[string]interface{}{"stack": ks, "history": steps[:i+1], "op": st.Op, "out": out.Kind}
			if out.Kind == "panic" || out.Kind == "hang" {
				o.Fail("no_panic", "operation "+out.Kind+" in a history: "+out.Msg, "panic", desc)
				return
			}
			if !wok || !bok {
				o.Fail("walk", "backend walk failed in a history: "+why, "walk", desc)
				return
			}
			if msg := outsideUnchanged(before, after, vroot, hasRoot); msg != "" {
				o.Fail("confined_writes", fmt.Sprintf("step %d of a history (the view outlives operations of its parent): %s", i, msg), "confine-history:"+st.Op.Kind, desc)
				return
			}
			o.CountEval(fmt.Sprintf("hist|%v|%s|%d|%s|%s|%s", ks, tag, i, st.Op.Kind, st.Op.P, st.Op.Q), out.Kind != "err" && !(out.Kind == "bool" && !out.B))
		}
	}
	// disk: child view of a disk filespace; the host directory above the filespace root holds a canary
	// and a look-alike sibling of the root. Writes: the host outside the view root is unchanged. Reads:
	// the same operation on a twin host tree (same at and below the view root, other names and other
	// contents elsewhere) gives the same answer. A view handed out by Filespace(p) is used.
	nDisk := 150
	if tier == "thorough" {
		nDisk = 3000
	}
	tmp, err := os.MkdirTemp("", "verif-c03-")
	must(err)
	defer os.RemoveAll(tmp)
	caseNo := 0
	diskView := func(dir string, depth int) (view filesystem.Filespace, vroot []string, why string) {
		droot, err := diskfs.NewFilespace(dir + "/root")
		must(err)
		view, vroot = droot, []string{}
		for _, n := range []string{"a", "b"}[:depth] {
			child, err := view.Filespace(n)
			if err != nil || child == nil {
				return nil, vroot, fmt.Sprintf("Filespace(%q) of an existing directory failed: %v", n, err)
			}
			view, vroot = child, append(vroot, n)
		}
		return view, vroot, ""
	}
	// host trees that a run left byte-identical serve the next run
	hostDir, hostWalk := "", []WalkEnt(nil)
	twinDirs := map[int]string{}
	runDisk := func(depth int, op FsOp) {
		if only5 {
			return
		}
		caseNo++
		base, hostBefore := hostDir, hostWalk
		hostDir, hostWalk = "", nil
		if base == "" {
			base = fmt.Sprintf("%s/case%d", tmp, caseNo)
			writeHost(base, diskEnts)
			hostBefore, _, _ = walkFs(mustDisk(base))
		}
		keep := false
		defer func() {
			if !keep {
				os.RemoveAll(base)
			}
		}()
		desc := map[string]interface{}{"backend": "disk", "view_root": []string{"a", "b"}[:depth], "op": op}
		view, vroot, bad := diskView(base, depth)
		if bad != "" {
			o.Fail("setup", "disk: "+bad, "setup", desc)
			return
		}
		hroot := append([]string{"root"}, vroot...)
		if len(hostBefore) < len(diskEnts) {
			o.Fail("setup", fmt.Sprintf("disk: the host tree has %d of at least %d nodes", len(hostBefore), len(diskEnts)), "setup", desc)
		}
		out := withTimeout(20*1e9, func() FsOut { return execOn(view, op) })
		hostAfter, wok, why := walkFs(mustDisk(base))
		desc["out"] = out.Kind
		o.Stat("disk_op_" + op.Kind)
		if out.Kind == "panic" || out.Kind == "hang" {
			o.Fail("no_panic", "disk operation "+out.Kind+": "+out.Msg, "panic", desc)
		}
		if !wok {
			o.Fail("walk", "host walk failed: "+why, "walk", desc)
		} else if msg := outsideUnchanged(hostBefore, hostAfter, hroot, true); msg != "" {
			o.Fail("confined_writes", "disk: "+msg, "confine-disk:"+op.Kind, desc)
		}
		probed := false
		defer func() {
			if wok && !probed && out.Kind != "panic" && out.Kind != "hang" {
				if same, _ := walkEqual(hostBefore, hostAfter); same && len(hostBefore) == len(hostAfter) {
					keep, hostDir, hostWalk = true, base, hostAfter
				}
			}
		}()
		// twin host (one per view depth; used again only after operations that change nothing)
		twin := twinDirs[depth]
		if twin == "" {
			twin = fmt.Sprintf("%s/twin%d", tmp, caseNo)
			writeHost(twin, twinEnts(diskEnts, hroot, true))
		}
		if isMutating(op.Kind) || op.Kind == "Filespace" {
			delete(twinDirs, depth)
			defer os.RemoveAll(twin)
		} else {
			twinDirs[depth] = twin
		}
		view2, _, bad2 := diskView(twin, depth)
		if bad2 != "" {
			o.Fail("setup", "disk twin: "+bad2, "setup", desc)
			return
		}
		out2 := withTimeout(20*1e9, func() FsOut { return execOn(view2, op) })
		if outSig(out) != outSig(out2) {
			o.Fail("confined_reads", fmt.Sprintf("disk: answer depends on what lies outside the view root %q: %s vs %s", vroot, outSig(out), outSig(out2)), "noninterf-disk:"+op.Kind, desc)
		}
		o.Stat("disk_noninterference_checked")
		if wok && op.Kind == "Filespace" && out.Kind == "unit" {
			if child := getChild(view, op.P); child != nil {
				probed = true
				o.Stat("disk_child_view_probed")
				if child2 := getChild(view2, op.P); child2 != nil {
					if s1, s2 := childReadSig(child), childReadSig(child2); s1 != s2 {
						o.Fail("confined_reads", fmt.Sprintf("disk: the view returned by Filespace(%q) shows what lies outside the root %q of the view it came from: %s vs %s", op.P, vroot, s1, s2), "child-reads-disk", desc)
					}
				}
				if w := childWrites(child); w.Kind != "unit" {
					o.Fail("no_panic", "disk: use of the view returned by Filespace: "+w.Kind+": "+w.Msg, "panic", desc)
				}
				hostAfter2, wok2, why2 := walkFs(mustDisk(base))
				if !wok2 {
					o.Fail("walk", "host walk failed after the use of the view returned by Filespace: "+why2, "walk", desc)
				} else if msg := outsideUnchanged(hostAfter, hostAfter2, hroot, true); msg != "" {
					o.Fail("confined_writes", fmt.Sprintf("disk: through the view returned by Filespace(%q): %s", op.P, msg), "confine-disk:child", desc)
				}
			}
		}
		o.CountEval(fmt.Sprintf("disk|%v|%s|%s|%s", vroot, op.Kind, op.P, op.Q), out.Kind != "err")
	}
	if replay != "" { // re-run the one (stack, operation) pair / history of a replay file
		b, err := os.ReadFile(replay)
		must(err)
		var rp struct {
			Case struct {
				Stack    []Ctor     `json:"stack"`
				Op       FsOp       `json:"op"`
				Backend  string     `json:"backend"`
				ViewRoot []string   `json:"view_root"`
				Look     bool       `json:"look"`
				History  []histStep `json:"history"`
				HistBack string     `json:"hist_backend"`
				Probe    string     `json:"probe"`
				CfgIndex int        `json:"cfg_index"`
				SpIndex  int        `json:"sp_index"`
			} `json:"case"`
		}
		must(json.Unmarshal(b, &rp))
		thaw := func(op FsOp) FsOp {
			op.Data = make([]byte, len(op.DataI))
			for i, v := range op.DataI {
				op.Data[i] = byte(v)
			}
			for _, c := range op.ChunkI {
				ch := make([]byte, len(c))
				for i, v := range c {
					ch[i] = byte(v)
				}
				op.Chunks = append(op.Chunks, ch)
			}
			return op
		}
		op := thaw(rp.Case.Op)
		if rp.Case.Probe == "relative-root" {
			b, _ := json.Marshal(relOnly{rp.Case.CfgIndex, rp.Case.SpIndex, op.Kind, op.P, op.Q})
			c03RelRoot(o, 0, tier, tmp, string(b))
		} else if len(rp.Case.History) > 0 {
			for i := range rp.Case.History {
				rp.Case.History[i].Op = thaw(rp.Case.History[i].Op)
			}
			if rp.Case.HistBack != "" {
				(&c03Hist{o: o, tmp: tmp}).run(rp.Case.HistBack == "disk", rp.Case.Stack, rp.Case.History, "replay")
			} else {
				runHistory(rp.Case.Stack, rp.Case.History, "replay")
			}
		} else if rp.Case.Backend == "disk" {
			runDisk(len(rp.Case.ViewRoot), op)
		} else {
			runOne(rp.Case.Stack, op, true, rp.Case.Look)
		}
		return
	}
	climbers := []string{"..", "../a", "a/../..", "a/../../b", "/..", "/../a", "../..", "./..", "a/./../..", "../a/b/g",
		"b/../../secret", "../secret", "/../secret", "../../secret", "a/b/../../../secret", ".", "", "/", "a/..", "b/..", "../a/f", "e/../../f",
		"g", "./g", "b/g", "f", "b/../f", "e", "b/e", "x/../g", "/g", "g/", "b/e/../g", "new", "new/sub", "b/new"}
	// the OTHER argument of a copy is a file / a directory that exists in the view, so that the copy
	// gets past the test of its source (a directory copy needs a directory)
	runAll := func(ks []Ctor, p string, kind string, look bool) {
		vroot, hasRoot := viewRoot(ks)
		file, dir := existingIn(c03SeedEnts(look), vroot, hasRoot)
		switch kind {
		case "Copy":
			runOne(ks, mkOp(kind, p, file), true, look)
			runOne(ks, mkOp(kind, file, p), true, look)
			runOne(ks, mkOp(kind, dir, p), true, look)
		case "CopyDir":
			runOne(ks, mkOp(kind, p, dir), true, look)
			runOne(ks, mkOp(kind, dir, p), true, look)
		case "CopyFile":
			runOne(ks, mkOp(kind, p, file), true, look)
			runOne(ks, mkOp(kind, file, p), true, look)
		default:
			runOne(ks, mkOp(kind, p, ""), true, look)
		}
	}
	for si, ks := range stacks {
		// every operation on every climbing-prone path
		for _, p := range climbers {
			for _, kind := range kinds {
				runAll(ks, p, kind, false)
			}
		}
		// every segment path (exhaustive up to maxSeg) with one operation in rotation
		for pi, p := range paths {
			if tier == "thorough" {
				for ki, kind := range kinds {
					if (pi+ki+si)%3 == 0 {
						runAll(ks, p, kind, false)
					}
				}
			} else if (pi+si)%2 == 0 {
				runAll(ks, p, kinds[(pi/2+si)%len(kinds)], false)
			}
		}
	}
	o.Extra["exhaustive_runs"] = total
	// look-alike sweep: the backend holds siblings of the view roots whose names extend the root's name
	// (a / ab, a/b / a/b2, a/bb); every operation with the climbing arguments that name them, through
	// every stack and through stacks whose last Filespace(..) argument is such a path; one long
	// argument (265 segments, net climb of one)
	long := strings.Repeat("e/", 130) + strings.Repeat("../", 131) + "b2/t"
	lookPaths := []string{"../ab", "../ab/s", "../ab/new", "../b2/t", "../b2/new/x", "../bb", "../../ab/s", "x/../../b2/t", long}
	var lookStacks [][]Ctor
	for _, ks := range stacks { // the stacks whose root is "a" or below
		if vroot, hasRoot := viewRoot(ks); hasRoot && len(vroot) > 0 && vroot[0] == "a" {
			lookStacks = append(lookStacks, ks)
		}
	}
	for _, pre := range [][]Ctor{{{"child", "a"}}, {{"newsub", "a"}}, {{"cache", ""}, {"child", "a"}}, {{"ro", ""}, {"child", "a"}}, {{"enc", ""}, {"child", "a"}}, {{"child", "a"}, {"cache", ""}, {"child", "b"}}} {
		for _, arg := range []string{"../ab", "../b2", "b/../../ab"} {
			lookStacks = append(lookStacks, append(append([]Ctor{}, pre...), Ctor{"child", arg}))
		}
	}
	t0 := total
	for _, ks := range lookStacks {
		for _, p := range lookPaths {
			for _, kind := range kinds {
				runAll(ks, p, kind, true)
			}
		}
		for _, p := range []string{"", "s", "t", "../s"} {
			for _, kind := range kinds {
				if len(ks) > 0 && strings.Contains(ks[len(ks)-1].Arg, "..") {
					runAll(ks, p, kind, true)
				}
			}
		}
	}
	o.Extra["lookalike_runs"] = total - t0
	// histories: crossing copies / root removal for every stack with a root below the backend root,
	// then random ones
	t0 = total
	var rooted [][]Ctor
	for _, ks := range stacks {
		if vroot, hasRoot := viewRoot(ks); hasRoot && len(vroot) > 0 && vroot[0] == "a" {
			rooted = append(rooted, ks)
			for hi, h := range crossingHistories(c03SeedEnts(true), vroot, mkOp) {
				runHistory(ks, h, fmt.Sprintf("crossing%d", hi))
			}
		}
	}
	nHist := 250
	if tier == "thorough" {
		nHist = 5000
	}
	for i := 0; i < nHist; i++ {
		r := rng.Fork()
		ks := rooted[r.Intn(len(rooted))]
		vroot, _ := viewRoot(ks)
		runHistory(ks, randomHistory(r, vroot, kinds, mkOp), "random")
	}
	o.Extra["history_runs"] = total - t0
	// random: random stacks (depth 1-3), random longer paths
	ctorPool := []string{"child", "child", "newsub", "newsub", "ro", "enc", "cache"}
	argPool := []string{"a", "b", "a/b", "./a", "a/", "/a", "a/../a", "..", "../a", "a/../..", "", ".", "/", "nope", "a/b/e", "a/f", "/../a", "a//b", "../ab", "ab", "a/b2"}
	segs := []string{"a", "b", "e", "g", ".", "..", "", "f", "ab", "b2", "...", "..a"}
	for i := 0; i < nRandom; i++ {
		r := rng.Fork()
		d := 1 + r.Intn(3)
		var ks []Ctor
		for j := 0; j < d; j++ {
			k := ctorPool[r.Intn(len(ctorPool))]
			c := Ctor{Kind: k}
			if k == "child" || k == "newsub" {
				c.Arg = argPool[r.Intn(len(argPool))]
			}
			ks = append(ks, c)
			if k == "ro" || k == "enc" || k == "cache" { // masks are followed by a child view most of the time
				if r.Chance(80) {
					ks = append(ks, Ctor{Kind: "child", Arg: argPool[r.Intn(len(argPool))]})
				}
			}
		}
		mk := func() string {
			n := r.Intn(10)
			parts := make([]string, n)
			for j := range parts {
				parts[j] = segs[r.Intn(len(segs))]
			}
			s := strings.Join(parts, "/")
			if r.Chance(20) {
				s = "/" + s
			}
			return s
		}
		kind := kinds[r.Intn(len(kinds))]
		runOne(ks, mkOp(kind, mk(), mk()), true, i%3 == 2)
	}
	// every operation on every climbing-prone path, at view depth 0, 1 and 2; the other argument of a
	// copy names an existing file of that view (a copy that checks its source first gets that far);
	// per depth the climbing arguments that name the look-alike sibling of that view's root
	existing := []string{"secret", "f", "g"}
	diskClimbers := climbers
	if tier != "thorough" {
		diskClimbers = climbers[:24]
	}
	diskLook := [][]string{{"../root2", "../root2/r", "../root2/new/x", "a/../../root2/r"}, {"../ab", "../ab/s", "../ab/new/x", "b/../../ab/s"}, {"../b2", "../b2/t", "../b2/new/x", "e/../../b2/t"}}
	for depth := 0; depth <= 2; depth++ {
		for _, p := range append(append(append([]string{}, diskClimbers...), "../x/y", "../../x/y", "a/../../x/y", "/../x/y/z"), diskLook[depth]...) {
			for _, kind := range kinds {
				if kind == "Copy" || kind == "CopyDir" || kind == "CopyFile" {
					runDisk(depth, mkOp(kind, p, existing[depth]))
					runDisk(depth, mkOp(kind, existing[depth], p))
					if kind != "CopyFile" {
						runDisk(depth, mkOp(kind, map[int]string{0: "a", 1: "b", 2: "."}[depth], p))
					}
				} else {
					runDisk(depth, mkOp(kind, p, ""))
				}
			}
		}
	}
	o.Extra["disk_exhaustive_runs"] = caseNo
	dsegs := []string{"a", "b", ".", "..", "", "f", "g", "x", "secret", "ab", "b2", "root2"}
	for i := 0; i < nDisk; i++ {
		r := rng.Fork()
		depth := 0
		if r.Chance(70) {
			depth = 1
			if r.Chance(40) {
				depth = 2
			}
		}
		mk := func() string {
			if r.Chance(40) {
				return paths[r.Intn(len(paths))]
			}
			n := 1 + r.Intn(5)
			parts := make([]string, n)
			for j := range parts {
				parts[j] = dsegs[r.Intn(len(dsegs))]
			}
			s := strings.Join(parts, "/")
			if r.Chance(15) {
				s = "/" + s
			}
			return s
		}
		kind := kinds[r.Intn(len(kinds))]
		p, q := mk(), mk()
		if r.Chance(40) {
			q = existing[depth]
		} else if r.Chance(40) {
			p = existing[depth]
		}
		runDisk(depth, mkOp(kind, p, q))
	}
	// fifth round (c03_round5.go). Histories over two views of one backend on the DISK filespace too,
	// through every rooted stack: crossing, alias (a copy across the boundary, then each side works on
	// its node) and lonely-root histories, then random ones; the alias and lonely-root histories on
	// the memory backend as well
	scratch := c03Scratch(tmp)
	defer os.RemoveAll(scratch)
	t5 := time.Now()
	h5 := &c03Hist{o: o, tmp: scratch}
	for _, ks := range rooted {
		vroot, _ := viewRoot(ks)
		ents := c03SeedEnts(true)
		for hi, h := range crossingHistories(ents, vroot, mkOp) {
			h5.run(true, ks, h, fmt.Sprintf("crossing%d", hi))
		}
		for hi, h := range aliasHistories(ents, vroot, mkOp) {
			h5.run(true, ks, h, fmt.Sprintf("alias%d", hi))
			h5.run(false, ks, h, fmt.Sprintf("alias%d", hi))
		}
		for hi, h := range lonelyHistories(ents, vroot, mkOp) {
			h5.run(true, ks, h, fmt.Sprintf("lonely%d", hi))
			h5.run(false, ks, h, fmt.Sprintf("lonely%d", hi))
		}
	}
	nHist5 := 250
	if tier == "thorough" {
		nHist5 = 3000
	}
	for i := 0; i < nHist5; i++ {
		r := rng.Fork()
		ks := rooted[r.Intn(len(rooted))]
		vroot, _ := viewRoot(ks)
		h5.run(true, ks, randomHistory(r, vroot, kinds, mkOp), "random")
	}
	o.Extra["history_runs_round5"] = h5.n
	o.Extra["history_round5_s"] = time.Since(t5).Seconds()
	t5 = time.Now()
	// relative roots and a working directory that changes between creation and use (child process)
	c03RelRoot(o, rng.Next(), tier, scratch, "")
	o.Extra["relative_root_s"] = time.Since(t5).Seconds()
}

func mustDisk(dir string) filesystem.Filespace {
	fs, err := diskfs.NewFilespace(dir)
	must(err)
	return fs
}
