package main

import (
	"encoding/json"
	"fmt"
	"os"
	"path"
	"sort"
	"strings"

	"github.com/goatcms/goatcore/filesystem"
	"github.com/goatcms/goatcore/filesystem/filespace/diskfs"
	"github.com/goatcms/goatcore/filesystem/filespace/encryptfs"
	"github.com/goatcms/goatcore/filesystem/filespace/encryptfs/cipherfs/extcfs"
	"github.com/goatcms/goatcore/filesystem/filespace/memfs"
	"github.com/goatcms/goatcore/filesystem/fscache"
	"github.com/goatcms/goatcore/filesystem/fshelper"
)

func init() { runners["C03"] = runC03 }

type Ctor struct {
	Kind string `json:"kind"` // child newsub ro enc cache
	Arg  string `json:"arg,omitempty"`
}

func (c Ctor) coq() string {
	switch c.Kind {
	case "child":
		return "KChild " + coqStr(c.Arg)
	case "newsub":
		return "KNewSub " + coqStr(c.Arg)
	case "ro":
		return "KRO"
	case "enc":
		return "KEnc"
	}
	return "KRO"
}

// ccoq: the constructor in the cache-aware model (Model/ViewsCache.v)
func (c Ctor) ccoq() string {
	if c.Kind == "cache" {
		return "CKCache"
	}
	return "CK (" + c.coq() + ")"
}

// changedFiles: the files of after that are new or differ from before
func changedFiles(before, after []WalkEnt) (res [][]string) {
	old := map[string]string{}
	for _, e := range before {
		if !e.IsDir {
			old[strings.Join(e.Path, "/")] = string(e.Data)
		}
	}
	for _, e := range after {
		if e.IsDir {
			continue
		}
		if d, ok := old[strings.Join(e.Path, "/")]; !ok || d != string(e.Data) {
			res = append(res, e.Path)
		}
	}
	return
}

func encSettings() encryptfs.Settings {
	return encryptfs.Settings{Salt: []byte("salt"), Secret: []byte("secret"), Cipher: extcfs.NewDefaultCipher()}
}

// buildView applies the constructors to root. caches collects the caches created on the way
// (so that the caller can Commit them). ok=false: some constructor returned an error.
func buildView(root filesystem.Filespace, ks []Ctor) (fs filesystem.Filespace, caches []*fscache.Cache, ok bool) {
	fs = root
	defer func() {
		if r := recover(); r != nil {
			fs, ok = nil, false
		}
	}()
	for _, k := range ks {
		switch k.Kind {
		case "child":
			child, err := fs.Filespace(k.Arg)
			if err != nil || child == nil {
				return nil, caches, false
			}
			fs = child
		case "newsub":
			fs = fshelper.NewSubFS(fs, k.Arg)
		case "ro":
			fs = fshelper.NewReadonlyFS(fs)
		case "enc":
			e, err := encryptfs.NewEncryptFS(fs, encSettings())
			if err != nil {
				return nil, caches, false
			}
			fs = e
		case "cache":
			c, err := fscache.NewMemCache(fs)
			if err != nil {
				return nil, caches, false
			}
			caches = append(caches, c)
			fs = c
		}
	}
	return fs, caches, true
}

// viewRoot: independent computation of where the view's root lies (components relative to the
// backend root); ok=false when the view has no root inside the backend (everything must be refused).
func viewRoot(ks []Ctor) (root []string, ok bool) {
	topIsCache := false
	for _, k := range ks {
		wasCache := topIsCache
		if k.Kind != "enc" { // an encrypted layer hands Filespace(p) to its base: a cache below it still decides
			topIsCache = k.Kind == "cache"
		}
		switch k.Kind {
		case "child":
			arg := k.Arg
			if wasCache { // Cache.Filespace(p) = NewSubFS(cache, p): the base is path.Clean'ed, not reduced
				arg = path.Clean(arg)
			}
			c, climbs := refNorm(arg)
			if climbs {
				return nil, false
			}
			root = append(root, c...)
		case "newsub":
			cl := path.Clean(k.Arg) // rooted paths are clamped by path.Clean
			c, climbs := refNorm(cl)
			if climbs {
				return nil, false
			}
			root = append(root, c...)
		}
	}
	return root, true
}

var c03Seed = []struct {
	p    string
	data string
	dir  bool
}{
	{"secret", "TOP-SECRET", false}, {"a", "", true}, {"a/f", "file-in-a", false}, {"a/b", "", true},
	{"a/b/g", "deep", false}, {"c", "", true}, {"c/h", "other", false}, {"a/b/e", "", true}, {"top", "x", false},
}

func populate(fs filesystem.Filespace, variant int) {
	for _, s := range c03Seed {
		if s.dir {
			fs.MkdirAll(s.p, 0o777)
		} else {
			d := s.data
			if variant > 0 && !strings.HasPrefix(s.p, "a/b") { // variant trees agree only below a/b
				d = fmt.Sprintf("%s-variant%d", s.data, variant)
			}
			fs.WriteFile(s.p, []byte(d), 0o644)
		}
	}
	if variant > 0 {
		fs.WriteFile("extra-outside", []byte("only in the variant"), 0o644)
		fs.MkdirAll("c/more", 0o777)
	}
}

// segment strings: exhaustive path arguments built from {name, ".", "..", ""} segments
func segPaths(maxSeg int, names []string) []string {
	segs := append([]string{".", "..", ""}, names...)
	var out []string
	var rec func(prefix []string)
	rec = func(prefix []string) {
		if len(prefix) > 0 {
			j := strings.Join(prefix, "/")
			out = append(out, j, "/"+j)
		}
		if len(prefix) == maxSeg {
			return
		}
		for _, s := range segs {
			rec(append(append([]string{}, prefix...), s))
		}
	}
	rec(nil)
	out = append(out, "")
	return out
}

// cacheChildStack: a cache directly on the backend root, then only Filespace(..) calls
func cacheChildStack(ks []Ctor) bool {
	if len(ks) < 2 || ks[0].Kind != "cache" {
		return false
	}
	for _, k := range ks[1:] {
		if k.Kind != "child" {
			return false
		}
	}
	return true
}

func isUnder(root, p []string) bool { return isPrefixComps(root, p) }

// outsideUnchanged: the confinement oracle. before/after are walks of the BACKEND root.
func outsideUnchanged(before, after []WalkEnt, root []string, hasRoot bool) string {
	bm := map[string]WalkEnt{}
	for _, e := range before {
		bm[key(e.Path)] = e
	}
	am := map[string]WalkEnt{}
	for _, e := range after {
		am[key(e.Path)] = e
	}
	for k, b := range bm {
		if hasRoot && isUnder(root, b.Path) {
			continue
		}
		a, ok := am[k]
		if !ok {
			return fmt.Sprintf("node %q outside the view root %q was deleted", k, root)
		}
		if a.IsDir != b.IsDir || string(a.Data) != string(b.Data) {
			return fmt.Sprintf("node %q outside the view root %q was changed", k, root)
		}
	}
	for k, a := range am {
		if hasRoot && isUnder(root, a.Path) {
			continue
		}
		if _, ok := bm[k]; ok {
			continue
		}
		// new node outside: only a directory that is an ancestor of the view root is tolerated
		if hasRoot && a.IsDir && isPrefixComps(a.Path, root) {
			continue
		}
		return fmt.Sprintf("node %q was created outside the view root %q", k, root)
	}
	return ""
}

func outSig(o FsOut) string {
	switch o.Kind {
	case "bool":
		return fmt.Sprintf("bool:%v", o.B)
	case "data":
		return "data:" + string(o.Data)
	case "list":
		l := append([]Ent{}, o.List...)
		sort.Slice(l, func(i, j int) bool { return l[i].Name < l[j].Name })
		return fmt.Sprintf("list:%v", l)
	case "stat":
		return fmt.Sprintf("stat:%v:%d", o.IsDir, o.Size)
	case "chunks":
		var sb strings.Builder
		for _, c := range o.Chunks {
			sb.Write(c.Data)
		}
		return "chunks:" + sb.String()
	}
	return o.Kind
}

func runC03(o *Out, rng *RNG, tier string, replay string) {
	o.Imports = "From GC Require Import Common.Base Model.Paths Model.Fs Model.Views Model.ViewsCache Corr.FsCorr Corr.C03."
	o.CaseType = "case"
	o.CheckFn = "check"
	o.ShardSize = 150
	o.Rule = "view stacks of depth 1-3 over a populated backend (kinds: memfs child view, fshelper.SubFS, read-only mask, encrypted, cache-backed, disk child) x path arguments built from {name,'.','..',''} segments (exhaustive up to the tier's segment bound, with and without leading '/') x the 16 operations (both arguments of the copies). L2: backend tree outside the view root unchanged (only ancestors of the root may appear as directories), answers independent of what lies outside the root (two parents agreeing below the root), nothing created on the host above a disk root. L1 (memfs-rooted stacks without cache): result + root tree vs the Coq chain model; L1 resolve probe (all memfs-rooted stacks, caches included): the one backend file a successful WriteFile changes is where the model's path transformer resolves the argument to; L1 cache child views (NewMemCache on the root, then Filespace(..) one or more times): the operation's result and the root tree after Commit vs the model's sub_cache_step on the cache state. Non-trivial: the operation was not rejected; distinct by (stack, op, arguments)."
	maxSeg := 3
	if tier == "thorough" {
		maxSeg = 4
	}
	paths := segPaths(maxSeg, []string{"a", "b"})
	o.Extra["exhaustive_segments"] = maxSeg
	o.Extra["exhaustive_paths"] = len(paths)
	stacks := [][]Ctor{
		{{"child", "a"}}, {{"child", "a/b"}}, {{"child", "./a//b/"}}, {{"child", "a"}, {"child", "b"}},
		{{"newsub", "a"}}, {{"newsub", "a/b"}}, {{"newsub", "/a/"}}, {{"newsub", "a/x/.."}},
		{{"ro", ""}, {"child", "a"}}, {{"ro", ""}, {"child", "a"}, {"child", "b"}},
		{{"enc", ""}, {"child", "a"}}, {{"child", "a"}, {"enc", ""}},
		{{"newsub", "a"}, {"child", "b"}}, {{"child", "a"}, {"newsub", "b"}}, {{"newsub", "a"}, {"ro", ""}, {"child", "b"}},
		{{"child", "nope"}}, {{"newsub", "nope/deep"}}, {{"newsub", "../x"}}, {{"newsub", "/../a"}}, {{"child", "a/f"}},
		{{"cache", ""}, {"child", "a"}}, {{"cache", ""}, {"child", "a"}, {"child", "b"}}, {{"child", "a"}, {"cache", ""}, {"child", "b"}},
		{{"cache", ""}, {"child", "../x"}}, {{"cache", ""}, {"child", "/a/../a/b"}},
		{{"cache", ""}, {"cache", ""}, {"child", "a"}}, {{"child", "a"}, {"cache", ""}, {"enc", ""}, {"cache", ""}, {"child", "/../b"}},
	}
	kinds := []string{"Copy", "CopyDir", "CopyFile", "ReadDir", "IsExist", "IsFile", "IsDir", "MkdirAll", "ReadFile", "WriteFile", "Filespace", "Reader", "Writer", "Remove", "RemoveAll", "Lstat"}
	nRandom := 1200
	if tier == "thorough" {
		nRandom = 60000
	}
	total := 0
	// budget: exhaustive paths x stacks x single-argument ops is large; sample the op per (stack,path) and
	// run ALL ops for the climbing-prone paths (those containing "..").
	runOne := func(ks []Ctor, op FsOp, emitL1 bool) {
		total++
		hasCache, hasEnc := false, false
		for _, k := range ks {
			if k.Kind == "cache" {
				hasCache = true
			}
			if k.Kind == "enc" {
				hasEnc = true
			}
		}
		root, _ := memfs.NewFilespace()
		populate(root, 0)
		before, _, _ := walkFs(root)
		view, caches, ok := buildView(root, ks)
		vroot, hasRoot := viewRoot(ks)
		var out FsOut
		if !ok {
			out = FsOut{Kind: "err", Msg: "view creation failed"}
		} else {
			out = withTimeout(20*1e9, func() FsOut { return execOn(view, op) })
			for i := len(caches) - 1; i >= 0; i-- {
				caches[i].Commit()
			}
		}
		after, wok, why := walkFs(root)
		o.Stat("op_" + op.Kind)
		o.Stat("out_" + out.Kind)
		desc := map[string]interface{}{"stack": ks, "op": op, "out": out.Kind}
		keyStr := fmt.Sprintf("%v|%s|%s|%s", ks, op.Kind, op.P, op.Q)
		if out.Kind == "panic" || out.Kind == "hang" {
			o.Fail("no_panic", "operation "+out.Kind+": "+out.Msg, "panic", desc)
		}
		if !wok {
			o.Fail("walk", "backend walk failed after the operation: "+why, "walk", desc)
		} else if msg := outsideUnchanged(before, after, vroot, hasRoot && ok); msg != "" {
			o.Fail("confined_writes", msg, "confine:"+op.Kind, desc)
		}
		// non-interference: the same operation on a parent that differs only OUTSIDE the view root
		if ok && hasRoot && isPrefixComps([]string{"a", "b"}, vroot) && !hasEnc {
			root2, _ := memfs.NewFilespace()
			populate(root2, 1)
			view2, caches2, ok2 := buildView(root2, ks)
			if ok2 {
				out2 := withTimeout(20*1e9, func() FsOut { return execOn(view2, op) })
				_ = caches2
				if outSig(out) != outSig(out2) {
					o.Fail("confined_reads", fmt.Sprintf("answer depends on what lies outside the view root %q: %s vs %s", vroot, outSig(out), outSig(out2)), "noninterf:"+op.Kind, desc)
				}
				o.Stat("noninterference_checked")
			}
		}
		nontrivial := out.Kind != "err" && !(out.Kind == "bool" && !out.B)
		// resolve probe (all stacks, caches included): a successful WriteFile lands exactly where the
		// model's path transformer says the argument resolves to
		if emitL1 && wok && ok && op.Kind == "WriteFile" && out.Kind == "unit" {
			ch := changedFiles(before, after)
			if len(ch) == 1 {
				items := make([]string, len(ks))
				for i, k := range ks {
					items[i] = k.ccoq()
				}
				o.AddCase(fmt.Sprintf("CRes %s %s %s", coqList(items), coqStr(op.P), coqStrList(ch[0])), desc, "res|"+keyStr, true)
				o.Stat("resolve_probe")
				if hasCache {
					o.Stat("resolve_probe_cache_stack")
				}
			} else if len(ch) > 1 {
				o.Fail("confined_writes", fmt.Sprintf("one WriteFile changed %d files of the backend: %v", len(ch), ch), "multiwrite", desc)
			} else {
				o.Stat("resolve_probe_same_content")
			}
		}
		// child view of a cache (NewMemCache on the root, then Filespace(..) one or more times): the
		// operation's result and the root tree after the Commit vs the model's sub_cache_step
		if emitL1 && wok && ok && cacheChildStack(ks) {
			items := make([]string, len(ks))
			for i, k := range ks {
				items[i] = k.ccoq()
			}
			o.AddCase(fmt.Sprintf("CSub %s %s (%s) (%s) %s", coqWalk(before), coqList(items), op.coq(), out.coq(), coqWalk(after)), desc, "sub|"+keyStr, nontrivial)
			o.Stat("cache_child_view_case")
			return
		}
		if emitL1 && !hasCache && wok {
			contentOp := op.Kind == "ReadFile" || op.Kind == "WriteFile" || op.Kind == "Reader" || op.Kind == "Writer" || op.Kind == "Lstat"
			if !(hasEnc && contentOp) {
				items := make([]string, len(ks))
				for i, k := range ks {
					items[i] = k.coq()
				}
				o.AddCase(fmt.Sprintf("CView %s %s [(%s, %s)] %s", coqWalk(before), coqList(items), op.coq(), out.coq(), coqWalk(after)), desc, keyStr, nontrivial)
				return
			}
		}
		o.CountEval(keyStr, nontrivial)
	}
	mkOp := func(kind, p, q string) FsOp {
		op := FsOp{Kind: kind, P: p, Q: q}
		switch kind {
		case "WriteFile":
			op.Data = []byte("W")
		case "Writer":
			op.Chunks = [][]byte{[]byte("w1"), []byte("w2")}
		case "Reader":
			op.Bufs = []int{3, 1000}
		}
		op.fillJSON()
		return op
	}
	// disk: child view of a disk filespace with a canary tree above the filespace root on the host
	nDisk := 150
	if tier == "thorough" {
		nDisk = 3000
	}
	tmp, err := os.MkdirTemp("", "verif-c03-")
	must(err)
	defer os.RemoveAll(tmp)
	caseNo := 0
	runDisk := func(depth int, op FsOp) {
		caseNo++
		base := fmt.Sprintf("%s/case%d", tmp, caseNo)
		must(os.MkdirAll(base+"/root/a/b", 0o755))
		must(os.WriteFile(base+"/canary", []byte("host canary"), 0o644))
		must(os.WriteFile(base+"/root/secret", []byte("TOP"), 0o644))
		must(os.WriteFile(base+"/root/a/f", []byte("fa"), 0o644))
		must(os.WriteFile(base+"/root/a/b/g", []byte("deep"), 0o644))
		droot, err := diskfs.NewFilespace(base + "/root")
		must(err)
		var view filesystem.Filespace = droot
		vroot := []string{}
		if depth >= 1 {
			view, err = droot.Filespace("a")
			must(err)
			vroot = []string{"a"}
		}
		if depth >= 2 {
			view, err = view.Filespace("b")
			must(err)
			vroot = []string{"a", "b"}
		}
		hostBefore, _, _ := walkFs(mustDisk(base))
		out := withTimeout(20*1e9, func() FsOut { return execOn(view, op) })
		hostAfter, wok, why := walkFs(mustDisk(base))
		desc := map[string]interface{}{"backend": "disk", "view_root": vroot, "op": op, "out": out.Kind}
		o.Stat("disk_op_" + op.Kind)
		if out.Kind == "panic" || out.Kind == "hang" {
			o.Fail("no_panic", "disk operation "+out.Kind+": "+out.Msg, "panic", desc)
		}
		if !wok {
			o.Fail("walk", "host walk failed: "+why, "walk", desc)
		} else if msg := outsideUnchanged(hostBefore, hostAfter, append([]string{"root"}, vroot...), true); msg != "" {
			o.Fail("confined_writes", "disk: "+msg, "confine-disk:"+op.Kind, desc)
		}
		o.CountEval(fmt.Sprintf("disk|%v|%s|%s|%s", vroot, op.Kind, op.P, op.Q), out.Kind != "err")
		os.RemoveAll(base)
	}
	if replay != "" { // re-run the one (stack, operation) pair of a replay file
		b, err := os.ReadFile(replay)
		must(err)
		var rp struct {
			Case struct {
				Stack    []Ctor   `json:"stack"`
				Op       FsOp     `json:"op"`
				Backend  string   `json:"backend"`
				ViewRoot []string `json:"view_root"`
			} `json:"case"`
		}
		must(json.Unmarshal(b, &rp))
		op := rp.Case.Op
		op.Data = make([]byte, len(op.DataI))
		for i, v := range op.DataI {
			op.Data[i] = byte(v)
		}
		for _, c := range op.ChunkI {
			ch := make([]byte, len(c))
			for i, v := range c {
				ch[i] = byte(v)
			}
			op.Chunks = append(op.Chunks, ch)
		}
		if rp.Case.Backend == "disk" {
			runDisk(len(rp.Case.ViewRoot), op)
		} else {
			runOne(rp.Case.Stack, op, true)
		}
		return
	}
	climbers := []string{"..", "../a", "a/../..", "a/../../b", "/..", "/../a", "../..", "./..", "a/./../..", "../a/b/g",
		"b/../../secret", "../secret", "/../secret", "../../secret", "a/b/../../../secret", ".", "", "/", "a/..", "b/..", "../a/f", "e/../../f",
		"g", "./g", "b/g", "f", "b/../f", "e", "b/e", "x/../g", "/g", "g/", "b/e/../g", "new", "new/sub", "b/new"}
	runAll := func(ks []Ctor, p string, kind string) {
		if kind == "Copy" || kind == "CopyDir" || kind == "CopyFile" {
			runOne(ks, mkOp(kind, p, "g"), true)
			runOne(ks, mkOp(kind, "g", p), true)
		} else {
			runOne(ks, mkOp(kind, p, ""), true)
		}
	}
	for si, ks := range stacks {
		// every operation on every climbing-prone path
		for _, p := range climbers {
			for _, kind := range kinds {
				runAll(ks, p, kind)
			}
		}
		// every segment path (exhaustive up to maxSeg) with one operation in rotation
		for pi, p := range paths {
			if tier == "thorough" {
				for ki, kind := range kinds {
					if (pi+ki+si)%3 == 0 {
						runAll(ks, p, kind)
					}
				}
			} else if (pi+si)%2 == 0 {
				runAll(ks, p, kinds[(pi/2+si)%len(kinds)])
			}
		}
	}
	o.Extra["exhaustive_runs"] = total
	// random: random stacks (depth 1-3), random longer paths
	ctorPool := []string{"child", "child", "newsub", "newsub", "ro", "enc", "cache"}
	argPool := []string{"a", "b", "a/b", "./a", "a/", "/a", "a/../a", "..", "../a", "a/../..", "", ".", "/", "nope", "a/b/e", "a/f", "/../a", "a//b"}
	segs := []string{"a", "b", "e", "g", ".", "..", "", "f"}
	for i := 0; i < nRandom; i++ {
		r := rng.Fork()
		d := 1 + r.Intn(3)
		var ks []Ctor
		for j := 0; j < d; j++ {
			k := ctorPool[r.Intn(len(ctorPool))]
			c := Ctor{Kind: k}
			if k == "child" || k == "newsub" {
				c.Arg = argPool[r.Intn(len(argPool))]
			}
			ks = append(ks, c)
			if k == "ro" || k == "enc" || k == "cache" { // masks are followed by a child view most of the time
				if r.Chance(80) {
					ks = append(ks, Ctor{Kind: "child", Arg: argPool[r.Intn(len(argPool))]})
				}
			}
		}
		mk := func() string {
			n := r.Intn(10)
			parts := make([]string, n)
			for j := range parts {
				parts[j] = segs[r.Intn(len(segs))]
			}
			s := strings.Join(parts, "/")
			if r.Chance(20) {
				s = "/" + s
			}
			return s
		}
		kind := kinds[r.Intn(len(kinds))]
		runOne(ks, mkOp(kind, mk(), mk()), true)
	}
	// every operation on every climbing-prone path, at view depth 0, 1 and 2; the other argument of a
	// copy names an existing file of that view (a copy that checks its source first gets that far)
	existing := []string{"secret", "f", "g"}
	diskClimbers := climbers
	if tier != "thorough" {
		diskClimbers = climbers[:24]
	}
	for depth := 0; depth <= 2; depth++ {
		for _, p := range append(append([]string{}, diskClimbers...), "../x/y", "../../x/y", "a/../../x/y", "/../x/y/z") {
			for _, kind := range kinds {
				if kind == "Copy" || kind == "CopyDir" || kind == "CopyFile" {
					runDisk(depth, mkOp(kind, p, existing[depth]))
					runDisk(depth, mkOp(kind, existing[depth], p))
					if kind != "CopyFile" {
						runDisk(depth, mkOp(kind, map[int]string{0: "a", 1: "b", 2: "."}[depth], p))
					}
				} else {
					runDisk(depth, mkOp(kind, p, ""))
				}
			}
		}
	}
	o.Extra["disk_exhaustive_runs"] = caseNo
	dsegs := []string{"a", "b", ".", "..", "", "f", "g", "x", "secret"}
	for i := 0; i < nDisk; i++ {
		r := rng.Fork()
		depth := 0
		if r.Chance(70) {
			depth = 1
			if r.Chance(40) {
				depth = 2
			}
		}
		mk := func() string {
			if r.Chance(40) {
				return paths[r.Intn(len(paths))]
			}
			n := 1 + r.Intn(5)
			parts := make([]string, n)
			for j := range parts {
				parts[j] = dsegs[r.Intn(len(dsegs))]
			}
			s := strings.Join(parts, "/")
			if r.Chance(15) {
				s = "/" + s
			}
			return s
		}
		kind := kinds[r.Intn(len(kinds))]
		p, q := mk(), mk()
		if r.Chance(40) {
			q = existing[depth]
		} else if r.Chance(40) {
			p = existing[depth]
		}
		runDisk(depth, mkOp(kind, p, q))
	}
}

func mustDisk(dir string) filesystem.Filespace {
	fs, err := diskfs.NewFilespace(dir)
	must(err)
	return fs
}
