package main

// C10 — dependency container: lazy singletons, fixed precedence, safe failure.
//
// A case is a whole program over the name pool n0..n7: definition calls of the four kinds and
// requests (Get, InjectTo), freely mixed.  Factories are first-order programs (dependency list with
// optional markers, fails, returns-nil); the Go side turns them into closures that resolve their
// dependencies through the provider they are handed (by Get, or by InjectTo on a struct type built
// with reflect.StructOf) and count their invocations.  Every call's result, the counters and Keys()
// are written as a Coq term for GC.Corr.C10.check (L1) and checked by the property oracles (L2).

import (
	"encoding/json"
	"errors"
	"fmt"
	"os"
	"reflect"
	"strconv"
	"strings"
	"time"

	"github.com/goatcms/goatcore/app"
	"github.com/goatcms/goatcore/app/dependency"
)

func init() { runners["C10"] = runC10 }

const c10Pool = 8
const c10Tag = "dep"

type c10Dep struct {
	Name int  `json:"n"`
	Opt  bool `json:"opt"`
}

type c10Prog struct {
	Deps      []c10Dep `json:"deps"`
	Fails     bool     `json:"fails"`
	Nil       bool     `json:"nil"`
	ViaInject bool     `json:"via_inject"` // the closure resolves its deps by dp.InjectTo instead of dp.Get
}

// Kind: set | setdef | fac | dfac | get | inject | sinject (InjectTo on a predefined struct type)
type c10Op struct {
	Kind   string   `json:"kind"`
	Name   int      `json:"name"`
	ID     int      `json:"id,omitempty"`
	Prog   *c10Prog `json:"prog,omitempty"`
	Fields []c10Dep `json:"fields,omitempty"`
	Static int      `json:"static,omitempty"`
	Pad    int      `json:"pad,omitempty"` // untagged fields mixed in (reflect.StructOf structs)
	// extra injectors (c10_inj.go): kind "addinj" registers injector unit Unit whose data holds the
	// keys of Mask; an inject op may carry fields tagged for those injectors
	Unit  int         `json:"unit,omitempty"`
	Mask  int         `json:"mask,omitempty"`
	Extra []c10XField `json:"extra,omitempty"`
}

func (op c10Op) isDef() bool {
	return op.Kind == "set" || op.Kind == "setdef" || op.Kind == "fac" || op.Kind == "dfac"
}

type c10Inst struct {
	Name  int
	Kind  string // KInst KFac KDef KDFac
	ID    int
	Num   int
	Wired []*c10Inst `json:"-"` // what the factory's dependencies resolved to when the instance was built
}

type c10Obs struct {
	Res    string       `json:"res"` // ok | err | panic | hang
	Inst   *c10Inst     `json:"inst,omitempty"`
	Filled []*c10Inst   `json:"filled,omitempty"`
	XFill  []*c10Inst   `json:"xfilled,omitempty"` // what the fields of the extra injectors hold
	Runs   [c10Pool]int `json:"runs"`
	Keys   []string     `json:"keys"`
}

// The model's names are numbers; what string stands for name i is the harness's choice.  Besides
// the plain pool n0..n7 the programs are run over pools of look-alike names (c10Spells): any
// normalisation, prefix test or tag-syntax slip in the container folds two of them together.
func c10Name(i int) string { return c10Spells[c10Cur].Names[i] }

// ---- predefined struct types (compile-time tags)

type c10S0 struct {
	A *c10Inst `dep:"n0"`
}
type c10S1 struct {
	A *c10Inst `dep:"?n0"`
	B *c10Inst `dep:"n1"`
}
type c10S2 struct {
	A *c10Inst `dep:"n1"`
	X int
	B *c10Inst `dep:"?n2"`
	C *c10Inst `dep:"n0"`
}
type c10S3 struct {
	A interface{} `dep:"?n3"`
	B interface{} `dep:"?n1"`
}
type c10S4 struct {
	A *c10Inst `dep:"n2"`
	B *c10Inst `dep:"n2"`
	C *c10Inst `dep:"?n4"`
	D *c10Inst `dep:"n3"`
}
type c10S5 struct {
	X string
	Y *c10Inst
}
type c10S6 struct {
	A *c10Inst `dep:"n5"`
	B *c10Inst `dep:"?n6"`
	C *c10Inst `dep:"n7"`
}
type c10S7 struct {
	A *c10Inst `dep:"?n7"`
	B *c10Inst `dep:"?n5"`
	C *c10Inst `dep:"n1"`
	D *c10Inst `dep:"?n0"`
}

type c10Static struct {
	fields []c10Dep
	mk     func() interface{}
	read   func(interface{}) []*c10Inst
}

func c10AsInst(v interface{}) *c10Inst {
	if v == nil {
		return nil
	}
	p, _ := v.(*c10Inst)
	return p
}

var c10Statics = []c10Static{
	{[]c10Dep{{0, false}}, func() interface{} { return &c10S0{} }, func(v interface{}) []*c10Inst { s := v.(*c10S0); return []*c10Inst{s.A} }},
	{[]c10Dep{{0, true}, {1, false}}, func() interface{} { return &c10S1{} }, func(v interface{}) []*c10Inst { s := v.(*c10S1); return []*c10Inst{s.A, s.B} }},
	{[]c10Dep{{1, false}, {2, true}, {0, false}}, func() interface{} { return &c10S2{} }, func(v interface{}) []*c10Inst { s := v.(*c10S2); return []*c10Inst{s.A, s.B, s.C} }},
	{[]c10Dep{{3, true}, {1, true}}, func() interface{} { return &c10S3{} }, func(v interface{}) []*c10Inst {
		s := v.(*c10S3)
		return []*c10Inst{c10AsInst(s.A), c10AsInst(s.B)}
	}},
	{[]c10Dep{{2, false}, {2, false}, {4, true}, {3, false}}, func() interface{} { return &c10S4{} }, func(v interface{}) []*c10Inst { s := v.(*c10S4); return []*c10Inst{s.A, s.B, s.C, s.D} }},
	{[]c10Dep{}, func() interface{} { return &c10S5{} }, func(v interface{}) []*c10Inst { return []*c10Inst{} }},
	{[]c10Dep{{5, false}, {6, true}, {7, false}}, func() interface{} { return &c10S6{} }, func(v interface{}) []*c10Inst { s := v.(*c10S6); return []*c10Inst{s.A, s.B, s.C} }},
	{[]c10Dep{{7, true}, {5, true}, {1, false}, {0, true}}, func() interface{} { return &c10S7{} }, func(v interface{}) []*c10Inst { s := v.(*c10S7); return []*c10Inst{s.A, s.B, s.C, s.D} }},
}

var c10IfaceType = reflect.TypeOf((*interface{})(nil)).Elem()

// dynamic struct: tagged interface{} fields F<i>, with `pad` untagged fields U<i> mixed in
func c10MkStruct(fields []c10Dep, pad int) (ptr interface{}, read func() []*c10Inst) {
	ptr, read, _ = c10MkStructX(fields, pad, nil)
	return
}

// the same with fields for the extra injectors: before the dependency fields when their number is
// odd, after them otherwise
func c10MkStructX(fields []c10Dep, pad int, extra []c10XField) (ptr interface{}, read func() []*c10Inst, readX func() []*c10Inst) {
	var sf []reflect.StructField
	idx := []int{}
	xidx := []int{}
	addX := func() {
		for i, f := range extra {
			key := c10XKeys[f.Key]
			if f.Opt {
				key = "?" + key
			}
			xidx = append(xidx, len(sf))
			sf = append(sf, reflect.StructField{Name: fmt.Sprintf("X%d", i), Type: c10IfaceType,
				Tag: reflect.StructTag(fmt.Sprintf(`json:"-" %s:%s`, c10XTags[f.Tag], strconv.Quote(key)))})
		}
	}
	if len(extra)%2 == 1 {
		addX()
	}
	for i, f := range fields {
		if pad > 0 && i%2 == 0 {
			sf = append(sf, reflect.StructField{Name: fmt.Sprintf("U%d", i), Type: c10IfaceType})
			pad--
		}
		tag := c10Name(f.Name)
		if f.Opt {
			tag = "?" + tag
		}
		idx = append(idx, len(sf))
		st := fmt.Sprintf(`%s:%s`, c10Tag, strconv.Quote(tag))
		if i%2 == 1 {
			// other keys around the provider's: look-alike key names, a value that is another name
			st = fmt.Sprintf(`%sx:%s %s x%s:"?"`, c10Tag, strconv.Quote(c10Name((f.Name+1)%c10Pool)), st, c10Tag)
		}
		sf = append(sf, reflect.StructField{Name: fmt.Sprintf("F%d", i), Type: c10IfaceType, Tag: reflect.StructTag(st)})
	}
	if len(extra)%2 == 0 {
		addX()
	}
	for ; pad > 0; pad-- {
		sf = append(sf, reflect.StructField{Name: fmt.Sprintf("V%d", pad), Type: c10IfaceType})
	}
	v := reflect.New(reflect.StructOf(sf))
	rd := func(idx []int) func() []*c10Inst {
		return func() []*c10Inst {
			out := make([]*c10Inst, len(idx))
			for i, j := range idx {
				out[i] = c10AsInst(v.Elem().Field(j).Interface())
			}
			return out
		}
	}
	return v.Interface(), rd(idx), rd(xidx)
}

// ---- executing a program on the implementation

type c10Run struct {
	dp    app.DependencyProvider
	runs  [c10Pool]int
	depth int
	deep  bool         // recursion cut by the harness (would have been unbounded)
	xval  [][]*c10Inst // values of the extra injectors, by tag and key
	// twin run (c10_inj.go): a second, independent provider with the same definitions; every
	// factory of this one first asks the twin for its own name and records what it got
	cross    *c10Run
	crossLog []c10Cross
}

type c10Cross struct {
	Name int
	Ok   bool
}

func (x *c10Run) factory(name int, kind string, id int, p *c10Prog) app.Factory {
	return func(dp app.DependencyProvider) (interface{}, error) {
		x.runs[name]++
		num := x.runs[name]
		x.depth++
		defer func() { x.depth-- }()
		if x.deep || x.depth > 64 {
			// the nesting can only exceed the pool size if the container recurses without bound:
			// cut it, and make every further factory call of this request return at once
			x.deep = true
			return nil, errors.New("harness: recursion cut")
		}
		if x.cross != nil {
			v, err := x.cross.dp.Get(c10Name(name))
			x.crossLog = append(x.crossLog, c10Cross{name, err == nil && c10AsInst(v) != nil})
		}
		var wired []*c10Inst
		if p.ViaInject {
			ptr, read := c10MkStruct(p.Deps, 0)
			if err := dp.InjectTo(ptr); err != nil {
				return nil, err
			}
			wired = read()
		} else {
			for _, d := range p.Deps {
				v, err := dp.Get(c10Name(d.Name))
				if err != nil && !d.Opt {
					return nil, err
				}
				if err != nil {
					v = nil
				}
				wired = append(wired, c10AsInst(v))
			}
		}
		if p.Fails {
			return nil, errors.New("factory fails")
		}
		if p.Nil {
			return nil, nil
		}
		return &c10Inst{Name: name, Kind: kind, ID: id, Num: num, Wired: wired}, nil
	}
}

type c10Raw struct {
	res     string
	ptr     interface{}
	filled  []*c10Inst
	xfilled []*c10Inst
}

func (x *c10Run) step(op c10Op) (r c10Raw) {
	defer func() {
		if rec := recover(); rec != nil {
			r = c10Raw{res: "panic"}
		}
	}()
	cls := func(err error) string {
		if err != nil {
			return "err"
		}
		return "ok"
	}
	switch op.Kind {
	case "set":
		return c10Raw{res: cls(x.dp.Set(c10Name(op.Name), &c10Inst{Name: op.Name, Kind: "KInst", ID: op.ID}))}
	case "setdef":
		return c10Raw{res: cls(x.dp.SetDefault(c10Name(op.Name), &c10Inst{Name: op.Name, Kind: "KDef", ID: op.ID}))}
	case "fac":
		return c10Raw{res: cls(x.dp.AddFactory(c10Name(op.Name), x.factory(op.Name, "KFac", op.ID, op.Prog)))}
	case "dfac":
		return c10Raw{res: cls(x.dp.AddDefaultFactory(c10Name(op.Name), x.factory(op.Name, "KDFac", op.ID, op.Prog)))}
	case "get":
		v, err := x.dp.Get(c10Name(op.Name))
		if err != nil {
			return c10Raw{res: "err"}
		}
		return c10Raw{res: "ok", ptr: v}
	case "inject":
		ptr, read, readX := c10MkStructX(op.Fields, op.Pad, op.Extra)
		err := x.dp.InjectTo(ptr)
		return c10Raw{res: cls(err), filled: read(), xfilled: readX()}
	case "sinject":
		st := c10Statics[op.Static]
		if c10Cur != 0 {
			// the predefined types carry compile-time tags n0..n7: under another spelling of the
			// names the same field list goes through a generated struct
			ptr, read := c10MkStruct(st.fields, 0)
			err := x.dp.InjectTo(ptr)
			return c10Raw{res: cls(err), filled: read()}
		}
		ptr := st.mk()
		err := x.dp.InjectTo(ptr)
		return c10Raw{res: cls(err), filled: st.read(ptr)}
	case "addinj":
		return c10Raw{res: cls(x.dp.AddInjectors(c10XUnit(x, op.Unit, op.Mask)))}
	}
	panic("bad op " + op.Kind)
}

type c10Result struct {
	obs   []c10Obs
	raw   []c10Raw
	hang  bool
	cross []c10Cross
	xval  [][]*c10Inst
}

func c10Exec(ops []c10Op) c10Result { return c10ExecOn(ops, nil) }

// setup (optional) builds the provider(s) of the run and says how many leading ops are NOT executed
// because the provider was built with them (static provider): their observation is "accepted".
func c10ExecOn(ops []c10Op, setup func(x *c10Run) int) c10Result {
	done := make(chan c10Result, 1)
	go func() {
		x := &c10Run{xval: c10XValues()}
		skip := 0
		if setup != nil {
			skip = setup(x)
		} else {
			x.dp = dependency.NewProvider(c10Tag)
		}
		var res c10Result
		for i, op := range ops {
			x.depth, x.deep = 0, false
			if x.cross != nil {
				x.cross.depth, x.cross.deep = 0, false
			}
			var raw c10Raw
			if i < skip {
				raw = c10Raw{res: "ok"}
			} else {
				raw = x.step(op)
			}
			if x.cross != nil && op.isDef() && raw.res == "ok" {
				x.cross.step(op)
			}
			ob := c10Obs{Res: raw.res, Runs: x.runs, Filled: raw.filled, XFill: raw.xfilled}
			if x.deep {
				ob.Res = "hang"
			}
			if raw.res == "ok" && op.Kind == "get" {
				ob.Inst = c10AsInst(raw.ptr)
				if ob.Inst == nil {
					ob.Res = "panic" // ok with a nil / foreign instance: not a value the provider may return
				}
			}
			func() {
				defer func() {
					if recover() != nil {
						ob.Res = "panic"
					}
				}()
				ks, _ := x.dp.Keys()
				ob.Keys = append([]string{}, ks...)
			}()
			res.obs = append(res.obs, ob)
			res.raw = append(res.raw, raw)
		}
		res.cross = x.crossLog
		res.xval = x.xval
		done <- res
	}()
	select {
	case r := <-done:
		return r
	case <-time.After(20 * time.Second):
		return c10Result{hang: true}
	}
}

// ---- Coq emitters

func c10Deps(ds []c10Dep) string {
	items := make([]string, len(ds))
	for i, d := range ds {
		items[i] = fmt.Sprintf("(%d,%s)", d.Name, coqBool(d.Opt))
	}
	return coqList(items)
}

func c10ProgCoq(p *c10Prog) string {
	return fmt.Sprintf("(mkProg %s %s %s)", c10Deps(p.Deps), coqBool(p.Fails), coqBool(p.Nil))
}

func (op c10Op) fields() []c10Dep {
	if op.Kind == "sinject" {
		return c10Statics[op.Static].fields
	}
	return op.Fields
}

func (op c10Op) coq() string {
	switch op.Kind {
	case "set":
		return fmt.Sprintf("OSet %d %d", op.Name, op.ID)
	case "setdef":
		return fmt.Sprintf("OSetDefault %d %d", op.Name, op.ID)
	case "fac":
		return fmt.Sprintf("OAddFactory %d %d %s", op.Name, op.ID, c10ProgCoq(op.Prog))
	case "dfac":
		return fmt.Sprintf("OAddDefaultFactory %d %d %s", op.Name, op.ID, c10ProgCoq(op.Prog))
	case "get":
		return fmt.Sprintf("OGet %d", op.Name)
	}
	return fmt.Sprintf("OInject %s", c10Deps(op.fields()))
}

func c10Tok(i *c10Inst) string {
	if i == nil {
		return "None"
	}
	return fmt.Sprintf("Some (mkTok %d %s %d %d)", i.Name, i.Kind, i.ID, i.Num)
}

// a key of Keys() as the model's name number; 99 for a string that is no name of the pool
func c10KeyNum(k string) string {
	for i, n := range c10Spells[c10Cur].Names {
		if n == k {
			return fmt.Sprint(i)
		}
	}
	return "99"
}

func (ob c10Obs) coq(op c10Op) string {
	var out string
	switch {
	case ob.Res == "panic":
		out = "IPanic"
	case ob.Res == "hang":
		out = "IHang"
	case op.isDef():
		out = fmt.Sprintf("IDef %s", coqBool(ob.Res == "ok"))
	case op.Kind == "get" && ob.Res == "ok":
		out = fmt.Sprintf("IGetOk (mkTok %d %s %d %d)", ob.Inst.Name, ob.Inst.Kind, ob.Inst.ID, ob.Inst.Num)
	case op.Kind == "get":
		out = "IGetErr"
	default:
		items := make([]string, len(ob.Filled))
		for i, f := range ob.Filled {
			items[i] = c10Tok(f)
		}
		out = fmt.Sprintf("IInject %s %s", coqList(items), coqBool(ob.Res == "ok"))
	}
	runs := make([]string, c10Pool)
	for i := range runs {
		runs[i] = fmt.Sprint(ob.Runs[i])
	}
	keys := make([]string, len(ob.Keys))
	for i, k := range ob.Keys {
		keys[i] = c10KeyNum(k)
	}
	var wired []string
	if op.Kind == "get" && ob.Res == "ok" {
		for _, w := range ob.Inst.Wired {
			wired = append(wired, c10Tok(w))
		}
	}
	return fmt.Sprintf("(%s, %s, %s, %s)", out, coqList(runs), coqList(keys), coqList(wired))
}

func c10CaseCoq(ops []c10Op, obs []c10Obs) string {
	// AddInjectors is not a call of the model: the case is the program without these calls (they
	// must not change anything the model speaks about)
	var o, b []string
	for i := range ops {
		if ops[i].Kind == "addinj" {
			continue
		}
		o = append(o, op2(ops[i].coq()))
		b = append(b, obs[i].coq(ops[i]))
	}
	return fmt.Sprintf("Case [0;1;2;3;4;5;6;7] %s %s", coqList(o), coqList(b))
}

func op2(s string) string { return "(" + s + ")" }

// ---- the history-free reference (L2): accepted definition set and memo-free DFS

type c10Def struct {
	kind string
	id   int
	prog *c10Prog
}

type c10Spec struct {
	inst, fac, dinst, dfac [c10Pool]*c10Def
}

// built from the implementation's own accept/reject answers
func c10SpecOf(ops []c10Op, obs []c10Obs) (sp c10Spec) {
	for i, op := range ops {
		if !op.isDef() || obs[i].Res != "ok" {
			continue
		}
		d := &c10Def{id: op.ID, prog: op.Prog}
		switch op.Kind {
		case "set":
			if sp.inst[op.Name] == nil {
				d.kind = "KInst"
				sp.inst[op.Name] = d
			}
		case "fac":
			if sp.fac[op.Name] == nil {
				d.kind = "KFac"
				sp.fac[op.Name] = d
			}
		case "setdef":
			if sp.dinst[op.Name] == nil {
				d.kind = "KDef"
				sp.dinst[op.Name] = d
			}
		case "dfac":
			if sp.dfac[op.Name] == nil {
				d.kind = "KDFac"
				sp.dfac[op.Name] = d
			}
		}
	}
	return
}

// precedence: explicit instance > explicit factory > default instance > default factory
func (sp *c10Spec) eff(n int) *c10Def {
	for _, d := range []*c10Def{sp.inst[n], sp.fac[n], sp.dinst[n], sp.dfac[n]} {
		if d != nil {
			return d
		}
	}
	return nil
}

func (sp *c10Spec) resolve(n int, vis uint) bool {
	if vis&(1<<uint(n)) != 0 {
		return false
	}
	d := sp.eff(n)
	if d == nil {
		return false
	}
	if d.prog == nil {
		return true
	}
	for _, e := range d.prog.Deps {
		if !e.Opt && !sp.resolve(e.Name, vis|1<<uint(n)) {
			return false
		}
	}
	return !d.prog.Fails && !d.prog.Nil
}

// names reachable from n through all dependency edges (required and optional)
func (sp *c10Spec) reach(n int, seen *[c10Pool]bool) {
	if seen[n] {
		return
	}
	seen[n] = true
	if d := sp.eff(n); d != nil && d.prog != nil {
		for _, e := range d.prog.Deps {
			sp.reach(e.Name, seen)
		}
	}
}

func (sp *c10Spec) onRequiredCycle(n int) bool {
	var seen [c10Pool]bool
	var walk func(m int) bool
	walk = func(m int) bool {
		d := sp.eff(m)
		if d == nil || d.prog == nil {
			return false
		}
		for _, e := range d.prog.Deps {
			if e.Opt {
				continue
			}
			if e.Name == n {
				return true
			}
			if !seen[e.Name] {
				seen[e.Name] = true
				if walk(e.Name) {
					return true
				}
			}
		}
		return false
	}
	return walk(n)
}

func c10Desc(ops []c10Op, obs []c10Obs) map[string]interface{} {
	d := map[string]interface{}{"ops": ops, "obs": obs, "spell": c10Cur}
	if c10Cur != 0 {
		// the names of this pool may be long or no UTF-8: the description carries the pool's title
		// and Keys() as name numbers
		d["names"] = c10Spells[c10Cur].Title
		cp := make([]c10Obs, len(obs))
		for i, ob := range obs {
			cp[i] = ob
			cp[i].Keys = make([]string, len(ob.Keys))
			for j, k := range ob.Keys {
				cp[i].Keys[j] = "#" + c10KeyNum(k)
			}
		}
		d["obs"] = cp
	}
	return d
}

// c10Oracles evaluates the property on what the implementation answered.
// provider: "" for NewProvider, otherwise how the provider of this run was built (for the replay).
// Returns whether some InjectTo had to fail because of an extra injector alone (such a program is
// not a case of the model).
func c10Oracles(o *Out, ops []c10Op, res c10Result, provider string) (xfailSeen bool) {
	desc := c10Desc(ops, res.obs)
	if provider != "" {
		desc["provider"] = provider
	}
	fail := func(oracle, what string) { o.Fail(oracle, what, oracle, desc) }
	if res.hang {
		fail("no_hang", "program did not finish within the timeout")
		return
	}
	obs := res.obs
	sp := c10SpecOf(ops, obs)
	frozen := false
	var xreg [][]int // per injector tag: the key masks of the registered injectors
	for range c10XTags {
		xreg = append(xreg, nil)
	}
	var first [c10Pool]interface{} // the instance (pointer) of a name once it was handed out
	var prevRuns [c10Pool]int
	var prevKeys []string
	explicitAccepted := [c10Pool]bool{}
	sawInst := func(i int, n int, p *c10Inst, where string) {
		if p == nil {
			return
		}
		if p.Name != n {
			fail("same_instance", fmt.Sprintf("op %d (%s): asked n%d, got an instance of n%d", i, where, n, p.Name))
			return
		}
		if first[n] == nil {
			first[n] = p
		} else if first[n] != interface{}(p) {
			fail("same_instance", fmt.Sprintf("op %d (%s): n%d yielded a different instance than before (%+v vs %+v)", i, where, n, *p, *(first[n].(*c10Inst))))
		}
		if d := sp.eff(n); d == nil || d.kind != p.Kind || d.id != p.ID {
			fail("precedence", fmt.Sprintf("op %d (%s): n%d produced by %s#%d, the accepted definitions say %+v", i, where, n, p.Kind, p.ID, d))
		}
		if explicitAccepted[n] && p.Kind != "KInst" && p.Kind != "KFac" {
			fail("explicit_beats_default", fmt.Sprintf("op %d (%s): n%d has an accepted explicit definition but the default %s#%d was served", i, where, n, p.Kind, p.ID))
		}
	}
	for i, op := range ops {
		ob := obs[i]
		if ob.Res == "panic" {
			fail("no_panic", fmt.Sprintf("op %d (%s n%d) panicked or returned ok with a nil instance", i, op.Kind, op.Name))
		}
		if ob.Res == "hang" {
			fail("no_unbounded_recursion", fmt.Sprintf("op %d (%s n%d): factories nested deeper than 64 over a pool of 8 names", i, op.Kind, op.Name))
		}
		if op.Kind == "addinj" {
			// an injector is a definition too: refused after the first resolution, accepted before;
			// registering one resolves nothing
			if frozen && ob.Res != "err" {
				fail("frozen", fmt.Sprintf("op %d: AddInjectors accepted after the first resolution", i))
			}
			if !frozen && ob.Res == "err" && provider == "" {
				fail("injectors", fmt.Sprintf("op %d: AddInjectors refused before any resolution", i))
			}
			if ob.Runs != prevRuns {
				fail("lazy", fmt.Sprintf("op %d: AddInjectors ran a factory", i))
			}
			if ob.Res == "ok" {
				for _, tm := range c10XUnitTags(op.Unit, op.Mask) {
					xreg[tm[0]] = append(xreg[tm[0]], tm[1])
				}
			}
		} else if op.isDef() {
			if frozen && ob.Res != "err" {
				fail("frozen", fmt.Sprintf("op %d: definition call %s n%d accepted after the first resolution", i, op.Kind, op.Name))
			}
			if ob.Res == "ok" && (op.Kind == "set" || op.Kind == "fac") {
				explicitAccepted[op.Name] = true
			}
			if ob.Runs != prevRuns {
				fail("lazy", fmt.Sprintf("op %d: a definition call ran a factory", i))
			}
			if frozen && strings.Join(ob.Keys, ",") != strings.Join(prevKeys, ",") {
				fail("frozen", fmt.Sprintf("op %d: Keys changed after the freeze", i))
			}
		} else {
			fields := op.fields()
			roots := []int{}
			if op.Kind == "get" {
				roots = append(roots, op.Name)
			} else {
				for _, f := range fields {
					roots = append(roots, f.Name)
				}
			}
			// laziness / once: counters move only for names the request can reach, never for built names
			var reach [c10Pool]bool
			for _, r := range roots {
				sp.reach(r, &reach)
			}
			for n := 0; n < c10Pool; n++ {
				if ob.Runs[n] != prevRuns[n] {
					if !reach[n] {
						fail("lazy", fmt.Sprintf("op %d: factory of n%d ran although the request does not depend on it", i, n))
					}
					if first[n] != nil {
						fail("once", fmt.Sprintf("op %d: factory of n%d ran again after it had produced an instance", i, n))
					}
					if d := sp.eff(n); d == nil || d.prog == nil {
						fail("lazy", fmt.Sprintf("op %d: a factory of n%d ran although its effective definition is not a factory", i, n))
					}
				}
			}
			if op.Kind == "get" {
				want := sp.resolve(op.Name, 0)
				if ob.Res == "ok" || ob.Res == "err" {
					if want != (ob.Res == "ok") {
						fail("history_independent", fmt.Sprintf("op %d: Get n%d = %s, memo-free resolution of the accepted definitions says ok=%v", i, op.Name, ob.Res, want))
					}
					if sp.onRequiredCycle(op.Name) && ob.Res == "ok" {
						fail("cycle_is_error", fmt.Sprintf("op %d: Get n%d succeeded although n%d is on a cycle of required dependencies", i, op.Name, op.Name))
					}
				}
				if ob.Res == "ok" {
					sawInst(i, op.Name, ob.Inst, "Get")
				}
				if ob.Res == "err" && first[op.Name] != nil {
					fail("same_instance", fmt.Sprintf("op %d: Get n%d fails after it had succeeded", i, op.Name))
				}
			} else if ob.Res == "ok" || ob.Res == "err" {
				// inject = Gets: required fields in order until the first that cannot be resolved
				stopped := false
				for j, f := range fields {
					var got *c10Inst
					if j < len(ob.Filled) {
						got = ob.Filled[j]
					}
					if stopped {
						if got != nil {
							fail("inject", fmt.Sprintf("op %d: field %d filled after a required dependency failed", i, j))
						}
						continue
					}
					want := sp.resolve(f.Name, 0)
					if want != (got != nil) {
						fail("inject", fmt.Sprintf("op %d: field %d (n%d opt=%v) filled=%v, resolution says ok=%v", i, j, f.Name, f.Opt, got != nil, want))
					}
					sawInst(i, f.Name, got, "InjectTo")
					if got == nil && !f.Opt {
						stopped = true
					}
				}
				// the extra injectors: a field whose key a registered injector of its tag lacks makes
				// the call fail when it is required and changes nothing when it is optional; all
				// other fields hold the injector's value after a successful call
				xfail := false
				for _, f := range op.Extra {
					for _, m := range xreg[f.Tag] {
						if m>>uint(f.Key)&1 == 0 && !f.Opt {
							xfail = true
						}
					}
				}
				if !stopped && xfail {
					xfailSeen = true
				}
				if (stopped || xfail) != (ob.Res == "err") {
					fail("inject", fmt.Sprintf("op %d: InjectTo = %s but a required dependency failed = %v, a required key of an extra injector is missing = %v", i, ob.Res, stopped, xfail))
				}
				if ob.Res == "ok" && !stopped && !xfail {
					for j, f := range op.Extra {
						var got *c10Inst
						if j < len(ob.XFill) {
							got = ob.XFill[j]
						}
						var want *c10Inst
						for _, m := range xreg[f.Tag] {
							if m>>uint(f.Key)&1 == 1 {
								want = res.xval[f.Tag][f.Key]
							}
						}
						if got != want {
							fail("injectors", fmt.Sprintf("op %d: field %d for the extra injector %s key %q (opt=%v) holds %v after a successful InjectTo, the registered injectors say %v", i, j, c10XTags[f.Tag], c10XKeys[f.Key], f.Opt, got, want))
						}
					}
				}
			}
			if len(roots) > 0 {
				frozen = true
			}
		}
		prevRuns = ob.Runs
		prevKeys = ob.Keys
	}
	return
}

// history independence on the implementation alone: the same definitions, each requested name as
// the FIRST request of a fresh provider, and the request list reversed, must give the same class
// and the same producer.
func c10History(o *Out, ops []c10Op, res c10Result) {
	if res.hang {
		return
	}
	var defs, reqs []c10Op
	frozen := false
	for _, op := range ops {
		if op.isDef() || op.Kind == "addinj" {
			if !frozen {
				defs = append(defs, op)
			}
		} else {
			reqs = append(reqs, op)
			if len(op.fields()) > 0 || op.Kind == "get" {
				frozen = true
			}
		}
	}
	type outcome struct {
		ok       bool
		kind     string
		id       int
		seen     bool
		conflict bool
	}
	collect := func(ops []c10Op, r c10Result) (m [c10Pool]outcome) {
		if r.hang {
			return
		}
		note := func(n int, ok bool, p *c10Inst) {
			oc := outcome{ok: ok, seen: true}
			if p != nil {
				oc.kind, oc.id = p.Kind, p.ID
			}
			if m[n].seen && (m[n].ok != oc.ok || m[n].kind != oc.kind || m[n].id != oc.id) {
				oc.conflict = true
			}
			if !m[n].conflict {
				m[n] = oc
			}
		}
		for i, op := range ops {
			ob := r.obs[i]
			if op.Kind == "get" && (ob.Res == "ok" || ob.Res == "err") {
				note(op.Name, ob.Res == "ok", ob.Inst)
			}
		}
		return
	}
	base := collect(ops, res)
	desc := c10Desc(ops, res.obs)
	for n := 0; n < c10Pool; n++ {
		if !base[n].seen {
			continue
		}
		if base[n].conflict {
			o.Fail("history_independent", fmt.Sprintf("Get n%d changed its outcome within one history", n), "history_independent", desc)
			continue
		}
		single := append(append([]c10Op{}, defs...), c10Op{Kind: "get", Name: n})
		r := c10Exec(single)
		if r.hang {
			o.Fail("no_hang", "single-request program did not finish", "no_hang", c10Desc(single, nil))
			continue
		}
		s := collect(single, r)[n]
		if s.ok && base[n].ok {
			// measured, not judged: the content (wiring) of the instance may depend on the request order
			if w1, w2 := c10WiringOf(single, r, n), c10WiringOf(ops, res, n); w1 != w2 {
				o.Stat("wiring_depends_on_request_order")
				if _, ok := o.Extra["wiring_sample"]; !ok {
					o.Extra["wiring_sample"] = map[string]interface{}{"name": n, "first_request": w1, "in_history": w2, "ops": ops}
				}
			} else {
				o.Stat("wiring_same")
			}
		}
		if s.ok != base[n].ok || s.kind != base[n].kind || s.id != base[n].id {
			o.Fail("history_independent", fmt.Sprintf("Get n%d as the first request: ok=%v %s#%d; inside the history: ok=%v %s#%d", n, s.ok, s.kind, s.id, base[n].ok, base[n].kind, base[n].id), "history_independent", desc)
		}
	}
	if len(reqs) > 1 {
		rev := append([]c10Op{}, defs...)
		for i := len(reqs) - 1; i >= 0; i-- {
			rev = append(rev, reqs[i])
		}
		r := c10Exec(rev)
		if r.hang {
			o.Fail("no_hang", "reversed program did not finish", "no_hang", c10Desc(rev, nil))
			return
		}
		rv := collect(rev, r)
		for n := 0; n < c10Pool; n++ {
			if base[n].seen && rv[n].seen && !rv[n].conflict && !base[n].conflict &&
				(rv[n].ok != base[n].ok || rv[n].kind != base[n].kind || rv[n].id != base[n].id) {
				o.Fail("history_independent", fmt.Sprintf("Get n%d: ok=%v %s#%d with the requests reversed, ok=%v %s#%d in the original order", n, rv[n].ok, rv[n].kind, rv[n].id, base[n].ok, base[n].kind, base[n].id), "history_independent", desc)
			}
		}
	}
}

// wiring of the instance the first successful Get n returned: which dependencies were filled
func c10WiringOf(ops []c10Op, r c10Result, n int) string {
	for i, op := range ops {
		if op.Kind == "get" && op.Name == n && r.obs[i].Res == "ok" && r.obs[i].Inst != nil {
			var sb strings.Builder
			for _, w := range r.obs[i].Inst.Wired {
				if w == nil {
					sb.WriteString("-")
				} else {
					fmt.Fprintf(&sb, "n%d", w.Name)
				}
				sb.WriteString(" ")
			}
			return sb.String()
		}
	}
	return "?"
}

// ---- generators

func c10GenProg(rng *RNG, self, nNames int, mode int) *c10Prog {
	p := &c10Prog{ViaInject: rng.Chance(35)}
	nd := rng.Intn(4)
	if rng.Chance(15) {
		nd = rng.Intn(6)
	}
	for i := 0; i < nd; i++ {
		var d int
		switch mode {
		case 0: // acyclic: only larger names
			if self+1 >= nNames {
				continue
			}
			d = self + 1 + rng.Intn(nNames-self-1)
		default:
			d = rng.Intn(nNames)
		}
		if rng.Chance(4) {
			d = rng.Intn(c10Pool) // possibly an undefined name
		}
		p.Deps = append(p.Deps, c10Dep{Name: d, Opt: rng.Chance(30)})
	}
	if rng.Chance(6) {
		p.Fails = true
	}
	if rng.Chance(4) {
		p.Nil = true
	}
	return p
}

func c10GenFields(rng *RNG, nNames int) []c10Dep {
	n := 1 + rng.Intn(4)
	if rng.Chance(5) {
		n = 0
	}
	fs := make([]c10Dep, n)
	for i := range fs {
		fs[i] = c10Dep{Name: rng.Intn(nNames), Opt: rng.Chance(40)}
		if rng.Chance(5) {
			fs[i].Name = rng.Intn(c10Pool)
		}
	}
	return fs
}

func c10GenReq(rng *RNG, nNames int) c10Op {
	switch {
	case rng.Chance(60):
		n := rng.Intn(nNames)
		if rng.Chance(5) {
			n = rng.Intn(c10Pool)
		}
		return c10Op{Kind: "get", Name: n}
	case rng.Chance(70):
		return c10Op{Kind: "inject", Fields: c10GenFields(rng, nNames), Pad: rng.Intn(3)}
	}
	return c10Op{Kind: "sinject", Static: rng.Intn(len(c10Statics))}
}

func c10GenDef(rng *RNG, nNames, mode, id int) c10Op {
	n := rng.Intn(nNames)
	switch k := rng.Intn(100); {
	case k < 12:
		return c10Op{Kind: "set", Name: n, ID: id}
	case k < 24:
		return c10Op{Kind: "setdef", Name: n, ID: id}
	case k < 65:
		return c10Op{Kind: "fac", Name: n, ID: id, Prog: c10GenProg(rng, n, nNames, mode)}
	}
	return c10Op{Kind: "dfac", Name: n, ID: id, Prog: c10GenProg(rng, n, nNames, mode)}
}

func c10GenProgram(rng *RNG) (ops []c10Op, shape string) {
	nNames := 1 + rng.Intn(c10Pool)
	mode := rng.Intn(3) // 0 acyclic, 1 free (cyclic likely), 2 ring + free
	shape = []string{"acyclic", "free", "ring"}[mode]
	ndefs := rng.Intn(13)
	id := 1
	if mode == 2 && nNames >= 2 {
		// an explicit k-cycle n0 -> n1 -> ... -> n(k-1) -> n0, one edge possibly optional
		k := 2 + rng.Intn(nNames-1)
		optAt := -1
		if rng.Chance(50) {
			optAt = rng.Intn(k)
		}
		for i := 0; i < k; i++ {
			p := &c10Prog{Deps: []c10Dep{{Name: (i + 1) % k, Opt: i == optAt}}, ViaInject: rng.Chance(30)}
			if rng.Chance(30) {
				p.Deps = append(p.Deps, c10Dep{Name: rng.Intn(nNames), Opt: rng.Chance(50)})
			}
			kind := "fac"
			if rng.Chance(30) {
				kind = "dfac"
			}
			ops = append(ops, c10Op{Kind: kind, Name: i, ID: id, Prog: p})
			id++
		}
		ndefs = rng.Intn(6)
	}
	if rng.Chance(6) { // a request that does not freeze, before the definitions
		ops = append(ops, c10Op{Kind: "sinject", Static: 5})
	}
	if mode != 2 && rng.Chance(65) {
		// covering: every name of the program gets at least one definition (random kind), random order
		perm := make([]int, nNames)
		for i := range perm {
			perm[i] = i
		}
		for i := nNames - 1; i > 0; i-- {
			j := rng.Intn(i + 1)
			perm[i], perm[j] = perm[j], perm[i]
		}
		for _, n := range perm {
			d := c10GenDef(rng, nNames, mode, id)
			d.Name = n
			if d.Prog != nil {
				d.Prog = c10GenProg(rng, n, nNames, mode)
			}
			ops = append(ops, d)
			id++
		}
		ndefs = rng.Intn(13 - nNames)
		shape += "+cover"
	}
	for i := 0; i < ndefs; i++ {
		ops = append(ops, c10GenDef(rng, nNames, mode, id))
		id++
		if rng.Chance(3) {
			ops = append(ops, c10Op{Kind: "inject", Fields: nil, Pad: 1}) // no tagged field: must not freeze
		}
	}
	if mode == 2 {
		// shuffle the definitions: registration order must not matter for the ring
		for i := len(ops) - 1; i > 0; i-- {
			j := rng.Intn(i + 1)
			ops[i], ops[j] = ops[j], ops[i]
		}
	}
	nreq := 1 + rng.Intn(10)
	for i := 0; i < nreq; i++ {
		ops = append(ops, c10GenReq(rng, nNames))
		if rng.Chance(10) {
			ops = append(ops, c10GenDef(rng, nNames, mode, id)) // late definition: must be refused
			id++
		}
	}
	return
}

func c10Key(ops []c10Op) string {
	b, _ := json.Marshal(ops)
	return fmt.Sprint(c10Cur) + string(b)
}

func c10RunProgram(o *Out, ops []c10Op, shape string, emit bool, hist bool) (res c10Result) {
	res = c10Exec(ops)
	if c10Oracles(o, ops, res, "") {
		emit = false // an InjectTo failed because of an extra injector: not a program of the model
		o.Stat("injector_required_missing")
	}
	if hist {
		c10History(o, ops, res)
	}
	if res.hang {
		o.CountEval(c10Key(ops), true)
		return
	}
	if c10Cur != 0 {
		o.Stat("spelling_" + c10Spells[c10Cur].Title)
	}
	nOk, nErr, nReq := 0, 0, 0
	for i, op := range ops {
		ob := res.obs[i]
		o.Stat("op_" + op.Kind)
		if op.isDef() {
			o.Stat("def_" + ob.Res)
		} else if op.Kind == "addinj" {
			o.Stat("addinj_" + ob.Res)
		} else {
			nReq++
			o.Stat("req_" + ob.Res)
			if ob.Res == "ok" {
				nOk++
			} else {
				nErr++
			}
		}
	}
	var last [c10Pool]int
	if len(res.obs) > 0 {
		last = res.obs[len(res.obs)-1].Runs
	}
	built := 0
	for _, r := range last {
		if r > 0 {
			built++
		}
	}
	o.Stat("shape_" + shape)
	o.Stat(fmt.Sprintf("factories_run_%d", minInt(built, 5)))
	nontrivial := nReq > 0 && built > 0
	if emit {
		o.AddCase(c10CaseCoq(ops, res.obs), c10Desc(ops, res.obs), c10Key(ops), nontrivial)
	} else {
		o.CountEval(c10Key(ops), nontrivial)
	}
	return
}

func minInt(a, b int) int {
	if a < b {
		return a
	}
	return b
}

// exhaustive small scope: names {0,1}, definition sets drawn from a small menu, every order of
// up to 3 definition calls, then both Get orders
func c10Exhaustive(o *Out, maxDefs int, emitEvery int) {
	var menu []c10Op
	for n := 0; n < 2; n++ {
		other := 1 - n
		menu = append(menu,
			c10Op{Kind: "set", Name: n},
			c10Op{Kind: "setdef", Name: n},
			c10Op{Kind: "fac", Name: n, Prog: &c10Prog{}},
			c10Op{Kind: "fac", Name: n, Prog: &c10Prog{Deps: []c10Dep{{other, false}}}},
			c10Op{Kind: "fac", Name: n, Prog: &c10Prog{Deps: []c10Dep{{other, true}}, ViaInject: true}},
			c10Op{Kind: "fac", Name: n, Prog: &c10Prog{Fails: true}},
			c10Op{Kind: "dfac", Name: n, Prog: &c10Prog{}},
			c10Op{Kind: "dfac", Name: n, Prog: &c10Prog{Deps: []c10Dep{{other, false}}}},
			c10Op{Kind: "dfac", Name: n, Prog: &c10Prog{Deps: []c10Dep{{n, true}}, Nil: n == 1}},
		)
	}
	reqs := [][]c10Op{
		{{Kind: "get", Name: 0}, {Kind: "get", Name: 1}, {Kind: "get", Name: 0}},
		{{Kind: "get", Name: 1}, {Kind: "sinject", Static: 1}, {Kind: "get", Name: 1}},
	}
	count := 0
	var rec func(prefix []c10Op)
	rec = func(prefix []c10Op) {
		for ri, rq := range reqs {
			ops := make([]c10Op, 0, len(prefix)+4)
			for i, d := range prefix {
				d.ID = i + 1
				ops = append(ops, d)
			}
			ops = append(ops, rq...)
			ops = append(ops, c10Op{Kind: "set", Name: 0, ID: 99})
			count++
			if c10Spells[c10Cur].GetOnly {
				ops = c10GetOnly(ops)
			}
			c10RunProgram(o, ops, "exhaustive", emitEvery > 0 && (count+ri)%emitEvery == 0, len(prefix) <= 2)
		}
		if len(prefix) == maxDefs {
			return
		}
		for _, m := range menu {
			rec(append(append([]c10Op{}, prefix...), m))
		}
	}
	rec(nil)
	if c10Cur == 0 {
		o.Extra["exhaustive_programs"] = count
		o.Extra["exhaustive_max_len"] = maxDefs
	}
}

func runC10(o *Out, rng *RNG, tier string, replay string) {
	o.Imports = "From GC Require Import Common.Base Model.Di Corr.C10."
	o.CaseType = "case"
	o.CheckFn = "check"
	o.ShardSize = 250
	o.Rule = "programs over the pool n0..n7: 0-12 definition calls of the four kinds (duplicates, all orders; shapes acyclic / free / explicit k-ring with an optional edge, shuffled), " +
		"factories = first-order programs (0-5 deps, optional/required, fails, nil; deps resolved by Get or by InjectTo on reflect.StructOf structs), then 1-10 requests " +
		"(Get, InjectTo on generated and on 8 predefined struct types) with late definition calls mixed in; plus every sequence of <= N definition calls from an 18-entry menu over 2 names. " +
		"45 % of the programs are run over one of 6 pools of look-alike names instead of n0..n7 (prefixes of one another; case/blank/homoglyph; '?' inside the name; struct-tag syntax; no UTF-8/NUL/long/two normal forms; empty name and leading '?' with Get requests only), " +
		"30 % carry AddInjectors calls (MapInjector, datascope.Injector, MultiInjector of both; before and after the first request) and InjectTo structs with fields for them; every third program is also run on NewStaticProvider built from its accepted explicit definitions, every third next to a twin provider asked from inside the factories; " +
		"a sweep of every kind of late definition (incl. AddInjectors) after every kind of first resolution, and the fixed scenarios, under all 7 pools; the 2-name exhaustive scope again over 3 look-alike pools. " +
		"Non-trivial: at least one request and at least one factory invocation; distinct by the whole program and pool."
	if replay != "" {
		b, err := os.ReadFile(replay)
		must(err)
		var rp struct {
			Case struct {
				Ops   []c10Op `json:"ops"`
				Spell int     `json:"spell"`
			} `json:"case"`
		}
		must(json.Unmarshal(b, &rp))
		if len(rp.Case.Ops) == 0 {
			c10GoatAppProbe(o) // a failure of the application-level probe: run the probe again
			return
		}
		c10Cur = rp.Case.Spell
		res := c10RunProgram(o, rp.Case.Ops, "replay", true, true)
		c10StaticRun(o, rp.Case.Ops, res)
		c10TwinRun(o, rp.Case.Ops, res)
		return
	}
	n, exh, every := 1500, 2, 7
	if tier == "thorough" {
		n, exh, every = 30000, 3, 40
	}
	// fixed scenarios from the notes / the design
	// ... and every kind of late definition after every kind of first resolution; both under every
	// spelling of the names, on the static provider and next to a twin provider
	fixed := append(c10Scenarios(), c10LateSweep()...)
	for sp := range c10Spells {
		c10Cur = sp
		for _, sc := range fixed {
			if c10Spells[sp].GetOnly {
				sc = c10GetOnly(sc)
			}
			res := c10RunProgram(o, sc, "scenario", sp == 0 || sp == 1, true)
			if sp <= 1 {
				c10StaticRun(o, sc, res)
				c10TwinRun(o, sc, res)
			}
		}
	}
	c10Cur = 0
	for i := 0; i < n; i++ {
		ops, shape := c10GenProgram(rng)
		if rng.Chance(45) {
			c10Cur = 1 + rng.Intn(len(c10Spells)-1)
		}
		if c10Spells[c10Cur].GetOnly {
			ops = c10GetOnly(ops)
		} else if rng.Chance(30) {
			ops = c10AddInjectorOps(rng, ops)
			shape += "+injectors"
		}
		res := c10RunProgram(o, ops, shape, true, true)
		if i%3 == 0 {
			c10StaticRun(o, ops, res)
		}
		if i%3 == 1 {
			c10TwinRun(o, ops, res)
		}
		c10Cur = 0
	}
	c10Exhaustive(o, exh, every)
	// the small scope once more over names that are prefixes of one another and over the empty /
	// marker-led names (L2 only)
	for _, sp := range []int{1, 3, 6} {
		c10Cur = sp
		c10Exhaustive(o, 2, 0)
	}
	c10Cur = 0
	c10GoatAppProbe(o)
	c10PrefilledProbe(o)
	// harness self-check: generator distribution
	req := o.Stats["req_ok"] + o.Stats["req_err"]
	if req > 0 && o.Stats["req_err"]*100/req > 60 {
		fmt.Fprintln(os.Stderr, "C10 generator: error share above 60%")
		os.Exit(3)
	}
}

func c10Scenarios() [][]c10Op {
	f := func(n, id int, fails bool, deps ...c10Dep) c10Op {
		return c10Op{Kind: "fac", Name: n, ID: id, Prog: &c10Prog{Deps: deps, Fails: fails}}
	}
	g := func(n int) c10Op { return c10Op{Kind: "get", Name: n} }
	return [][]c10Op{
		// A ?-> B failing
		{f(0, 1, false, c10Dep{1, true}), f(1, 2, true), g(0), g(1), g(0), g(1)},
		// required
		{f(0, 1, false, c10Dep{1, false}), f(1, 2, true), g(0), g(1), g(0)},
		// 2-cycle with an optional edge, both orders
		{f(0, 1, false, c10Dep{1, true}), f(1, 2, false, c10Dep{0, false}), g(0), g(1), g(0)},
		{f(0, 1, false, c10Dep{1, true}), f(1, 2, false, c10Dep{0, false}), g(1), g(0), g(1)},
		// D ?-> A, A ?-> B, B -> D (wiring depends on the order, outcome does not)
		{f(3, 1, false, c10Dep{0, true}), f(0, 2, false, c10Dep{1, true}), f(1, 3, false, c10Dep{3, false}), g(0), g(3), g(1)},
		{f(3, 1, false, c10Dep{0, true}), f(0, 2, false, c10Dep{1, true}), f(1, 3, false, c10Dep{3, false}), g(3), g(0), g(1)},
		// F18: SetDefault + explicit factory in both orders
		{{Kind: "setdef", Name: 0, ID: 1}, f(0, 2, false), g(0)},
		{f(0, 2, false), {Kind: "setdef", Name: 0, ID: 1}, g(0)},
		// Set / AddFactory order
		{{Kind: "set", Name: 0, ID: 1}, f(0, 2, false), g(0)},
		{f(0, 2, false), {Kind: "set", Name: 0, ID: 1}, g(0)},
		// self cycle, 3-cycle
		{f(0, 1, false, c10Dep{0, false}), g(0), g(0)},
		{f(0, 1, false, c10Dep{1, false}), f(1, 2, false, c10Dep{2, false}), f(2, 3, false, c10Dep{0, false}), g(0), g(1), g(2), g(0)},
	}
}
