package main

// C16 — pip:try runs exactly the matching handler and contains the body's failure.
// Generated try blocks (body shapes x handler subsets x failing positions x nested spawns) run
// through the real `pip:try` command (termexec.RunString on a fresh scope whose task manager is
// bound to it).  Observed: probe events of body / spawned tasks / handlers, the error state of the
// surrounding scope and of the application scope after everything finished.

import (
	"encoding/json"
	"fmt"
	"os"
	"os/exec"
	"strings"
	"time"

	"github.com/goatcms/goatcore/app"
	"github.com/goatcms/goatcore/app/gio"
	"github.com/goatcms/goatcore/app/modules/pipelinem/pipservices"
	"github.com/goatcms/goatcore/app/modules/pipelinem/pipservices/namespaces"
	"github.com/goatcms/goatcore/app/scope"
	"github.com/goatcms/goatcore/app/terminal/termexec"
)

func init() {
	runners["C16"] = runC16
	runners["C16probe"] = runC16probe
}

type tryProg struct {
	Late    bool   `json:"late,omitempty"` // finally fails at once; fail/success = [gate; pip:run; end], gate opened after finally failed
	NoBind  bool   `json:"nobind,omitempty"` // no task manager is bound to the surrounding scope beforehand: pip:try is the first pipeline command there
	Body    *gTask `json:"body"`
	Finally *gTask `json:"finally,omitempty"`
	Fail    *gTask `json:"fail,omitempty"`
	Success *gTask `json:"success,omitempty"`
}

func (p *tryProg) handlers() []*gTask {
	var l []*gTask
	for _, h := range []*gTask{p.Finally, p.Fail, p.Success} {
		if h != nil {
			l = append(l, h)
		}
	}
	return l
}

type c16obs struct {
	Events    []pEvent        `json:"events"`
	RunErr    string          `json:"run"` // ok | err | hang | panic  (result of RunString)
	Names     []string        `json:"names"`
	Errors    map[string]bool `json:"errors"`
	SurFailed bool            `json:"surrounding_failed"`
	AppFailed bool            `json:"app_failed"`
	MaxIn     int             `json:"max_inside"`
	GateHang  int             `json:"gate_hangs"`
}

type c16case struct {
	Seed  uint64   `json:"seed"`
	Index int      `json:"index"`
	Prog  *tryProg `json:"prog"`
	Obs   c16obs   `json:"obs"`
}

func genTry(g *c14gen) *tryProg {
	mk := func(local string, failPct int, budget int) *gTask {
		g.uid++
		g.budget = budget
		t := &gTask{Local: local, Full: g.tryPrefix + "T:" + local, UID: fmt.Sprintf("u%d", g.uid)}
		t.Num = g.names.num(t.Full)
		g.body(t, 1, g.rng.Chance(failPct))
		return t
	}
	p := &tryProg{}
	g.fork = !g.plain && g.rng.Chance(35)
	p.Body = mk("body", 40, 3)
	g.fork = false
	p.Body.Ctx = 50
	p.Body.walk(func(x *gTask) { x.Ctx = 50 })
	if !g.plain {
		p.NoBind = g.rng.Chance(30)
	}
	if !g.plain && g.rng.Chance(20) {
		// a handler that still has a nested pip:run to issue when its sibling has already failed and finished
		p.Late = true
		build := func(local string, kinds ...string) *gTask {
			g.uid++
			t := &gTask{Local: local, Full: g.tryPrefix + "T:" + local, UID: fmt.Sprintf("u%d", g.uid)}
			t.Num = g.names.num(t.Full)
			for _, k := range kinds {
				c := &gCmd{Kind: k}
				if k == "spawn" {
					g.uid++
					sub := &gTask{Local: "c0", Full: t.Full + ":c0", UID: fmt.Sprintf("u%d", g.uid), Body: []*gCmd{{Kind: "begin"}}}
					sub.Num = g.names.num(sub.Full)
					c.Sub = sub
				}
				t.Body = append(t.Body, c)
			}
			return t
		}
		p.Finally = build("finally", "fail")
		p.Fail = build("fail", "gate", "spawn", "end")
		p.Success = build("success", "gate", "spawn", "end")
		for k, h := range []*gTask{p.Finally, p.Fail, p.Success} {
			c := 51 + k
			h.walk(func(x *gTask) { x.Ctx = c })
		}
		return p
	}
	if g.rng.Chance(65) {
		p.Finally = mk("finally", 20, 1)
	}
	if g.rng.Chance(65) {
		p.Fail = mk("fail", 20, 1)
	}
	if g.rng.Chance(65) {
		p.Success = mk("success", 20, 1)
	}
	for k, h := range []*gTask{p.Finally, p.Fail, p.Success} {
		if h != nil {
			c := 51 + k
			h.walk(func(x *gTask) { x.Ctx = c })
		}
	}
	return p
}

func (p *tryProg) command(epoch string) string {
	args := []string{"pip:try", "--name=T", refQuote1("--body=" + p.Body.script(epoch))}
	if p.Finally != nil {
		args = append(args, refQuote1("--finally="+p.Finally.script(epoch)))
	}
	if p.Fail != nil {
		args = append(args, refQuote1("--fail="+p.Fail.script(epoch)))
	}
	if p.Success != nil {
		args = append(args, refQuote1("--success="+p.Success.script(epoch)))
	}
	return strings.Join(args, " ")
}

func runTry(pa *pipApp, rng *RNG, epoch string, p *tryProg, pre func(root app.Scope)) (ob c16obs) {
	pa.log.reset(epoch)
	root := scope.New(scope.Params{})
	var mgr pipservices.TasksManager
	var err error
	if !p.NoBind || pre != nil {
		mgr, err = pa.tasksUnit.FromScope(root)
		must(err)
	}
	if pre != nil {
		pre(root)
	}
	var gates []string
	type forkCtl struct{ cmd, gateA, gateB string }
	var forks []forkCtl
	forkGate := map[string]bool{}
	all := append([]*gTask{p.Body}, p.handlers()...)
	for _, t := range all {
		t.walk(func(x *gTask) {
			for i, c := range x.Body {
				if c.Kind == "fork" {
					f := forkCtl{cmd: cmdID(epoch, x.UID, i), gateA: cmdID(epoch, c.Sub.UID, 0), gateB: cmdID(epoch, c.Sub2.UID, 1)}
					forks = append(forks, f)
					forkGate[f.gateA], forkGate[f.gateB] = true, true
				}
			}
		})
	}
	var lateGates []string
	if p.Late {
		for _, h := range []*gTask{p.Fail, p.Success} {
			id := cmdID(epoch, h.UID, 0)
			lateGates = append(lateGates, id)
			forkGate[id] = true
		}
	}
	for _, t := range all {
		t.walk(func(x *gTask) {
			for i, c := range x.Body {
				if c.Kind == "gate" && !forkGate[cmdID(epoch, x.UID, i)] {
					gates = append(gates, cmdID(epoch, x.UID, i))
				}
			}
		})
	}
	for i := len(gates) - 1; i > 0; i-- {
		j := rng.Intn(i + 1)
		gates[i], gates[j] = gates[j], gates[i]
	}
	ctx := gio.NewIOContext(root, gio.NewIO(gio.IOParams{In: gio.NewInput(strings.NewReader("")), Out: gio.NewNilOutput(), Err: gio.NewNilOutput(), CWD: pa.cwd}))
	relDone := make(chan struct{})
	go func() {
		defer close(relDone)
		for _, g := range gates {
			time.Sleep(time.Duration(50+rng.Intn(500)) * time.Microsecond)
			pa.log.release(g)
		}
		// fork: let "a" fail only when "b" is inside its gate, and hold "b" until the fork command has
		// returned and the handlers had every chance to start (they must not: "b" is still running)
		if p.Late {
			// open the handler's gate only when the finally handler has failed and finished
			waitFor(500*time.Millisecond, func() bool { return pa.log.has("E", cmdID(epoch, p.Finally.UID, 0)) })
			time.Sleep(5 * time.Millisecond)
			for _, g := range lateGates {
				pa.log.release(g)
			}
		}
		for _, f := range forks {
			waitFor(300*time.Millisecond, func() bool { return pa.log.isInside(f.gateB) })
			pa.log.release(f.gateA)
			waitFor(300*time.Millisecond, func() bool { return pa.log.has("FK", f.cmd) })
			time.Sleep(20 * time.Millisecond)
			pa.log.release(f.gateB)
		}
	}()
	pa.log.add("X", epoch+".try", true)
	e, pn, h := guarded(6*time.Second, func() error {
		return termexec.RunString(termexec.NewRunCtx(termexec.RunCtxParams{Application: pa.mapp, Ctx: ctx, Commands: pa.mapp.Terminal()}), p.command(epoch))
	})
	<-relDone
	if mgr == nil {
		// whatever manager pip:try bound (or failed to bind) to the surrounding scope
		mgr, err = pa.tasksUnit.FromScope(root)
		must(err)
	}
	switch {
	case h:
		ob.RunErr = "hang"
	case pn:
		ob.RunErr = "panic"
	case e != nil:
		ob.RunErr = "err"
	default:
		ob.RunErr = "ok"
	}
	ob.Errors = map[string]bool{}
	if !h {
		_, _, h2 := guarded(3*time.Second, mgr.Wait)
		if h2 {
			ob.RunErr = "hang"
		} else {
			guarded(3*time.Second, func() error {
				names := mgr.Names()
				errs := map[string]bool{}
				for _, n := range names {
					if t, ok := mgr.Get(n); ok {
						errs[n] = len(t.Errors()) != 0
					}
				}
				ob.Names, ob.Errors = names, errs
				return nil
			})
			guarded(3*time.Second, func() error { root.Wait(); return nil })
		}
	}
	ob.SurFailed = len(root.Errors()) != 0
	ob.AppFailed = len(pa.mapp.Scopes().App().Errors()) != 0
	ob.Events, ob.MaxIn, ob.GateHang = pa.log.snapshot()
	return ob
}

func waitFor(tmo time.Duration, cond func() bool) bool {
	end := time.Now().Add(tmo)
	for time.Now().Before(end) {
		if cond() {
			return true
		}
		time.Sleep(100 * time.Microsecond)
	}
	return cond()
}

func (l *probeLog) has(kind, id string) bool {
	l.mu.Lock()
	defer l.mu.Unlock()
	for _, e := range l.events {
		if e.Kind == kind && e.ID == id {
			return true
		}
	}
	return false
}

// subtree analysis of one task from the trace: did it (or something it spawned) fail; first/last seq
type subRes struct {
	acceptErr   string // a nested submission was accepted/refused against the rule (valid names => accepted)
	complete    bool // executed all its commands, or stopped at its own failing command / failed nested task; the same for every task it spawned
	failed      bool
	first, last int
	ran         bool
	silent      bool // no event, and none expected: the first command is an unknown command / an unparsable line
	seqErr      string
}

func analyse(t *gTask, evs map[string][]pEvent) (r subRes) {
	r.first, r.last = -1, -1
	l := evs[t.UID]
	upd := func(s int) {
		if r.first < 0 || s < r.first {
			r.first = s
		}
		if s > r.last {
			r.last = s
		}
	}
	pos := 0
	stopped := false
	cut := false // a task spawned here (synchronously) was cut short
	sibs := map[string]bool{}
	for k := 0; k < len(l); k++ {
		e := l[k]
		_, i := parseID(e.ID)
		r.ran = true
		upd(e.Seq)
		if !stopped && pos < len(t.Body) && (t.Body[pos].Kind == "bad" || t.Body[pos].Kind == "badq") {
			r.failed, stopped = true, true // fails without a probe event; nothing of this body may follow
		}
		if stopped {
			r.seqErr = fmt.Sprintf("%s: event %s %d after a failed command", t.Full, e.Kind, i)
			return
		}
		if e.Kind != "B" || i != pos || i >= len(t.Body) || k+1 >= len(l) {
			r.seqErr = fmt.Sprintf("%s: unexpected event %s %d at command %d", t.Full, e.Kind, i, pos)
			return
		}
		x := l[k+1]
		upd(x.Seq)
		k++
		c := t.Body[i]
		if c.Kind == "fork" {
			// events of the command: B, SR, FK; the two nested tasks run concurrently with each other
			if k+1 < len(l) && l[k+1].Kind == "FK" {
				upd(l[k+1].Seq)
				k++
			}
			if !x.OK {
				r.failed, stopped = true, true
			}
			for _, sub := range []*gTask{c.Sub, c.Sub2} {
				cr := analyse(sub, evs)
				if cr.seqErr != "" {
					r.seqErr = cr.seqErr
					return
				}
				if cr.first >= 0 {
					upd(cr.first)
					upd(cr.last)
				}
				if cr.failed {
					r.failed, stopped = true, true
				}
			}
			pos++
			continue
		}
		switch c.Kind {
		case "fail":
			r.failed, stopped = true, true
		case "spawn":
			exp := !sibs[c.Sub.Local]
			for _, w := range c.Sub.WLoc {
				if w == c.Sub.Local || !sibs[w] {
					exp = false
				}
			}
			if exp != x.OK && r.acceptErr == "" {
				r.acceptErr = fmt.Sprintf("nested submission %s: accepted=%v although the rule (new name, known wait names, healthy scope) says %v", c.Sub.Full, x.OK, exp)
			}
			if x.OK {
				sibs[c.Sub.Local] = true
			}
			if !x.OK {
				r.failed, stopped = true, true
			} else {
				cr := analyse(c.Sub, evs)
				if cr.seqErr != "" {
					r.seqErr = cr.seqErr
					return
				}
				if cr.acceptErr != "" && r.acceptErr == "" {
					r.acceptErr = cr.acceptErr
				}
				if !cr.complete {
					cut = true
				}
				if cr.first >= 0 {
					upd(cr.first)
					upd(cr.last)
					if k+1 < len(l) && cr.last > l[k+1].Seq {
						r.seqErr = fmt.Sprintf("%s: next command began before the spawned task %s ended", t.Full, c.Sub.Full)
						return
					}
				}
				if cr.failed {
					r.failed, stopped = true, true
				}
			}
		}
		pos++
	}
	if !stopped && pos < len(t.Body) && (t.Body[pos].Kind == "bad" || t.Body[pos].Kind == "badq") {
		r.failed, stopped = true, true
		r.silent = !r.ran // nothing to see of it: its first command fails before any probe
	}
	r.complete = (stopped || pos == len(t.Body)) && !cut
	return
}

func c16oracles(o *Out, cs *c16case) {
	ob, p := cs.Obs, cs.Prog
	fail := func(oracle, what string) { o.Fail(oracle, what, oracle, cs) }
	if ob.RunErr == "hang" {
		o.Fail("try_finishes", "pip:try / TasksManager.Wait did not return", "try-hang", cs)
		return
	}
	if ob.RunErr == "panic" {
		fail("try_finishes", "pip:try panicked")
		return
	}
	if ob.GateHang > 0 {
		fail("harness_gate", "a gate was never released")
	}
	evs := map[string][]pEvent{}
	for _, e := range ob.Events {
		if e.Kind == "X" {
			continue
		}
		uid, _ := parseID(e.ID)
		evs[uid] = append(evs[uid], e)
	}
	reg := map[string]bool{}
	for _, n := range ob.Names {
		reg[n] = true
	}
	b := analyse(p.Body, evs)
	if b.seqErr != "" {
		fail("sequential_body", b.seqErr)
	}
	if b.acceptErr != "" {
		fail("nested_submission", b.acceptErr)
	}
	if !b.ran && !(b.silent && reg[p.Body.Full]) {
		fail("body_runs", "the body executed no command")
	} else if b.seqErr == "" && !b.complete {
		fail("body_runs", "the body (or a task it spawned) was cut short: it executed only part of its commands although none of them failed")
	}
	// which handlers provably failed (own failing command, rejected or failed nested task)
	res := map[*gTask]subRes{}
	handlerFailed := false
	for _, h := range p.handlers() {
		res[h] = analyse(h, evs)
		if res[h].failed && (!res[h].silent || reg[h.Full]) {
			handlerFailed = true
		}
	}
	check := func(h *gTask, name string, want bool) {
		if h == nil {
			return
		}
		r := res[h]
		if r.silent && reg[h.Full] {
			r.ran = true // registered, and its first command fails without a probe event
		}
		if r.seqErr != "" {
			fail("sequential_body", r.seqErr)
		}
		if r.acceptErr != "" {
			fail("nested_submission", "inside handler "+h.Local+": "+r.acceptErr)
		}
		if r.ran && !want {
			fail(name, fmt.Sprintf("handler %s ran although body failed=%v", h.Local, b.failed))
		}
		if !r.ran && want {
			fail(name, fmt.Sprintf("handler %s did not run although it is defined and body failed=%v", h.Local, b.failed))
		}
		if r.ran && !r.complete {
			fail(name, fmt.Sprintf("handler %s was cut short: it executed only part of its commands although none of them failed", h.Local))
		}
		if reg[h.Full] != want {
			fail(name, fmt.Sprintf("handler %s registered=%v, expected %v (body failed=%v)", h.Local, reg[h.Full], want, b.failed))
		}
		if r.ran && r.first >= 0 && r.first < b.last {
			fail("after_body", fmt.Sprintf("handler %s began (seq %d) before the body and the tasks it spawned ended (seq %d)", h.Local, r.first, b.last))
		}
	}
	check(p.Finally, "finally_always", true)
	check(p.Fail, "fail_iff", b.failed)
	check(p.Success, "success_iff", !b.failed)
	if ob.SurFailed != handlerFailed {
		fail("containment", fmt.Sprintf("surrounding scope has errors=%v, a handler failed=%v, body failed=%v", ob.SurFailed, handlerFailed, b.failed))
	}
	if ob.AppFailed {
		fail("containment", "the application scope has errors")
	}
	if (ob.RunErr == "err") != ob.SurFailed {
		fail("containment", fmt.Sprintf("pip:try returned %s but the surrounding scope has errors=%v", ob.RunErr, ob.SurFailed))
	}
	// body's own error state stays in its separated scope
	if reg[p.Body.Full] && ob.Errors[p.Body.Full] != b.failed {
		fail("body_outcome", fmt.Sprintf("body task has errors=%v, trace says failed=%v", ob.Errors[p.Body.Full], b.failed))
	}
}

func coqSubm(t *gTask, names *nameTable) string {
	return fmt.Sprintf("{| s_name := %d; s_waits := %s; s_body := %s |}", t.Num, coqNums(t.Waits, names), t.coqBody(names))
}

func coqOptSubm(t *gTask, names *nameTable) string {
	if t == nil {
		return "None"
	}
	return "(Some " + coqSubm(t, names) + ")"
}

func c16coq(cs *c16case, names *nameTable) string {
	p := cs.Prog
	byUID := map[string]string{}
	for _, t := range append([]*gTask{p.Body}, p.handlers()...) {
		t.walk(func(x *gTask) { byUID[x.UID] = x.Full })
	}
	var tr []string
	for _, e := range cs.Obs.Events {
		if e.Kind == "X" {
			tr = append(tr, "TExt")
			continue
		}
		u, i := parseID(e.ID)
		n := names.num(byUID[u])
		switch e.Kind {
		case "B":
			tr = append(tr, fmt.Sprintf("TB %d %s", n, coqNat(i)))
		case "E":
			tr = append(tr, fmt.Sprintf("TE %d %s %s", n, coqNat(i), coqBool(e.OK)))
		case "SR":
			tr = append(tr, fmt.Sprintf("TSR %d %s %s", n, coqNat(i), coqBool(e.OK)))
		}
	}
	var fin []string
	for _, n := range cs.Obs.Names {
		fin = append(fin, fmt.Sprintf("(%d, %s)", names.num(n), coqBool(cs.Obs.Errors[n])))
	}
	tb := fmt.Sprintf("{| tb_body := %s; tb_finally := %s; tb_fail := %s; tb_success := %s; tb_sep := 50; tb_par := 1; tb_cfin := 51; tb_cfail := 52; tb_csucc := 53 |}",
		coqSubm(p.Body, names), coqOptSubm(p.Finally, names), coqOptSubm(p.Fail, names), coqOptSubm(p.Success, names))
	return fmt.Sprintf("{| c_tb := %s; c_trace := %s; c_final := %s; c_sur_failed := %s |}", tb, coqList(tr), coqList(fin), coqBool(cs.Obs.SurFailed))
}

// duplicate handler name: "T:finally" is registered before pip:try runs, so the goroutine's
// submission of the finally handler is rejected.  Expected (after fix b43446f): no panic, the
// surrounding scope has an error, the other handlers are not started.  Runs in a child process
// because the old code panics inside a goroutine (not recoverable).
func runC16probe(o *Out, rng *RNG, tier string, replay string) {
	pa, err := newPipApp()
	must(err)
	names := &nameTable{m: map[string]int{}}
	g := &c14gen{rng: rng, names: names}
	mk := func(local string) *gTask {
		g.uid++
		return &gTask{Local: local, Full: "T:" + local, UID: fmt.Sprintf("u%d", g.uid), Body: []*gCmd{{Kind: "begin"}}}
	}
	p := &tryProg{Body: mk("body"), Finally: mk("finally"), Success: mk("success")}
	ob := runTry(pa, rng, "dup", p, func(root app.Scope) {
		pre := pa.pip(root, namespaces.NewNamespaces(pipservices.NamasepacesParams{Task: "T"}), "finally", nil, "begin dup.pre.0\n")
		must(pa.runner.Run(pre))
		time.Sleep(2 * time.Millisecond)
	})
	o.Extra["probe"] = ob
	finRan, sucRan := false, false
	for _, e := range ob.Events {
		if strings.HasPrefix(e.ID, "dup."+p.Finally.UID+".") {
			finRan = true
		}
		if strings.HasPrefix(e.ID, "dup."+p.Success.UID+".") {
			sucRan = true
		}
	}
	// Whether the success handler still runs after its sibling's submission was rejected is left open
	// (try.go stops submitting; running it would serve "success iff the body succeeded" just as well).
	_ = sucRan
	if ob.RunErr == "hang" || ob.RunErr == "panic" || !ob.SurFailed || finRan {
		o.Fail("rejected_handler", fmt.Sprintf("rejected finally submission: run=%s surrounding failed=%v finally ran=%v success ran=%v", ob.RunErr, ob.SurFailed, finRan, sucRan), "rejected-handler", ob)
	}
	// scenario B: a failing handler's error is forwarded to the surrounding scope while its Close waits
	p2 := &tryProg{Body: mk("body"), Finally: mk("finally"), Success: mk("success")}
	p2.Success.Body = []*gCmd{{Kind: "fail"}}
	ob2 := runTry(pa, rng, "fwd", p2, nil)
	o.Extra["probe_forward"] = ob2
	fin2 := false
	for _, e := range ob2.Events {
		if strings.HasPrefix(e.ID, "fwd."+p2.Finally.UID+".") {
			fin2 = true
		}
	}
	if ob2.RunErr == "hang" || ob2.RunErr == "panic" || !ob2.SurFailed || !fin2 {
		o.Fail("rejected_handler", fmt.Sprintf("failing success handler: run=%s surrounding failed=%v finally ran=%v", ob2.RunErr, ob2.SurFailed, fin2), "failed-handler-forward", ob2)
	}
}

func runC16(o *Out, rng *RNG, tier string, replay string) {
	o.Imports = "From GC Require Import Common.Base Model.Runner Model.Try Corr.RunnerAcc Corr.C16."
	o.CaseType = "case"
	o.CheckFn = "check"
	o.ShardSize = 60
	o.Rule = "generated try blocks: body of 1-4 probe commands (begin/end/gate/fail, nested pip:run up to depth 2 whose tasks succeed or fail, ~40% of the bodies fail), " +
		"every subset of {finally, fail, success} (each defined with probability 0.65), handler bodies of 1-4 commands (20% failing, nested pip:run); " +
		"run through `pip:try` via termexec.RunString on a fresh scope with its own task manager (30% of the blocks: NO manager bound beforehand, pip:try is the first pipeline command on that scope); " +
		"scripts written with blank lines, whitespace-only lines, leading / trailing blanks; the body and every task spawned synchronously must execute all their commands unless one fails; " +
		"30 further blocks (oracles only) whose failing commands may be an unknown command name or an unparsable last line; " +
		"40 pairs of try blocks of the SAME name inside two concurrent pipeline tasks (begin; pip:try; end - the surrounding scope is the task's command scope, oracles only). Non-trivial: at least one handler defined and at least 3 probe events; distinct by program+trace."
	pa, err := newPipApp()
	must(err)
	n, extra, nHosts := 200, 30, 40
	if tier == "thorough" {
		n, extra, nHosts = 5000, 750, 1000
	}
	nMain := n // blocks nMain .. nMain+extra-1: failing commands may be unknown commands / unparsable lines (oracles only)
	n += extra // blocks n .. n+nHosts-1: pairs of try blocks inside two concurrent pipeline tasks (oracles only)
	only := -1
	if replay != "" {
		var rp struct {
			Case struct {
				Index int `json:"index"`
			} `json:"case"`
		}
		b, e := os.ReadFile(replay)
		must(e)
		must(json.Unmarshal(b, &rp))
		only = rp.Case.Index
	}
	// the rejected-handler probe, in a child process (the code before b43446f panics in a goroutine)
	crashed := false
	if only < 0 {
		dir, e := os.MkdirTemp("", "c16probe")
		must(e)
		defer os.RemoveAll(dir)
		cmd := exec.Command(os.Args[0], "C16probe", "-seed", "1", "-tier", tier, "-out", dir)
		out, e := cmd.CombinedOutput()
		o.Stat("rejected_handler_probe_runs")
		if e != nil {
			msg := string(out)
			if len(msg) > 600 {
				msg = msg[:600]
			}
			crashed = true
			o.Fail("rejected_handler", "pip:try crashed the process when an error had to reach the surrounding scope (rejected handler submission / failed handler): "+msg, "rejected-handler-crash", map[string]string{"scenario": "A: task T:finally registered before `pip:try --name=T --body=begin --finally=begin --success=begin`; B: `pip:try --name=T --body=begin --finally=begin --success=fail`"})
		} else {
			var res struct {
				Failures []Failure `json:"failures"`
			}
			b, e2 := os.ReadFile(dir + "/result.json")
			if e2 == nil && json.Unmarshal(b, &res) == nil && len(res.Failures) > 0 {
				o.Fail("rejected_handler", res.Failures[0].What, "rejected-handler", res.Failures[0].Case)
			}
		}
	}
	if crashed {
		return // the same crash would take this process down: the in-process cases are not run
	}

	seed := rng.Next()
	for idx := 0; idx < n+nHosts; idx++ {
		crng := rng.Fork()
		if only >= 0 && idx != only {
			if idx > only {
				break
			}
			continue
		}
		names := &nameTable{m: map[string]int{}}
		g := &c14gen{rng: crng, names: names, pad: true, bad: idx >= nMain && idx < n}
		if idx >= n {
			hosts := genHosts(g)
			obs := runHosts(pa, crng, fmt.Sprintf("y%d", idx), hosts)
			for k, h := range hosts {
				cs := &c16case{Seed: seed, Index: idx, Prog: h.Prog, Obs: obs[k]}
				before := o.Stats["l2_failures"]
				c16oracles(o, cs)
				if o.Stats["l2_failures"] > before {
					o.Stat("in_task_blocks_failed_" + h.Name)
				}
				key, _ := json.Marshal([]interface{}{"host", h.Prog, obs[k].Events})
				o.CountEval(string(key), len(h.Prog.handlers()) > 0)
				o.Stat("try_blocks_inside_tasks")
				if obs[k].SurFailed {
					o.Stat("in_task_surrounding_failed")
				}
				if obs[k].Errors[h.Prog.Body.Full] {
					o.Stat("in_task_body_failed")
				}
				if obs[k].RunErr == "hang" {
					o.Stat("run_hang")
				}
			}
			if o.Stats["run_hang"] >= 3 {
				break
			}
			continue
		}
		p := genTry(g)
		ob := runTry(pa, crng, fmt.Sprintf("y%d", idx), p, nil)
		cs := &c16case{Seed: seed, Index: idx, Prog: p, Obs: ob}
		c16oracles(o, cs)
		key, _ := json.Marshal([]interface{}{p, ob.Events})
		hasFork := false
		p.Body.walk(func(x *gTask) {
			for _, c := range x.Body {
				if c.Kind == "fork" {
					hasFork = true
				}
			}
		})
		hasBad := hasBadKind(append([]*gTask{p.Body}, p.handlers()...))
		if hasBad {
			o.Stat("blocks_with_unknown_command_l2_only")
		}
		if p.NoBind {
			o.Stat("blocks_without_manager_bound_beforehand")
		}
		if hasBad && !hasFork {
			// a command that fails without entering a probe has no event the acceptor could replay: oracles only
			o.CountEval(string(key), len(p.handlers()) > 0)
		} else if hasFork {
			// one command that creates two CONCURRENT nested tasks through the Go API is outside the
			// command language of the model (pip:run is synchronous): property oracles only
			o.CountEval(string(key), len(p.handlers()) > 0)
			o.Stat("blocks_with_fork_l2_only")
			for _, e := range ob.Events {
				if e.Kind == "FK" {
					o.Stat("fork_commands_executed")
				}
			}
		} else {
			o.AddCase(c16coq(cs, names), cs, string(key), len(p.handlers()) > 0 && len(ob.Events) >= 4)
		}
		o.Stat("try_blocks")
		o.Stat("run_" + ob.RunErr)
		o.Stat(fmt.Sprintf("handlers_defined_%d", len(p.handlers())))
		if ob.SurFailed {
			o.Stat("surrounding_failed")
		}
		if ob.Errors[p.Body.Full] {
			o.Stat("body_failed")
		} else {
			o.Stat("body_ok")
		}
		if ob.MaxIn >= 2 {
			o.Stat("blocks_with_overlapping_commands")
		}
		if p.Late {
			o.Stat("blocks_with_late_nested_run")
		}
		nested := 0
		p.Body.walk(func(x *gTask) {
			if x != p.Body {
				nested++
			}
		})
		if nested > 0 {
			o.Stat("body_with_nested")
		}
		if o.Stats["run_hang"] >= 3 {
			break
		}
	}

}

// ---------- try blocks inside pipeline tasks
// Two pipeline tasks h0, h1 (each on its own isolated context, one task manager bound to their common
// root) run concurrently; the body of each is  begin ; pip:try --name=T ... ; end .  Both blocks have
// the same name: they differ by the namespace of the task they run in (h0:T:body, h1:T:body, ...).
// The surrounding scope of a block is the scope of its command inside the task: "failed" is read
// from the task, "pip:try returned an error" from whether the command after it still ran.
// Outside the closed model of Model/Try.v (one block, one surrounding context): property oracles only.

type tryHost struct {
	Name string   `json:"name"`
	UID  string   `json:"uid"`
	Prog *tryProg `json:"prog"`
}

func genHosts(g *c14gen) (hosts []*tryHost) {
	g.plain = true
	for k := 0; k < 2; k++ {
		g.tryPrefix = fmt.Sprintf("h%d:", k)
		hosts = append(hosts, &tryHost{Name: fmt.Sprintf("h%d", k), UID: fmt.Sprintf("host%d", k), Prog: genTry(g)})
	}
	g.tryPrefix, g.plain = "", false
	return hosts
}

func (h *tryHost) script(epoch string) string {
	return fmt.Sprintf("begin %s\n%s\nend %s\n", cmdID(epoch, h.UID, 0), h.Prog.command(epoch), cmdID(epoch, h.UID, 2))
}

func runHosts(pa *pipApp, rng *RNG, epoch string, hosts []*tryHost) (obs []c16obs) {
	pa.log.reset(epoch)
	root := scope.New(scope.Params{})
	mgr, err := pa.tasksUnit.FromScope(root)
	must(err)
	ns := namespaces.NewNamespaces(pipservices.NamasepacesParams{})
	var gates []string
	for _, h := range hosts {
		for _, t := range append([]*gTask{h.Prog.Body}, h.Prog.handlers()...) {
			t.walk(func(x *gTask) {
				for i, c := range x.Body {
					if c.Kind == "gate" {
						gates = append(gates, cmdID(epoch, x.UID, i))
					}
				}
			})
		}
	}
	for i := len(gates) - 1; i > 0; i-- {
		j := rng.Intn(i + 1)
		gates[i], gates[j] = gates[j], gates[i]
	}
	relDone := make(chan struct{})
	go func() {
		defer close(relDone)
		for _, g := range gates {
			time.Sleep(time.Duration(50+rng.Intn(500)) * time.Microsecond)
			pa.log.release(g)
		}
	}()
	var scopes []app.Scope
	var ctxs []app.ContextScope
	submitted := make([]bool, len(hosts))
	for k, h := range hosts {
		scp, cs := isoScope(root, h.Name)
		scopes, ctxs = append(scopes, scp), append(ctxs, cs)
		script := h.script(epoch)
		e, p, hg := guarded(10*time.Second, func() error { return pa.runner.Run(pa.pip(scp, ns, h.Name, nil, script)) })
		submitted[k] = e == nil && !p && !hg
	}
	<-relDone
	_, pn, hang := guarded(6*time.Second, mgr.Wait)
	var names []string
	errs := map[string]bool{}
	if !hang {
		guarded(3*time.Second, func() error {
			names = mgr.Names()
			for _, n := range names {
				if t, ok := mgr.Get(n); ok {
					errs[n] = len(t.Errors()) != 0
				}
			}
			return nil
		})
	}
	events, maxIn, gateHang := pa.log.snapshot()
	appFailed := len(pa.mapp.Scopes().App().Errors()) != 0
	if !hang {
		for _, s := range scopes {
			s := s
			guarded(2*time.Second, func() error { return s.Close() })
		}
		guarded(2*time.Second, func() error { return root.Close() })
	}
	for _, c := range ctxs {
		c.Stop()
	}
	for k, h := range hosts {
		ob := c16obs{Events: events, Names: names, Errors: errs, MaxIn: maxIn, GateHang: gateHang, AppFailed: appFailed}
		ob.SurFailed = errs[h.Name]
		postRan := false
		for _, e := range events {
			if e.Kind == "E" && e.ID == cmdID(epoch, h.UID, 2) {
				postRan = true
			}
		}
		switch {
		case hang:
			ob.RunErr = "hang"
		case pn || !submitted[k]:
			ob.RunErr = "panic"
		case postRan:
			ob.RunErr = "ok"
		default:
			ob.RunErr = "err"
		}
		obs = append(obs, ob)
	}
	return obs
}
