package main

// C08 — fsloop: concurrent tree walk visits every selected node exactly once and then stops.
//
// (i)  schedule replay: the F16 interleaving (consumer held at "fsloop.consumer.gap" while the
//      gated producer lists, enqueues and finishes and the completion goroutine announces
//      StepClose) is forced on fsloop.Loop and on fshelper.Copy; the item must not be lost; the
//      model run on the corresponding schedule must agree (Coq case CSched).
// (ii) random runs: random trees/filters/limits/GOMAXPROCS with seeded delays injected through the
//      verifhook callback, the listing source and the callbacks; L2 oracles on the implementation;
//      every run is emitted as a Coq case checked against the model's selected set.
// (iii) the no-error clause is judged from the caller's side on every run: whatever ended the walk
//      (an injected error, a scope event from a callback, a Kill / foreign error from outside at any
//      point), an empty Errors() after Wait() must come with exactly the selected set of callbacks.

import (
	"errors"
	"fmt"
	"os"
	"runtime"
	"sort"
	"strings"
	"sync"
	"sync/atomic"
	"time"

	"github.com/goatcms/goatcore/app"
	"github.com/goatcms/goatcore/app/scope"
	"github.com/goatcms/goatcore/filesystem"
	"github.com/goatcms/goatcore/filesystem/filespace/memfs"
	"github.com/goatcms/goatcore/filesystem/fshelper"
	"github.com/goatcms/goatcore/filesystem/fsloop"
	"github.com/goatcms/goatcore/varutil/verifhook"
	"github.com/goatcms/goatcore/workers"
)

func init() { runners["C08"] = runC08 }

// ---------- trees

type c08Node struct {
	Name string
	Dir  bool
	Ch   []*c08Node
}

func (n *c08Node) coq() string {
	if !n.Dir {
		return "File " + coqStr(n.Name)
	}
	return "Dir " + coqStr(n.Name) + " " + c08CoqTrees(n.Ch)
}

func c08CoqTrees(l []*c08Node) string {
	items := make([]string, len(l))
	for i, n := range l {
		items[i] = n.coq()
	}
	return coqList(items)
}

func c08Count(l []*c08Node) int {
	c := 0
	for _, n := range l {
		c += 1 + c08Count(n.Ch)
	}
	return c
}

func c08Desc(l []*c08Node) []interface{} {
	r := make([]interface{}, 0, len(l))
	for _, n := range l {
		if n.Dir {
			r = append(r, map[string]interface{}{"d": n.Name, "ch": c08Desc(n.Ch)})
		} else {
			r = append(r, n.Name)
		}
	}
	return r
}

var c08Names = []string{"a", "b", "c", "d.txt", "e.go", "f", "g h", "i-j", "k.tar.gz", "l", "m", "n", "o", "p", "q", "r"}

// names a careless "is this a real entry?" test, a normalisation or a prefix comparison would get
// wrong: leading dot(s) that are not "." / "..", names that are prefixes of one another or differ
// in case only, leading/trailing blanks, bytes that are not UTF-8, control and pattern characters,
// a long name.  None contains "/"; none is "." or ".." (no filespace lists those).
var c08OddNames = []string{".a", ".hidden", "...", "..a", ".. ", "a.", "ab", "a.b", "a2", "A", " a", "a ", " ", "\xff\xfe", "\xc5\xbc",
	"a\nb", "a\tb", "a\\b", "*", "?", "%41", "-", "~", "a~", "#a#", "D:", "F:x", strings.Repeat("L", 200)}

func init() { c08Names = append(c08Names, c08OddNames...) }

// c08GenOdd: every odd name as a file ("fd/"), as a directory with files below it ("dd/"), and a
// few of them at the top
func c08GenOdd(rng *RNG) []*c08Node {
	fd := &c08Node{Name: "fd", Dir: true}
	dd := &c08Node{Name: "dd", Dir: true}
	for _, n := range c08OddNames {
		fd.Ch = append(fd.Ch, &c08Node{Name: n})
		d := &c08Node{Name: n, Dir: true, Ch: []*c08Node{{Name: "x"}, {Name: c08OddNames[rng.Intn(len(c08OddNames))]}}}
		if rng.Chance(30) {
			d.Ch = append(d.Ch, &c08Node{Name: ".sub", Dir: true, Ch: []*c08Node{{Name: ".y"}}})
		}
		dd.Ch = append(dd.Ch, d)
	}
	return []*c08Node{{Name: ".t"}, {Name: ".d", Dir: true, Ch: []*c08Node{{Name: ".x"}, {Name: "x"}}}, {Name: "..."}, {Name: " a"},
		fd, dd, {Name: "a "}, {Name: "..a", Dir: true}}
}

func c08GenSmall(rng *RNG, depth, maxFan int) []*c08Node {
	n := rng.Intn(maxFan + 1)
	perm := make([]int, len(c08Names))
	for i := range perm {
		perm[i] = i
	}
	for i := len(perm) - 1; i > 0; i-- {
		j := rng.Intn(i + 1)
		perm[i], perm[j] = perm[j], perm[i]
	}
	var out []*c08Node
	for i := 0; i < n && i < len(perm); i++ {
		nd := &c08Node{Name: c08Names[perm[i]]}
		if depth > 0 && rng.Chance(40) {
			nd.Dir = true
			nd.Ch = c08GenSmall(rng, depth-1, maxFan)
		}
		out = append(out, nd)
	}
	return out
}

func c08GenDeep(rng *RNG, depth int) []*c08Node {
	if depth == 0 {
		return []*c08Node{{Name: "leaf"}}
	}
	l := []*c08Node{{Name: fmt.Sprintf("d%d", depth), Dir: true, Ch: c08GenDeep(rng, depth-1)}}
	if rng.Bool() {
		l = append(l, &c08Node{Name: fmt.Sprintf("f%d", depth)})
	}
	if rng.Chance(30) {
		l = append([]*c08Node{{Name: fmt.Sprintf("e%d", depth), Dir: true}}, l...)
	}
	return l
}

func c08GenWide(rng *RNG, files, dirs int) []*c08Node {
	var l []*c08Node
	for i := 0; i < dirs; i++ {
		d := &c08Node{Name: fmt.Sprintf("D%d", i), Dir: true}
		if rng.Chance(20) {
			d.Ch = []*c08Node{{Name: "x"}}
		}
		l = append(l, d)
	}
	var fl []*c08Node
	for i := 0; i < files; i++ {
		fl = append(fl, &c08Node{Name: fmt.Sprintf("w%d", i)})
	}
	if rng.Bool() {
		return append(l, fl...) // files at the top
	}
	return append(l, &c08Node{Name: "wide", Dir: true, Ch: fl})
}

// ---------- listing source: serves ReadDir straight from the tree (listing order = tree order),
// with a gate, injected delays and an injected listing error.  Everything else goes to a memfs.

type c08Info struct {
	name string
	dir  bool
}

func (i c08Info) Name() string { return i.name }
func (i c08Info) Size() int64  { return 0 }
func (i c08Info) Mode() os.FileMode {
	if i.dir {
		return os.ModeDir | 0777
	}
	return 0644
}
func (i c08Info) ModTime() time.Time { return time.Time{} }
func (i c08Info) IsDir() bool        { return i.dir }
func (i c08Info) Sys() interface{}   { return nil }

type c08Inner = filesystem.Filespace

type c08TreeFS struct {
	c08Inner
	root    []*c08Node
	errPath string // normalised path whose listing fails ("" = none)
	errHit  int32
	delay   func(string)
	calls   int32
}

func c08Norm(p string) string {
	p = strings.TrimSuffix(p, "/")
	p = strings.TrimPrefix(p, "./")
	if p == "." {
		p = ""
	}
	return p
}

func (fs *c08TreeFS) ReadDir(p string) ([]os.FileInfo, error) {
	atomic.AddInt32(&fs.calls, 1)
	if fs.delay != nil {
		fs.delay("readdir")
	}
	np := c08Norm(p)
	if fs.errPath != "" && (np == fs.errPath || (fs.errPath == "." && np == "")) {
		atomic.AddInt32(&fs.errHit, 1)
		return nil, errors.New("injected listing error")
	}
	cur := fs.root
	if np != "" {
		for _, seg := range strings.Split(np, "/") {
			var next *c08Node
			for _, n := range cur {
				if n.Name == seg && n.Dir {
					next = n
				}
			}
			if next == nil {
				return nil, fmt.Errorf("no such directory %q", p)
			}
			cur = next.Ch
		}
	}
	out := make([]os.FileInfo, len(cur))
	for i, n := range cur {
		out[i] = c08Info{n.Name, n.Dir}
	}
	return out, nil
}

// ---------- one run of the real loop

type c08Run struct {
	Root      []*c08Node
	Kind      string
	C, P      int
	HasDF     bool
	HasFF     bool
	OnDir     bool
	OnFile    bool
	Salt      uint64
	CbErr     string // "D:"/"F:"-prefixed item whose callback fails ("" = none)
	RdErr     string // normalised directory whose listing fails ("" = none, "." = root)
	GMP       int
	DelayMode int // 0 none, 1 random yields/sleeps, 2 additionally hold consumers in the gap until close is announced, 3 every callback sleeps 150 us
	Seed      uint64
	Index     int
	Start     string // argument of Run: "" (= "./"), "./" or a directory of the tree spelled "x/y/" or "./x/y/"
	Scope     bool   // the loop is given an event scope (KillSlot registered on its Kill and Error events)
	KillOn    string // the callback on this item triggers the scope event before it goes on ("" = never)
	KillEvt   int    // 0 = app.KillEvent, 1 = app.ErrorEvent
	// an event that reaches the loop from OUTSIDE the walk (another goroutine, not a callback of the
	// loop), at a chosen point of the walk; needs Scope
	ExtAt   string // "" = never; "prerun" = before Run(); "run" = right after Run() returned; "readdir" / "callback" / "poll" / "gap" = when the ExtN-th listing / callback / consumer poll / consumer gap of the walk begins; "closed" = when the completion goroutine has announced the close
	ExtN    int
	ExtEvt  int  // 0 = Kill, 1 = an error appended to the scope (Error event)
	ExtVia  int  // 0 = the minimal event scope of the harness; 1 = an application scope (scope.New), Kill() / AppendError(); 2 = the same on a CHILD of the application scope the loop is attached to (a child's events run the parent's listeners first)
	ExtSync bool // the goroutine of the walk that reached the point goes on only after the event has been delivered
}

// c08Scope is the smallest app.EventScope: listeners by event id, Trigger calls them in order
type c08Scope struct {
	mu sync.Mutex
	m  map[interface{}][]app.EventCallback
}

func (s *c08Scope) On(id interface{}, cb app.EventCallback) {
	s.mu.Lock()
	if s.m == nil {
		s.m = map[interface{}][]app.EventCallback{}
	}
	s.m[id] = append(s.m[id], cb)
	s.mu.Unlock()
}

func (s *c08Scope) Trigger(id interface{}, data interface{}) error {
	s.mu.Lock()
	l := append([]app.EventCallback(nil), s.m[id]...)
	s.mu.Unlock()
	for _, cb := range l {
		if err := cb(data); err != nil {
			return err
		}
	}
	return nil
}

// base path of the walk as the code spells it, and the entries of the directory it starts in
func (r *c08Run) base() string {
	if r.Start == "" {
		return "./"
	}
	return r.Start
}

func (r *c08Run) startEntries() []*c08Node {
	cur := r.Root
	np := c08Norm(r.Start)
	if np == "" {
		return cur
	}
	for _, seg := range strings.Split(np, "/") {
		var next *c08Node
		for _, n := range cur {
			if n.Name == seg && n.Dir {
				next = n
			}
		}
		if next == nil {
			return nil
		}
		cur = next.Ch
	}
	return cur
}

// the directory whose listing is the first thing the walk does, as c08TreeFS names it
func (r *c08Run) startDir() string {
	if np := c08Norm(r.Start); np != "" {
		return np
	}
	return "."
}

// all directories of the tree as Run arguments ("x/y/")
func c08AllDirs(base string, l []*c08Node) []string {
	var out []string
	for _, n := range l {
		if n.Dir {
			out = append(out, base+n.Name+"/")
			out = append(out, c08AllDirs(base+n.Name+"/", n.Ch)...)
		}
	}
	return out
}

func c08Hash(s string, salt uint64) uint64 {
	h := uint64(1469598103934665603) ^ salt
	for i := 0; i < len(s); i++ {
		h ^= uint64(s[i])
		h *= 1099511628211
	}
	h ^= h >> 29
	return h
}

func (r *c08Run) ff(p string) bool { return c08Hash("f"+p, r.Salt)%4 != 0 }
func (r *c08Run) df(p string) bool { return c08Hash("d"+p, r.Salt)%4 != 0 }

// expected selected set, computed independently of goatcore and of the model
func (r *c08Run) expected() []string {
	var out []string
	var rec func(base string, l []*c08Node)
	rec = func(base string, l []*c08Node) {
		for _, n := range l {
			p := base + n.Name
			if n.Dir {
				if !r.HasDF || r.df(p) {
					if r.OnDir {
						out = append(out, "D:"+p)
					}
					rec(p+"/", n.Ch)
				}
			} else if r.OnFile && (!r.HasFF || r.ff(p)) {
				out = append(out, "F:"+p)
			}
		}
	}
	rec(r.base(), r.startEntries())
	return out
}

// all paths on which the filters answer true (the model's filters are these lists)
func (r *c08Run) accLists() (facc, dacc []string) {
	var rec func(base string, l []*c08Node)
	rec = func(base string, l []*c08Node) {
		for _, n := range l {
			p := base + n.Name
			if n.Dir {
				if r.df(p) {
					dacc = append(dacc, p)
				}
				rec(p+"/", n.Ch)
			} else if r.ff(p) {
				facc = append(facc, p)
			}
		}
	}
	rec(r.base(), r.startEntries())
	return
}

type c08Obs struct {
	Items     []string // callback arguments in begin order ("D:"/"F:" prefix)
	MaxConc   int32
	Late      int32 // callbacks begun or still running after Wait() returned
	NErrors   int
	Hang      bool
	Panic     string
	ErrHit    bool // the injected error was actually returned to the loop
	InjSeen   bool // the injected error itself is in Errors() right after Wait()
	KillHit   bool // the scope event was triggered (by the callback on KillOn)
	ExtHit    bool // the point of the external event was reached (the event was or is being delivered)
	Yields    int32
	Gaps      int32
	ClosedEvt int32
}

func c08Items(l []string) string {
	items := make([]string, len(l))
	for i, s := range l {
		if strings.HasPrefix(s, "D:") {
			items[i] = "IDir " + coqStr(s[2:])
		} else {
			items[i] = "IFile " + coqStr(s[2:])
		}
	}
	return coqList(items)
}

func c08EffC(c int) int {
	if c == 0 || c > workers.MaxJob {
		return workers.MaxJob
	}
	return c
}

func (r *c08Run) exec() (obs c08Obs) {
	prev := runtime.GOMAXPROCS(r.GMP)
	defer runtime.GOMAXPROCS(prev)
	var (
		mu         sync.Mutex
		cur, max   int32
		waited     int32
		late       int32
		ctr        uint64
		closedCh   = make(chan struct{})
		closedOnce sync.Once
		cbErrHit   int32
		killHit    int32
		sc         = &c08Scope{}
		extCnt     int32
		extCh      = make(chan struct{}) // closed when the point of the external event is reached
		extDone    = make(chan struct{}) // closed when the event has been delivered
		extQuit    = make(chan struct{})
		extOnce    sync.Once
	)
	// the scope the loop is attached to, and how the outside world ends it
	var es app.EventScope
	deliver := func() {}
	if r.Scope {
		es = sc
		foreign := errors.New("error of another component attached to the scope")
		deliver = func() {
			if r.ExtEvt == 1 {
				sc.Trigger(app.ErrorEvent, []error{foreign})
			} else {
				sc.Trigger(app.KillEvent, nil)
			}
		}
		if r.ExtAt != "" && r.ExtVia > 0 {
			ascp := scope.New(scope.Params{})
			target := ascp
			if r.ExtVia == 2 {
				target = scope.NewChild(ascp, scope.ChildParams{})
			}
			es = ascp
			deliver = func() {
				if r.ExtEvt == 1 {
					target.AppendError(foreign)
				} else {
					target.Kill()
				}
			}
		}
	}
	if r.ExtAt != "" {
		go func() { // the outside world: not a goroutine of the walk
			select {
			case <-extCh:
				deliver()
				close(extDone)
			case <-extQuit:
			}
		}()
		defer close(extQuit)
	}
	ext := func(point string) {
		if r.ExtAt != point {
			return
		}
		if r.ExtN > 0 && atomic.AddInt32(&extCnt, 1) != int32(r.ExtN) {
			return
		}
		extOnce.Do(func() { close(extCh) })
		if r.ExtSync {
			select {
			case <-extDone:
			case <-time.After(5 * time.Second):
			}
		}
	}
	delay := func(point string) {
		if r.DelayMode == 0 {
			return
		}
		if r.DelayMode == 3 { // forced wide runs: every callback takes a while, so that whoever runs a
			// callback besides the consumers (a producer that found its queue full) overlaps with them
			if point == "callback" {
				time.Sleep(150 * time.Microsecond)
			}
			return
		}
		n := atomic.AddUint64(&ctr, 1)
		h := c08Hash(point, r.Seed^(n*0x9E3779B97F4A7C15))
		switch v := h % 100; {
		case v < 55:
		case v < 85:
			runtime.Gosched()
		case v < 97:
			time.Sleep(time.Duration(1+h%40) * time.Microsecond)
		default:
			time.Sleep(200 * time.Microsecond)
		}
	}
	verifhook.SetCallback(func(point string) {
		switch point {
		case "fsloop.consumer.poll":
			atomic.AddInt32(&obs.Yields, 1)
			ext("poll")
		case "fsloop.consumer.gap":
			atomic.AddInt32(&obs.Gaps, 1)
			ext("gap")
			if r.DelayMode == 2 {
				n := atomic.AddUint64(&ctr, 1)
				if c08Hash("hold", r.Seed^n)%3 == 0 {
					select {
					case <-closedCh:
					case <-time.After(500 * time.Microsecond):
					}
				}
			}
		case "fsloop.closed":
			atomic.AddInt32(&obs.ClosedEvt, 1)
			closedOnce.Do(func() { close(closedCh) })
			ext("closed")
		}
		delay(point)
	})
	defer verifhook.SetCallback(nil)
	inner, _ := memfs.NewFilespace()
	tfs := &c08TreeFS{c08Inner: inner, root: r.Root, errPath: r.RdErr, delay: func(point string) { ext(point); delay(point) }}
	cb := func(prefix string) filesystem.LoopOn {
		return func(fs filesystem.Filespace, p string) error {
			n := atomic.AddInt32(&cur, 1)
			for {
				m := atomic.LoadInt32(&max)
				if n <= m || atomic.CompareAndSwapInt32(&max, m, n) {
					break
				}
			}
			if atomic.LoadInt32(&waited) == 1 {
				atomic.AddInt32(&late, 1)
			}
			mu.Lock()
			obs.Items = append(obs.Items, prefix+p)
			mu.Unlock()
			ext("callback")
			if r.KillOn != "" && r.KillOn == prefix+p {
				atomic.AddInt32(&killHit, 1)
				if r.KillEvt == 1 {
					sc.Trigger(app.ErrorEvent, errors.New("scope error event"))
				} else {
					sc.Trigger(app.KillEvent, nil)
				}
				// this callback is still running: Wait() must not return during this pause
				time.Sleep(150 * time.Microsecond)
			}
			delay("callback")
			runtime.Gosched()
			var err error
			if r.CbErr != "" && r.CbErr == prefix+p {
				atomic.AddInt32(&cbErrHit, 1)
				err = errors.New("injected callback error")
			}
			if atomic.LoadInt32(&waited) == 1 {
				atomic.AddInt32(&late, 1)
			}
			atomic.AddInt32(&cur, -1)
			return err
		}
	}
	ld := &fsloop.LoopData{Filespace: tfs, Consumers: r.C, Producents: r.P}
	if r.OnDir {
		ld.OnDir = cb("D:")
	}
	if r.OnFile {
		ld.OnFile = cb("F:")
	}
	if r.HasDF {
		ld.DirFilter = func(fs filesystem.Filespace, p string) bool { return r.df(p) }
	}
	if r.HasFF {
		ld.FileFilter = func(fs filesystem.Filespace, p string) bool { return r.ff(p) }
	}
	type res struct {
		nerr  int
		inj   bool
		panic string
	}
	done := make(chan res, 1)
	go func() {
		var rr res
		defer func() {
			if x := recover(); x != nil {
				rr.panic = fmt.Sprint(x)
			}
			done <- rr
		}()
		loop := fsloop.NewLoop(ld, es)
		ext("prerun")
		loop.Run(r.Start)
		ext("run")
		loop.Wait()
		if atomic.LoadInt32(&cur) != 0 {
			atomic.AddInt32(&late, 1)
		}
		atomic.StoreInt32(&waited, 1)
		errs := loop.Errors() // read immediately after Wait(), as a caller does
		rr.nerr = len(errs)
		for _, e := range errs {
			if e != nil && strings.Contains(e.Error(), "injected") {
				rr.inj = true
			}
		}
	}()
	select {
	case rr := <-done:
		obs.NErrors, obs.Panic, obs.InjSeen = rr.nerr, rr.panic, rr.inj
	case <-time.After(30 * time.Second):
		obs.Hang = true
		return
	}
	// let this run's completion goroutine pass its hook point before the next run installs its
	// callback (after a kill it may never get there: bounded wait)
	select {
	case <-closedCh:
	case <-time.After(20 * time.Millisecond):
	}
	// give stray consumers (there must be none) a chance to show up
	for i := 0; i < 3; i++ {
		runtime.Gosched()
	}
	time.Sleep(50 * time.Microsecond)
	mu.Lock()
	obs.Items = append([]string(nil), obs.Items...)
	mu.Unlock()
	obs.MaxConc = atomic.LoadInt32(&max)
	obs.Late = atomic.LoadInt32(&late)
	obs.ErrHit = atomic.LoadInt32(&cbErrHit) > 0 || atomic.LoadInt32(&tfs.errHit) > 0
	obs.KillHit = atomic.LoadInt32(&killHit) > 0
	select {
	case <-extCh:
		obs.ExtHit = true
	default:
	}
	return
}

func c08SameMultiset(a, b []string) bool {
	if len(a) != len(b) {
		return false
	}
	x := append([]string(nil), a...)
	y := append([]string(nil), b...)
	sort.Strings(x)
	sort.Strings(y)
	for i := range x {
		if x[i] != y[i] {
			return false
		}
	}
	return true
}

func c08SubMultiset(a, b []string) bool { // a within b
	m := map[string]int{}
	for _, s := range b {
		m[s]++
	}
	for _, s := range a {
		if m[s] == 0 {
			return false
		}
		m[s]--
	}
	return true
}

func c08Diff(exp, got []string) string {
	m := map[string]int{}
	for _, s := range exp {
		m[s]++
	}
	for _, s := range got {
		m[s]--
	}
	var miss, extra []string
	for k, v := range m {
		if v > 0 {
			miss = append(miss, k)
		} else if v < 0 {
			extra = append(extra, k)
		}
	}
	sort.Strings(miss)
	sort.Strings(extra)
	if len(miss) > 5 {
		miss = append(miss[:5], fmt.Sprintf("...(%d)", len(miss)))
	}
	if len(extra) > 5 {
		extra = append(extra[:5], fmt.Sprintf("...(%d)", len(extra)))
	}
	return fmt.Sprintf("never visited %v; visited too often or not selected %v", miss, extra)
}

func (r *c08Run) desc(obs *c08Obs) map[string]interface{} {
	items := obs.Items
	if len(items) > 40 {
		items = append(append([]string(nil), items[:40]...), fmt.Sprintf("...(%d)", len(obs.Items)))
	}
	root := interface{}(c08Desc(r.Root))
	if c08Count(r.Root) > 80 {
		root = fmt.Sprintf("%s tree with %d nodes (regenerated from seed)", r.Kind, c08Count(r.Root))
	}
	return map[string]interface{}{"index": r.Index, "op": "run", "kind": r.Kind, "tree": root, "consumers": r.C, "producents": r.P,
		"dirfilter": r.HasDF, "filefilter": r.HasFF, "ondir": r.OnDir, "onfile": r.OnFile, "salt": r.Salt,
		"cb_error_on": r.CbErr, "readdir_error_on": r.RdErr,
		"start": r.Start, "scope": r.Scope, "scope_event_on": r.KillOn, "scope_event": map[int]string{0: "kill", 1: "error"}[r.KillEvt],
		"outside_event_at": r.ExtAt, "outside_event_n": r.ExtN, "outside_event": map[int]string{0: "kill", 1: "error"}[r.ExtEvt], "outside_event_via": map[int]string{0: "harness event scope", 1: "application scope", 2: "child of the application scope"}[r.ExtVia], "outside_event_sync": r.ExtSync, "outside_event_reached": obs.ExtHit,
		"gomaxprocs": r.GMP, "delay_mode": r.DelayMode, "run_seed": r.Seed,
		"observed": items, "max_concurrent": obs.MaxConc, "errors": obs.NErrors, "hang": obs.Hang, "panic": obs.Panic}
}

func (r *c08Run) check(o *Out, emit bool) {
	obs := r.exec()
	exp := r.expected()
	d := r.desc(&obs)
	key := fmt.Sprintf("%s|%d|%d|%v%v%v%v|%d|%s|%s|%d|%d", r.Kind, r.C, r.P, r.HasDF, r.HasFF, r.OnDir, r.OnFile, r.Salt%97, r.CbErr, r.RdErr, len(exp), c08Count(r.Root))
	if r.ExtAt != "" {
		key += fmt.Sprintf("|%s%d.%d.%d", r.ExtAt, r.ExtN, r.ExtEvt, r.ExtVia)
	}
	nontrivial := len(exp) > 0
	o.Stat("kind_" + r.Kind)
	o.Stat(fmt.Sprintf("gomaxprocs_%d", r.GMP))
	o.Stat(fmt.Sprintf("delaymode_%d", r.DelayMode))
	if r.C <= 2 {
		o.Stat("consumers_1_2")
	} else {
		o.Stat("consumers_3_plus")
	}
	if obs.MaxConc >= 2 {
		o.Stat("runs_with_overlapping_callbacks")
	}
	if obs.Hang {
		o.Stat("obs_hang")
		o.Fail("no-hang", "Wait() did not return within 30 s", "C08-hang", d)
		o.CountEval(key, nontrivial)
		return
	}
	if obs.Panic != "" {
		o.Stat("obs_panic")
		o.Fail("no-panic", "the loop panicked: "+obs.Panic, "C08-panic", d)
		o.CountEval(key, nontrivial)
		return
	}
	injected := r.CbErr != "" || r.RdErr != ""
	if obs.Late != 0 {
		o.Fail("wait-after-last-callback", fmt.Sprintf("%d callback(s) were running or started after Wait() returned", obs.Late), "C08-late", d)
	}
	if int(obs.MaxConc) > c08EffC(r.C) {
		o.Fail("bounded-concurrency", fmt.Sprintf("%d callbacks ran at once, consumer limit %d", obs.MaxConc, c08EffC(r.C)), "C08-bound", d)
	}
	if obs.ClosedEvt != 1 {
		// not an oracle: the hook is process-global, so the completion goroutine of the previous
		// run may announce its close while this run's callback is installed
		o.Stat("runs_with_stray_or_missing_close_event")
	}
	if r.Start != "" {
		o.Stat("runs_with_start_path")
	}
	if r.Scope {
		o.Stat("runs_with_scope")
	}
	if r.ExtAt != "" {
		o.Stat("runs_with_outside_event_at_" + r.ExtAt)
	}
	// L1: one case per run; the relation is chosen INSIDE Coq by what the caller was told (the length
	// of Errors() read right after Wait(), and whether a failure was returned to the loop)
	emitCase := func() {
		if !emit {
			o.CountEval(key, nontrivial)
			return
		}
		nrep := obs.NErrors
		if nrep > 9 {
			nrep = 9
		}
		facc, dacc := r.accLists()
		o.AddCase(fmt.Sprintf("CRep %s %s %s %s %s %s %s %s %d%%nat %s %s", coqStr(r.base()), c08CoqTrees(r.startEntries()), coqBool(r.HasDF), coqBool(r.HasFF),
			coqBool(r.OnDir), coqBool(r.OnFile), coqStrList(facc), coqStrList(dacc), nrep, coqBool(injected && obs.ErrHit), c08Items(obs.Items)), d, key, nontrivial)
	}
	complete := c08SameMultiset(exp, obs.Items)
	if (!injected || !obs.ErrHit) && !obs.KillHit && !obs.ExtHit {
		o.Stat("obs_ok")
		if obs.NErrors != 0 {
			o.Fail("no-spurious-error", fmt.Sprintf("Errors() has %d entries although nothing failed", obs.NErrors), "C08-spurious", d)
		} else if !complete {
			o.Fail("exactly-once", fmt.Sprintf("callbacks differ from the selected set (%d expected, %d made) and Errors() is empty: %s",
				len(exp), len(obs.Items), c08Diff(exp, obs.Items)), "C08-exactly-once", d)
		}
		emitCase()
		return
	}
	if obs.KillHit {
		o.Stat("obs_scope_event")
	}
	if obs.ExtHit {
		o.Stat("obs_outside_event")
		if !complete {
			o.Stat("obs_outside_event_walk_incomplete")
		}
	}
	if injected && obs.ErrHit {
		o.Stat("obs_err")
		if obs.KillHit {
			o.Stat("obs_err_and_scope_event")
		}
		if obs.NErrors == 0 {
			o.Fail("error-reported", "a callback/listing error was returned to the loop but Errors() is empty", "C08-error-lost", d)
		} else if !obs.InjSeen {
			o.Fail("error-reported", "a callback/listing error was returned to the loop but it is not in Errors() when Wait() returns (only the cancellation is)", "C08-error-lost", d)
		}
	} else if obs.NErrors == 0 && !complete {
		// the no-error clause read from the caller's side, whatever ended the walk (a Kill or Error
		// event of the scope, from a callback or from outside, at any point): an empty error list after
		// Wait() says "every selected node was visited once"
		why := "a scope event raised from a callback"
		if obs.ExtHit {
			why = fmt.Sprintf("an event from outside the walk (%s, at %s #%d)", map[int]string{0: "Kill", 1: "error appended to the scope"}[r.ExtEvt], r.ExtAt, r.ExtN)
		}
		o.Fail("exactly-once", fmt.Sprintf("the walk was ended by %s: Wait() returned, Errors() is empty, but the callbacks differ from the selected set (%d expected, %d made): %s",
			why, len(exp), len(obs.Items), c08Diff(exp, obs.Items)), "C08-stopped-unreported", d)
	}
	if !c08SubMultiset(obs.Items, exp) {
		o.Fail("at-most-once", "callbacks are not a sub-multiset of the selected set: "+c08Diff(exp, obs.Items), "C08-at-most-once", d)
	}
	emitCase()
}

func c08GenRun(rng *RNG, tier string, i int) *c08Run {
	r := &c08Run{Seed: rng.Next(), Salt: rng.Next()}
	k := rng.Intn(100)
	if i%100 == 7 {
		k = 22 // at least one tree wider than the channel capacity per 100 runs
	}
	if i%100 == 13 {
		k = 24 // at least one tree with every odd name per 100 runs
	}
	switch {
	case k < 4:
		r.Kind, r.Root = "empty", nil
	case k < 14:
		r.Kind, r.Root = "deep12", c08GenDeep(rng, 12)
	case k < 22:
		r.Kind, r.Root = "wide60", c08GenWide(rng, 40+rng.Intn(40), rng.Intn(8))
	case k < 24 && (tier == "thorough" || i%100 == 7):
		// producers block on the full channel (capacity 1000); which of the two queues overflows is
		// not left to chance: the three forced runs of a quick check are files only / directories
		// only / both, with few slow consumers so that the queue really fills up
		switch (i / 100) % 3 {
		case 0:
			r.Kind, r.Root = "wide1500", c08GenWide(rng, 1500, rng.Intn(3)*600)
		case 1:
			r.Kind, r.Root = "wide1500", c08GenWide(rng, 30, 1300)
		default:
			r.Kind, r.Root = "wide1500", c08GenWide(rng, 1500, 1200)
		}
	case k < 27:
		r.Kind, r.Root = "odd", c08GenOdd(rng)
	default:
		r.Kind, r.Root = "small", c08GenSmall(rng, 3, 5)
	}
	r.C = 1 + rng.Intn(16)
	if rng.Chance(35) {
		r.C = 1 + rng.Intn(2)
	}
	if rng.Chance(3) {
		r.C = 0
	}
	r.P = 1 + rng.Intn(16)
	if rng.Chance(30) {
		r.P = 1
	}
	r.HasDF = rng.Chance(60)
	r.HasFF = rng.Chance(60)
	r.OnDir = rng.Chance(85)
	r.OnFile = rng.Chance(90)
	r.GMP = []int{1, 2, 4, 16}[rng.Intn(4)]
	r.DelayMode = rng.Intn(3)
	if r.Kind == "wide1500" && i%100 == 7 {
		// the forced wide runs: the overflowing queue is consumed by one or two slow consumers and
		// nothing is filtered away, so that more than ChanSize paths are pending
		r.C, r.DelayMode = 1+rng.Intn(2), 3
		switch (i / 100) % 3 {
		case 0:
			r.OnFile, r.HasFF = true, false
		case 1:
			r.OnDir, r.HasDF = true, false
		default:
			r.OnFile, r.OnDir, r.HasFF, r.HasDF = true, true, false, false
		}
		r.Scope = rng.Bool()
		return r // the whole tree, no error, no scope event
	}
	// where the walk starts: mostly Run(""), sometimes "./" spelled out or a directory of the tree
	// (accepted by the filters or not: they are not asked about the start), with and without "./"
	if dirs := c08AllDirs("", r.Root); rng.Chance(30) {
		switch {
		case len(dirs) == 0 || rng.Chance(20):
			r.Start = "./"
		case rng.Bool():
			r.Start = dirs[rng.Intn(len(dirs))]
		default:
			r.Start = "./" + dirs[rng.Intn(len(dirs))]
		}
	}
	r.Scope = rng.Chance(35)
	if exp := r.expected(); r.Scope && len(exp) > 0 && rng.Chance(45) {
		// a scope Kill/Error event arrives while a callback runs; half of the time that callback
		// then fails: its error was returned to the loop and has to be listed like any other
		r.KillOn = exp[rng.Intn(len(exp))]
		r.KillEvt = rng.Intn(2)
		if rng.Bool() {
			r.CbErr = r.KillOn
		}
		return r
	}
	if r.Scope && rng.Chance(50) {
		// the scope is ended from OUTSIDE while the walk is somewhere: nothing fails inside the walk
		c08GenExt(rng, r)
		return r
	}
	if rng.Chance(20) {
		exp := r.expected()
		if rng.Bool() && len(exp) > 0 {
			r.CbErr = exp[rng.Intn(len(exp))]
		} else {
			// a directory that will be listed: the root or an accepted directory
			var dirs []string
			sv := r.OnDir
			r.OnDir = true
			for _, e := range r.expected() {
				if strings.HasPrefix(e, "D:") {
					dirs = append(dirs, c08Norm(e[2:]))
				}
			}
			r.OnDir = sv
			if len(dirs) == 0 || rng.Chance(25) {
				r.RdErr = r.startDir()
			} else {
				r.RdErr = dirs[rng.Intn(len(dirs))]
			}
		}
	}
	return r
}

// c08GenExt: when, how and through which scope the outside world ends the walk of r.  The points
// are counted per run (the n-th listing / callback / poll / gap), n up to a little beyond what the
// walk has, so that "just before the end" and "never reached" occur too.
func c08GenExt(rng *RNG, r *c08Run) {
	r.Scope = true
	nsel := len(r.expected())
	sv := r.OnDir
	r.OnDir = true
	nlist := 1
	for _, e := range r.expected() {
		if strings.HasPrefix(e, "D:") {
			nlist++
		}
	}
	r.OnDir = sv
	r.ExtSync = rng.Chance(70)
	switch k := rng.Intn(100); {
	case k < 6:
		r.ExtAt, r.ExtSync = "prerun", true
	case k < 16:
		r.ExtAt = "run"
	case k < 40:
		r.ExtAt, r.ExtN = "readdir", 1+rng.Intn(nlist)
	case k < 70:
		r.ExtAt, r.ExtN = "callback", 1+rng.Intn(nsel+1)
	case k < 80:
		r.ExtAt, r.ExtN = "poll", 1+rng.Intn(2*nsel+3)
	case k < 92:
		r.ExtAt, r.ExtN = "gap", 1+rng.Intn(2*nsel+3)
	default:
		r.ExtAt = "closed"
	}
	r.ExtEvt = rng.Intn(2)
	r.ExtVia = rng.Intn(3)
}

// ---------- forced schedule (F16)

type c08Gated struct {
	c08Inner
	gate chan struct{}
}

// The listing waits until the consumer stands in the gap - for a while: an implementation whose
// walk lists before any consumer runs (or does not go through fsloop at all) never gets there, the
// schedule then cannot be forced (counted as "not reached") and the listing simply goes on.
func (fs *c08Gated) ReadDir(p string) ([]os.FileInfo, error) {
	select {
	case <-fs.gate:
	case <-time.After(3 * time.Second):
	}
	return fs.c08Inner.ReadDir(p)
}

// installs the hook that holds the first consumer at the gap until close has been announced
func c08ForceF16() (gate chan struct{}, ok *int32) {
	var once, closed1 sync.Once
	gate = make(chan struct{})
	closed := make(chan struct{})
	ok = new(int32)
	verifhook.SetCallback(func(point string) {
		switch point {
		case "fsloop.consumer.gap":
			once.Do(func() {
				close(gate)
				select {
				case <-closed:
					atomic.StoreInt32(ok, 1)
				case <-time.After(10 * time.Second):
				}
			})
		case "fsloop.closed":
			closed1.Do(func() { close(closed) })
		}
	})
	return
}

// the model schedule corresponding to the forced interleaving on the current code
// (consumer: kill test, step read [held in the gap]; producer: ReadDir, send, kill test, loop end,
// Done; completion: Wait returns, NextStep; consumer runs on until it exits)
const c08SchedNow = "[TC 0%nat; TC 0%nat; TP 0%nat; TP 0%nat; TP 0%nat; TP 0%nat; TP 0%nat; TK; TK; " +
	"TC 0%nat; TC 0%nat; TC 0%nat; TC 0%nat; TC 0%nat; TC 0%nat; TC 0%nat; TC 0%nat; TC 0%nat; TC 0%nat; TC 0%nat; TC 0%nat; TC 0%nat; TC 0%nat; TK; TK; TW]"

func c08Forced(o *Out, rep int) {
	for i := 0; i < rep; i++ {
		// (a) the loop itself
		mem, _ := memfs.NewFilespace()
		must(mem.WriteFile("only.txt", []byte("x"), 0644))
		gate, ok := c08ForceF16()
		var mu sync.Mutex
		var items []string
		loop := fsloop.NewLoop(&fsloop.LoopData{
			Filespace: &c08Gated{c08Inner: mem, gate: gate},
			OnFile: func(fs filesystem.Filespace, p string) error {
				mu.Lock()
				items = append(items, "F:"+p)
				mu.Unlock()
				return nil
			},
			Consumers: 1, Producents: 1,
		}, nil)
		done := make(chan int, 1)
		go func() { loop.Run(""); loop.Wait(); done <- len(loop.Errors()) }()
		nerr, hang := 0, false
		select {
		case nerr = <-done:
		case <-time.After(30 * time.Second):
			hang = true
		}
		verifhook.SetCallback(nil)
		mu.Lock()
		got := append([]string(nil), items...)
		mu.Unlock()
		d := map[string]interface{}{"op": "forced-schedule", "target": "fsloop.Loop", "tree": []string{"only.txt"}, "consumers": 1, "producents": 1,
			"schedule":        "consumer held at fsloop.consumer.gap; gated producer released, lists, enqueues, finishes; fsloop.closed announced; consumer released",
			"schedule_forced": atomic.LoadInt32(ok) == 1, "observed": got, "errors": nerr, "hang": hang}
		o.Stat("forced_loop")
		if atomic.LoadInt32(ok) != 1 {
			o.Stat("forced_schedule_not_reached")
		}
		if hang {
			o.Fail("no-hang", "forced schedule: Wait() did not return", "C08-hang", d)
		} else if nerr == 0 && !c08SameMultiset(got, []string{"F:./only.txt"}) {
			o.Fail("exactly-once", fmt.Sprintf("forced F16 schedule: Wait() returned with Errors() empty but the callbacks made are %v, expected [F:./only.txt] (item lost in the queue)", got),
				"C08-F16-lost-item", d)
		}
		o.AddCase(fmt.Sprintf("CSched true [File %s] 1%%nat 1%%nat %s %s %s", coqStr("only.txt"), c08SchedNow, coqBool(!hang), c08Items(got)), d, "forced-loop", true)

		// (b) through fshelper.Copy
		src, _ := memfs.NewFilespace()
		dst, _ := memfs.NewFilespace()
		must(src.WriteFile("only.txt", []byte("payload"), 0644))
		gate, ok = c08ForceF16()
		res := make(chan error, 1)
		go func() { res <- fshelper.Copy(&c08Gated{c08Inner: src, gate: gate}, dst, nil) }()
		var cerr error
		hang = false
		select {
		case cerr = <-res:
		case <-time.After(30 * time.Second):
			hang = true
		}
		verifhook.SetCallback(nil)
		data, rerr := dst.ReadFile("only.txt")
		d2 := map[string]interface{}{"op": "forced-schedule", "target": "fshelper.Copy", "tree": []string{"only.txt"},
			"schedule_forced": atomic.LoadInt32(ok) == 1, "copy_error": fmt.Sprint(cerr), "dest_has_file": rerr == nil, "hang": hang}
		o.Stat("forced_copy")
		if hang {
			o.Fail("no-hang", "forced schedule: Copy did not return", "C08-hang", d2)
		} else if cerr == nil && (rerr != nil || string(data) != "payload") {
			o.Fail("exactly-once", "forced F16 schedule: fshelper.Copy returned nil but only.txt was not copied", "C08-F16-copy-lost-file", d2)
		}
		var copied []string
		if rerr == nil {
			copied = []string{"F:./only.txt"}
		}
		o.AddCase(fmt.Sprintf("CSched true [File %s] 1%%nat 1%%nat %s %s %s", coqStr("only.txt"), c08SchedNow, coqBool(!hang), c08Items(copied)), d2, "forced-copy", true)
	}
}

func runC08(o *Out, rng *RNG, tier string, replay string) {
	o.Imports = "From GC Require Import Common.Base Model.Loop Corr.C08."
	o.CaseType = "case"
	o.CheckFn = "check"
	o.ShardSize = 100
	n, rep := 300, 3
	if tier == "thorough" {
		n, rep = 10000, 30
	}
	o.Rule = fmt.Sprintf("(i) the F16 interleaving forced %d times on fsloop.Loop and on fshelper.Copy through a gated ReadDir and the verif hook points "+
		"(consumer held at fsloop.consumer.gap until fsloop.closed), compared with the model run on the corresponding schedule; "+
		"(ii) %d random runs of the real loop: trees (empty, deep 12, wide 40-80, wide 1500 > ChanSize, small random), name-hash filters or nil, OnDir/OnFile nil or not, "+
		"Consumers 0..16, Producents 1..16, GOMAXPROCS in {1,2,4,16}, seeded yields/sleeps at the three hook points, in ReadDir and in the callbacks, "+
		"a third of the runs additionally holding consumers in the gap until close is announced, 20%% with an injected callback or listing error; "+
		"oracles: callback multiset = independently computed selected set (sub-multiset when an error was injected), max concurrent callbacks <= Consumers, "+
		"no callback running or starting after Wait(), injected error => Errors() non-empty, no error => Errors() empty, watchdog 30 s; "+
		"every run is also a Coq case: observed callback list vs Model.Loop.sel_list on (tree, filter tables); "+
		"(iii) dimensions added by the coverage audit: names with leading dots / blanks / look-alikes / non-UTF-8 / 200 bytes (a tree with all of them once per 100 runs), "+
		"the walk started at \"\", \"./\" or any directory (x/y/ and ./x/y/), an event scope in a third of the runs with a Kill/Error event raised from inside a callback "+
		"(which fails itself half of the time: that error must be listed; Wait() must cover the running callback), the file queue / the directory queue / both overflowing with 1-2 slow consumers; "+
		"(iv) error-position sweep: on one tree the error on every callback and every listing x Producents 1/2/16 x Consumers 1/3, then a scope event from every callback; "+
		"(v) error storm: 4000 mixed + 40000 producer-listing walks with 1-2 consumers at GOMAXPROCS >= 2 (the injected error must be in Errors() the moment Wait() returns); "+
		"(vi) the walk ended from OUTSIDE with nothing failing inside it: a loop attached to a scope (the harness event scope, an application scope, or an application scope whose CHILD is hit) "+
		"gets a Kill or an error appended to the scope from another goroutine before Run, right after Run, when the n-th listing / callback / consumer poll / consumer gap begins or when the close is announced "+
		"(about an eighth of the random runs; in the sweep every callback, every listing, polls/gaps 1,2,4,9 x Producents 1/16 x Consumers 1/3, and a scope event from inside every callback that does not fail); "+
		"oracle on EVERY run, whatever was done to it: Errors() empty after Wait() => callbacks = selected set; the Coq case of every run (CRep) carries len(Errors()) and 'a failure was returned' and Model.LoopRep.rep_ok decides; "+
		"(vii) the callers fshelper.Copy and fsi18loader.Load on generated trees with a directory filter / base path / scope and one failing listing, read, write or mkdir: nil => exactly the selected files (keys) arrived, a failure that happened => an error is returned; Load with its application scope (or a child of it) killed / failed by another goroutine at the n-th listing or read: nil => every selected key arrived", rep, n)
	only := replayIndex(replay)
	if only < 0 {
		c08Forced(o, rep)
	}
	stormRng := rng.Fork()
	sweepRng, entryRng := rng.Fork(), rng.Fork()
	if only < 0 {
		c08ErrorStorm(o, stormRng, tier)
		c08Sweep(o, sweepRng)
		ne := 80
		if tier == "thorough" {
			ne = 2000
		}
		c08CopyProbe(o, entryRng, ne)
		c08LoadProbe(o, entryRng, ne)
	}
	wideEmitted := 0
	for i := 0; i < n; i++ {
		rr := rng.Fork()
		if only >= 0 && i != only {
			continue
		}
		r := c08GenRun(rr, tier, i)
		r.Index = i
		emit := true
		if r.Kind == "wide1500" {
			wideEmitted++
			emit = wideEmitted <= 3
		}
		if tier == "thorough" && i >= 1500 && i%10 != 0 {
			emit = false // L2 on every run; the in-Coq comparison on a sample
		}
		r.check(o, emit)
	}
	o.Extra["num_cpu"] = runtime.NumCPU()
	o.Extra["chan_size"] = fsloop.ChanSize
}
