package main

// C11 — a signalling operation issued WHILE a registration is in progress.
//
// The property quantifies over Kill / Stop / AppendError "issued from any goroutine in any order",
// which includes the moment in which another goroutine is half-way through NewChild or AddTasks on a
// scope of the same context.  What has to hold there: the registration is atomic with respect to the
// end of the context - either the parent counted the child (task) AND the child signs off (the caller
// was told "accepted"), or neither.  If the two sides disagree, a later Close steals the registration
// of a sibling (the parent stops waiting early and a counter goes negative) or the parent waits for
// ever.
//
// The window is a few instructions wide, so it is forced: in a hooked world every context is wrapped
// in a hookCtx that counts the looks (IsDone / Done / Err / Errors) which the CALLING goroutine takes at
// the parent's context during the call; the signalling operation is run by the wrapper at the chosen
// hook point (just before or right after the k-th look), i.e. exactly as if another goroutine had been
// scheduled there and had run it to its end.  No hook in the library is needed, and nothing depends on
// how many looks the implementation takes: hook points that the call does not reach mean "right after
// the call".
//
// Such an operation is a pair in the history (sop.End): one observation for the two.  L1: the model
// runs a registration as ONE step, so the observations must be those of one of the two orders of every
// pair (Corr.C11.CRace11).  L2 (independent of the model): the harness's own bookkeeping leaves the
// registration of such a child open (world.regMaybe) and demands, as before, that no Close returns
// while an accepted task or a certainly registered child is outstanding, that every Close returns once
// nothing can be outstanding any more, and that no first Close / accepted DoneTask panics.
//
//   hookCtx, world.during     the forcing
//   pickEnd                   the signalling operations (on the context, or through a scope sharing it)
//   c11MidCallSweep           scripted histories: every hook point x how the context ends x what else
//                             is registered on the parent (nothing / a task / a sibling child) x kind of
//                             parent and child, for NewChild and for AddTasks
// The random sequential histories draw the same pairs (genCfg.race).

import (
	"fmt"
	"runtime"
	"strings"

	"github.com/goatcms/goatcore/app"
)

type hookArm struct {
	ctx   int    // number of the context whose looks are hook points
	gid   uint64 // ... when taken by this goroutine
	at, n int
	fired bool
	fire  func()
}

type hookCtx struct {
	app.ContextScope
	w  *world
	id int
}

func curGID() uint64 {
	var b [64]byte
	n := runtime.Stack(b[:], false)
	var id uint64
	fmt.Sscanf(strings.TrimPrefix(string(b[:n]), "goroutine "), "%d", &id)
	return id
}

// point is a hook point: other goroutines (watchers of isolated contexts, closers) pass through.
func (c *hookCtx) point() {
	a, _ := c.w.arm.Load().(*hookArm)
	if a == nil || a.ctx != c.id || a.gid != curGID() || a.fired {
		return
	}
	a.n++
	if a.n == a.at {
		a.fired = true
		a.fire()
	}
}

func (c *hookCtx) IsDone() bool {
	c.point()
	r := c.ContextScope.IsDone()
	c.point()
	return r
}
func (c *hookCtx) Done() <-chan struct{} {
	c.point()
	r := c.ContextScope.Done()
	c.point()
	return r
}
func (c *hookCtx) Err() error {
	c.point()
	r := c.ContextScope.Err()
	c.point()
	return r
}
func (c *hookCtx) Errors() []error {
	c.point()
	r := c.ContextScope.Errors()
	c.point()
	return r
}

// wrapCtx wraps the context that is about to get the next context number.
func (w *world) wrapCtx(c app.ContextScope) app.ContextScope {
	return &hookCtx{ContextScope: c, w: w, id: len(w.ctxs)}
}

// during runs call with p.End waiting for its hook point.  mid: End ran inside the call.
func (w *world) during(p sop, call func()) (mid bool, endOut []string) {
	if p.End == nil || !w.hooked {
		call()
		return false, nil
	}
	a := &hookArm{ctx: w.scopeCtx[p.S], gid: curGID(), at: p.At}
	a.fire = func() { endOut = w.apply(*p.End) }
	w.arm.Store(a)
	func() {
		defer w.arm.Store((*hookArm)(nil))
		call()
	}()
	inside := a.fired
	if !a.fired {
		a.fired = true
		a.fire()
	}
	w.lastFired = inside
	return inside, endOut
}

// pickEnd draws a signalling operation that ends the context of scope s: on the context itself or
// through a scope that shares it (s, an ancestor, a descendant: "a child that shares the parent's
// context fails the parent too").  nil when that context is done already.
func pickEnd(rng *RNG, w *world, s int) *sop {
	c := w.scopeCtx[s]
	if w.ctxs[c].IsDone() {
		return nil
	}
	var rel []int
	for t := range w.scopes {
		if w.scopeCtx[t] == c && !w.returned(t) {
			rel = append(rel, t)
		}
	}
	e := 1 + rng.Intn(50)
	if len(rel) > 0 && rng.Chance(50) {
		t := rel[rng.Intn(len(rel))]
		switch rng.Intn(3) {
		case 0:
			return &sop{K: "kill", S: t}
		case 1:
			return &sop{K: "stop", S: t}
		}
		return &sop{K: "apperr", S: t, Es: []int{e}}
	}
	switch rng.Intn(3) {
	case 0:
		return &sop{K: "ckill", S: c}
	case 1:
		return &sop{K: "cstop", S: c}
	}
	return &sop{K: "capp", S: c, Es: []int{e}}
}

func (r seqResult) hasRace() bool {
	for _, p := range r.Hist {
		if p.End != nil {
			return true
		}
	}
	return false
}

// coqHistR: the history as list rhop (Corr.C11).
func (r seqResult) coqHistR() string {
	var items []string
	for _, p := range r.Hist {
		if p.End != nil {
			items = append(items, fmt.Sprintf("RPair (%s) (%s)", p.coq(), p.End.coq()))
			continue
		}
		one := p
		one.N = 0 // AddTasks(n) is emitted as n single additions (see sop.coq)
		for k := 0; k < p.delta(); k++ {
			items = append(items, "RPlain ("+one.coq()+")")
		}
	}
	return coqList(items)
}

func c11Case(r seqResult) string {
	if r.hasRace() {
		return fmt.Sprintf("CRace11 %s %s %s %s", r.coqHistR(), r.coqObs(), r.coqErrs(), r.coqLog())
	}
	return fmt.Sprintf("CSeq11 %s %s %s %s", r.coqHist(), r.coqObs(), r.coqErrs(), r.coqLog())
}

// c11MidCallSweep: scripted histories.
//
//	root R with the 11 probes; the parent P is R, a shared child of R or an isolated child of R;
//	"other": nothing else / an accepted task / a sibling child is registered on P;
//	the registration under test (NewChild shared / isolated / through gio, or AddTasks) with the end
//	of P's context (Kill / Stop / AppendError on the context, or through P / through R when shared)
//	forced at hook point 1..4;
//	then: the new child is closed (the accepted task done), P's Close is called (it has to wait for
//	"other"), "other" is finished, and the rest of the tree is closed.
func c11MidCallSweep(o *Out) {
	type script struct {
		parent, other, reg, how, at int
	}
	for parent := 0; parent < 3; parent++ {
		for other := 0; other < 3; other++ {
			for reg := 0; reg < 4; reg++ {
				for how := 0; how < 5; how++ {
					for at := 1; at <= 4; at++ {
						sc := script{parent, other, reg, how, at}
						var h []sop
						h = append(h, sop{K: "newroot"})
						for ev := 0; ev <= 10; ev++ {
							h = append(h, sop{K: "on", S: 0, Ev: ev, Lid: ev + 1, Fail: -1})
						}
						P, pctx, next, nctx := 0, 0, 1, 1
						switch parent {
						case 1:
							h = append(h, sop{K: "newchild", S: 0})
							P, next = 1, 2
						case 2:
							h = append(h, sop{K: "newchild", S: 0, Iso: true})
							P, pctx, next, nctx = 1, 1, 2, 2
						}
						sib := -1
						switch other {
						case 1:
							h = append(h, sop{K: "add", S: P})
						case 2:
							h = append(h, sop{K: "newchild", S: P})
							sib = next
							next++
						}
						var end sop
						switch how {
						case 0:
							end = sop{K: "ckill", S: pctx}
						case 1:
							end = sop{K: "cstop", S: pctx}
						case 2:
							end = sop{K: "capp", S: pctx, Es: []int{7}}
						case 3:
							end = sop{K: "kill", S: P}
						default:
							// through a relative: the root when P shares its context, else the sibling / P itself
							t := P
							if parent == 1 {
								t = 0
							} else if sib >= 0 {
								t = sib
							}
							end = sop{K: "apperr", S: t, Es: []int{9}}
						}
						child := -1
						switch reg {
						case 0:
							h = append(h, sop{K: "newchild", S: P, End: &end, At: at})
						case 1:
							h = append(h, sop{K: "newchild", S: P, Iso: true, End: &end, At: at})
						case 2:
							h = append(h, sop{K: "newchild", S: P, Via: 1, End: &end, At: at})
						default:
							h = append(h, sop{K: "add", S: P, End: &end, At: at})
						}
						if reg < 3 {
							child = next
							next++
						}
						_ = nctx
						i := 0
						phase := 0
						r := runSeq(func(w *world, step int) *sop {
							if step == 0 {
								w.hooked = true
							}
							if i < len(h) {
								i++
								return &h[i-1]
							}
							// the tail depends on what the implementation answered (an accepted task is
							// finished, a refused one is not)
							for {
								phase++
								switch phase {
								case 1:
									if child >= 0 {
										return &sop{K: "close", S: child}
									}
									held := 0
									if other == 1 {
										held = 1
									}
									if reg == 3 && w.tasks[P] > held {
										return &sop{K: "done", S: P} // the task accepted by the AddTasks under test
									}
								case 2:
									return &sop{K: "close", S: P}
								case 3:
									if other == 1 && w.tasks[P] > 0 {
										return &sop{K: "done", S: P}
									}
									if sib >= 0 {
										return &sop{K: "close", S: sib}
									}
								case 4:
									if P != 0 {
										return &sop{K: "close", S: 0}
									}
								default:
									return nil
								}
							}
						}, 64)
						o.Stat("midcall_scripts")
						if r.Hist[len(h)-1].Fired {
							o.Stat("midcall_reached_hook_point")
						}
						l2Seq(o, r, true)
						if r.Hang {
							o.Stat("midcall_hangs")
							return // a violation already; every further hang costs seconds
						}
						if last := r.Hist[len(h)-1]; last.Fired && last.At >= 2 {
							// the end fell between two instructions of the call: also compared with the model
							o.AddCase(c11Case(r), r.desc(), fmt.Sprintf("midcall:%v", sc), true)
						} else {
							o.CountEval(fmt.Sprintf("midcall:%v", sc), true)
						}
					}
				}
			}
		}
	}
}
