package main

// C05 — generators and oracles added by the coverage audit of the check against the property text
// (DESIGN.md §6 C05, "audit"):
//   lookalikeSettings   secrets / salts that a careless normalisation, truncation or re-encoding of the
//                       key material would fold onto one another (wrong-secret / wrong-salt clause)
//   nonce registry      every nonce seen in the whole run, and in two child processes that repeat the
//                       same first writes, is distinct ("two writes of the same data differ")
//   sequences           two stream sessions open at once, overwriting, reads with odd buffer sizes,
//                       several readers, returned buffers scribbled, child views in both directions,
//                       ReadFile/Reader/Writer on paths the base refuses
//   nsSweep             every name-space operation x every argument of the pool, one step each, on a
//                       fixed tree, against a twin base (the random histories only sample this)
//   baseScan            no file of the base holds a piece of ANY plaintext written into that base

import (
	"bufio"
	"bytes"
	"encoding/hex"
	"fmt"
	"io"
	"os"
	"os/exec"
	"strings"

	"github.com/goatcms/goatcore/filesystem"
)

// ---------------------------------------------------------------- look-alike settings

func (r *c05Run) lookalikeSettings() [][]c05Settings {
	mk := func(secrets [][]byte, salts [][]byte) []c05Settings {
		var g []c05Settings
		for _, se := range secrets {
			for _, sa := range salts {
				g = append(g, c05Settings{Secret: se, Salt: sa})
			}
		}
		return g
	}
	bs := func(l ...string) [][]byte {
		out := make([][]byte, len(l))
		for i, x := range l {
			out[i] = []byte(x)
		}
		return out
	}
	flip := func(b []byte, i int) []byte {
		d := append([]byte{}, b...)
		d[i] ^= 1
		return d
	}
	// within a group either the secret or the salt is fixed, so no two members have the same
	// concatenation secret||salt (that collision is the known finding F30 and is probed elsewhere)
	long := c05Rand(r.rng, 200)
	longSalt := c05Rand(r.rng, 300)
	k32 := c05Rand(r.rng, 32)
	groups := [][]c05Settings{
		// white space, line ends, NUL, case, prefixes/extensions of one another
		mk(bs("pw", "pw\n", "pw\r\n", " pw", "pw ", "\tpw", "pw\x00", "\x00pw", "PW", "Pw", "p", "pww", "pw\xff", "pw=", "\"pw\""), bs("salt")),
		mk(bs("pw"), bs("salt", "salt\n", " salt", "SALT", "sal", "salt\x00", "salT", "", "salt ", "tlas")),
		// long key material: differences beyond byte 32 / 64 / 136 (SHA3-256 rate) and at the very end
		mk([][]byte{long, flip(long, 199), flip(long, 63), flip(long, 64), flip(long, 135), flip(long, 136), long[:64], long[:136], long[:199],
			append(append([]byte{}, long...), 0)}, [][]byte{c05Rand(r.rng, 40)}),
		mk(bs("k"), [][]byte{longSalt, flip(longSalt, 299), flip(longSalt, 70), longSalt[:64], longSalt[:299], append(append([]byte{}, longSalt...), longSalt...)}),
		mk([][]byte{k32, append(append([]byte{}, k32...), 'x'), k32[:31], flip(k32, 31)}, bs("NaCl")),
		// empty secret, empty salt
		mk(bs(""), bs("x", "y", "", "xx")),
		mk(bs("x", "y", "", "xx"), bs("")),
		// bytes that are not UTF-8 and what a string/rune conversion would make of them
		mk([][]byte{{0xff}, {0xfe}, {0xff, 0xfe}, {0x80}, {0xc3, 0x28}, {0xef, 0xbf, 0xbd}, {0xc3, 0xbf}}, bs("s")),
	}
	return groups
}

// ---------------------------------------------------------------- nonce registry

// noteNonce records the nonce of a genuine stored value; a nonce seen twice anywhere in the run
// (other instance, other settings, other cipher, other write path, other process) is a failure.
func (r *c05Run) noteNonce(nonce []byte, where string, desc interface{}) {
	if r.nonces == nil {
		r.nonces = map[string]string{}
	}
	k := string(nonce)
	if prev, dup := r.nonces[k]; dup {
		r.o.Fail("fresh", fmt.Sprintf("the nonce %x was used twice: %s and %s", nonce, prev, where), "nonce-reuse", desc)
		return
	}
	r.nonces[k] = where
}

const c05ChildPlain = "the same twenty bytes"

// c05ChildWrites: the first writes of a fresh process, in a fixed order, with fixed data and settings.
func (r *c05Run) childWrites() []string {
	var lines []string
	s := c05Settings{Secret: []byte("child-secret"), Salt: []byte("child-salt")}
	for _, c := range r.ciphers {
		base := c05NewBase("memfs")
		efs := r.encfs(base.FS, s, c)
		for i := 0; i < 4; i++ {
			name := fmt.Sprintf("w%d", i)
			pt := []byte(c05ChildPlain)
			if k := c05Write(efs, name, pt, [][]byte{pt[:5], pt[5:]}, i%2 == 1); k != "ok" {
				lines = append(lines, fmt.Sprintf("%s %d write-%s", c.Name, i, k))
				continue
			}
			st, err := base.FS.ReadFile(name)
			must(err)
			lines = append(lines, fmt.Sprintf("%s %d %s", c.Name, i, hex.EncodeToString(st)))
		}
		base.Close()
	}
	return lines
}

// crossProcessFresh: two child processes and this process perform the same first writes; no two of
// the stored values and no two of the nonces may coincide (a nonce source that restarts with the
// process repeats them).
func (r *c05Run) crossProcessFresh() {
	runs := map[string][]string{"this process": r.childWrites()}
	for _, who := range []string{"child process 1", "child process 2"} {
		cmd := exec.Command(os.Args[0], "C05")
		cmd.Env = append(os.Environ(), "C05_CHILD=1")
		var out, errb bytes.Buffer
		cmd.Stdout, cmd.Stderr = &out, &errb
		if err := cmd.Run(); err != nil {
			r.o.Fail("no_panic", fmt.Sprintf("%s (the first writes of a fresh process) died: %v: %s", who, err, strings.SplitN(errb.String(), "\n", 2)[0]), "child-died", map[string]interface{}{"op": "cross-process"})
			continue
		}
		var lines []string
		sc := bufio.NewScanner(&out)
		sc.Buffer(make([]byte, 1<<20), 1<<20)
		for sc.Scan() {
			lines = append(lines, sc.Text())
		}
		runs[who] = lines
	}
	seen := map[string]string{}
	for _, who := range []string{"this process", "child process 1", "child process 2"} {
		for _, ln := range runs[who] {
			f := strings.Fields(ln)
			if len(f) != 3 {
				continue
			}
			desc := map[string]interface{}{"op": "cross-process", "cipher": f[0], "write": f[1], "plaintext": c05ChildPlain, "who": who}
			where := fmt.Sprintf("%s write #%s of %s", f[0], f[1], who)
			if strings.HasPrefix(f[2], "write-") {
				r.o.Fail("roundtrip", where+": "+f[2], f[2], desc)
				continue
			}
			st, err := hex.DecodeString(f[2])
			if err != nil {
				continue
			}
			r.o.CountEval("xproc:"+where, true)
			r.o.Stat("cross_process_writes")
			if prev, dup := seen[f[0]+f[2]]; dup {
				r.o.Fail("fresh", fmt.Sprintf("two writes of the same data stored the same bytes: %s and %s", prev, where), "not-fresh", desc)
				continue
			}
			seen[f[0]+f[2]] = where
			hdr := 0
			if f[0] == "extcfs" {
				hdr = 4
			}
			if len(st) >= hdr+12 {
				r.noteNonce(st[hdr:hdr+12], where, desc)
			}
		}
	}
}

// ---------------------------------------------------------------- sequences

// read through Reader with a caller buffer of bufSize bytes
func c05ReadBuf(fs filesystem.Filespace, path string, bufSize int) c05Obs {
	var data []byte
	var err error
	k := c05Guard(func() {
		var rd filesystem.Reader
		if rd, err = fs.Reader(path); err != nil {
			return
		}
		buf := make([]byte, bufSize)
		idle := 0
		for {
			c05Scribble(buf)
			n, e := rd.Read(buf)
			data = append(data, buf[:n]...)
			if e == io.EOF {
				break
			}
			if e != nil {
				err = e
				break
			}
			if n == 0 {
				if idle++; idle > 1000 {
					err = fmt.Errorf("Read keeps returning 0, nil")
					break
				}
			}
		}
		if e := rd.Close(); err == nil {
			err = e
		}
	})
	if k != "done" {
		return c05Obs{Kind: k}
	}
	if err != nil {
		return c05Obs{Kind: "err"}
	}
	return c05Obs{Kind: "ok", Data: data}
}

func (r *c05Run) expectData(fs filesystem.Filespace, path string, want []byte, what string, desc map[string]interface{}) {
	for _, rp := range []string{"RFile", "RStream"} {
		ob := c05Read(fs, path, rp)
		r.o.CountEval(fmt.Sprintf("seq:%v:%s:%s:%s", desc["base"], desc["cipher"], what, rp), true)
		r.o.Stat("seq_reads")
		if ob.Kind == "panic" || ob.Kind == "hang" {
			r.o.Fail("no_panic", fmt.Sprintf("%s: %s of %s: %s", what, rp, path, ob.Kind), ob.Kind, desc)
		} else if ob.Kind != "ok" || !bytes.Equal(ob.Data, want) {
			r.o.Fail("roundtrip", fmt.Sprintf("%s: %s of %s answered %s with %d bytes, %d bytes were written", what, rp, path, ob.Kind, len(ob.Data), len(want)), "roundtrip", desc)
		}
	}
}

func (r *c05Run) sequences(s, other c05Settings) {
	for _, kind := range []string{"memfs", "diskfs"} {
		for _, c := range r.ciphers {
			base := c05NewBase(kind)
			efs := r.encfs(base.FS, s, c)
			desc := map[string]interface{}{"op": "sequence", "base": kind, "cipher": c.Name, "settings": s.desc()}
			must(base.FS.MkdirAll("i/j", 0o755))

			// (a) two (three) stream sessions open at once on different files, chunks interleaved,
			// a whole-file write and reads in between
			pts := [][]byte{c05Rand(r.rng, 300), c05Rand(r.rng, 5000), c05Rand(r.rng, 33)}
			names := []string{"i/a", "i/b", "i/j/c"}
			mid := c05Rand(r.rng, 77)
			g := c05Guard(func() {
				ws := make([]filesystem.Writer, len(pts))
				for i := range pts {
					w, err := efs.Writer(names[i])
					must(err)
					ws[i] = w
				}
				buf := make([]byte, 700)
				off := make([]int, len(pts))
				for step := 0; ; step++ {
					busy := false
					for i := range pts {
						if off[i] >= len(pts[i]) {
							continue
						}
						busy = true
						n := 1 + r.rng.Intn(600)
						if off[i]+n > len(pts[i]) {
							n = len(pts[i]) - off[i]
						}
						copy(buf, pts[i][off[i]:off[i]+n])
						_, err := ws[i].Write(buf[:n])
						must(err)
						c05Scribble(buf)
						off[i] += n
					}
					if step == 1 {
						must(efs.WriteFile("i/mid", append([]byte{}, mid...), 0o644))
					}
					if !busy {
						break
					}
				}
				for _, i := range []int{1, 0, 2} {
					must(ws[i].Close())
				}
			})
			if g != "done" {
				r.o.Fail("roundtrip", "several stream sessions open at once on different files: "+g, "sessions-"+g, desc)
			} else {
				for i := range pts {
					r.expectData(efs, names[i], pts[i], "interleaved stream sessions", desc)
					if st, err := base.FS.ReadFile(names[i]); err == nil {
						if ent, ok := r.parse(c, s, pts[i], st, desc); ok {
							_ = ent
						}
					}
				}
				r.expectData(efs, "i/mid", mid, "WriteFile while stream sessions are open", desc)
			}

			// (b) overwriting: long then short and short then long, through either write path
			for wi, seq := range [][2]bool{{false, true}, {true, false}, {true, true}, {false, false}} {
				name := fmt.Sprintf("i/over%d", wi)
				long, short := c05Rand(r.rng, 900), c05Rand(r.rng, 9)
				k1 := c05Write(efs, name, long, [][]byte{long[:100], long[100:]}, seq[0])
				k2 := c05Write(efs, name, short, [][]byte{short}, seq[1])
				if k1 != "ok" || k2 != "ok" {
					r.o.Fail("roundtrip", fmt.Sprintf("overwrite: writes answered %s, %s", k1, k2), "write-"+k1+k2, desc)
					continue
				}
				r.expectData(efs, name, short, "a long file overwritten by a short one", desc)
				if st, err := base.FS.ReadFile(name); err == nil {
					r.parse(c, s, short, st, desc)
				}
				if k := c05Write(efs, name, long, [][]byte{long}, seq[0]); k == "ok" {
					r.expectData(efs, name, long, "a short file overwritten by a long one", desc)
				}
			}

			// (c) reads with odd caller buffers, several readers open at once, returned buffers scribbled
			pt := pts[0]
			for _, bs := range []int{1, 7, len(pt) - 1, len(pt), len(pt) + 1, 4096} {
				ob := c05ReadBuf(efs, names[0], bs)
				r.o.CountEval(fmt.Sprintf("seq:%s:%s:buf%d", kind, c.Name, bs), true)
				if ob.Kind != "ok" || !bytes.Equal(ob.Data, pt) {
					r.o.Fail("roundtrip", fmt.Sprintf("Reader read with a %d-byte buffer answered %s with %d bytes, %d were written", bs, ob.Kind, len(ob.Data), len(pt)), "roundtrip", desc)
				}
			}
			var d1, d2, d3 []byte
			g = c05Guard(func() {
				r1, err := efs.Reader(names[0])
				must(err)
				r2, err := efs.Reader(names[1])
				must(err)
				r3, err := efs.Reader(names[0])
				must(err)
				b := make([]byte, 64)
				for done := 0; done < 3; {
					done = 0
					for i, rd := range []filesystem.Reader{r1, r2, r3} {
						n, e := rd.Read(b)
						switch i {
						case 0:
							d1 = append(d1, b[:n]...)
						case 1:
							d2 = append(d2, b[:n]...)
						case 2:
							d3 = append(d3, b[:n]...)
						}
						c05Scribble(b)
						if e != nil {
							done++
						}
					}
					if len(d2) > 3*len(pts[1]) {
						break
					}
				}
				r1.Close()
				r2.Close()
				r3.Close()
			})
			r.o.CountEval(fmt.Sprintf("seq:%s:%s:readers", kind, c.Name), true)
			if g != "done" || !bytes.Equal(d1, pts[0]) || !bytes.Equal(d2, pts[1]) || !bytes.Equal(d3, pts[0]) {
				r.o.Fail("roundtrip", fmt.Sprintf("three readers open at once (%s): got %d/%d/%d bytes, written %d/%d/%d", g, len(d1), len(d2), len(d3), len(pts[0]), len(pts[1]), len(pts[0])), "roundtrip", desc)
			}
			if got, err := efs.ReadFile(names[0]); err == nil {
				c05Scribble(got)
				r.expectData(efs, names[0], pt, "after the caller overwrote the slice ReadFile had returned", desc)
			}

			// (d) child views, both directions, both paths, two levels; a child of other settings refuses
			sub, err1 := efs.Filespace("i")
			var subsub filesystem.Filespace
			var err2 error
			if err1 == nil {
				subsub, err2 = sub.Filespace("j")
			}
			if err1 != nil || err2 != nil {
				r.o.Fail("namespace", fmt.Sprintf("Filespace(\"i\") / Filespace(\"j\") on existing directories: %v %v", err1, err2), "subspace", desc)
			} else {
				r.expectData(sub, "a", pts[0], "written through the parent (stream), read through Filespace(\"i\")", desc)
				r.expectData(subsub, "c", pts[2], "written through the parent (stream), read through Filespace(\"i\").Filespace(\"j\")", desc)
				p2 := c05Rand(r.rng, 1234)
				if k := c05Write(subsub, "deep", p2, [][]byte{p2[:1000], p2[1000:]}, true); k != "ok" {
					r.o.Fail("roundtrip", "stream write through a child view of a child view: "+k, "write-"+k, desc)
				} else {
					r.expectData(efs, "i/j/deep", p2, "written through Filespace(\"i\").Filespace(\"j\") (stream), read through the parent", desc)
					if st, err := base.FS.ReadFile("i/j/deep"); err == nil {
						r.parse(c, s, p2, st, desc)
					}
				}
				if osub, err := r.encfs(base.FS, other, c).Filespace("i"); err == nil {
					for _, rp := range []string{"RFile", "RStream"} {
						ob := c05Read(osub, "a", rp)
						r.o.CountEval(fmt.Sprintf("seq:%s:%s:othersub:%s", kind, c.Name, rp), true)
						if ob.Kind != "err" {
							r.o.Fail("wrong_key", fmt.Sprintf("a child view of a filespace with another secret and salt answered %s (%d bytes) for a file of this one", ob.Kind, len(ob.Data)), "wrong-key-accepted", desc)
						}
					}
				}
			}

			// (e) what the base refuses, the encrypted filespace refuses (no data, no panic), and
			// what the base accepts it accepts
			for _, p := range []string{"nope", "i", "i/j", "i/a/x", "i/nope/x", "", "."} {
				_, berr := base.FS.ReadFile(p)
				for _, rp := range []string{"RFile", "RStream"} {
					ob := c05Read(efs, p, rp)
					r.o.CountEval(fmt.Sprintf("seq:%s:%s:refused:%s:%s", kind, c.Name, p, rp), true)
					if ob.Kind == "panic" || ob.Kind == "hang" {
						r.o.Fail("no_panic", fmt.Sprintf("%s of %q (the base answers %v): %s", rp, p, berr, ob.Kind), ob.Kind, desc)
					} else if berr != nil && ob.Kind == "ok" {
						r.o.Fail("namespace", fmt.Sprintf("%s of %q is answered with %d bytes of data, the base refuses to read it (%v)", rp, p, len(ob.Data), berr), "namespace", desc)
					}
				}
			}
			twin := c05NewBase(kind)
			must(twin.FS.MkdirAll("i/j", 0o755))
			must(twin.FS.WriteFile("i/a", []byte("raw"), 0o644))
			for _, p := range []string{"i/a/x", "i", "i/j", "i/new/deeper/f", ""} {
				for _, stream := range []bool{false, true} {
					data := c05Rand(r.rng, 20)
					ke := c05Write(efs, p, data, [][]byte{data}, stream)
					kb := c05Write(twin.FS, p, data, [][]byte{data}, stream)
					r.o.CountEval(fmt.Sprintf("seq:%s:%s:wrefused:%s:%v", kind, c.Name, p, stream), true)
					if ke == "panic" || ke == "hang" {
						r.o.Fail("no_panic", fmt.Sprintf("write to %q: %s", p, ke), ke, desc)
					} else if ke != kb && kb != "panic" && kb != "hang" {
						r.o.Fail("namespace", fmt.Sprintf("write (stream=%v) to %q: the encrypted filespace answered %s, the base alone %s", stream, p, ke, kb), "namespace", desc)
					} else if ke == "ok" {
						r.expectData(efs, p, data, "write to a path whose directories the base creates", desc)
					}
				}
			}
			twin.Close()

			r.baseScan(base, append(append([][]byte{mid}, pts...), pt), desc)
			base.Close()
		}
	}
}

// ---------------------------------------------------------------- whole-base secrecy scan

// baseScan: no file anywhere in the base holds a 12-byte piece (start, middle, end) of any of the
// plaintexts written into that base.
func (r *c05Run) baseScan(base *c05Base, plaintexts [][]byte, desc map[string]interface{}) {
	var needles [][]byte
	for _, pt := range plaintexts {
		if len(pt) < 12 {
			continue
		}
		needles = append(needles, pt[:12], pt[len(pt)/2-6:len(pt)/2+6], pt[len(pt)-12:])
	}
	var nodes []c05Node
	if k := c05Guard(func() { c05Tree(base.FS, "", &nodes, 0) }); k != "done" {
		return
	}
	for _, n := range nodes {
		if n.IsDir || len(n.Data) > 1<<17 {
			continue
		}
		r.o.Stat("base_scan_files")
		for _, nd := range needles {
			if strings.Contains(n.Data, string(nd)) {
				r.o.Fail("secrecy", fmt.Sprintf("the base file %q contains 12 bytes of a plaintext written through the encrypted filespace", n.Path), "plaintext-in-base", desc)
				return
			}
		}
	}
	r.o.CountEval(fmt.Sprintf("scan:%v:%v:%d", desc["base"], desc["cipher"], len(needles)), true)
}

// ---------------------------------------------------------------- name-space sweep

// nsSweep: every name-space operation with every argument (pair) of the pool, ONE step each on a
// fixed tree, encrypted filespace over base A against the twin base B operated directly. On memfs
// every combination gets fresh twins; on diskfs (slow: real directories) the read-only operations
// share one pair of twins over the whole pool and every 13th changing combination (offset drawn
// from the seed) is run on fresh twins.
func (r *c05Run) nsSweep(s c05Settings) {
	pool := append(append([]string{}, c05NsPool...), "/a", ".a", "a/", "d/../a", "d/e/", "dd", "a.b")
	for ki, kind := range []string{"memfs", "diskfs"} {
		c := r.ciphers[ki%2]
		setup := func() (*c05Base, *c05Base, filesystem.Filespace) {
			A, B := c05NewBase(kind), c05NewBase(kind)
			enc := r.encfs(A.FS, s, c)
			for _, p := range []string{"a", "d/a", "d/e/b", "dd"} {
				must(enc.WriteFile(p, []byte("content of "+p), 0o644))
				raw, err := A.FS.ReadFile(p)
				must(err)
				must(B.FS.WriteFile(p, raw, 0o644))
			}
			must(A.FS.MkdirAll("x/y", 0o755))
			must(B.FS.MkdirAll("x/y", 0o755))
			return A, B, enc
		}
		var sharedA, sharedB *c05Base
		var sharedEnc filesystem.Filespace
		if kind == "diskfs" {
			sharedA, sharedB, sharedEnc = setup()
		}
		run := func(op int, a, b string) {
			A, B, enc := sharedA, sharedB, sharedEnc
			if op >= 5 || A == nil {
				A, B, enc = setup()
				defer A.Close()
				defer B.Close()
			}
			ra, rb := c05NsOp(enc, op, a, b), c05NsOp(B.FS, op, a, b)
			r.o.Stat("nssweep_" + c05NsNames[op])
			r.o.CountEval(fmt.Sprintf("nss:%s:%d:%s:%s", kind, op, a, b), true)
			desc := map[string]interface{}{"op": "namespace-sweep", "base": kind, "cipher": c.Name, "call": c05NsNames[op], "a": a, "b": b,
				"tree": "files a, d/a, d/e/b, dd; directory x/y"}
			if rb == "hang" || rb == "panic" {
				return
			}
			if ra != rb {
				r.o.Fail("namespace", fmt.Sprintf("%s(%q,%q): encrypted filespace answered %s, the base alone %s", c05NsNames[op], a, b, ra, rb), "namespace", desc)
				return
			}
			if op >= 5 {
				if ta, tb := c05TreeString(A.FS), c05TreeString(B.FS); ta != tb {
					r.o.Fail("namespace", fmt.Sprintf("after %s(%q,%q) the base under the encrypted filespace differs from the base operated directly", c05NsNames[op], a, b), "namespace", desc)
				}
			}
		}
		stride, turn := 1, 0
		if kind == "diskfs" {
			stride, turn = 13, r.rng.Intn(13)
		}
		for op := range c05NsNames {
			binary := op >= 6 && op <= 8
			for _, a := range pool {
				bs := []string{""}
				if binary {
					bs = pool
				}
				for _, b := range bs {
					if op >= 5 {
						if turn++; turn%stride != 0 {
							continue
						}
					}
					run(op, a, b)
				}
			}
		}
		if sharedA != nil {
			sharedA.Close()
			sharedB.Close()
		}
	}
}
