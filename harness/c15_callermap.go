package main

// C15: what a holder holds is what its lock map SAID when Lock was called.  A caller may recycle or
// change its map object afterwards (build the next request in it): Unlock must release exactly
// the resources that were acquired - not what the map says by then.

import (
	"fmt"
	"sync"
	"time"

	"github.com/goatcms/goatcore/app/modules/commonm/commservices"
	"github.com/goatcms/goatcore/app/modules/commonm/commservices/mutex"
)

func c15CallerMapProbe(o *Out) {
	for _, variant := range []string{"replace", "add", "flip-mode", "clear"} {
		desc := map[string]interface{}{"op": "caller-changes-its-map", "variant": variant}
		var stragglers sync.WaitGroup
		func() {
			defer func() {
				if r := recover(); r != nil {
					o.Fail("no_panic", fmt.Sprintf("caller changes its lock map while holding (%s): panic %v", variant, r), "callermap-panic", desc)
				}
			}()
			sm := mutex.NewSharedMutex()
			m := commservices.LockMap{"a": commservices.LockRW, "c": commservices.LockR}
			h1 := sm.Lock(m)
			switch variant {
			case "replace":
				delete(m, "a")
				m["b"] = commservices.LockRW
			case "add":
				m["b"] = commservices.LockRW
			case "flip-mode":
				m["a"] = commservices.LockR
				m["c"] = commservices.LockRW
			case "clear":
				delete(m, "a")
				delete(m, "c")
			}
			// somebody else takes b for writing (free all along) and keeps it
			hb := sm.Lock(commservices.LockMap{"b": commservices.LockRW})
			// while h1 is held: a is write-held, c is read-held
			if c15TryLock(sm, commservices.LockMap{"a": commservices.LockR}, 30*time.Millisecond, &stragglers) {
				o.Fail("exclusion", "a reader got resource a while the first holder still had it for writing (the caller only changed its own map object)", "callermap-excl", desc)
			}
			h1.Unlock()
			// now a and c are free again, b is still the other holder's
			if !c15TryLock(sm, commservices.LockMap{"a": commservices.LockRW}, 3*time.Second, &stragglers) {
				o.Fail("no_deadlock", "after Unlock the resource a (acquired for writing) is still locked: Unlock released what the caller's map says NOW, not what was acquired", "callermap-leak", desc)
			}
			if !c15TryLock(sm, commservices.LockMap{"c": commservices.LockRW}, 3*time.Second, &stragglers) {
				o.Fail("no_deadlock", "after Unlock the resource c (acquired for reading) is still locked", "callermap-leak", desc)
			}
			if c15TryLock(sm, commservices.LockMap{"b": commservices.LockRW}, 30*time.Millisecond, &stragglers) {
				o.Fail("exclusion", "the first holder's Unlock released resource b, which ANOTHER holder holds for writing", "callermap-foreign-release", desc)
			}
			hb.Unlock()
		}()
		done := make(chan struct{})
		go func() { stragglers.Wait(); close(done) }()
		select {
		case <-done:
		case <-time.After(5 * time.Second):
		}
		o.Stat("caller_map_probe")
		o.CountEval("callermap:"+variant, true)
	}
}
