package main

// C13 — data scopes (app/scope/datascope).
//
// (1) sequential differential test: random chains of depth 1..5 (datascope.New / NewChild), random
//     histories of SetValue / Value / Keys and locker (LockData .. Commit) operations on random
//     levels; every observation is emitted in a CSeq case for the Coq model.  L2 oracles on the
//     implementation alone, after every operation and for every (scope, key): a scope answers its
//     own binding if it has one, else what its parent answers now; a SetValue changes nothing in
//     any ancestor; Keys = own keys.
// (2) concurrent: 8 goroutines x 2000 locked increments (lock; read; write marker; write v+1;
//     commit) with plain readers (must never see the marker, values never decrease) and a plain
//     writer on another key; the final value must be initial + 16000.  A smaller run records the
//     order of the locked sections with the value read in each and is emitted as a CCounter case
//     (the Coq model must replay it).
// (3) the three real get-or-create services (tasks.Unit.FromScope, envs.Unit.Envs,
//     waits.WaitManager.ForScope) called from 16 goroutines on one scope: one instance.
// Everything that may hang runs under a watchdog; the whole run is a child process because a
// broken lock shows up as Go's unrecoverable "concurrent map writes".

import (
	"bytes"
	"fmt"
	"os"
	"os/exec"
	"runtime"
	"sort"
	"strings"
	"sync"
	"sync/atomic"
	"time"

	"github.com/goatcms/goatcore/app"
	"github.com/goatcms/goatcore/app/modules/commonm/commservices/envs"
	"github.com/goatcms/goatcore/app/modules/commonm/commservices/waits"
	"github.com/goatcms/goatcore/app/modules/pipelinem/pipservices/namespaces"
	"github.com/goatcms/goatcore/app/modules/pipelinem/pipservices/tasks"
	"github.com/goatcms/goatcore/app/scope"
	"github.com/goatcms/goatcore/app/scope/datascope"
)

func init() { runners["C13"] = runC13 }

func runC13(o *Out, rng *RNG, tier string, replay string) {
	if os.Getenv("C13_CHILD") == "1" {
		runC13Child(o, rng, tier)
		return
	}
	cmd := exec.Command(os.Args[0], os.Args[1:]...)
	cmd.Env = append(os.Environ(), "C13_CHILD=1")
	var errb bytes.Buffer
	cmd.Stderr = &errb
	cmd.Stdout = os.Stdout
	if err := cmd.Run(); err == nil {
		os.Exit(0) // the child wrote the shards and result.json
	}
	msg := errb.String()
	first := msg
	if i := strings.IndexByte(first, '\n'); i >= 0 {
		first = first[:i]
	}
	if len(msg) > 3000 {
		msg = msg[:3000]
	}
	o.Rule = "supervisor: the harness child process died"
	o.Stat("child_crash")
	o.CountEval("crash", true)
	o.Fail("no_crash", "the process using the data scope from several goroutines died: "+first, "fatal",
		map[string]interface{}{"op": "concurrent", "stderr": msg, "note": "replay with the same seed"})
}

// ----- values: int keys, int values, 0 = nil

func c13Val(v int) interface{} {
	if v == 0 {
		return nil
	}
	return v
}
func c13Int(v interface{}) (int, bool) {
	if v == nil {
		return 0, true
	}
	n, ok := v.(int)
	return n, ok
}

type c13Op struct {
	Kind string // set get keys lset lget lkeys
	J    int
	K, V int
}

func c13KeysOf(ks []interface{}) ([]int, bool) {
	out := make([]int, 0, len(ks))
	for _, k := range ks {
		n, ok := k.(int)
		if !ok {
			return nil, false
		}
		out = append(out, n)
	}
	sort.Ints(out)
	return out, true
}

func coqNList(l []int) string {
	items := make([]string, len(l))
	for i, n := range l {
		items[i] = fmt.Sprint(n)
	}
	return coqList(items)
}

func coqChain(st [][][2]int) string {
	maps := make([]string, len(st))
	for i, m := range st {
		items := make([]string, len(m))
		for j, kv := range m {
			items[j] = fmt.Sprintf("(%d, %d)", kv[0], kv[1])
		}
		maps[i] = coqList(items)
	}
	return coqList(maps)
}

// c13Build builds the chain: level 0 = innermost child ... last level = root.
func c13Build(st [][][2]int) []app.DataScope {
	d := len(st)
	scopes := make([]app.DataScope, d)
	for i := d - 1; i >= 0; i-- {
		m := map[interface{}]interface{}{}
		for _, kv := range st[i] {
			m[kv[0]] = c13Val(kv[1])
		}
		if i == d-1 {
			scopes[i] = datascope.New(m)
		} else {
			scopes[i] = datascope.NewChild(scopes[i+1], m)
		}
	}
	return scopes
}

type c13Shadow []map[int]int

func (s c13Shadow) value(j, k int) int {
	for i := j; i < len(s); i++ {
		if v, ok := s[i][k]; ok {
			return v
		}
	}
	return 0
}

func c13Guard(f func()) (kind string) {
	done := make(chan string, 1)
	go func() {
		defer func() {
			if r := recover(); r != nil {
				done <- "panic"
			}
		}()
		f()
		done <- "ok"
	}()
	select {
	case k := <-done:
		return k
	case <-time.After(5 * time.Second):
		return "hang"
	}
}

func c13Sequential(o *Out, rng *RNG, n int) {
	keyPool := []int{1, 2, 3, 4, 5, 6}
	for c := 0; c < n; c++ {
		depth := 1 + rng.Intn(5)
		st := make([][][2]int, depth)
		shadow := make(c13Shadow, depth)
		for i := range st {
			shadow[i] = map[int]int{}
			for _, k := range keyPool {
				if rng.Chance(30) {
					v := 1 + rng.Intn(50)
					if rng.Chance(8) {
						v = 0 // a key stored with a nil value is present
					}
					st[i] = append(st[i], [2]int{k, v})
					shadow[i][k] = v
				}
			}
		}
		scopes := c13Build(st)
		nops := 5 + rng.Intn(30)
		ops := make([]c13Op, 0, nops)
		var opsCoq, obsCoq []string
		var trace []string
		bad := ""
		kind := "ok"
		for i := 0; i < nops && kind == "ok"; i++ {
			op := c13Op{J: rng.Intn(depth), K: keyPool[rng.Intn(len(keyPool))]}
			if rng.Chance(5) {
				op.K = 9 // a key nobody has
			}
			switch r := rng.Intn(100); {
			case r < 30:
				op.Kind = "set"
			case r < 60:
				op.Kind = "get"
			case r < 68:
				op.Kind = "keys"
			case r < 82:
				op.Kind = "lset"
			case r < 94:
				op.Kind = "lget"
			default:
				op.Kind = "lkeys"
			}
			if op.Kind == "set" || op.Kind == "lset" {
				op.V = 1 + rng.Intn(90)
				if rng.Chance(7) {
					op.V = 0
				}
			}
			ops = append(ops, op)
			o.Stat("seq_" + op.Kind)
			var obs string
			before := make([][]int, depth) // ancestors' answers before a set
			if op.Kind == "set" || op.Kind == "lset" {
				for a := op.J + 1; a < depth; a++ {
					for _, k := range append(keyPool, 9) {
						v, _ := c13Int(scopes[a].Value(k))
						before[a] = append(before[a], v)
					}
				}
			}
			kind = c13Guard(func() {
				sc := scopes[op.J]
				switch op.Kind {
				case "set":
					sc.SetValue(op.K, c13Val(op.V))
					obs = "SNone"
				case "get":
					v, ok := c13Int(sc.Value(op.K))
					if !ok {
						bad = "Value returned something that was never stored"
					}
					obs = fmt.Sprintf("(SVal %d)", v)
				case "keys":
					ks, ok := c13KeysOf(sc.Keys())
					if !ok {
						bad = "Keys returned a key that was never stored"
					}
					obs = fmt.Sprintf("(SKeyset %s)", coqNList(ks))
				case "lset":
					l := sc.LockData()
					l.SetValue(op.K, c13Val(op.V))
					l.Commit()
					obs = "SNone"
				case "lget":
					l := sc.LockData()
					v, ok := c13Int(l.Value(op.K))
					l.Commit()
					if !ok {
						bad = "locker.Value returned something that was never stored"
					}
					obs = fmt.Sprintf("(SVal %d)", v)
				case "lkeys":
					l := sc.LockData()
					ks, ok := c13KeysOf(l.Keys())
					l.Commit()
					if !ok {
						bad = "locker.Keys returned a key that was never stored"
					}
					obs = fmt.Sprintf("(SKeyset %s)", coqNList(ks))
				}
			})
			if kind != "ok" {
				break
			}
			switch op.Kind {
			case "set", "lset":
				shadow[op.J][op.K] = op.V
				opsCoq = append(opsCoq, fmt.Sprintf("%s %d%%nat %d %d", map[string]string{"set": "SSet", "lset": "SLSet"}[op.Kind], op.J, op.K, op.V))
			case "get", "lget":
				opsCoq = append(opsCoq, fmt.Sprintf("%s %d%%nat %d", map[string]string{"get": "SGet", "lget": "SLGet"}[op.Kind], op.J, op.K))
			default:
				opsCoq = append(opsCoq, fmt.Sprintf("%s %d%%nat", map[string]string{"keys": "SKeys", "lkeys": "SLKeys"}[op.Kind], op.J))
			}
			obsCoq = append(obsCoq, obs)
			trace = append(trace, fmt.Sprintf("%s(%d,%d,%d)->%s", op.Kind, op.J, op.K, op.V, obs))
			// L2 after every op
			if op.Kind == "set" || op.Kind == "lset" {
				for a := op.J + 1; a < depth && bad == ""; a++ {
					for ki, k := range append(keyPool, 9) {
						v, _ := c13Int(scopes[a].Value(k))
						if v != before[a][ki] {
							bad = fmt.Sprintf("SetValue on level %d changed Value(%d) of its ancestor level %d from %d to %d", op.J, k, a, before[a][ki], v)
						}
					}
				}
				if v, _ := c13Int(scopes[op.J].Value(op.K)); v != op.V && bad == "" {
					bad = fmt.Sprintf("Value(%d) on level %d is %d right after SetValue(%d,%d)", op.K, op.J, v, op.K, op.V)
				}
			}
			for j := 0; j < depth && bad == ""; j++ {
				for _, k := range append(keyPool, 9) {
					got, _ := c13Int(scopes[j].Value(k))
					if want := shadow.value(j, k); got != want {
						bad = fmt.Sprintf("level %d Value(%d) = %d, but the first binding walking up from level %d is %d", j, k, got, j, want)
						break
					}
				}
				ks, _ := c13KeysOf(scopes[j].Keys())
				own := make([]int, 0)
				for k := range shadow[j] {
					own = append(own, k)
				}
				sort.Ints(own)
				if fmt.Sprint(ks) != fmt.Sprint(own) && bad == "" {
					bad = fmt.Sprintf("level %d Keys() = %v, own keys are %v", j, ks, own)
				}
			}
			if bad != "" {
				break
			}
		}
		desc := map[string]interface{}{"op": "seq", "chain_child_first": st, "history": trace}
		key := fmt.Sprint("q:", st, trace)
		o.Stat(fmt.Sprintf("seq_depth_%d", depth))
		if kind != "ok" {
			o.Stat("seq_" + kind)
			o.Fail("no_"+kind, "a data scope operation ended in "+kind, kind, desc)
			o.CountEval(key, true)
			continue
		}
		if bad != "" {
			o.Fail("overlay", bad, "overlay", desc)
		}
		o.AddCase(fmt.Sprintf("CSeq %s %s %s", coqChain(st), coqList(opsCoq), coqList(obsCoq)), desc, key, depth >= 2)
	}
}

const c13Marker = -1

type c13Section struct {
	T, V int
}

// c13Counter runs nthreads x iters locked increments of key k on scope j of the chain; readers > 0
// adds plain readers/writers.  Returns the recorded sections, the final value, failure text.
func c13Counter(st [][][2]int, j, k, nthreads, iters, readers int, record bool) (sections []c13Section, final int, bad string, hang bool) {
	scopes := c13Build(st)
	sc := scopes[j]
	var recMu sync.Mutex
	var wg sync.WaitGroup
	var stop int32
	var badMu sync.Mutex
	setBad := func(s string) {
		badMu.Lock()
		if bad == "" {
			bad = s
		}
		badMu.Unlock()
	}
	start := make(chan struct{})
	for t := 0; t < nthreads; t++ {
		wg.Add(1)
		go func(t int) {
			defer wg.Done()
			<-start
			for i := 0; i < iters; i++ {
				l := sc.LockData()
				v, ok := c13Int(l.Value(k))
				if !ok || v == c13Marker {
					setBad(fmt.Sprintf("goroutine %d read %v under the lock (another section's unfinished write)", t, l.Value(k)))
				}
				if record {
					recMu.Lock()
					sections = append(sections, c13Section{t, v})
					recMu.Unlock()
				}
				l.SetValue(k, c13Marker)
				if i%64 == 0 {
					time.Sleep(0)
				}
				l.SetValue(k, v+1)
				l.Commit()
			}
		}(t)
	}
	var rg sync.WaitGroup
	for r := 0; r < readers; r++ {
		rg.Add(1)
		go func(r int) {
			defer rg.Done()
			<-start
			last := -1 << 30
			mine := 1000 + r
			for n := 1; atomic.LoadInt32(&stop) == 0; n++ {
				// plain read on the scope (and, through the overlay, from the innermost child)
				var got interface{}
				if r%2 == 0 {
					got = sc.Value(k)
				} else {
					got = scopes[0].Value(k)
				}
				v, ok := c13Int(got)
				if !ok || v == c13Marker {
					setBad(fmt.Sprintf("a plain reader observed %v: a value written inside a locked section before its Commit", got))
					return
				}
				if v < last {
					setBad(fmt.Sprintf("a plain reader observed %d after %d: a committed increment was lost", v, last))
					return
				}
				last = v
				// plain write of another key on the same scope, read back
				sc.SetValue(mine, n)
				if w, _ := c13Int(sc.Value(mine)); w != n {
					setBad(fmt.Sprintf("plain SetValue(%d,%d) was lost: Value = %d", mine, n, w))
					return
				}
			}
		}(r)
	}
	close(start)
	done := make(chan struct{})
	go func() { wg.Wait(); close(done) }()
	select {
	case <-done:
	case <-time.After(30 * time.Second):
		atomic.StoreInt32(&stop, 1)
		return nil, 0, "locked increments did not finish within 30 s", true
	}
	atomic.StoreInt32(&stop, 1)
	rdone := make(chan struct{})
	go func() { rg.Wait(); close(rdone) }()
	select {
	case <-rdone:
	case <-time.After(10 * time.Second):
		return nil, 0, "plain readers did not finish within 10 s", true
	}
	final, _ = c13Int(sc.Value(k))
	return sections, final, bad, false
}

func c13Concurrent(o *Out, rng *RNG, nbig, nsmall int) bool {
	mk := func() ([][][2]int, int, int, int) {
		depth := 1 + rng.Intn(3)
		st := make([][][2]int, depth)
		j := rng.Intn(depth)
		k := 7
		init := 0
		// the key starts in the scope itself, in an ancestor, or nowhere
		switch rng.Intn(3) {
		case 0:
			init = 1 + rng.Intn(40)
			st[j] = append(st[j], [2]int{k, init})
		case 1:
			if j+1 < depth {
				init = 1 + rng.Intn(40)
				a := j + 1 + rng.Intn(depth-j-1)
				st[a] = append(st[a], [2]int{k, init})
			}
		}
		for i := range st {
			if rng.Chance(50) {
				st[i] = append(st[i], [2]int{3, 1 + rng.Intn(9)})
			}
		}
		return st, j, k, init
	}
	for b := 0; b < nbig; b++ {
		st, j, k, init := mk()
		_, final, bad, hang := c13Counter(st, j, k, 8, 2000, 3, false)
		desc := map[string]interface{}{"op": "counter", "chain_child_first": st, "scope": j, "key": k, "goroutines": 8, "iterations": 2000, "initial": init, "final": final}
		o.CountEval(fmt.Sprint("cb:", b, st, j), true)
		o.Stat("counter_8x2000")
		if hang {
			o.Fail("no_hang", bad, "hang", desc)
			return false
		}
		if bad != "" {
			o.Fail("exclusive", bad, "exclusive", desc)
		}
		if final != init+16000 {
			o.Fail("rmw", fmt.Sprintf("8 x 2000 locked increments from %d ended at %d, not %d", init, final, init+16000), "lost-update", desc)
		}
	}
	for b := 0; b < nsmall; b++ {
		st, j, k, init := mk()
		nth, iters := 2+rng.Intn(5), 5+rng.Intn(40)
		sections, final, bad, hang := c13Counter(st, j, k, nth, iters, rng.Intn(2), true)
		desc := map[string]interface{}{"op": "counter-recorded", "chain_child_first": st, "scope": j, "key": k, "goroutines": nth, "iterations": iters, "initial": init, "final": final}
		o.Stat("counter_recorded")
		if hang {
			o.Fail("no_hang", bad, "hang", desc)
			return false
		}
		if bad != "" {
			o.Fail("exclusive", bad, "exclusive", desc)
		}
		if final != init+nth*iters {
			o.Fail("rmw", fmt.Sprintf("%d x %d locked increments from %d ended at %d", nth, iters, init, final), "lost-update", desc)
		}
		ev := make([]string, len(sections))
		for i, s := range sections {
			v := s.V
			if v < 0 {
				v = 0 // the marker cannot be written as N; the L2 oracle above has already failed
			}
			ev[i] = fmt.Sprintf("(%d%%nat, %d)", s.T, v)
		}
		if final < 0 {
			final = 0
		}
		o.AddCase(fmt.Sprintf("CCounter %s %d%%nat %d %d%%nat %d%%nat %s %d", coqChain(st), j, k, nth, iters, coqList(ev), final), desc,
			fmt.Sprint("cs:", st, j, sections), true)
	}
	return true
}

func c13Services(o *Out, rng *RNG, rounds int) {
	tasksUnit := tasks.NewUnit(tasks.UnitDeps{NamespacesUnit: namespaces.NewUnit()})
	envsUnit := &envs.Unit{}
	waitManager := waits.NewWaitManager()
	services := []struct {
		name string
		get  func(scp app.Scope) (interface{}, error)
	}{
		{"tasks.Unit.FromScope", func(scp app.Scope) (interface{}, error) { return tasksUnit.FromScope(scp) }},
		{"envs.Unit.Envs", func(scp app.Scope) (interface{}, error) { return envsUnit.Envs(scp) }},
		{"waits.WaitManager.ForScope", func(scp app.Scope) (interface{}, error) { return waitManager.ForScope(scp) }},
	}
	for r := 0; r < rounds; r++ {
		for _, svc := range services {
			// the scope's data scope is a root or a child of a parent (nobody has an instance yet)
			var ds app.DataScope = datascope.New(map[interface{}]interface{}{})
			child := rng.Chance(40)
			if child {
				ds = datascope.NewChild(ds, map[interface{}]interface{}{})
			}
			scp := scope.New(scope.Params{DataScope: ds})
			const G = 16
			got := make([]interface{}, G)
			errs := make([]error, G)
			var panics int32
			var wg sync.WaitGroup
			var ready, start int32
			for g := 0; g < G; g++ {
				wg.Add(1)
				go func(g int) {
					defer wg.Done()
					defer func() {
						if r := recover(); r != nil {
							atomic.AddInt32(&panics, 1)
						}
					}()
					// spin barrier: all callers enter the service at the same instant
					atomic.AddInt32(&ready, 1)
					for spins := 0; atomic.LoadInt32(&start) == 0; spins++ {
						if spins > 2000 {
							runtime.Gosched()
						}
					}
					got[g], errs[g] = svc.get(scp)
				}(g)
			}
			for w := 0; atomic.LoadInt32(&ready) < G && w < 200000; w++ {
				runtime.Gosched()
			}
			atomic.StoreInt32(&start, 1)
			done := make(chan struct{})
			go func() { wg.Wait(); close(done) }()
			desc := map[string]interface{}{"op": "get-or-create", "service": svc.name, "goroutines": G, "child_scope": child}
			o.CountEval(fmt.Sprint("svc:", svc.name, r), true)
			o.Stat("svc_" + svc.name)
			select {
			case <-done:
			case <-time.After(10 * time.Second):
				o.Fail("no_hang", svc.name+" from 16 goroutines did not return within 10 s", "hang", desc)
				return
			}
			if panics > 0 {
				o.Fail("no_panic", svc.name+" panicked under concurrent use", "panic", desc)
				continue
			}
			distinct := map[interface{}]bool{}
			for g := 0; g < G; g++ {
				if errs[g] != nil || got[g] == nil {
					o.Fail("get_or_create", svc.name+" returned an error / nil instance", "goc-nil", desc)
					break
				}
				distinct[got[g]] = true
			}
			again, _ := svc.get(scp)
			distinct[again] = true
			if len(distinct) != 1 {
				desc["distinct_instances"] = len(distinct)
				o.Fail("get_or_create", fmt.Sprintf("%s handed out %d distinct instances to 16 concurrent callers on one scope", svc.name, len(distinct)), "goc-many", desc)
			}
		}
	}
}

func runC13Child(o *Out, rng *RNG, tier string) {
	o.Imports = "From GC Require Import Common.Base Model.Data Corr.C13."
	o.CaseType = "case"
	o.CheckFn = "check"
	o.ShardSize = 120
	o.Rule = "(1) random chains of depth 1..5 over 6 keys (+1 absent key), histories of 5..34 SetValue/Value/Keys/locker ops on random levels, " +
		"values incl. stored nil — every observation compared with the model, overlay/set-local/Keys oracles after every op; (2) 8 goroutines x 2000 " +
		"locked increments with plain readers and writers (final = initial+16000, no marker seen, no decrease), plus recorded smaller runs replayed " +
		"by the model; (3) the three get-or-create services from 16 goroutines per scope (one instance). Non-trivial: chain depth >= 2; every concurrent run."
	nseq, nbig, nsmall, nsvc := 400, 6, 40, 2500
	if tier == "thorough" {
		nseq, nbig, nsmall, nsvc = 12000, 120, 1500, 60000
	}
	c13Sequential(o, rng, nseq)
	if c13Concurrent(o, rng, nbig, nsmall) {
		c13Services(o, rng, nsvc)
	}
}
