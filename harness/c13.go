package main

// C13 — data scopes (app/scope/datascope).
//
// (1) sequential differential test: random chains of depth 1..5 and a few long ones (9..402 levels,
//     datascope.New / NewChild), random histories of SetValue / Value / Keys and locker operations
//     on random levels: single-operation sections (LockData; op; Commit) and sections kept open over
//     several operations - 40% of them through a nested locker (locker.LockData) - with plain
//     operations on OTHER levels in between; a second child of level 1 made mid-history.  Keys and
//     values are codes; a third of the cases decode them as look-alike Go keys ("a", a named string
//     type holding "a", 1, int64(1), "1", "", nil, an array, a pointer, 4 KiB, non-UTF-8) and as
//     zero values, typed nils and uncomparable values.  Every observation is emitted in a CSeq case
//     for the Coq model.  L2 oracles on the implementation alone, after every operation and for
//     every (scope, key): a scope answers its own binding if it has one, else what its parent
//     answers now (so a SetValue changes nothing in any ancestor or sibling); inside a section the
//     same through the locker; Keys = own keys.
// (2) concurrent.  Forced: a holder keeps a section of scope j open while a plain Value / SetValue
//     (also of nil) / Keys, a second LockData, a Value through the innermost child and the lockers
//     of j's child begin: none is over before the Commit begins, all see the committed state.
//     Free-running: 8 goroutines x 2000 locked increments (lock; read; write marker; add a pair of
//     keys; write v+1; commit) on every position of a chain, with plain readers (must never see the
//     marker, values never decrease), plain writers, key listings (a pair is whole), read-only
//     sections and sections of the child reading through the overlay; the final value must be
//     initial + 16000.  A smaller run records the order of the locked sections with the value read
//     in each and is emitted as a CCounter case (the Coq model must replay it).
// (3) the three real get-or-create services (tasks.Unit.FromScope, envs.Unit.Envs,
//     waits.WaitManager.ForScope) called from 16 goroutines on one scope - a root, a child data
//     scope, a real child scope (scope.NewChild) whose parent has / lacks / concurrently gets an
//     instance: one instance, the parent's untouched; FromScope against concurrent Clear (at most
//     one manager per Clear + 1) and after BindScope (the bound one).
// Everything that may hang runs under a watchdog; the whole run is a child process because a
// broken lock shows up as Go's unrecoverable "concurrent map writes".

import (
	"bytes"
	"fmt"
	"os"
	"os/exec"
	"reflect"
	"runtime"
	"sort"
	"strings"
	"sync"
	"sync/atomic"
	"time"

	"github.com/goatcms/goatcore/app"
	"github.com/goatcms/goatcore/app/modules/commonm/commservices/envs"
	"github.com/goatcms/goatcore/app/modules/commonm/commservices/waits"
	"github.com/goatcms/goatcore/app/modules/pipelinem/pipservices/namespaces"
	"github.com/goatcms/goatcore/app/modules/pipelinem/pipservices/tasks"
	"github.com/goatcms/goatcore/app/scope"
	"github.com/goatcms/goatcore/app/scope/datascope"
)

func init() { runners["C13"] = runC13 }

func runC13(o *Out, rng *RNG, tier string, replay string) {
	if os.Getenv("C13_CHILD") == "1" {
		runC13Child(o, rng, tier)
		return
	}
	cmd := exec.Command(os.Args[0], os.Args[1:]...)
	cmd.Env = append(os.Environ(), "C13_CHILD=1")
	var errb bytes.Buffer
	cmd.Stderr = &errb
	cmd.Stdout = os.Stdout
	if err := cmd.Run(); err == nil {
		os.Exit(0) // the child wrote the shards and result.json
	}
	msg := errb.String()
	first := msg
	if i := strings.IndexByte(first, '\n'); i >= 0 {
		first = first[:i]
	}
	if len(msg) > 3000 {
		msg = msg[:3000]
	}
	o.Rule = "supervisor: the harness child process died"
	o.Stat("child_crash")
	o.CountEval("crash", true)
	o.Fail("no_crash", "the process using the data scope from several goroutines died: "+first, "fatal",
		map[string]interface{}{"op": "concurrent", "stderr": msg, "note": "replay with the same seed"})
}

// ----- keys and values are CODES (the model's N); a universe says which Go key / value a code is.
//
// plain universe: key code n = int(n), value code n = int(n), value code 0 = nil.
// odd universe:   key codes stand for look-alike Go keys ("a", a named string type holding "a",
//                 int 1, int64 1, "1", "", the nil key, an array, a pointer, a 4 KiB string, a
//                 non-UTF-8 string ...): distinct Go map keys, so the model (distinct codes) is the
//                 same; value codes 91.. stand for zero values, typed nils and uncomparable values
//                 (int 0, "", false, (*int)(nil), nil slice / map / func / chan, a slice, a map, a
//                 func): each is "a value the scope has" and must come back as stored.

type c13Str string
type c13Num int
type c13Key struct{ A int }

var (
	c13KeyCell  = 5
	c13PtrCell  = 7
	c13SliceVal = []int{1, 2}
	c13MapVal   = map[string]int{"x": 1}
	c13FuncVal  = func() {}
	c13LongKey  = "a" + strings.Repeat("a", 4096)
)

// index = key code; 0 unused; the last one is never stored (the key nobody has)
var c13OddKeys = []interface{}{
	"unused",
	"a", c13Str("a"), "ab", ".a", "a\x00", c13LongKey, // 1..6  strings that are prefixes / look-alikes of "a"
	1, int64(1), "1", c13Num(1), float64(1), true, [1]int{1}, // 7..13 things that print as 1 / true
	"", nil, "\xff\xfe", &c13KeyCell, c13Key{1}, c13Str(""), uint8(1), // 14..20
	c13Key{2}, // 21: absent
}

const c13OddAbsent = 21

var c13OddKeyCode = func() map[interface{}]int {
	m := map[interface{}]int{}
	for i := 1; i < len(c13OddKeys); i++ {
		if _, dup := m[c13OddKeys[i]]; dup {
			panic("c13: odd key pool is not injective")
		}
		m[c13OddKeys[i]] = i
	}
	return m
}()

const (
	c13VZeroInt = 91 + iota
	c13VEmptyStr
	c13VFalse
	c13VNilPtr
	c13VNilSlice
	c13VSlice
	c13VMap
	c13VFunc
	c13VPtr
	c13VNilFunc
	c13VNilMap
	c13VNilChan
	c13VStruct
	c13VLast
)

type c13Univ struct {
	name    string
	keys    []int // the key codes of this case
	absent  int   // a key code nobody has
	key     func(code int) interface{}
	keyCode func(k interface{}) (int, bool)
	val     func(code int) interface{}
	valCode func(v interface{}) (int, bool)
	draw    func(rng *RNG) int // a value code to store
}

func c13Val(v int) interface{} {
	if v == 0 {
		return nil
	}
	return v
}
func c13Int(v interface{}) (int, bool) {
	if v == nil {
		return 0, true
	}
	n, ok := v.(int)
	return n, ok
}

func c13PlainU() *c13Univ {
	return &c13Univ{
		name: "plain", keys: []int{1, 2, 3, 4, 5, 6}, absent: 9,
		key: func(c int) interface{} { return c },
		keyCode: func(k interface{}) (int, bool) {
			n, ok := k.(int)
			return n, ok
		},
		val:     c13Val,
		valCode: c13Int,
		draw: func(rng *RNG) int {
			if rng.Chance(7) {
				return 0
			}
			return 1 + rng.Intn(90)
		},
	}
}

func c13OddVal(c int) interface{} {
	switch c {
	case 0:
		return nil
	case c13VZeroInt:
		return 0
	case c13VEmptyStr:
		return ""
	case c13VFalse:
		return false
	case c13VNilPtr:
		return (*int)(nil)
	case c13VNilSlice:
		return []int(nil)
	case c13VSlice:
		return c13SliceVal
	case c13VMap:
		return c13MapVal
	case c13VFunc:
		return c13FuncVal
	case c13VPtr:
		return &c13PtrCell
	case c13VNilFunc:
		return (func())(nil)
	case c13VNilMap:
		return map[string]int(nil)
	case c13VNilChan:
		return (chan int)(nil)
	case c13VStruct:
		return struct{}{}
	}
	return c
}

func c13OddValCode(v interface{}) (int, bool) {
	switch x := v.(type) {
	case nil:
		return 0, true
	case int:
		if x == 0 {
			return c13VZeroInt, true
		}
		return x, x >= 1 && x <= 90
	case string:
		return c13VEmptyStr, x == ""
	case bool:
		return c13VFalse, !x
	case *int:
		if x == nil {
			return c13VNilPtr, true
		}
		return c13VPtr, x == &c13PtrCell
	case []int:
		if x == nil {
			return c13VNilSlice, true
		}
		return c13VSlice, len(x) == 2 && &x[0] == &c13SliceVal[0]
	case map[string]int:
		if x == nil {
			return c13VNilMap, true
		}
		return c13VMap, reflect.ValueOf(x).Pointer() == reflect.ValueOf(c13MapVal).Pointer()
	case func():
		if x == nil {
			return c13VNilFunc, true
		}
		return c13VFunc, reflect.ValueOf(x).Pointer() == reflect.ValueOf(c13FuncVal).Pointer()
	case chan int:
		return c13VNilChan, x == nil
	case struct{}:
		return c13VStruct, true
	}
	return 0, false
}

// c13OddU draws 6 key codes: one of the two look-alike clusters or a random selection.
func c13OddU(rng *RNG) *c13Univ {
	var keys []int
	switch rng.Intn(3) {
	case 0:
		keys = []int{1, 2, 3, 4, 5, 6}
	case 1:
		keys = []int{7, 8, 9, 10, 11, 12}
		keys[rng.Intn(6)] = 13 + rng.Intn(8)
	default:
		perm := make([]int, c13OddAbsent-1)
		for i := range perm {
			perm[i] = i + 1
		}
		for i := len(perm) - 1; i > 0; i-- {
			j := rng.Intn(i + 1)
			perm[i], perm[j] = perm[j], perm[i]
		}
		keys = perm[:6]
	}
	// one special value is drawn again and again: the same zero / typed-nil / uncomparable value
	// is stored over itself, in a child over its parent, through a locker and plainly
	fav := c13VZeroInt + rng.Intn(c13VLast-c13VZeroInt)
	return &c13Univ{
		name: "odd", keys: keys, absent: c13OddAbsent,
		key: func(c int) interface{} { return c13OddKeys[c] },
		keyCode: func(k interface{}) (int, bool) {
			defer func() { recover() }() // an unhashable key that was never stored
			c, ok := c13OddKeyCode[k]
			return c, ok
		},
		val:     c13OddVal,
		valCode: c13OddValCode,
		draw: func(rng *RNG) int {
			switch r := rng.Intn(100); {
			case r < 6:
				return 0
			case r < 30:
				return fav
			case r < 55:
				return c13VZeroInt + rng.Intn(c13VLast-c13VZeroInt)
			}
			return 1 + rng.Intn(90)
		},
	}
}

type c13Op struct {
	Kind string // set get keys lset lget lkeys
	J    int
	K, V int
}

func c13KeysOf(u *c13Univ, ks []interface{}) ([]int, bool) {
	out := make([]int, 0, len(ks))
	for _, k := range ks {
		n, ok := u.keyCode(k)
		if !ok {
			return nil, false
		}
		out = append(out, n)
	}
	sort.Ints(out)
	return out, true
}

func coqNList(l []int) string {
	items := make([]string, len(l))
	for i, n := range l {
		items[i] = fmt.Sprint(n)
	}
	return coqList(items)
}

func coqChain(st [][][2]int) string {
	maps := make([]string, len(st))
	for i, m := range st {
		items := make([]string, len(m))
		for j, kv := range m {
			items[j] = fmt.Sprintf("(%d, %d)", kv[0], kv[1])
		}
		maps[i] = coqList(items)
	}
	return coqList(maps)
}

// c13Build builds the chain: level 0 = innermost child ... last level = root.
func c13Build(u *c13Univ, st [][][2]int) []app.DataScope {
	d := len(st)
	scopes := make([]app.DataScope, d)
	for i := d - 1; i >= 0; i-- {
		m := map[interface{}]interface{}{}
		for _, kv := range st[i] {
			m[u.key(kv[0])] = u.val(kv[1])
		}
		if i == d-1 {
			scopes[i] = datascope.New(m)
		} else {
			scopes[i] = datascope.NewChild(scopes[i+1], m)
		}
	}
	return scopes
}

type c13Shadow []map[int]int

func (s c13Shadow) value(j, k int) int {
	for i := j; i < len(s); i++ {
		if v, ok := s[i][k]; ok {
			return v
		}
	}
	return 0
}

func c13OwnKeys(m map[int]int) []int {
	own := make([]int, 0, len(m))
	for k := range m {
		own = append(own, k)
	}
	sort.Ints(own)
	return own
}

func c13Guard(f func()) (kind string) {
	done := make(chan string, 1)
	go func() {
		defer func() {
			if r := recover(); r != nil {
				done <- fmt.Sprint("panic: ", r)
			}
		}()
		f()
		done <- "ok"
	}()
	select {
	case k := <-done:
		return k
	case <-time.After(5 * time.Second):
		return "hang"
	}
}

// an open locked section of the sequential generator: the locker of level J is kept over several
// operations (nested: the operations go through a locker taken FROM that locker)
type c13Sec struct {
	J     int
	l     app.DataScopeLocker
	outer app.DataScopeLocker
	left  int
}

var c13DeepDepths = []int{9, 17, 33, 70, 150, 400}

func c13Sequential(o *Out, rng *RNG, n int) {
	for c := 0; c < n; c++ {
		u := c13PlainU()
		if c%3 == 1 {
			u = c13OddU(rng)
		}
		keyPool := u.keys
		allKeys := append(append([]int{}, keyPool...), u.absent)
		depth := 1 + rng.Intn(5)
		deep := c%25 == 7
		if deep { // the quantifier says ANY depth: a few long chains, sparsely populated
			depth = c13DeepDepths[(c/25)%len(c13DeepDepths)] + rng.Intn(3)
		}
		st := make([][][2]int, depth)
		shadow := make(c13Shadow, depth)
		for i := range st {
			shadow[i] = map[int]int{}
			pct := 30
			if deep {
				pct = 3
				if i == depth-1 {
					pct = 70
				}
			}
			for _, k := range keyPool {
				if rng.Chance(pct) {
					v := u.draw(rng)
					st[i] = append(st[i], [2]int{k, v})
					shadow[i][k] = v
				}
			}
		}
		scopes := c13Build(u, st)
		nops := 5 + rng.Intn(30)
		var opsCoq, obsCoq []string
		var trace []string
		bad := ""
		kind := "ok"
		var sec *c13Sec
		// a second child of level 1 (a sibling of level 0), made in the middle of the history
		var sib app.DataScope
		sibShadow := map[int]int{}
		sibAt := -1
		if depth >= 2 && rng.Chance(35) {
			sibAt = rng.Intn(nops)
		}
		pickLevel := func() int {
			if deep && rng.Chance(60) { // the two ends of a long chain
				if rng.Bool() {
					return 0
				}
				return depth - 1
			}
			return rng.Intn(depth)
		}
		// everything a caller can see now, against the plain reading of the property
		lastSet := -1 // level of the SetValue just made
		sweep := func() {
			for j := depth - 1; j >= 0 && bad == ""; j-- {
				if depth > 12 && j > 2 && j < depth-3 && j != depth/2 && (lastSet < 0 || j < lastSet-1 || j > lastSet+1) {
					continue // long chain: both ends, the middle, and around the last write
				}
				for _, k := range allKeys {
					got, ok := u.valCode(scopes[j].Value(u.key(k)))
					if want := shadow.value(j, k); got != want || !ok {
						bad = fmt.Sprintf("level %d Value(key#%d) = value#%d, but the first binding walking up from level %d is value#%d", j, k, got, j, want)
						if lastSet >= 0 && j > lastSet {
							bad = fmt.Sprintf("after a SetValue on level %d (a descendant): ", lastSet) + bad
						}
						break
					}
				}
				ks, _ := c13KeysOf(u, scopes[j].Keys())
				if own := c13OwnKeys(shadow[j]); fmt.Sprint(ks) != fmt.Sprint(own) && bad == "" {
					bad = fmt.Sprintf("level %d Keys() = %v, own keys are %v", j, ks, own)
				}
			}
			if sib != nil && bad == "" {
				for _, k := range allKeys {
					want, own := sibShadow[k]
					if !own {
						want = shadow.value(1, k)
					}
					if got, ok := u.valCode(sib.Value(u.key(k))); got != want || !ok {
						bad = fmt.Sprintf("a second child of level 1 answers value#%d for key#%d; its own binding, else what level 1 answers, is value#%d", got, k, want)
						break
					}
				}
				ks, _ := c13KeysOf(u, sib.Keys())
				if own := c13OwnKeys(sibShadow); fmt.Sprint(ks) != fmt.Sprint(own) && bad == "" {
					bad = fmt.Sprintf("second child of level 1: Keys() = %v, own keys are %v", ks, own)
				}
			}
		}
		// what the holder of an open section can see through its locker
		secSweep := func() {
			for _, k := range allKeys {
				got, ok := u.valCode(sec.l.Value(u.key(k)))
				if want := shadow.value(sec.J, k); got != want || !ok {
					bad = fmt.Sprintf("inside a locked section of level %d the locker's Value(key#%d) = value#%d; own binding else the parent's current answer is value#%d", sec.J, k, got, want)
					return
				}
			}
			ks, _ := c13KeysOf(u, sec.l.Keys())
			if own := c13OwnKeys(shadow[sec.J]); fmt.Sprint(ks) != fmt.Sprint(own) {
				bad = fmt.Sprintf("inside a locked section of level %d the locker's Keys() = %v, own keys are %v", sec.J, ks, own)
			}
		}
		closeSec := func() {
			kind = c13Guard(func() {
				sec.l.Commit()
				if sec.outer != nil {
					// the outer locker works again once the nested one is committed
					got, ok := u.valCode(sec.outer.Value(u.key(keyPool[0])))
					if want := shadow.value(sec.J, keyPool[0]); got != want || !ok {
						bad = fmt.Sprintf("after the nested locker's Commit the outer locker of level %d reads value#%d for key#%d, expected value#%d", sec.J, got, keyPool[0], want)
					}
					sec.outer.Commit()
				}
			})
			trace = append(trace, fmt.Sprintf("commit(%d)", sec.J))
			sec = nil
		}
		for i := 0; i < nops && kind == "ok" && bad == ""; i++ {
			if i == sibAt && sec == nil {
				sib = datascope.NewChild(scopes[1], map[interface{}]interface{}{})
				trace = append(trace, "second-child-of-level-1")
				o.Stat("seq_sibling")
			}
			if sib != nil && sec == nil && rng.Chance(15) {
				k, v, plain := keyPool[rng.Intn(len(keyPool))], u.draw(rng), rng.Bool()
				lastSet = -1
				kind = c13Guard(func() {
					if plain {
						sib.SetValue(u.key(k), u.val(v))
					} else {
						l := sib.LockData()
						l.SetValue(u.key(k), u.val(v))
						l.Commit()
					}
				})
				sibShadow[k] = v
				trace = append(trace, fmt.Sprintf("sibling-set(%d,%d)", k, v))
				if kind == "ok" {
					if g := c13Guard(sweep); g != "ok" {
						kind = g
					}
				}
				continue
			}
			if sec == nil && rng.Chance(9) {
				sec = &c13Sec{J: pickLevel(), left: 2 + rng.Intn(5)}
				nested := rng.Chance(40)
				kind = c13Guard(func() {
					sec.l = scopes[sec.J].LockData()
					if nested {
						sec.outer = sec.l
						sec.l = sec.outer.LockData()
					}
				})
				trace = append(trace, fmt.Sprintf("lock(%d,nested=%v)", sec.J, nested))
				o.Stat("seq_section")
				if nested {
					o.Stat("seq_section_nested")
				}
				if kind != "ok" {
					break
				}
			}
			op := c13Op{J: pickLevel(), K: keyPool[rng.Intn(len(keyPool))]}
			if rng.Chance(5) {
				op.K = u.absent // a key nobody has
			}
			switch r := rng.Intn(100); {
			case r < 30:
				op.Kind = "set"
			case r < 60:
				op.Kind = "get"
			case r < 68:
				op.Kind = "keys"
			case r < 82:
				op.Kind = "lset"
			case r < 94:
				op.Kind = "lget"
			default:
				op.Kind = "lkeys"
			}
			inSec := false // the operation goes through the open section's locker
			if sec != nil {
				// while level J is locked by us: locker operations on J; plain writes on any other
				// level; plain reads only ABOVE J (a read below J may have to wait for J's lock)
				switch r := rng.Intn(100); {
				case r < 80 || depth == 1:
					op.J, inSec = sec.J, true
					op.Kind = []string{"lset", "lset", "lget", "lget", "lkeys"}[rng.Intn(5)]
				case r < 90:
					op.Kind = "set"
					for op.J == sec.J {
						op.J = rng.Intn(depth)
					}
				default:
					if sec.J == depth-1 {
						op.J, inSec, op.Kind = sec.J, true, "lget"
					} else {
						op.J = sec.J + 1 + rng.Intn(depth-1-sec.J)
						op.Kind = []string{"set", "get", "keys"}[rng.Intn(3)]
					}
				}
			}
			if op.Kind == "set" || op.Kind == "lset" {
				op.V = u.draw(rng)
			}
			o.Stat("seq_" + op.Kind)
			if inSec {
				o.Stat("seq_in_section")
			}
			var obs string
			kind = c13Guard(func() {
				var sc app.DataScope = scopes[op.J]
				var lk app.DataScopeLocker
				if strings.HasPrefix(op.Kind, "l") {
					if inSec {
						lk = sec.l
					} else {
						lk = sc.LockData()
					}
				}
				switch op.Kind {
				case "set":
					sc.SetValue(u.key(op.K), u.val(op.V))
					obs = "SNone"
				case "get":
					v, ok := u.valCode(sc.Value(u.key(op.K)))
					if !ok {
						bad = "Value returned something that was never stored"
					}
					obs = fmt.Sprintf("(SVal %d)", v)
				case "keys":
					ks, ok := c13KeysOf(u, sc.Keys())
					if !ok {
						bad = "Keys returned a key that was never stored"
					}
					obs = fmt.Sprintf("(SKeyset %s)", coqNList(ks))
				case "lset":
					lk.SetValue(u.key(op.K), u.val(op.V))
					obs = "SNone"
				case "lget":
					v, ok := u.valCode(lk.Value(u.key(op.K)))
					if !ok {
						bad = "locker.Value returned something that was never stored"
					}
					obs = fmt.Sprintf("(SVal %d)", v)
				case "lkeys":
					ks, ok := c13KeysOf(u, lk.Keys())
					if !ok {
						bad = "locker.Keys returned a key that was never stored"
					}
					obs = fmt.Sprintf("(SKeyset %s)", coqNList(ks))
				}
				if lk != nil && !inSec {
					lk.Commit()
				}
			})
			if kind != "ok" {
				trace = append(trace, fmt.Sprintf("%s(%d,%d,%d)->%s", op.Kind, op.J, op.K, op.V, kind))
				break
			}
			lastSet = -1
			switch op.Kind {
			case "set", "lset":
				shadow[op.J][op.K] = op.V
				lastSet = op.J
				opsCoq = append(opsCoq, fmt.Sprintf("%s %d%%nat %d %d", map[string]string{"set": "SSet", "lset": "SLSet"}[op.Kind], op.J, op.K, op.V))
			case "get", "lget":
				opsCoq = append(opsCoq, fmt.Sprintf("%s %d%%nat %d", map[string]string{"get": "SGet", "lget": "SLGet"}[op.Kind], op.J, op.K))
			default:
				opsCoq = append(opsCoq, fmt.Sprintf("%s %d%%nat", map[string]string{"keys": "SKeys", "lkeys": "SLKeys"}[op.Kind], op.J))
			}
			obsCoq = append(obsCoq, obs)
			trace = append(trace, fmt.Sprintf("%s(%d,%d,%d)->%s", op.Kind, op.J, op.K, op.V, obs))
			if bad != "" {
				break
			}
			// L2 after every op
			if sec != nil {
				if g := c13Guard(secSweep); g != "ok" {
					kind = g
					break
				}
				if sec.left--; sec.left <= 0 && bad == "" {
					closeSec()
				}
			}
			if sec == nil && kind == "ok" && bad == "" {
				if g := c13Guard(sweep); g != "ok" {
					kind = g
				}
			}
		}
		if sec != nil && kind == "ok" && bad == "" {
			closeSec()
			if kind == "ok" && bad == "" {
				if g := c13Guard(sweep); g != "ok" {
					kind = g
				}
			}
		}
		desc := map[string]interface{}{"op": "seq", "universe": u.name, "key_codes": keyPool, "chain_child_first": st, "history": trace}
		if deep {
			desc["chain_child_first"] = fmt.Sprintf("depth %d (sparse), root = %v", depth, st[depth-1])
		}
		key := fmt.Sprint("q:", u.name, keyPool, st, trace)
		if deep {
			o.Stat("seq_depth_deep")
		} else {
			o.Stat(fmt.Sprintf("seq_depth_%d", depth))
		}
		o.Stat("seq_universe_" + u.name)
		if kind != "ok" {
			cls := kind
			if strings.HasPrefix(kind, "panic") {
				cls = "panic"
			}
			o.Stat("seq_" + cls)
			desc["ended_in"] = kind
			o.Fail("no_"+cls, "a data scope operation ended in "+kind, cls, desc)
			o.CountEval(key, true)
			continue
		}
		if bad != "" {
			o.Fail("overlay", bad, "overlay", desc)
		}
		o.AddCase(fmt.Sprintf("CSeq %s %s %s", coqChain(st), coqList(opsCoq), coqList(obsCoq)), desc, key, depth >= 2)
	}
}

const c13Marker = -1

// keys of the concurrent runs: the counter, the plain writers' keys 1000+r, and PAIRS of fresh
// keys (c13PairBase+2n, +2n+1) that a locked section adds together
const c13PairBase = 100000

type c13Section struct {
	T, V int
}

// c13PairsWhole: a listing taken by anybody else shows both keys of a pair or none.
func c13PairsWhole(ks []interface{}) string {
	seen := map[int]bool{}
	for _, k := range ks {
		if n, ok := k.(int); ok && n >= c13PairBase {
			seen[n] = true
		}
	}
	for n := range seen {
		if !seen[n^1] {
			return fmt.Sprintf("a key listing shows key %d without key %d: both are added inside ONE locked section", n, n^1)
		}
	}
	return ""
}

// c13Counter runs nthreads x iters locked increments of key k on scope j of the chain; readers > 0
// adds other goroutines, by r%5: 0 plain reader+writer on the scope, 1 plain reader through the
// innermost child, 2 key listings (plain and under the lock), 3 a locked section of the scope's
// CHILD reading k through the overlay (every second time through a nested locker), 4 a read-only
// locked section on the scope itself.  Returns the recorded sections, the final value, failure text.
func c13Counter(st [][][2]int, j, k, nthreads, iters, readers int, record bool) (sections []c13Section, final int, bad string, hang bool) {
	scopes := c13Build(c13PlainU(), st)
	sc := scopes[j]
	var recMu sync.Mutex
	var wg sync.WaitGroup
	var stop int32
	var badMu sync.Mutex
	setBad := func(s string) {
		badMu.Lock()
		if bad == "" {
			bad = s
		}
		badMu.Unlock()
	}
	start := make(chan struct{})
	for t := 0; t < nthreads; t++ {
		wg.Add(1)
		go func(t int) {
			defer wg.Done()
			<-start
			for i := 0; i < iters; i++ {
				l := sc.LockData()
				v, ok := c13Int(l.Value(k))
				if !ok || v == c13Marker {
					setBad(fmt.Sprintf("goroutine %d read %v under the lock (another section's unfinished write)", t, l.Value(k)))
				}
				w0 := l.Value(1000) // the key a plain writer keeps writing
				if record {
					recMu.Lock()
					sections = append(sections, c13Section{t, v})
					recMu.Unlock()
				}
				l.SetValue(k, c13Marker)
				pair := i%8 == 0
				if pair {
					l.SetValue(c13PairBase+2*(t*iters+i), 1)
				}
				if i%8 == 4 {
					runtime.Gosched()
				}
				if i%250 == 125 {
					time.Sleep(20 * time.Microsecond) // now and then the section stays open for a while
				}
				if pair {
					l.SetValue(c13PairBase+2*(t*iters+i)+1, 1)
				}
				if own, _ := c13Int(l.Value(k)); own != c13Marker {
					setBad(fmt.Sprintf("goroutine %d wrote the marker under the lock and reads %v back before its Commit", t, l.Value(k)))
				}
				if w1 := l.Value(1000); w1 != w0 {
					setBad(fmt.Sprintf("a plain SetValue(1000, ..) of another goroutine took effect inside a locked section: %v then %v", w0, w1))
				}
				l.SetValue(k, v+1)
				l.Commit()
			}
		}(t)
	}
	var rg sync.WaitGroup
	for r := 0; r < readers; r++ {
		rg.Add(1)
		go func(r int) {
			defer rg.Done()
			<-start
			last := -1 << 30
			mine := 1000 + r
			for n := 1; atomic.LoadInt32(&stop) == 0; n++ {
				var got interface{}
				how := "a plain reader"
				switch kind := r % 5; {
				case kind == 0:
					got = sc.Value(k)
				case kind == 1:
					got = scopes[0].Value(k) // through the overlay, from the innermost child
				case kind == 2:
					how = "a reader after a key listing"
					ks := sc.Keys()
					if n%2 == 0 {
						l := sc.LockData()
						ks = l.Keys()
						l.Commit()
					}
					if s := c13PairsWhole(ks); s != "" {
						setBad(s)
						return
					}
					if n%4 == 1 {
						scopes[0].Keys()
					}
					got = sc.Value(k)
				case kind == 3 && j > 0:
					// nobody below the scope owns k: the child's locker reads it from the scope
					how = "a locked section of the scope's child, reading through the overlay,"
					l := scopes[j-1].LockData()
					if n%2 == 0 {
						l2 := l.LockData()
						got = l2.Value(k)
						l2.Commit()
					} else {
						got = l.Value(k)
					}
					l.Commit()
				default:
					how = "a read-only locked section"
					l := sc.LockData()
					got = l.Value(k)
					runtime.Gosched()
					if again := l.Value(k); again != got {
						l.Commit()
						setBad(fmt.Sprintf("a read-only locked section read %v and then %v: somebody's write took effect inside it", got, again))
						return
					}
					l.Commit()
				}
				v, ok := c13Int(got)
				if !ok || v == c13Marker {
					setBad(fmt.Sprintf("%s observed %v: a value written inside a locked section before its Commit", how, got))
					return
				}
				if v < last {
					setBad(fmt.Sprintf("%s observed %d after %d: a committed increment was lost", how, v, last))
					return
				}
				last = v
				if r%5 > 1 {
					continue
				}
				// plain write of another key on the same scope, read back
				sc.SetValue(mine, n)
				if w, _ := c13Int(sc.Value(mine)); w != n {
					setBad(fmt.Sprintf("plain SetValue(%d,%d) was lost: Value = %d", mine, n, w))
					return
				}
			}
		}(r)
	}
	close(start)
	done := make(chan struct{})
	go func() { wg.Wait(); close(done) }()
	select {
	case <-done:
	case <-time.After(30 * time.Second):
		atomic.StoreInt32(&stop, 1)
		return nil, 0, "locked increments did not finish within 30 s", true
	}
	atomic.StoreInt32(&stop, 1)
	rdone := make(chan struct{})
	go func() { rg.Wait(); close(rdone) }()
	select {
	case <-rdone:
	case <-time.After(10 * time.Second):
		return nil, 0, "plain readers did not finish within 10 s", true
	}
	final, _ = c13Int(sc.Value(k))
	if s := c13PairsWhole(sc.Keys()); s != "" && bad == "" {
		bad = s
	}
	return sections, final, bad, false
}

// c13Forced: the schedule of the exclusion clause, forced.  One goroutine takes the data lock of
// scope j, writes, and only THEN lets the others go - a plain Value on the scope, a Value through
// the innermost child, a locked section of the scope's child reading through the overlay (plain and
// through a nested locker), LockData, a plain SetValue, Keys, locker Keys.  It keeps the section
// open for a moment, writes again and commits.  Every one of the others began after the lock was
// taken, so none of them may be over before the Commit begins and each must see the committed state.
func c13Forced(o *Out, rng *RNG, rounds int) bool {
	const k, wkey, nkey, pairA, pairB = 7, 1000, 1001, c13PairBase, c13PairBase + 1
	for n := 0; n < rounds; n++ {
		depth, j := c13CounterShapes[n%len(c13CounterShapes)][0], c13CounterShapes[n%len(c13CounterShapes)][1]
		st := make([][][2]int, depth)
		init := 0
		switch rng.Intn(3) {
		case 0:
			init = 1 + rng.Intn(40)
			st[j] = append(st[j], [2]int{k, init})
		case 1:
			if j+1 < depth {
				init = 1 + rng.Intn(40)
				st[j+1+rng.Intn(depth-j-1)] = [][2]int{{k, init}}
			}
		}
		scopes := c13Build(c13PlainU(), st)
		sc := scopes[j]
		final := 50 + rng.Intn(40)
		type observer struct {
			name string
			run  func() string
		}
		wantVal := func(how string, got interface{}) string {
			if v, ok := c13Int(got); !ok || v != final {
				return fmt.Sprintf("%s, begun while another goroutine held the scope's data lock, answered %v; the section went from %d over %d to %d", how, got, init, c13Marker, final)
			}
			return ""
		}
		wantKeys := func(how string, ks []interface{}) string {
			have := map[interface{}]bool{}
			for _, x := range ks {
				have[x] = true
			}
			if !have[k] || !have[pairA] || !have[pairB] {
				return fmt.Sprintf("%s, begun while another goroutine held the scope's data lock, lists %v: the section added %d, %d and %d", how, ks, k, pairA, pairB)
			}
			return ""
		}
		obs := []observer{
			{"plain Value", func() string { return wantVal("a plain Value", sc.Value(k)) }},
			{"LockData", func() string {
				l := sc.LockData()
				got := l.Value(k)
				l.Commit()
				return wantVal("a second LockData", got)
			}},
			{"plain SetValue", func() string { sc.SetValue(wkey, 77); return "" }},
			{"plain SetValue of nil", func() string { sc.SetValue(nkey, nil); return "" }},
			{"Keys", func() string { return wantKeys("a plain Keys", sc.Keys()) }},
			{"locker Keys", func() string {
				l := sc.LockData()
				ks := l.Keys()
				l.Commit()
				return wantKeys("Keys of a second LockData", ks)
			}},
		}
		if j > 0 {
			obs = append(obs,
				observer{"Value through the innermost child", func() string {
					return wantVal("a Value through the innermost child", scopes[0].Value(k))
				}},
				observer{"child's locked section", func() string {
					l := scopes[j-1].LockData()
					got := l.Value(k)
					l.Commit()
					return wantVal("a locked section of the scope's child, reading through the overlay", got)
				}},
				observer{"child's nested locker", func() string {
					l := scopes[j-1].LockData()
					l2 := l.LockData()
					got := l2.Value(k)
					l2.Commit()
					l.Commit()
					return wantVal("a nested locker of the scope's child, reading through the overlay", got)
				}})
		}
		desc := map[string]interface{}{"op": "forced-section", "chain_child_first": st, "scope": j, "key": k, "initial": init, "final": final}
		o.CountEval(fmt.Sprint("forced:", n, st, j), true)
		o.Stat("forced_section")
		var bad []string
		var started, committing, early int32
		res := make([]string, len(obs))
		var wg sync.WaitGroup
		kind := c13Guard(func() {
			l := sc.LockData()
			l.SetValue(k, c13Marker)
			l.SetValue(pairA, 1)
			l.SetValue(nkey, 5)
			w0 := l.Value(wkey)
			for i := range obs {
				wg.Add(1)
				go func(i int) {
					defer wg.Done()
					defer func() {
						if r := recover(); r != nil {
							res[i] = fmt.Sprint(obs[i].name, " panicked: ", r)
						}
					}()
					atomic.AddInt32(&started, 1)
					res[i] = obs[i].run()
					if atomic.LoadInt32(&committing) == 0 {
						atomic.AddInt32(&early, 1)
						res[i] = obs[i].name + " of another goroutine was over while the data lock taken before it was still held; " + res[i]
					}
				}(i)
			}
			for w := 0; atomic.LoadInt32(&started) < int32(len(obs)) && w < 200000; w++ {
				runtime.Gosched()
			}
			time.Sleep(time.Duration(300+rng.Intn(1500)) * time.Microsecond)
			if w1 := l.Value(wkey); w1 != w0 {
				bad = append(bad, fmt.Sprintf("a plain SetValue(%d, 77) of another goroutine took effect inside the locked section: the holder read %v, then %v", wkey, w0, w1))
			}
			if got, _ := c13Int(l.Value(nkey)); got != 5 {
				bad = append(bad, fmt.Sprintf("a plain SetValue(%d, nil) of another goroutine took effect inside the locked section: the holder wrote 5 and reads %v", nkey, l.Value(nkey)))
			}
			if got, _ := c13Int(l.Value(k)); got != c13Marker {
				bad = append(bad, fmt.Sprintf("the holder wrote %d under the lock and reads %v before its Commit", c13Marker, l.Value(k)))
			}
			l.SetValue(pairB, 1)
			l.SetValue(k, final)
			atomic.StoreInt32(&committing, 1)
			l.Commit()
		})
		if kind == "ok" {
			kind = c13Guard(wg.Wait)
		}
		if kind != "ok" {
			o.Fail("no_hang", "a forced locked section with waiting readers / writers ended in "+kind, "hang", desc)
			return false
		}
		for _, r := range res {
			if r != "" {
				bad = append(bad, r)
			}
		}
		if w, _ := c13Int(sc.Value(wkey)); w != 77 {
			bad = append(bad, fmt.Sprintf("the plain SetValue(%d, 77) made during the section is lost after it: Value = %v", wkey, sc.Value(wkey)))
		}
		if w := sc.Value(nkey); w != nil {
			bad = append(bad, fmt.Sprintf("the plain SetValue(%d, nil) made during the section is lost after it: Value = %v", nkey, w))
		}
		if len(bad) > 0 {
			desc["all"] = bad
			o.Fail("exclusive", bad[0], "exclusive", desc)
		}
	}
	return true
}

// every position of the locked scope in a chain: alone, root with a child, leaf, middle, ...
var c13CounterShapes = [][2]int{{1, 0}, {2, 1}, {2, 0}, {3, 1}, {3, 2}, {3, 0}}

func c13Concurrent(o *Out, rng *RNG, nbig, nsmall int) bool {
	mk := func(n int) ([][][2]int, int, int, int) {
		depth, j := c13CounterShapes[n%len(c13CounterShapes)][0], c13CounterShapes[n%len(c13CounterShapes)][1]
		st := make([][][2]int, depth)
		k := 7
		init := 0
		// the key starts in the scope itself, in an ancestor, or nowhere
		switch rng.Intn(3) {
		case 0:
			init = 1 + rng.Intn(40)
			st[j] = append(st[j], [2]int{k, init})
		case 1:
			if j+1 < depth {
				init = 1 + rng.Intn(40)
				a := j + 1 + rng.Intn(depth-j-1)
				st[a] = append(st[a], [2]int{k, init})
			}
		}
		for i := range st {
			if rng.Chance(50) {
				st[i] = append(st[i], [2]int{3, 1 + rng.Intn(9)})
			}
		}
		return st, j, k, init
	}
	for b := 0; b < nbig; b++ {
		st, j, k, init := mk(b)
		_, final, bad, hang := c13Counter(st, j, k, 8, 2000, 10, false)
		desc := map[string]interface{}{"op": "counter", "chain_child_first": st, "scope": j, "key": k, "goroutines": 8, "iterations": 2000, "others": 10, "initial": init, "final": final}
		o.CountEval(fmt.Sprint("cb:", b, st, j), true)
		o.Stat("counter_8x2000")
		o.Stat(fmt.Sprintf("counter_depth%d_scope%d", len(st), j))
		if hang {
			o.Fail("no_hang", bad, "hang", desc)
			return false
		}
		if bad != "" {
			o.Fail("exclusive", bad, "exclusive", desc)
		}
		if final != init+16000 {
			o.Fail("rmw", fmt.Sprintf("8 x 2000 locked increments from %d ended at %d, not %d", init, final, init+16000), "lost-update", desc)
		}
	}
	for b := 0; b < nsmall; b++ {
		st, j, k, init := mk(rng.Intn(len(c13CounterShapes)))
		nth, iters := 2+rng.Intn(5), 5+rng.Intn(40)
		others := 5 * rng.Intn(2)
		sections, final, bad, hang := c13Counter(st, j, k, nth, iters, others, true)
		desc := map[string]interface{}{"op": "counter-recorded", "chain_child_first": st, "scope": j, "key": k, "goroutines": nth, "iterations": iters, "others": others, "initial": init, "final": final}
		o.Stat("counter_recorded")
		if hang {
			o.Fail("no_hang", bad, "hang", desc)
			return false
		}
		if bad != "" {
			o.Fail("exclusive", bad, "exclusive", desc)
		}
		if final != init+nth*iters {
			o.Fail("rmw", fmt.Sprintf("%d x %d locked increments from %d ended at %d", nth, iters, init, final), "lost-update", desc)
		}
		ev := make([]string, len(sections))
		for i, s := range sections {
			v := s.V
			if v < 0 {
				v = 0 // the marker cannot be written as N; the L2 oracle above has already failed
			}
			ev[i] = fmt.Sprintf("(%d%%nat, %d)", s.T, v)
		}
		if final < 0 {
			final = 0
		}
		o.AddCase(fmt.Sprintf("CCounter %s %d%%nat %d %d%%nat %d%%nat %s %d", coqChain(st), j, k, nth, iters, coqList(ev), final), desc,
			fmt.Sprint("cs:", st, j, sections), true)
	}
	return true
}

// c13Race starts G goroutines at the same instant (spin barrier) and waits for them.
func c13Race(G int, f func(g int)) (panics int32, hang bool) {
	var wg sync.WaitGroup
	var ready, start int32
	for g := 0; g < G; g++ {
		wg.Add(1)
		go func(g int) {
			defer wg.Done()
			defer func() {
				if r := recover(); r != nil {
					atomic.AddInt32(&panics, 1)
				}
			}()
			atomic.AddInt32(&ready, 1)
			for spins := 0; atomic.LoadInt32(&start) == 0; spins++ {
				if spins > 2000 {
					runtime.Gosched()
				}
			}
			f(g)
		}(g)
	}
	for w := 0; atomic.LoadInt32(&ready) < int32(G) && w < 200000; w++ {
		runtime.Gosched()
	}
	atomic.StoreInt32(&start, 1)
	done := make(chan struct{})
	go func() { wg.Wait(); close(done) }()
	select {
	case <-done:
		return atomic.LoadInt32(&panics), false
	case <-time.After(10 * time.Second):
		return 0, true
	}
}

func c13Services(o *Out, rng *RNG, rounds int) {
	tasksUnit := tasks.NewUnit(tasks.UnitDeps{NamespacesUnit: namespaces.NewUnit()})
	envsUnit := &envs.Unit{}
	waitManager := waits.NewWaitManager()
	services := []struct {
		name string
		get  func(scp app.Scope) (interface{}, error)
	}{
		{"tasks.Unit.FromScope", func(scp app.Scope) (interface{}, error) { return tasksUnit.FromScope(scp) }},
		{"envs.Unit.Envs", func(scp app.Scope) (interface{}, error) { return envsUnit.Envs(scp) }},
		{"waits.WaitManager.ForScope", func(scp app.Scope) (interface{}, error) { return waitManager.ForScope(scp) }},
	}
	for r := 0; r < rounds; r++ {
		for _, svc := range services {
			// where the callers' scope sits: a root data scope; a child data scope of an empty
			// parent; a real child SCOPE (scope.NewChild) of a parent scope that has no instance /
			// that already has one / that gets one while the callers run
			var ds app.DataScope = datascope.New(map[interface{}]interface{}{})
			shape := []string{"root", "root", "child-data", "child-data", "child-scope", "child-scope-parent-has", "child-scope-parent-races"}[rng.Intn(7)]
			var scp, parent app.Scope
			switch shape {
			case "root":
				scp = scope.New(scope.Params{DataScope: ds})
			case "child-data":
				scp = scope.New(scope.Params{DataScope: datascope.NewChild(ds, map[interface{}]interface{}{})})
			default:
				parent = scope.New(scope.Params{DataScope: ds})
				scp = scope.NewChild(parent, scope.ChildParams{})
			}
			desc := map[string]interface{}{"op": "get-or-create", "service": svc.name, "goroutines": 16, "scope": shape}
			var parentIns interface{}
			if shape == "child-scope-parent-has" {
				parentIns, _ = svc.get(parent)
			}
			if parent != nil && r%8 == 0 {
				// the overlay through the constructors the application uses (scope.NewChild)
				type probeKey struct{}
				parent.SetValue(probeKey{}, 1)
				up := scp.Value(probeKey{})
				scp.SetValue(probeKey{}, 2)
				if up != 1 || scp.Value(probeKey{}) != 2 || parent.Value(probeKey{}) != 1 {
					o.Fail("overlay", fmt.Sprintf("scope.NewChild: the child scope read %v for a key only its parent had (1); after the child stored 2 the child reads %v and the parent %v",
						up, scp.Value(probeKey{}), parent.Value(probeKey{})), "overlay", desc)
				}
			}
			const G = 16
			got := make([]interface{}, G+1)
			errs := make([]error, G+1)
			panics, hang := c13Race(G+1, func(g int) {
				if g == G { // one more goroutine: the parent scope's own first request, or nothing
					if shape == "child-scope-parent-races" {
						got[g], errs[g] = svc.get(parent)
					}
					return
				}
				got[g], errs[g] = svc.get(scp)
			})
			o.CountEval(fmt.Sprint("svc:", svc.name, r), true)
			o.Stat("svc_" + svc.name)
			o.Stat("svc_scope_" + shape)
			if hang {
				o.Fail("no_hang", svc.name+" from 16 goroutines did not return within 10 s", "hang", desc)
				return
			}
			if panics > 0 {
				o.Fail("no_panic", svc.name+" panicked under concurrent use", "panic", desc)
				continue
			}
			distinct := map[interface{}]bool{}
			for g := 0; g < G; g++ {
				if errs[g] != nil || got[g] == nil {
					o.Fail("get_or_create", svc.name+" returned an error / nil instance", "goc-nil", desc)
					break
				}
				distinct[got[g]] = true
			}
			again, _ := svc.get(scp)
			distinct[again] = true
			// the callers of ONE scope share one instance; this also holds while the parent scope
			// gets its own instance: the child's sections are serialised, the first one either sees
			// the parent's instance (then it stays visible and nobody creates another one) or
			// creates the child's own one (then every later section finds that)
			limit := 1
			if shape == "child-scope-parent-races" {
				if errs[G] != nil || got[G] == nil {
					o.Fail("get_or_create", svc.name+" returned an error / nil instance for the parent scope", "goc-nil", desc)
				}
				if pa, _ := svc.get(parent); pa != got[G] {
					o.Fail("get_or_create", svc.name+" answers another instance for the parent scope on the second request", "goc-many", desc)
				}
			}
			if len(distinct) > limit {
				desc["distinct_instances"] = len(distinct)
				o.Fail("get_or_create", fmt.Sprintf("%s handed out %d distinct instances to 16 concurrent callers on one scope", svc.name, len(distinct)), "goc-many", desc)
			}
			if shape == "child-scope-parent-has" {
				if pa, _ := svc.get(parent); pa != parentIns {
					o.Fail("get_or_create", svc.name+": requests on a child scope replaced the instance of the parent scope", "goc-parent", desc)
				}
			}
		}
		// tasks.Unit: BindScope / Clear are plain writes of the same key from other goroutines
		if r%5 == 0 {
			scp := scope.New(scope.Params{DataScope: datascope.New(map[interface{}]interface{}{})})
			desc := map[string]interface{}{"op": "get-or-create", "service": "tasks.Unit.FromScope + Clear/BindScope", "goroutines": 9}
			bound, _ := tasksUnit.FromScope(scope.New(scope.Params{}))
			const G, N, C = 8, 12, 4
			var mu sync.Mutex
			distinct := map[interface{}]bool{}
			nilSeen := false
			panics, hang := c13Race(G+1, func(g int) {
				if g == G {
					for c := 0; c < C; c++ {
						runtime.Gosched()
						tasksUnit.Clear(scp)
					}
					return
				}
				for n := 0; n < N; n++ {
					m, err := tasksUnit.FromScope(scp)
					mu.Lock()
					if err != nil || m == nil {
						nilSeen = true
					} else {
						distinct[m] = true
					}
					mu.Unlock()
				}
			})
			o.CountEval(fmt.Sprint("svc-clear:", r), true)
			o.Stat("svc_tasks_clear_race")
			switch {
			case hang:
				o.Fail("no_hang", "tasks.Unit.FromScope against Clear did not return within 10 s", "hang", desc)
				return
			case panics > 0:
				o.Fail("no_panic", "tasks.Unit.FromScope against Clear panicked", "panic", desc)
			case nilSeen:
				o.Fail("get_or_create", "tasks.Unit.FromScope returned an error / nil instance while another goroutine cleared the scope", "goc-nil", desc)
			case len(distinct) > C+1:
				desc["distinct_instances"] = len(distinct)
				o.Fail("get_or_create", fmt.Sprintf("tasks.Unit.FromScope created %d managers on one scope that was cleared %d times (at most %d)", len(distinct), C, C+1), "goc-many", desc)
			}
			// a bound manager is the scope's value: every later request answers it
			tasksUnit.BindScope(scp, bound)
			var wrong int32
			c13Race(G, func(g int) {
				if m, _ := tasksUnit.FromScope(scp); m != bound {
					atomic.AddInt32(&wrong, 1)
				}
			})
			if wrong > 0 {
				o.Fail("get_or_create", "tasks.Unit.FromScope did not answer the manager that BindScope had stored in the scope", "goc-bound", desc)
			}
		}
	}
}

func runC13Child(o *Out, rng *RNG, tier string) {
	o.Imports = "From GC Require Import Common.Base Model.Data Corr.C13."
	o.CaseType = "case"
	o.CheckFn = "check"
	o.ShardSize = 120
	o.Rule = "(1) random chains of depth 1..5 (every 25th: 9..402, sparse) over 6 keys (+1 absent key), histories of 5..34 SetValue/Value/Keys/locker ops on random levels, " +
		"single-op and multi-op locked sections (40% through a nested locker; plain ops on other levels in between), a second child of level 1 made mid-history; " +
		"a third of the cases over look-alike keys (\"a\", named-string \"a\", 1, int64 1, \"1\", \"\", nil, array, pointer, 4 KiB, non-UTF-8) and " +
		"zero / typed-nil / uncomparable values besides stored nil — every observation compared with the model, overlay/set-local/Keys oracles after every op; " +
		"(2) forced schedule: a holder keeps a section open while a plain Value / SetValue / Keys, a second LockData and the child's lockers begin - none is over before the Commit, all see the committed state; 8 goroutines x 2000 locked increments on every position of a chain (alone, root, middle, leaf) with plain readers and writers, key listings, " +
		"read-only locked sections and locked sections of the child reading through the overlay (final = initial+16000, no marker seen, no decrease, " +
		"key pairs whole, no foreign write inside a section), plus recorded smaller runs replayed by the model; (3) the three get-or-create services from " +
		"16 goroutines per scope (root / child data scope / real child scope whose parent has, lacks or concurrently gets an instance), FromScope against " +
		"Clear and BindScope. Non-trivial: chain depth >= 2; every concurrent run."
	nseq, nforced, nbig, nsmall, nsvc := 400, 60, 12, 40, 2500
	if tier == "thorough" {
		nseq, nforced, nbig, nsmall, nsvc = 12000, 1200, 120, 1500, 60000
	}
	c13Sequential(o, rng, nseq)
	if c13Forced(o, rng, nforced) && c13Concurrent(o, rng, nbig, nsmall) {
		c13Services(o, rng, nsvc)
	}
}
